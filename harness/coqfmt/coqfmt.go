// Package coqfmt prints Go values as Gallina terms. The printers are kept
// dumb on purpose: constructors, numerals, strings, lists, options, tuples.
package coqfmt

import (
	"fmt"
	"strings"
)

// Str prints a Coq string literal; bytes reach Coq unchanged, a double quote is doubled.
// NUL bytes are not representable and are replaced by 0x01 (generators avoid them).
func Str(s string) string {
	var b strings.Builder
	b.WriteByte('"')
	for i := 0; i < len(s); i++ {
		c := s[i]
		switch c {
		case '"':
			b.WriteString(`""`)
		case 0:
			b.WriteByte(1)
		default:
			b.WriteByte(c)
		}
	}
	b.WriteByte('"')
	return b.String()
}

func Nat(n int) string {
	if n < 0 {
		panic("negative nat")
	}
	return fmt.Sprintf("%d", n)
}

// Z prints an integer in Z scope.
func Z(n int64) string {
	if n < 0 {
		return fmt.Sprintf("(%d)%%Z", n)
	}
	return fmt.Sprintf("%d%%Z", n)
}

func Bool(b bool) string {
	if b {
		return "true"
	}
	return "false"
}

func List(items []string) string {
	return "[" + strings.Join(items, "; ") + "]"
}

func Bools(bs []bool) string {
	items := make([]string, len(bs))
	for i, b := range bs {
		items[i] = Bool(b)
	}
	return List(items)
}

func Nats(ns []int) string {
	items := make([]string, len(ns))
	for i, n := range ns {
		items[i] = Nat(n)
	}
	return List(items)
}

func Strs(ss []string) string {
	items := make([]string, len(ss))
	for i, s := range ss {
		items[i] = Str(s)
	}
	return List(items)
}

func Some(s string) string { return "(Some " + s + ")" }

const None = "None"

func OptStr(s *string) string {
	if s == nil {
		return None
	}
	return Some(Str(*s))
}

func Tuple(items ...string) string { return "(" + strings.Join(items, ", ") + ")" }

// App prints a constructor application.
func App(ctor string, args ...string) string {
	if len(args) == 0 {
		return ctor
	}
	return "(" + ctor + " " + strings.Join(args, " ") + ")"
}

// Record prints {| f1 := v1; ... |}.
func Record(fields ...string) string {
	if len(fields)%2 != 0 {
		panic("Record: odd number of arguments")
	}
	parts := make([]string, 0, len(fields)/2)
	for i := 0; i < len(fields); i += 2 {
		parts = append(parts, fields[i]+" := "+fields[i+1])
	}
	return "{| " + strings.Join(parts, "; ") + " |}"
}
