package main

// A peer that goes through the handshake up to presenting its credentials and vanishes while the server's
// Authenticate callback is still deciding (C14): whatever the verdict is, the connection is released, the
// authenticator is asked once, and no session is announced for rejected credentials.

import (
	"context"
	"encoding/json"
	"errors"
	"fmt"
	"net"
	"os"
	"os/exec"
	"strings"
	"sync/atomic"
	"time"

	lime "github.com/takenet/lime-go"
	"verifharness/coqfmt"
)

type vanishCase struct {
	Vanish    string `json:"vanish"` // the verdict of Authenticate: role unknown err round
	Kind      string `json:"kind"`   // inproc tcp ws
	Est       int    `json:"est_cb"`
	Fin       int    `json:"fin_cb"`
	Ended     bool   `json:"ended"`
	AuthCalls int    `json:"authenticate_calls"`
	Reached   bool   `json:"authenticate_reached"`
}

func (c *vanishCase) coq() string {
	kind := map[string]string{"inproc": "TInproc", "tcp": "(TTcp false)", "ws": "(TWs false)"}[c.Kind]
	verdict := map[string]string{"role": "ARole", "unknown": "AUnknown", "err": "AErr", "round": "(ARound 3)"}[c.Vanish]
	return coqfmt.App("KVanish", kind, verdict, coqfmt.Nat(c.Est), coqfmt.Nat(c.Fin), coqfmt.Bool(c.Ended),
		coqfmt.Nat(c.AuthCalls), coqfmt.Bool(c.Reached))
}

var vanishVerdicts = []string{"unknown", "err", "round", "role"}

func runVanishHere(kind, verdict string) *vanishCase {
	c := &vanishCase{Vanish: verdict, Kind: kind}
	var est, fin, calls int32
	entered := make(chan struct{}, 64)
	release := make(chan struct{})
	cfg := lime.NewServerConfig()
	cfg.Node = serverNode
	cfg.SchemeOpts = []lime.AuthenticationScheme{lime.AuthenticationSchemePlain}
	cfg.EncryptOpts = []lime.SessionEncryption{lime.SessionEncryptionNone}
	cfg.Authenticate = func(ctx context.Context, id lime.Identity, a lime.Authentication) (*lime.AuthenticationResult, error) {
		n := atomic.AddInt32(&calls, 1)
		if n > 50 {
			// asked again and again: park, so that a runaway loop does not eat the machine
			<-ctx.Done()
			return nil, ctx.Err()
		}
		select {
		case entered <- struct{}{}:
		default:
		}
		select {
		case <-release:
		case <-ctx.Done():
		}
		switch verdict {
		case "role":
			return lime.MemberAuthenticationResult(), nil
		case "err":
			return nil, errors.New("scripted authenticate error")
		case "round":
			return &lime.AuthenticationResult{Role: lime.DomainRoleUnknown, RoundTrip: &lime.PlainAuthentication{Password: "rt3"}}, nil
		}
		return lime.UnknownAuthenticationResult(), nil
	}
	cfg.Established = func(string, *lime.ServerChannel) { atomic.AddInt32(&est, 1) }
	cfg.Finished = func(string) { atomic.AddInt32(&fin, 1) }
	var l lime.TransportListener
	var addr net.Addr
	switch kind {
	case "inproc":
		inprocMu.Lock()
		a := nextInprocAddr()
		inprocMu.Unlock()
		l, addr = lime.NewInProcessTransportListener(a), a
	case "tcp":
		a, _ := freeTCPAddr()
		l, addr = lime.NewTCPTransportListener(nil), a
	default:
		a, _ := freeTCPAddr()
		l, addr = lime.NewWebsocketTransportListener(nil), a
	}
	srv := lime.NewServer(cfg, &lime.EnvelopeMux{}, lime.NewBoundListener(l, addr))
	done := make(chan error, 1)
	go func() { done <- srv.ListenAndServe() }()
	markIdle(1)
	defer clearIdle()
	ctx, cancel := context.WithTimeout(context.Background(), 5*time.Second)
	defer cancel()
	var t lime.Transport
	waitUntil(3*time.Second, func() bool {
		var err error
		switch kind {
		case "inproc":
			t, err = lime.DialInProcess(addr.(lime.InProcessAddr), 4)
		case "tcp":
			t, err = lime.DialTcp(ctx, addr, nil)
		default:
			t, err = lime.DialWebsocket(ctx, "ws://"+addr.String(), nil, nil)
		}
		return err == nil
	})
	if t != nil {
		_ = t.Send(ctx, &lime.Session{State: lime.SessionStateNew})
		rctx, rc := context.WithTimeout(ctx, 2*time.Second)
		e, err := t.Receive(rctx)
		rc()
		if ses, ok := e.(*lime.Session); err == nil && ok && ses.State == lime.SessionStateAuthenticating {
			auth := &lime.Session{Envelope: lime.Envelope{ID: ses.ID, From: lime.ParseNode(clientNode(1))}, State: lime.SessionStateAuthenticating}
			auth.SetAuthentication(&lime.PlainAuthentication{Password: "c1"})
			_ = t.Send(ctx, auth)
			select {
			case <-entered:
				c.Reached = true
			case <-time.After(2 * time.Second * slack):
			}
		}
		// gone, while Authenticate is still deciding
		_ = t.Close()
		time.Sleep(10 * time.Millisecond)
	}
	close(release)
	time.Sleep(5 * time.Millisecond)
	c.Ended = waitUntil(7*time.Second*slack, func() bool { return servingGoroutines() == 0 })
	time.Sleep(2 * time.Millisecond)
	c.Est, c.Fin, c.AuthCalls = int(atomic.LoadInt32(&est)), int(atomic.LoadInt32(&fin)), int(atomic.LoadInt32(&calls))
	for i := 0; i < 2000; i++ {
		if err := srv.Close(); !notServingYet(err) {
			break
		}
		time.Sleep(time.Millisecond)
	}
	select {
	case <-done:
	case <-time.After(8 * time.Second):
	}
	return c
}

// the scenario runs in a process of its own: a serving goroutine that never ends (and spins) must not take the
// harness with it

func vanishChild(args []string) {
	if len(args) < 2 {
		os.Exit(2)
	}
	c := runVanishHere(args[0], args[1])
	b, _ := json.Marshal(c)
	fmt.Printf("VANISH %s\n", b)
	os.Exit(0)
}

func init() { childCmds["vanish"] = vanishChild }

func runVanish(kind, verdict string) *vanishCase {
	cmd := exec.Command(os.Args[0], "child", "vanish", kind, verdict)
	cmd.Env = os.Environ()
	var out strings.Builder
	cmd.Stdout = &out
	done := make(chan error, 1)
	if err := cmd.Start(); err != nil {
		return runVanishHere(kind, verdict)
	}
	go func() { done <- cmd.Wait() }()
	limit := 45*time.Second + 12*time.Second*slack
	select {
	case <-done:
	case <-time.After(limit):
		_ = cmd.Process.Kill()
		<-done
		// the server never let go of the connection
		return &vanishCase{Vanish: verdict, Kind: kind, Reached: true, Ended: false, AuthCalls: 99}
	}
	for _, line := range strings.Split(out.String(), "\n") {
		if strings.HasPrefix(line, "VANISH ") {
			c := &vanishCase{}
			if json.Unmarshal([]byte(strings.TrimPrefix(line, "VANISH ")), c) == nil {
				return c
			}
		}
	}
	return &vanishCase{Vanish: verdict, Kind: kind, Reached: false}
}
