package main

import (
	"encoding/json"
	"fmt"
	"math/rand"
	"os"
	"path/filepath"
	"strings"
)

// Env carries the run parameters and collects the cases.
type Env struct {
	Prop   string
	Tier   string
	Seed   int64
	Out    string
	Replay string
	Rng    *rand.Rand

	Header    string // Coq imports for the cases files
	ShardSize int
	Prelude   []string // extra definitions (interned strings etc.) emitted before the cases, per shard

	terms []string
	descs []json.RawMessage

	Rule        string
	Dist        map[string]int
	Samples     []interface{}
	nontrivial  map[string]bool
	Extra       map[string]interface{}
	Assumptions []string
}

func NewEnv(prop, tier string, seed int64, out, replay string) (*Env, error) {
	if err := os.MkdirAll(out, 0o755); err != nil {
		return nil, err
	}
	old, _ := filepath.Glob(filepath.Join(out, "cases_*"))
	for _, f := range old {
		_ = os.Remove(f)
	}
	return &Env{
		Prop: prop, Tier: tier, Seed: seed, Out: out, Replay: replay,
		Rng:        rand.New(rand.NewSource(seed)),
		ShardSize:  400,
		Dist:       map[string]int{},
		nontrivial: map[string]bool{},
		Extra:      map[string]interface{}{},
	}, nil
}

func (e *Env) Thorough() bool { return e.Tier == "thorough" }

// Pick returns q in the quick tier and t in the thorough tier.
func (e *Env) Pick(q, t int) int {
	if e.Thorough() {
		return t
	}
	return q
}

// Add records one case: its Gallina term and a JSON description used for replay and reports.
func (e *Env) Add(term string, desc interface{}) {
	b, err := json.Marshal(desc)
	if err != nil {
		b = []byte(fmt.Sprintf("%q", fmt.Sprint(desc)))
	}
	e.terms = append(e.terms, term)
	e.descs = append(e.descs, b)
	if len(e.Samples) < 3 {
		e.Samples = append(e.Samples, json.RawMessage(b))
	}
}

// Count adds to the input-distribution histogram.
func (e *Env) Count(key string) { e.Dist[key]++ }

// NonTrivial records a distinct non-trivial case by its canonical key.
func (e *Env) NonTrivial(key string) { e.nontrivial[key] = true }

func (e *Env) NumCases() int { return len(e.terms) }

// ReplayDesc loads the case description of a replay file, if one was given.
func (e *Env) ReplayDesc(v interface{}) (bool, error) {
	if e.Replay == "" {
		return false, nil
	}
	b, err := os.ReadFile(e.Replay)
	if err != nil {
		return false, err
	}
	var wrapper struct {
		Case json.RawMessage `json:"case"`
	}
	if err := json.Unmarshal(b, &wrapper); err != nil {
		return false, err
	}
	if len(wrapper.Case) == 0 {
		return false, fmt.Errorf("replay file has no case")
	}
	return true, json.Unmarshal(wrapper.Case, v)
}

func (e *Env) Flush() error {
	// shards
	nshards := 0
	for start := 0; start < len(e.terms); start += e.ShardSize {
		end := start + e.ShardSize
		if end > len(e.terms) {
			end = len(e.terms)
		}
		var b strings.Builder
		b.WriteString(e.Header)
		b.WriteString("\n")
		for _, p := range e.Prelude {
			b.WriteString(p)
			b.WriteString("\n")
		}
		b.WriteString("Definition cases : list case := [\n")
		for i := start; i < end; i++ {
			b.WriteString("  ")
			b.WriteString(e.terms[i])
			if i+1 < end {
				b.WriteString(";")
			}
			b.WriteString("\n")
		}
		b.WriteString("].\n")
		b.WriteString("Definition M := Eval vm_compute in mismatches cases.\n")
		b.WriteString("Definition V := Eval vm_compute in violations cases.\n")
		b.WriteString("Print M.\nPrint V.\n")
		name := filepath.Join(e.Out, fmt.Sprintf("cases_%03d.v", nshards))
		if err := os.WriteFile(name, []byte(b.String()), 0o644); err != nil {
			return err
		}
		nshards++
	}
	// case descriptions
	f, err := os.Create(filepath.Join(e.Out, "cases.jsonl"))
	if err != nil {
		return err
	}
	for _, d := range e.descs {
		f.Write(d)
		f.Write([]byte("\n"))
	}
	f.Close()
	meta := map[string]interface{}{
		"property_id":         e.Prop,
		"tier":                e.Tier,
		"seed":                e.Seed,
		"evaluations":         len(e.terms),
		"distinct_nontrivial": len(e.nontrivial),
		"rule":                e.Rule,
		"samples":             e.Samples,
		"distribution":        e.Dist,
		"shards":              nshards,
		"shard_size":          e.ShardSize,
		"extra":               e.Extra,
		"assumptions":         e.Assumptions,
	}
	b, _ := json.MarshalIndent(meta, "", " ")
	return os.WriteFile(filepath.Join(e.Out, "meta.json"), b, 0o644)
}
