package main

import (
	"context"
	"errors"
	"fmt"
	"strconv"
	"strings"
	"sync"
	"time"

	lime "github.com/takenet/lime-go"
	"verifharness/coqfmt"
)

func init() { register("C20", runC20) }

var kindNames = []string{"KMsg", "KNot", "KReq", "KResp"}

type c20Handler struct {
	HasPred bool   `json:"has_pred"`
	Pred    []bool `json:"pred"` // truth table indexed by envelope number
	Out     []bool `json:"out"`  // handler returns nil? indexed by envelope number
	// Ping (request commands, RealServer mode): this entry is the library's own ping auto-reply, registered by
	// AutoReplyPings() at this position; its predicate table says which envelope numbers are pings (those request
	// commands are sent as "get /ping"); that it handled one shows in the reply the client receives
	Ping bool `json:"ping,omitempty"`
}

type c20Case struct {
	Mode      string          `json:"mode"` // MuxServer | RealServer | RealClient
	Transport string          `json:"transport"`
	Style     string          `json:"style"` // paced | burst
	Tables    [4][]c20Handler `json:"tables"`
	Seq       [][2]int        `json:"seq"` // (kind, envelope number)
	ObsLog    [][3]int        `json:"obs_log"`
	ObsStop   bool            `json:"obs_stopped"`
}

func (c *c20Case) term() string {
	tbl := func(hs []c20Handler) string {
		items := []string{}
		for _, h := range hs {
			p := coqfmt.None
			if h.HasPred {
				p = coqfmt.Some(coqfmt.Bools(h.Pred))
			}
			items = append(items, coqfmt.Tuple(p, coqfmt.Bools(h.Out)))
		}
		return coqfmt.List(items)
	}
	seq := []string{}
	for _, e := range c.Seq {
		seq = append(seq, coqfmt.Tuple(kindNames[e[0]], coqfmt.Nat(e[1])))
	}
	lg := []string{}
	for _, l := range c.ObsLog {
		lg = append(lg, coqfmt.Tuple(kindNames[l[0]], coqfmt.Nat(l[1]), coqfmt.Nat(l[2])))
	}
	return coqfmt.Record(
		"c_mode", c.Mode,
		"c_msg", tbl(c.Tables[0]), "c_not", tbl(c.Tables[1]), "c_req", tbl(c.Tables[2]), "c_resp", tbl(c.Tables[3]),
		"c_seq", coqfmt.List(seq),
		"o_log", coqfmt.List(lg),
		"o_stopped", coqfmt.Bool(c.ObsStop))
}

// recorder collects predicate and handler calls.
type c20Rec struct {
	mu       sync.Mutex
	log      [][3]int
	predCall map[int]int
	handled  map[int]int
}

func envNum(id string) int {
	if !strings.HasPrefix(id, "e") {
		return 9999
	}
	n, err := strconv.Atoi(id[1:])
	if err != nil {
		return 9999
	}
	return n
}

func at(t []bool, i int, def bool) bool {
	if i < 0 || i >= len(t) {
		return def
	}
	return t[i]
}

var errHandler = errors.New("handler error (scripted)")

// buildMux registers the case's handlers, in order, on a fresh mux.
func (c *c20Case) buildMux(rec *c20Rec) *lime.EnvelopeMux {
	mux := &lime.EnvelopeMux{}
	c.registerOn(rec,
		func(p lime.MessagePredicate, f lime.MessageHandlerFunc) { mux.MessageHandlerFunc(p, f) },
		func(p lime.NotificationPredicate, f lime.NotificationHandlerFunc) { mux.NotificationHandlerFunc(p, f) },
		func(p lime.RequestCommandPredicate, f lime.RequestCommandHandlerFunc) {
			mux.RequestCommandHandlerFunc(p, f)
		},
		func(p lime.ResponseCommandPredicate, f lime.ResponseCommandHandlerFunc) {
			mux.ResponseCommandHandlerFunc(p, f)
		}, nil)
	return mux
}

func (c *c20Case) registerOn(rec *c20Rec,
	regMsg func(lime.MessagePredicate, lime.MessageHandlerFunc),
	regNot func(lime.NotificationPredicate, lime.NotificationHandlerFunc),
	regReq func(lime.RequestCommandPredicate, lime.RequestCommandHandlerFunc),
	regResp func(lime.ResponseCommandPredicate, lime.ResponseCommandHandlerFunc), regPing func()) {
	pred := func(h c20Handler, n int) bool {
		rec.mu.Lock()
		rec.predCall[n]++
		rec.mu.Unlock()
		return at(h.Pred, n, false)
	}
	handle := func(k, i int, h c20Handler, n int, intact bool) error {
		rec.mu.Lock()
		if !intact {
			n = 9998
		}
		rec.log = append(rec.log, [3]int{k, i, n})
		rec.handled[n]++
		rec.mu.Unlock()
		if at(h.Out, n, true) {
			return nil
		}
		// any error stops the loop, whatever its kind: a plain one, or one wrapping the error of a
		// context of the handler's own (a downstream call that timed out or was cancelled)
		switch (n + i + k) % 3 {
		case 1:
			return fmt.Errorf("handler: downstream call: %w", context.DeadlineExceeded)
		case 2:
			return fmt.Errorf("handler: downstream call: %w", context.Canceled)
		}
		return errHandler
	}
	for i, h := range c.Tables[0] {
		i, h := i, h
		var p lime.MessagePredicate
		if h.HasPred {
			p = func(m *lime.Message) bool { return pred(h, envNum(m.ID)) }
		}
		regMsg(p, func(ctx context.Context, m *lime.Message, s lime.Sender) error {
			n := envNum(m.ID)
			return handle(0, i, h, n, docText(m.Content) == fmt.Sprintf("payload-%d", n))
		})
	}
	for i, h := range c.Tables[1] {
		i, h := i, h
		var p lime.NotificationPredicate
		if h.HasPred {
			p = func(m *lime.Notification) bool { return pred(h, envNum(m.ID)) }
		}
		regNot(p, func(ctx context.Context, m *lime.Notification) error {
			return handle(1, i, h, envNum(m.ID), m.Event == lime.NotificationEventReceived)
		})
	}
	for i, h := range c.Tables[2] {
		i, h := i, h
		if h.Ping && regPing != nil {
			regPing()
			continue
		}
		var p lime.RequestCommandPredicate
		if h.HasPred {
			p = func(m *lime.RequestCommand) bool { return pred(h, envNum(m.ID)) }
		}
		regReq(p, func(ctx context.Context, m *lime.RequestCommand, s lime.Sender) error {
			n := envNum(m.ID)
			want := fmt.Sprintf("/r%d", n)
			if c.isPing(n) {
				want = "/ping"
			}
			return handle(2, i, h, n, m.Method == lime.CommandMethodGet && m.URI != nil && m.URI.String() == want)
		})
	}
	for i, h := range c.Tables[3] {
		i, h := i, h
		var p lime.ResponseCommandPredicate
		if h.HasPred {
			p = func(m *lime.ResponseCommand) bool { return pred(h, envNum(m.ID)) }
		}
		regResp(p, func(ctx context.Context, m *lime.ResponseCommand, s lime.Sender) error {
			return handle(3, i, h, envNum(m.ID), m.Method == lime.CommandMethodSet && m.Status == lime.CommandStatusSuccess)
		})
	}
}

func docText(d lime.Document) string {
	switch t := d.(type) {
	case lime.TextDocument:
		return string(t)
	case *lime.TextDocument:
		if t == nil {
			return ""
		}
		return string(*t)
	}
	return "<non-text>"
}

// isPing: the request command with this number is a ping (the case has an auto-reply entry that accepts it)
func (c *c20Case) isPing(n int) bool {
	for _, h := range c.Tables[2] {
		if h.Ping && at(h.Pred, n, false) {
			return true
		}
	}
	return false
}

func (c *c20Case) envelope(kind, n int) interface{} {
	e := c20Envelope(kind, n)
	if kind == 2 && c.isPing(n) {
		e.(*lime.RequestCommand).SetURIString("/ping")
	}
	return e
}

func c20Envelope(kind, n int) interface{} {
	id := fmt.Sprintf("e%d", n)
	switch kind {
	case 0:
		m := &lime.Message{}
		m.ID = id
		m.SetContent(lime.TextDocument(fmt.Sprintf("payload-%d", n)))
		return m
	case 1:
		m := &lime.Notification{Event: lime.NotificationEventReceived}
		m.ID = id
		return m
	case 2:
		m := &lime.RequestCommand{}
		m.ID = id
		m.Method = lime.CommandMethodGet
		m.SetURIString(fmt.Sprintf("/r%d", n))
		return m
	default:
		m := &lime.ResponseCommand{Status: lime.CommandStatusSuccess}
		m.ID = id
		m.Method = lime.CommandMethodSet
		return m
	}
}

type anySender interface {
	SendMessage(ctx context.Context, msg *lime.Message) error
	SendNotification(ctx context.Context, not *lime.Notification) error
	SendRequestCommand(ctx context.Context, cmd *lime.RequestCommand) error
	SendResponseCommand(ctx context.Context, cmd *lime.ResponseCommand) error
}

func sendAny(ctx context.Context, s anySender, e interface{}) error {
	switch m := e.(type) {
	case *lime.Message:
		return s.SendMessage(ctx, m)
	case *lime.Notification:
		return s.SendNotification(ctx, m)
	case *lime.RequestCommand:
		return s.SendRequestCommand(ctx, m)
	case *lime.ResponseCommand:
		return s.SendResponseCommand(ctx, m)
	}
	return errors.New("unknown envelope")
}

// done reports whether the processing of envelope (kind,n) is observably complete.
func (c *c20Case) processed(rec *c20Rec, kind, n int) bool {
	rec.mu.Lock()
	defer rec.mu.Unlock()
	if rec.handled[n] > 0 {
		return true
	}
	tbl := c.Tables[kind]
	if len(tbl) == 0 {
		return false
	}
	for _, h := range tbl {
		if !h.HasPred {
			return false // would have been handled
		}
	}
	return rec.predCall[n] >= len(tbl)
}

// drive sends the sequence from sender and waits for the mux side to process it.
// stopped reports (without blocking) whether the dispatch loop has ended.
func (c *c20Case) drive(rec *c20Rec, sender anySender, stopped func() bool) {
	ctx, cancel := context.WithTimeout(context.Background(), 5*time.Second)
	defer cancel()
	for idx, e := range c.Seq {
		if err := sendAny(ctx, sender, c.envelope(e[0], e[1])); err != nil {
			break
		}
		if c.Style == "burst" && idx+1 < len(c.Seq) {
			continue
		}
		k, n := e[0], e[1]
		if len(c.Tables[k]) == 0 {
			time.Sleep(8 * time.Millisecond)
			continue
		}
		waitUntil(300*time.Millisecond, func() bool { return c.processed(rec, k, n) || stopped() })
	}
	// let a wrongly repeated invocation surface
	time.Sleep(2 * time.Millisecond)
}

func newC20Rec() *c20Rec {
	return &c20Rec{predCall: map[int]int{}, handled: map[int]int{}}
}

// runMuxServer runs the case against EnvelopeMux.ListenServer on an established pair (reused across cases).
func (c *c20Case) runMuxServer(p *Pair) (dirty bool) {
	rec := newC20Rec()
	mux := c.buildMux(rec)
	ctx, cancel := context.WithCancel(context.Background())
	res := make(chan error, 1)
	var ended int32
	var mu sync.Mutex
	var lerr error
	go func() {
		err := mux.ListenServer(ctx, p.Server)
		mu.Lock()
		lerr = err
		ended = 1
		mu.Unlock()
		res <- err
	}()
	stopped := func() bool { mu.Lock(); defer mu.Unlock(); return ended == 1 }
	c.drive(rec, p.Client, stopped)
	wasStopped := stopped()
	cancel()
	<-res
	rec.mu.Lock()
	c.ObsLog = append([][3]int(nil), rec.log...)
	rec.mu.Unlock()
	mu.Lock()
	c.ObsStop = wasStopped && lerr != nil
	mu.Unlock()
	// envelopes sent after the loop ended stay buffered in the channel: do not reuse the pair
	return wasStopped
}

// runRealServer runs the case against a real Server (builder API) over the in-process transport.
func (c *c20Case) runRealServer() error {
	rec := newC20Rec()
	inprocMu.Lock()
	addr := nextInprocAddr()
	b := lime.NewServerBuilder().Name("postmaster").Domain("verif.test").Instance("srv").
		EnableGuestAuthentication().ListenInProcess(addr).ChannelBufferSize(8)
	c.registerOn(rec,
		// a handler without predicate goes through the builder's catch-all method
		func(p lime.MessagePredicate, f lime.MessageHandlerFunc) {
			if p == nil {
				b.MessagesHandlerFunc(f)
			} else {
				b.MessageHandlerFunc(p, f)
			}
		},
		func(p lime.NotificationPredicate, f lime.NotificationHandlerFunc) {
			if p == nil {
				b.NotificationsHandlerFunc(f)
			} else {
				b.NotificationHandlerFunc(p, f)
			}
		},
		func(p lime.RequestCommandPredicate, f lime.RequestCommandHandlerFunc) {
			if p == nil {
				b.RequestCommandsHandlerFunc(f)
			} else {
				b.RequestCommandHandlerFunc(p, f)
			}
		},
		func(p lime.ResponseCommandPredicate, f lime.ResponseCommandHandlerFunc) {
			if p == nil {
				b.ResponseCommandsHandlerFunc(f)
			} else {
				b.ResponseCommandHandlerFunc(p, f)
			}
		}, func() { b.AutoReplyPings() })
	srv := b.Build()
	serveDone := make(chan error, 1)
	go func() { serveDone <- srv.ListenAndServe() }()
	// the listener registers itself in Listen, called synchronously at the start of ListenAndServe
	var ct lime.Transport
	var err error
	inprocMu.Unlock()
	ok := waitUntil(2*time.Second, func() bool {
		inprocMu.Lock()
		defer inprocMu.Unlock()
		ct, err = lime.DialInProcess(addr, 8)
		return err == nil
	})
	if !ok {
		return fmt.Errorf("dial in-process: %v", err)
	}
	cc := lime.NewClientChannel(ct, 8)
	ctx, cancel := context.WithTimeout(context.Background(), 5*time.Second)
	defer cancel()
	ses, err := cc.EstablishSession(ctx, lime.NoneCompressionSelector, lime.NoneEncryptionSelector,
		lime.Identity{Name: "0e8e0f2c-6b9c-4d0a-9a4e-2f8f4c1b7a11", Domain: "verif.test"}, lime.GuestAuthenticator, "i1")
	if err != nil || ses.State != lime.SessionStateEstablished {
		return fmt.Errorf("real server: establish: %v", err)
	}
	finished := func() bool {
		select {
		case <-cc.RcvDone():
			return true
		default:
			return false
		}
	}
	pingIdx := -1
	for i, h := range c.Tables[2] {
		if h.Ping {
			pingIdx = i
		}
	}
	if pingIdx >= 0 {
		go func() {
			for r := range cc.RespCmdChan() {
				// the auto-reply's answer is the trace the library's own handler leaves
				if _, ok := r.Resource.(*lime.Ping); ok && r.Status == lime.CommandStatusSuccess {
					n := envNum(r.ID)
					rec.mu.Lock()
					rec.log = append(rec.log, [3]int{2, pingIdx, n})
					rec.handled[n]++
					rec.mu.Unlock()
				}
			}
		}()
	}
	c.drive(rec, cc, finished)
	// a handler error makes the server finish the session: the client's receiver sees the
	// finished session envelope, stores the state and ends
	// (whether the client also *reads* the finished envelope is C13's business; here: the session is ended by the server)
	sawFinished := waitUntil(60*time.Millisecond, finished)
	rec.mu.Lock()
	c.ObsLog = append([][3]int(nil), rec.log...)
	rec.mu.Unlock()
	c.ObsStop = sawFinished
	_ = cc.Close()
	inprocMu.Lock()
	_ = srv.Close()
	inprocMu.Unlock()
	select {
	case <-serveDone:
	case <-time.After(3 * time.Second):
		return errors.New("real server: ListenAndServe did not return after Close")
	}
	return nil
}

// runRealClient runs the case against a real Client (builder API); the harness plays the server.
func (c *c20Case) runRealClient() error {
	rec := newC20Rec()
	inprocMu.Lock()
	addr := nextInprocAddr()
	l := lime.NewInProcessTransportListener(addr)
	if err := l.Listen(context.Background(), addr); err != nil {
		inprocMu.Unlock()
		return err
	}
	inprocMu.Unlock()
	defer func() { inprocMu.Lock(); _ = l.Close(); inprocMu.Unlock() }()
	b := lime.NewClientBuilder().UseInProcess(addr, 8).ChannelBufferSize(8).Name("cli").Domain("verif.test").Instance("i1")
	c.registerOn(rec,
		// a handler without predicate goes through the builder's catch-all method
		func(p lime.MessagePredicate, f lime.MessageHandlerFunc) {
			if p == nil {
				b.MessagesHandlerFunc(f)
			} else {
				b.MessageHandlerFunc(p, f)
			}
		},
		func(p lime.NotificationPredicate, f lime.NotificationHandlerFunc) {
			if p == nil {
				b.NotificationsHandlerFunc(f)
			} else {
				b.NotificationHandlerFunc(p, f)
			}
		},
		func(p lime.RequestCommandPredicate, f lime.RequestCommandHandlerFunc) {
			if p == nil {
				b.RequestCommandsHandlerFunc(f)
			} else {
				b.RequestCommandHandlerFunc(p, f)
			}
		},
		func(p lime.ResponseCommandPredicate, f lime.ResponseCommandHandlerFunc) {
			if p == nil {
				b.ResponseCommandsHandlerFunc(f)
			} else {
				b.ResponseCommandHandlerFunc(p, f)
			}
		}, nil)
	ctx, cancel := context.WithTimeout(context.Background(), 5*time.Second)
	defer cancel()
	type acc struct {
		sc  *lime.ServerChannel
		err error
	}
	accc := make(chan acc, 1)
	go func() {
		st, err := l.Accept(ctx)
		if err != nil {
			accc <- acc{nil, err}
			return
		}
		sc := lime.NewServerChannel(st, 8, serverNode, nextSID())
		err = sc.EstablishSession(ctx, []lime.SessionCompression{lime.SessionCompressionNone},
			[]lime.SessionEncryption{lime.SessionEncryptionNone},
			[]lime.AuthenticationScheme{lime.AuthenticationSchemeGuest}, allowAll,
			registerAs(lime.Node{Identity: lime.Identity{Name: "cli", Domain: "verif.test"}, Instance: "i1"}))
		accc <- acc{sc, err}
	}()
	client := b.Build() // starts the listener goroutine, which establishes the session
	defer client.Close()
	a := <-accc
	if a.err != nil || a.sc == nil || !a.sc.Established() {
		return fmt.Errorf("real client: server side establish: %v", a.err)
	}
	if err := client.Establish(ctx); err != nil {
		return err
	}
	c.drive(rec, a.sc, func() bool { return false })
	rec.mu.Lock()
	c.ObsLog = append([][3]int(nil), rec.log...)
	rec.mu.Unlock()
	c.ObsStop = false
	fctx, fcancel := context.WithTimeout(context.Background(), time.Second)
	_ = a.sc.FinishSession(fctx)
	fcancel()
	return nil
}

func (c *c20Case) key() string {
	var b strings.Builder
	b.WriteString(c.Mode)
	for k := 0; k < 4; k++ {
		b.WriteString("|")
		for _, h := range c.Tables[k] {
			if h.HasPred {
				b.WriteString(fmt.Sprint(h.Pred))
			} else {
				b.WriteString("nil")
			}
			b.WriteString(fmt.Sprint(h.Out))
			b.WriteString(",")
		}
	}
	b.WriteString(fmt.Sprint(c.Seq))
	return b.String()
}

func runC20(env *Env) error {
	env.Header = "From Coq Require Import List.\nImport ListNotations.\nFrom Lime Require Import Mux.Dispatch Corr.C20."
	env.Rule = "systematic: every table of <=3 handlers per kind with predicate in {nil, accepts, rejects} and outcome in {ok, error} on single envelopes (exhaustive), plus PRNG tables/sequences over 4 kinds, paced and burst; a case is non-trivial when its kind's table has >= 2 handlers or its sequence has >= 2 envelopes; distinct by (mode, tables, sequence)"
	var cases []*c20Case

	var rc c20Case
	if ok, err := env.ReplayDesc(&rc); err != nil {
		return err
	} else if ok {
		rc.ObsLog, rc.ObsStop = nil, false
		cases = append(cases, &rc)
	} else {
		// systematic single-envelope sweep, per kind, tables up to 3 handlers (2 in quick for kinds other than messages)
		type hopt struct {
			hasPred, pred, out bool
		}
		opts := []hopt{}
		for _, hp := range []int{0, 1, 2} { // nil, accepting, rejecting
			for _, out := range []bool{true, false} {
				opts = append(opts, hopt{hp != 0, hp == 1, out})
			}
		}
		for kind := 0; kind < 4; kind++ {
			maxLen := 3
			if !env.Thorough() && kind != 0 {
				maxLen = 2
			}
			var rec func(prefix []c20Handler)
			rec = func(prefix []c20Handler) {
				c := &c20Case{Mode: "MuxServer", Transport: "inproc", Style: "paced"}
				c.Tables[kind] = append([]c20Handler(nil), prefix...)
				c.Seq = [][2]int{{kind, 0}}
				if len(prefix) > 0 { // empty tables are covered once below
					cases = append(cases, c)
				}
				if len(prefix) == maxLen {
					return
				}
				for _, o := range opts {
					h := c20Handler{HasPred: o.hasPred, Out: []bool{o.out}}
					if o.hasPred {
						h.Pred = []bool{o.pred}
					}
					rec(append(append([]c20Handler(nil), prefix...), h))
				}
			}
			rec(nil)
			cases = append(cases, &c20Case{Mode: "MuxServer", Transport: "inproc", Style: "paced", Seq: [][2]int{{kind, 0}}})
		}
		// PRNG part
		rng := env.Rng
		randTable := func(nenv int) []c20Handler {
			n := rng.Intn(4)
			t := make([]c20Handler, n)
			for i := range t {
				h := c20Handler{HasPred: rng.Intn(4) != 0}
				for e := 0; e < nenv; e++ {
					if h.HasPred {
						h.Pred = append(h.Pred, rng.Intn(3) == 0)
					}
					h.Out = append(h.Out, rng.Intn(5) != 0)
				}
				t[i] = h
			}
			return t
		}
		nrand := env.Pick(220, 1500)
		for i := 0; i < nrand; i++ {
			nenv := 1 + rng.Intn(6)
			c := &c20Case{Transport: "inproc"}
			switch r := rng.Intn(10); {
			case r < 5:
				c.Mode = "MuxServer"
				if rng.Intn(3) == 0 {
					c.Transport = "mem"
				}
			case r < 8:
				c.Mode = "RealServer"
			default:
				c.Mode = "RealClient"
			}
			for k := 0; k < 4; k++ {
				c.Tables[k] = randTable(nenv)
			}
			if rng.Intn(3) == 0 {
				c.Style = "burst"
				k := rng.Intn(4)
				for e := 0; e < nenv; e++ {
					c.Seq = append(c.Seq, [2]int{k, e})
				}
			} else {
				c.Style = "paced"
				for e := 0; e < nenv; e++ {
					c.Seq = append(c.Seq, [2]int{rng.Intn(4), e})
				}
			}
			cases = append(cases, c)
		}
	}

	if env.Replay == "" {
		// the library's ping auto-reply among the request-command handlers of a built Server, at every position
		// relative to a catch-all and to handlers with predicates; request commands 0, 2 and 4 are pings
		isPing := []bool{true, false, true, false, true}
		mk := func(hasPred bool, pred []bool) c20Handler {
			return c20Handler{HasPred: hasPred, Pred: pred, Out: []bool{true, true, true, true, true}}
		}
		ping := c20Handler{HasPred: true, Pred: isPing, Out: []bool{true, true, true, true, true}, Ping: true}
		tables := [][]c20Handler{
			{ping, mk(false, nil)},
			{mk(false, nil), ping},
			{ping},
			{mk(true, []bool{false, true, true, false, false}), ping, mk(false, nil)},
			{ping, mk(true, []bool{true, true, false, false, false}), mk(false, nil)},
			{mk(true, []bool{true, false, false, false, false}), mk(false, nil), ping},
		}
		for _, t := range tables {
			c := &c20Case{Mode: "RealServer", Transport: "inproc", Style: "paced"}
			c.Tables[2] = t
			for e := 0; e < 5; e++ {
				c.Seq = append(c.Seq, [2]int{2, e})
			}
			cases = append(cases, c)
		}
	}

	pairs := map[string]*Pair{}
	defer func() {
		for _, p := range pairs {
			p.Close()
		}
	}()
	for _, c := range cases {
		var err error
		switch c.Mode {
		case "MuxServer":
			p := pairs[c.Transport]
			if p == nil || !p.Server.Established() || !p.Client.Established() {
				if p != nil {
					p.Close()
				}
				p, err = EstablishedPair(c.Transport, 8)
				if err != nil {
					return err
				}
				pairs[c.Transport] = p
			}
			if c.runMuxServer(p) {
				p.Close()
				delete(pairs, c.Transport)
			}
		case "RealServer":
			err = c.runRealServer()
		case "RealClient":
			err = c.runRealClient()
		default:
			err = fmt.Errorf("unknown mode %q", c.Mode)
		}
		if err != nil {
			return err
		}
		env.Add(c.term(), c)
		env.Count("mode=" + c.Mode)
		env.Count("style=" + c.Style)
		env.Count(fmt.Sprintf("seqlen=%d", len(c.Seq)))
		env.Count(fmt.Sprintf("invocations=%d", len(c.ObsLog)))
		if c.ObsStop {
			env.Count("stopped_by_handler_error")
		}
		maxT := 0
		for k := 0; k < 4; k++ {
			if len(c.Tables[k]) > maxT {
				maxT = len(c.Tables[k])
			}
		}
		if maxT >= 2 || len(c.Seq) >= 2 {
			env.NonTrivial(c.key())
		}
	}
	return nil
}
