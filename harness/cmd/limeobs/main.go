// limeobs runs the real lime-go implementation on generated inputs and writes
// the inputs together with the projected observations as Gallina terms
// (cases_*.v) for the Coq-side correspondence and property checks.
package main

import (
	"flag"
	"fmt"
	"io"
	"log"
	"os"
	"sort"
)

type propFunc func(env *Env) error

var props = map[string]propFunc{}

func register(id string, f propFunc) { props[id] = f }

func main() {
	if len(os.Args) >= 2 && os.Args[1] == "child" {
		childMain(os.Args[2:])
		return
	}
	prop := flag.String("prop", "", "property id (C01..C20)")
	tier := flag.String("tier", "quick", "quick|thorough")
	seed := flag.Int64("seed", 1, "PRNG seed")
	out := flag.String("out", "", "output directory")
	replay := flag.String("replay", "", "replay file (json) to re-run")
	verbose := flag.Bool("v", false, "keep library log output")
	flag.Parse()
	if !*verbose {
		log.SetOutput(io.Discard)
	}
	f, ok := props[*prop]
	if !ok {
		ids := []string{}
		for k := range props {
			ids = append(ids, k)
		}
		sort.Strings(ids)
		fmt.Fprintf(os.Stderr, "unknown property %q; have %v\n", *prop, ids)
		os.Exit(2)
	}
	if *out == "" {
		fmt.Fprintln(os.Stderr, "-out is required")
		os.Exit(2)
	}
	env, err := NewEnv(*prop, *tier, *seed, *out, *replay)
	if err != nil {
		fmt.Fprintln(os.Stderr, err)
		os.Exit(2)
	}
	if err := f(env); err != nil {
		fmt.Fprintf(os.Stderr, "harness error: %v\n", err)
		os.Exit(3)
	}
	if err := env.Flush(); err != nil {
		fmt.Fprintf(os.Stderr, "harness error: %v\n", err)
		os.Exit(3)
	}
}

// childMain runs crash-prone scenarios in a child process; sub-commands
// register themselves in childCmds.
var childCmds = map[string]func(args []string){}

func childMain(args []string) {
	if os.Getenv("VERIF_DEBUG") == "" {
		log.SetOutput(io.Discard)
	}
	if len(args) == 0 {
		os.Exit(2)
	}
	f, ok := childCmds[args[0]]
	if !ok {
		fmt.Fprintf(os.Stderr, "unknown child command %q\n", args[0])
		os.Exit(2)
	}
	f(args[1:])
}
