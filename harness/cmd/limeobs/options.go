package main

// The option calls of every transport (SupportedEncryption/Compression, Encryption/Compression,
// SetEncryption/SetCompression) against Hs/Types.v: supported_enc, supported_comp, initial_enc, set_enc, set_comp.

import (
	"context"
	"fmt"
	"sync"
	"time"

	lime "github.com/takenet/lime-go"
	"verifharness/coqfmt"
)

type optCall struct {
	Enc       bool   `json:"enc"` // SetEncryption (else SetCompression)
	Arg       string `json:"arg"`
	OK        bool   `json:"ok"`
	EncAfter  string `json:"enc_after"`
	CompAfter string `json:"comp_after"`
}

type optionsCase struct {
	Options  bool      `json:"options_case"`
	Kind     string    `json:"kind"` // inproc mem memtls ws wss
	Role     string    `json:"role"` // client server
	SupEnc   []string  `json:"supported_enc"`
	SupComp  []string  `json:"supported_comp"`
	Initial  string    `json:"initial_enc"`
	InitComp string    `json:"initial_comp"`
	Calls    []optCall `json:"calls"`
}

func (c *optionsCase) coq() string {
	kind := map[string]string{"inproc": "TInproc", "mem": "(TTcp false)", "memtls": "(TTcp true)", "ws": "(TWs false)", "wss": "(TWs true)"}[c.Kind]
	calls := make([]string, len(c.Calls))
	for i, x := range c.Calls {
		calls[i] = "(" + coqfmt.Bool(x.Enc) + ", " + coqfmt.Str(x.Arg) + ", " + coqfmt.Bool(x.OK) + ", " + coqfmt.Str(x.EncAfter) + ", " + coqfmt.Str(x.CompAfter) + ")"
	}
	return coqfmt.App("KOptions", kind, coqfmt.Strs(c.SupEnc), coqfmt.Strs(c.SupComp), coqfmt.Str(c.Initial), coqfmt.Str(c.InitComp), coqfmt.List(calls))
}

var optAlphabet = []optCall{{Enc: true, Arg: "none"}, {Enc: true, Arg: "tls"}, {Enc: true, Arg: "rot13"}, {Enc: false, Arg: "none"}, {Enc: false, Arg: "gzip"}}

// runOptions makes the calls on one end of a fresh pair; the other end makes the same calls at the same time (an
// in-place TLS upgrade needs both).
func runOptions(kind, role string, seq []optCall) (*optionsCase, error) {
	ct, st, p, err := TransportPair(kind, 4)
	if err != nil {
		return nil, err
	}
	defer p.Close()
	mine, other := ct, st
	if role == "server" {
		mine, other = st, ct
	}
	c := &optionsCase{Options: true, Kind: kind, Role: role, Initial: string(mine.Encryption()), InitComp: string(mine.Compression())}
	for _, x := range mine.SupportedEncryption() {
		c.SupEnc = append(c.SupEnc, string(x))
	}
	for _, x := range mine.SupportedCompression() {
		c.SupComp = append(c.SupComp, string(x))
	}
	for _, call := range seq {
		ctx, cancel := context.WithTimeout(context.Background(), 3*time.Second)
		var wg sync.WaitGroup
		wg.Add(1)
		go func() {
			defer wg.Done()
			if call.Enc {
				_ = other.SetEncryption(ctx, lime.SessionEncryption(call.Arg))
			} else {
				_ = other.SetCompression(ctx, lime.SessionCompression(call.Arg))
			}
		}()
		var e error
		if call.Enc {
			e = mine.SetEncryption(ctx, lime.SessionEncryption(call.Arg))
		} else {
			e = mine.SetCompression(ctx, lime.SessionCompression(call.Arg))
		}
		wg.Wait()
		cancel()
		call.OK = e == nil
		call.EncAfter, call.CompAfter = string(mine.Encryption()), string(mine.Compression())
		c.Calls = append(c.Calls, call)
	}
	return c, nil
}

func addOptionsCases(env *Env) {
	for _, kind := range []string{"inproc", "mem", "memtls", "ws", "wss"} {
		depth := 3
		if kind == "ws" || kind == "wss" {
			depth = env.Pick(2, 3)
		}
		var seqs [][]optCall
		level := [][]optCall{{}}
		for d := 0; d < depth; d++ {
			var next [][]optCall
			for _, pre := range level {
				for _, a := range optAlphabet {
					s := append(append([]optCall(nil), pre...), a)
					next = append(next, s)
					seqs = append(seqs, s)
				}
			}
			level = next
		}
		for i, seq := range seqs {
			role := "client"
			if i%2 == 1 {
				role = "server"
			}
			c, err := runOptions(kind, role, seq)
			if err != nil {
				env.Count("options:setup-failed:" + kind)
				continue
			}
			env.Add(c.coq(), c)
			env.Count("options:" + kind)
			env.NonTrivial(fmt.Sprintf("options/%s/%s/%v", kind, role, seq))
		}
	}
}
