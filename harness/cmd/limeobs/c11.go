package main

import (
	"context"
	"encoding/json"
	"fmt"
	"net"
	"time"

	lime "github.com/takenet/lime-go"
	"verifharness/coqfmt"
)

func init() { register("C11", runC11) }

type c11Case struct {
	Form    string   `json:"form"` // resp notif sender ping
	Builder string   `json:"builder,omitempty"`
	Req     *AEnv    `json:"req,omitempty"` // request command or message
	Doc     *ADoc    `json:"doc,omitempty"`
	Reason  *AReason `json:"reason,omitempty"`
	Event   string   `json:"event,omitempty"`
	Failed  bool     `json:"failed,omitempty"`
	Via     string   `json:"via,omitempty"`
	Built   *AEnv    `json:"built,omitempty"`
	Wire    *Res     `json:"wire,omitempty"`
	// ping: the requests sent one after the other over the same session (this case is about number Index); the
	// results are looked at only after the last one has been answered
	Seq   []*AEnv `json:"seq,omitempty"`
	Index int     `json:"index,omitempty"`
	term  string
}

func wireOf(v interface{}) Res {
	b, err := json.Marshal(v)
	if err != nil {
		return Res{Tag: "err", Msg: "marshal: " + err.Error()}
	}
	return decodeViaTCP(b)
}

func respCase(builder string, q *AEnv, d *ADoc, rsn *AReason) (*c11Case, error) {
	req := q.lime().(*lime.RequestCommand)
	var r *lime.ResponseCommand
	switch builder {
	case "BSuccess":
		r = req.SuccessResponse()
	case "BSuccessWith":
		if d != nil {
			r = req.SuccessResponseWithResource(d.lime())
		} else {
			r = req.SuccessResponseWithResource(nil)
		}
	default:
		r = req.FailureResponse(rsn.lime())
	}
	built, err := envOf(r)
	if err != nil {
		return nil, err
	}
	w := wireOf(r)
	c := &c11Case{Form: "resp", Builder: builder, Req: q, Doc: d, Reason: rsn, Built: built, Wire: &w}
	c.term = coqfmt.App("CResp", builder, q.coqReq(), optDoc(d), rsn.Coq(), built.coqResp(), w.Coq())
	return c, nil
}

func notifCase(failed bool, m *AEnv, ev string, rsn *AReason) (*c11Case, error) {
	msg := m.lime().(*lime.Message)
	var n *lime.Notification
	if failed {
		n = msg.FailedNotification(rsn.lime())
	} else {
		n = msg.Notification(lime.NotificationEvent(ev))
	}
	built, err := envOf(n)
	if err != nil {
		return nil, err
	}
	w := wireOf(n)
	c := &c11Case{Form: "notif", Failed: failed, Req: m, Event: ev, Reason: rsn, Built: built, Wire: &w}
	c.term = coqfmt.App("CNotif", coqfmt.Bool(failed), m.coqMessage(), coqfmt.Str(ev), rsn.Coq(), built.coqNotification(), w.Coq())
	return c, nil
}

func senderCase(e *AEnv) *c11Case {
	env := e.base()
	s := nodeOf(env.Sender())
	c := &c11Case{Form: "sender", Req: e}
	c.term = coqfmt.App("CSender", e.coqBase(), s.Coq())
	return c
}

// pingVia sends the ping request q over a real established session whose peer auto-replies.
func pingVia(via string, qs []*AEnv) ([]*c11Case, error) {
	ctx, cancel := context.WithTimeout(context.Background(), 8*time.Second)
	defer cancel()
	resps := make([]*lime.ResponseCommand, len(qs))
	perrs := make([]error, len(qs))
	// the requests one after the other; every response is kept while the later pings are answered
	pingAll := func(pc interface {
		ProcessCommand(ctx context.Context, cmd *lime.RequestCommand) (*lime.ResponseCommand, error)
	}) {
		for i, q := range qs {
			pctx, pcancel := context.WithTimeout(ctx, 1500*time.Millisecond)
			resps[i], perrs[i] = pc.ProcessCommand(pctx, q.lime().(*lime.RequestCommand))
			pcancel()
		}
	}
	guest := lime.Identity{Name: "0e8e0f2c-6b9c-4d0a-9a4e-2f8f4c1b7a11", Domain: "verif.test"}
	switch via {
	case "server-inproc", "server-tcp", "server-ws":
		b := lime.NewServerBuilder().Name("postmaster").Domain("verif.test").Instance("srv").
			EnableGuestAuthentication().AutoReplyPings().ChannelBufferSize(4)
		var dial func() (lime.Transport, error)
		switch via {
		case "server-inproc":
			inprocMu.Lock()
			addr := nextInprocAddr()
			inprocMu.Unlock()
			b.ListenInProcess(addr)
			dial = func() (lime.Transport, error) {
				inprocMu.Lock()
				defer inprocMu.Unlock()
				return lime.DialInProcess(addr, 4)
			}
		case "server-tcp":
			addr, err := freeTCPAddr()
			if err != nil {
				return nil, err
			}
			b.ListenTCP(addr, nil)
			dial = func() (lime.Transport, error) { return lime.DialTcp(ctx, addr, nil) }
		default:
			addr, err := freeTCPAddr()
			if err != nil {
				return nil, err
			}
			b.ListenWebsocket(&net.TCPAddr{IP: addr.IP, Port: addr.Port}, nil)
			dial = func() (lime.Transport, error) {
				return lime.DialWebsocket(ctx, fmt.Sprintf("ws://127.0.0.1:%d", addr.Port), nil, nil)
			}
		}
		srv := b.Build()
		done := make(chan error, 1)
		inprocMu.Lock()
		go func() { done <- srv.ListenAndServe() }()
		time.Sleep(2 * time.Millisecond)
		inprocMu.Unlock()
		var ct lime.Transport
		var err error
		if !waitUntil(3*time.Second, func() bool { ct, err = dial(); return err == nil }) {
			return nil, fmt.Errorf("ping: dial %s: %v", via, err)
		}
		cc := lime.NewClientChannel(ct, 4)
		ses, err := cc.EstablishSession(ctx, lime.NoneCompressionSelector, lime.NoneEncryptionSelector, guest, lime.GuestAuthenticator, "i1")
		if err != nil || ses.State != lime.SessionStateEstablished {
			return nil, fmt.Errorf("ping: establish via %s: %v", via, err)
		}
		pingAll(cc)
		_ = cc.Close()
		inprocMu.Lock()
		_ = srv.Close()
		inprocMu.Unlock()
		select {
		case <-done:
		case <-time.After(8 * time.Second):
			return nil, fmt.Errorf("ping: server did not stop")
		}
	case "client-inproc":
		inprocMu.Lock()
		addr := nextInprocAddr()
		l := lime.NewInProcessTransportListener(addr)
		err := l.Listen(ctx, addr)
		inprocMu.Unlock()
		if err != nil {
			return nil, err
		}
		defer func() { inprocMu.Lock(); _ = l.Close(); inprocMu.Unlock() }()
		type acc struct {
			sc  *lime.ServerChannel
			err error
		}
		accc := make(chan acc, 1)
		go func() {
			st, err := l.Accept(ctx)
			if err != nil {
				accc <- acc{nil, err}
				return
			}
			sc := lime.NewServerChannel(st, 4, serverNode, nextSID())
			err = sc.EstablishSession(ctx, []lime.SessionCompression{lime.SessionCompressionNone},
				[]lime.SessionEncryption{lime.SessionEncryptionNone},
				[]lime.AuthenticationScheme{lime.AuthenticationSchemeGuest}, allowAll,
				registerAs(lime.Node{Identity: lime.Identity{Name: "cli", Domain: "verif.test"}, Instance: "i1"}))
			accc <- acc{sc, err}
		}()
		client := lime.NewClientBuilder().UseInProcess(addr, 4).ChannelBufferSize(4).AutoReplyPings().Build()
		defer client.Close()
		a := <-accc
		if a.err != nil {
			return nil, fmt.Errorf("ping: client-side establish: %v", a.err)
		}
		pingAll(a.sc)
		fctx, fcancel := context.WithTimeout(context.Background(), time.Second)
		_ = a.sc.FinishSession(fctx)
		fcancel()
	default:
		return nil, fmt.Errorf("unknown ping route %q", via)
	}
	var out []*c11Case
	for i, q := range qs {
		c := &c11Case{Form: "ping", Via: via, Req: q, Seq: qs, Index: i}
		var r Res
		if perrs[i] != nil {
			r = Res{Tag: "err", Msg: perrs[i].Error()}
		} else {
			r = resOf(resps[i], nil)
		}
		c.Wire = &r
		c.term = coqfmt.App("CPing", q.coqReq(), r.Coq())
		out = append(out, c)
	}
	return out, nil
}

func runC11(env *Env) error {
	env.Header = codecHeader + "Codec.Builders Corr.Codec Corr.C11."
	env.ShardSize = 300
	env.Rule = "exhaustive over from/pp/to present or absent (2^3) x 7 methods x builder (success, success with resource of every document kind incl. nested, failure with/without reason) and x 5 events / failed for messages; Sender() on all from/pp combinations; the ping auto-reply through real Server (in-process, TCP, WebSocket) and real Client sessions, three pings per session with the results looked at after the last one. Non-trivial: pp present or a resource/reason involved; distinct by printed case."
	g := &gen{rng: env.Rng}
	add := func(c *c11Case, err error) error {
		if err != nil {
			return err
		}
		env.Add(c.term, c)
		env.Count("form=" + c.Form)
		if c.Builder != "" {
			env.Count("builder=" + c.Builder)
		}
		if c.Req != nil && (c.Req.PP != (ANode{}) || c.Doc != nil || c.Reason != nil) {
			env.NonTrivial(c.term)
		}
		return nil
	}
	var rc c11Case
	if ok, err := env.ReplayDesc(&rc); err != nil {
		return err
	} else if ok {
		switch rc.Form {
		case "resp":
			return add(respCase(rc.Builder, rc.Req, rc.Doc, rc.Reason))
		case "notif":
			return add(notifCase(rc.Failed, rc.Req, rc.Event, rc.Reason))
		case "sender":
			return add(senderCase(rc.Req), nil)
		case "ping":
			seq := rc.Seq
			if len(seq) == 0 {
				seq = []*AEnv{rc.Req}
			}
			cs, err := pingVia(rc.Via, seq)
			if err != nil {
				return err
			}
			for _, c := range cs {
				if err := add(c, nil); err != nil {
					return err
				}
			}
			return nil
		}
		return nil
	}

	nodes := []ANode{{"alice", "a.com", "home"}, {"bob", "b.org", ""}, {"carol", "", "x"}}
	docs := []*ADoc{nil, {Kind: "text", Text: "hello"}, {Kind: "ping"},
		// text that JSON must escape in its own way (control characters, DEL, a rune beyond the basic plane)
		{Kind: "text", Text: "esc\x1b[31mred\x1b[0m"}, {Kind: "text", Text: "del\x7f bell\a vt\v"}, {Kind: "text", Text: "plane16 \U0010FFFD \u2028"}}
	j := JObj(KV("k", JInt(1)))
	docs = append(docs, &ADoc{Kind: "json", JSON: &j})
	for i := 0; i < env.Pick(4, 30); i++ {
		docs = append(docs, g.doc(4))
	}
	reasons := []*AReason{nil, {0, ""}, {42, "because"}, {-1, g.str()}}
	for mask := 0; mask < 8; mask++ {
		for mi, method := range methods {
			q := &AEnv{Kind: "req", ID: fmt.Sprintf("id-%d-%d", mask, mi), Method: method, URI: normURI(uriPool[mi%len(uriPool)])}
			if mask&1 != 0 {
				q.From = nodes[0]
			}
			if mask&2 != 0 {
				q.PP = nodes[1]
			}
			if mask&4 != 0 {
				q.To = nodes[2]
			}
			if mi%3 == 0 {
				q.ID = ""
			}
			if mi%2 == 1 {
				q.Doc = &ADoc{Kind: "text", Text: "req-resource"}
				q.Type = &AMT{"text", "plain", ""}
			}
			if err := add(respCase("BSuccess", q, nil, nil)); err != nil {
				return err
			}
			for di, d := range docs {
				if !env.Thorough() && (di+mi+mask)%2 == 1 {
					continue
				}
				if err := add(respCase("BSuccessWith", q, d, nil)); err != nil {
					return err
				}
			}
			for _, r := range reasons {
				if err := add(respCase("BFailure", q, nil, r)); err != nil {
					return err
				}
			}
		}
		m := &AEnv{Kind: "msg", ID: fmt.Sprintf("m-%d", mask), Doc: &ADoc{Kind: "text", Text: "hi"}, Type: &AMT{"text", "plain", ""}}
		if mask&1 != 0 {
			m.From = nodes[0]
		}
		if mask&2 != 0 {
			m.PP = nodes[1]
		}
		if mask&4 != 0 {
			m.To = nodes[2]
		}
		for _, ev := range events {
			if err := add(notifCase(false, m, ev, nil)); err != nil {
				return err
			}
		}
		for _, r := range reasons {
			if err := add(notifCase(true, m, "", r)); err != nil {
				return err
			}
		}
		_ = add(senderCase(m), nil)
	}
	// random requests with arbitrary (also ill-formed) nodes
	for i := 0; i < env.Pick(60, 600); i++ {
		q := g.env("req", g.rng.Intn(64), 3)
		if g.rng.Intn(3) == 0 {
			q.From, q.PP = g.node(false), g.node(false)
		}
		b := []string{"BSuccess", "BSuccessWith", "BFailure"}[g.rng.Intn(3)]
		var d *ADoc
		if b == "BSuccessWith" {
			d = g.doc(3)
		}
		if err := add(respCase(b, q, d, g.reason())); err != nil {
			return err
		}
		_ = add(senderCase(q), nil)
	}
	// the ping auto-reply over real sessions
	routes := []string{"server-inproc", "client-inproc", "server-tcp", "server-ws"}
	for ri, via := range routes {
		for mask := 0; mask < 8; mask++ {
			if !env.Thorough() && ri >= 2 && mask%4 != 1 {
				continue
			}
			q := &AEnv{Kind: "req", ID: fmt.Sprintf("ping-%d", mask), Method: "get", URI: normURI("/ping")}
			if mask&1 != 0 {
				q.From = nodes[0]
			}
			if mask&2 != 0 {
				q.PP = nodes[1]
			}
			if mask&4 != 0 {
				q.To = nodes[2]
			}
			// followed, on the same session, by pings with other ids and addressing
			// (the other ways of writing the ping address: absolute, and with a query)
			q2 := &AEnv{Kind: "req", ID: fmt.Sprintf("ping-%d-b", mask), Method: "get", URI: normURI("lime://localhost/ping"), From: nodes[2]}
			q3 := &AEnv{Kind: "req", ID: fmt.Sprintf("ping-%d-c", mask), Method: "get", URI: normURI("/ping?x=y"), PP: nodes[0], To: nodes[1]}
			if mask%2 == 0 {
				q2.URI = normURI("lime://postmaster@verif.test/ping")
			}
			cs, err := pingVia(via, []*AEnv{q, q2, q3})
			if err != nil {
				return err
			}
			for _, c := range cs {
				if err := add(c, nil); err != nil {
					return err
				}
				env.Count("ping-via=" + via)
			}
		}
	}
	return nil
}
