package main

import (
	"encoding/json"
	"fmt"

	lime "github.com/takenet/lime-go"
	"verifharness/coqfmt"
)

func init() { register("C01", runC01) }

const codecHeader = "From Coq Require Import List String ZArith.\nImport ListNotations.\nOpen Scope string_scope.\nFrom Lime Require Import Base.Res Base.Json Codec.Types Codec.Registry "

type c01Case struct {
	Form   string  `json:"form"` // env node ident mt uri
	Env    *AEnv   `json:"env,omitempty"`
	Broken string  `json:"broken,omitempty"`
	Src    *string `json:"src,omitempty"`
	Node   *ANode  `json:"node,omitempty"`
	MT     *AMT    `json:"mt,omitempty"`
	JSON   string  `json:"encoded,omitempty"`
	Typed  *Res    `json:"typed,omitempty"`
	Any    *Res    `json:"any,omitempty"`
	WS     *Res    `json:"ws,omitempty"`
	Str    string  `json:"str,omitempty"`
	Back   string  `json:"back,omitempty"`
	term   string
}

func envURIs(e *AEnv) []string {
	if e.URI != nil {
		return []string{*e.URI}
	}
	return nil
}

// observeEnv runs the real encoder and decoders on the envelope.
func observeEnv(e *AEnv, ws *wsPath) *c01Case {
	c := &c01Case{Form: "env", Env: e}
	v := e.lime()
	oj := coqfmt.None
	var b []byte
	var merr error
	func() {
		defer func() {
			if p := recover(); p != nil {
				merr = fmt.Errorf("panic: %v", p)
			}
		}()
		b, merr = json.Marshal(v)
	}()
	typed, anyr := Res{Tag: "err", Msg: "marshal failed"}, Res{Tag: "err", Msg: "marshal failed"}
	var wsr *Res
	if merr == nil {
		c.JSON = string(b)
		if t, err := parseJ(b); err == nil {
			oj = coqfmt.Some(t.Coq())
		}
		typed = decodeTyped(e.Kind, b)
		anyr = decodeViaTCP(b)
		if ws != nil {
			r := ws.decode(b)
			wsr = &r
		}
	}
	c.Typed, c.Any, c.WS = &typed, &anyr, wsr
	wsTerm := coqfmt.None
	if wsr != nil {
		wsTerm = coqfmt.Some(wsr.Coq())
	}
	c.term = coqfmt.App("CEnv", e.Coq(), coqURITable(envURIs(e)), oj, typed.Coq(), anyr.Coq(), wsTerm)
	return c
}

func optSrc(s *string) string { return coqfmt.OptStr(s) }

func nodeCase(src *string, n ANode) *c01Case {
	ln := n.lime()
	if src != nil {
		ln = lime.ParseNode(*src)
		n = nodeOf(ln)
	}
	str := ln.String()
	back := nodeOf(lime.ParseNode(str))
	c := &c01Case{Form: "node", Src: src, Node: &n, Str: str, Back: fmt.Sprint(back)}
	c.term = coqfmt.App("CNode", optSrc(src), n.Coq(), coqfmt.Str(str), back.Coq())
	return c
}

func identCase(src *string, name, domain string) *c01Case {
	id := lime.Identity{Name: name, Domain: domain}
	if src != nil {
		id = lime.ParseIdentity(*src)
	}
	str := id.String()
	back := lime.ParseIdentity(str)
	c := &c01Case{Form: "ident", Src: src, Str: str, Back: fmt.Sprint(back)}
	c.term = coqfmt.App("CIdent", optSrc(src), coqfmt.Str(id.Name), coqfmt.Str(id.Domain), coqfmt.Str(str),
		coqfmt.Tuple(coqfmt.Str(back.Name), coqfmt.Str(back.Domain)))
	return c
}

func mtCase(src *string, m *AMT) *c01Case {
	var cur *AMT
	if src != nil {
		if p, err := lime.ParseMediaType(*src); err == nil {
			x := mtOf(p)
			cur = &x
		}
	} else {
		cur = m
	}
	str := ""
	var back *AMT
	if cur != nil {
		str = cur.lime().String()
		if p, err := lime.ParseMediaType(str); err == nil {
			x := mtOf(p)
			back = &x
		}
	}
	c := &c01Case{Form: "mt", Src: src, MT: cur, Str: str, Back: fmt.Sprint(back)}
	c.term = coqfmt.App("CMt", optSrc(src), optMT(cur), coqfmt.Str(str), optMT(back))
	return c
}

func uriCase(s string) *c01Case {
	var o, back *string
	if u, err := lime.ParseLimeURI(s); err == nil {
		p := u.String()
		o = &p
		if u2, err := lime.ParseLimeURI(p); err == nil {
			q := u2.String()
			back = &q
		}
	}
	c := &c01Case{Form: "uri", Src: &s}
	if o != nil {
		c.Str = *o
	}
	c.term = coqfmt.App("CUri", coqfmt.Str(s), coqfmt.OptStr(o), coqfmt.OptStr(back))
	return c
}

func allStrings(alphabet []byte, maxLen int, f func(string)) {
	var rec func(prefix []byte)
	rec = func(prefix []byte) {
		f(string(prefix))
		if len(prefix) == maxLen {
			return
		}
		for _, a := range alphabet {
			rec(append(append([]byte(nil), prefix...), a))
		}
	}
	rec(nil)
}

// probeCase: the well-known envelope sent behind a rejected one on the same TCP connection, with what Receive made
// of it there.
func probeCase(a tcpAnomaly) *c01Case {
	var m lime.Message
	b := []byte(`{"id":"probe","type":"text/plain","content":"p"}`)
	_ = json.Unmarshal(b, &m)
	pe, _ := envOf(&m)
	c := &c01Case{Form: "env", Env: pe, Broken: "received on a connection behind the rejected input " + a.After, JSON: string(b)}
	oj := coqfmt.None
	if t, err := parseJ(b); err == nil {
		oj = coqfmt.Some(t.Coq())
	}
	typed := decodeTyped("msg", b)
	got := a.Got
	c.Typed, c.Any = &typed, &got
	c.term = coqfmt.App("CEnv", pe.Coq(), coqURITable(nil), oj, typed.Coq(), got.Coq(), coqfmt.None)
	return c
}

func runC01(env *Env) error {
	env.Header = codecHeader + "Corr.Codec Corr.C01."
	env.ShardSize = 300
	env.Rule = "envelopes: 5 kinds x every subset of the optional parts (exhaustive over the mask) with PRNG values, documents nested to depth 4 (quick) / 7 (thorough), one in five made ill-formed in one way; text forms: every string over {a,b,@,/,+,%,space} up to the length bound through ParseNode/ParseIdentity/ParseMediaType/ParseLimeURI and String, plus structured values with separator-bearing parts; the document registry: registrations and decodes of fresh media types in every order (decode before registration included). Non-trivial: an envelope with >= 3 optional parts or a nested document, or a text form containing a separator; distinct by the printed case."
	g := &gen{rng: env.Rng}
	add := func(c *c01Case) {
		env.Add(c.term, c)
		env.Count("form=" + c.Form)
	}
	defer func() {
		for _, a := range tcpPathAnomalies {
			add(probeCase(a))
		}
		tcpPathAnomalies = nil
	}()
	var rc c01Case
	if ok, err := env.ReplayDesc(&rc); err != nil {
		return err
	} else if ok {
		switch rc.Form {
		case "env":
			add(observeEnv(rc.Env, nil))
		case "node":
			if rc.Src != nil {
				add(nodeCase(rc.Src, ANode{}))
			} else {
				add(nodeCase(nil, *rc.Node))
			}
		case "ident":
			add(identCase(rc.Src, "", ""))
		case "mt":
			add(mtCase(rc.Src, rc.MT))
		case "uri":
			add(uriCase(*rc.Src))
		case "registry":
			var rr registryCase
			_, _ = env.ReplayDesc(&rr)
			c := runRegistry(rr.Ops)
			env.Add(c.term, c)
		}
		return nil
	}
	addRegistryCases(env)

	ws, err := newWSPath()
	if err != nil {
		return fmt.Errorf("websocket path: %w", err)
	}
	defer ws.Close()

	depth := env.Pick(4, 7)
	rounds := env.Pick(1, 6)
	n := 0
	for round := 0; round < rounds; round++ {
		for _, kind := range kindOrder {
			nb := optBits(kind)
			for mask := 0; mask < 1<<uint(nb); mask++ {
				if kind == "ses" && !env.Thorough() && mask%13 != round%13 && mask != (1<<uint(nb))-1 {
					continue // the session mask space (2^13) is sampled in the quick tier
				}
				e := g.env(kind, mask, depth)
				broken := ""
				if g.rng.Intn(5) == 0 {
					broken = g.breakEnv(e)
				}
				var w *wsPath
				if n%4 == 0 {
					w = ws
				}
				n++
				c := observeEnv(e, w)
				c.Broken = broken
				add(c)
				env.Count("kind=" + kind)
				if broken != "" {
					env.Count("broken=" + broken)
				}
				env.Count(fmt.Sprintf("docdepth=%d", e.Doc.depth()))
				env.Count("typed=" + c.Typed.Tag)
				bits := 0
				for i := 0; i < nb; i++ {
					if mask&(1<<uint(i)) != 0 {
						bits++
					}
				}
				if bits >= 3 || e.Doc.depth() >= 2 {
					env.NonTrivial(c.term)
				}
			}
		}
	}

	// text forms
	maxLen := env.Pick(3, 5)
	alphabet := []byte{'a', 'b', '@', '/', '+', '%', ' '}
	allStrings(alphabet, maxLen, func(s string) {
		s2 := s
		for _, c := range []*c01Case{nodeCase(&s2, ANode{}), identCase(&s2, "", ""), mtCase(&s2, nil), uriCase(s2)} {
			add(c)
			if len(s) >= 2 {
				env.NonTrivial(c.term)
			}
		}
	})
	parts := []string{"", "a", "b c", "@", "/", "+", "a@", "/b", "a+b", "é"}
	for _, x := range parts {
		for _, y := range parts {
			for _, z := range parts {
				add(nodeCase(nil, ANode{x, y, z}))
				m := AMT{x, y, z}
				add(mtCase(nil, &m))
			}
			add(identCase(nil, x, y))
		}
	}
	for _, u := range uriPool {
		add(uriCase(u))
	}
	for _, u := range []string{"http://x/y", "lime://a@b/c", "%zz", "://", "lime:opaque", "/a b", "LIME://x/y", "//host/p", "a:b"} {
		add(uriCase(u))
	}
	return nil
}
