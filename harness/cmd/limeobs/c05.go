package main

import (
	"context"
	"errors"
	"fmt"
	"strconv"
	"strings"
	"sync"
	"sync/atomic"
	"time"

	lime "github.com/takenet/lime-go"
	"verifharness/coqfmt"
)

func init() { register("C05", runC05) }

type hAction struct {
	Kind string `json:"kind"` // start respond cancel hold-deliver release-deliver hold-cleanup release-cleanup
	R    int    `json:"r,omitempty"`
	ID   int    `json:"id,omitempty"`
	Tag  int    `json:"tag,omitempty"`
	// Dead (start only): the call is made with a context that has already ended, so its send fails while the
	// channel stays established; in the model's terms a start immediately followed by the end of its context
	Dead bool `json:"dead,omitempty"`
}

type c05Case struct {
	Transport string    `json:"transport"`
	Role      string    `json:"role"` // which side runs ProcessCommand: client | server
	IDs       []int     `json:"ids"`
	History   []hAction `json:"history"`
	Results   []string  `json:"results"` // resp:<id>:<tag> ctx rejected pending
	Stream    [][2]int  `json:"stream"`
	Table     int       `json:"table"`
	Note      string    `json:"note,omitempty"`
	// a burst: all calls were released at the same instant against a peer that answers every request it receives;
	// BurstLabels is a schedule that explains the observed outcome
	Burst       bool     `json:"burst,omitempty"`
	BurstLabels []string `json:"burst_labels,omitempty"`
	Responses   [][2]int `json:"responses,omitempty"` // burst: what the peer sent, in order
}

func (c *c05Case) gated() bool {
	if c.Burst {
		return true
	}
	for _, a := range c.History {
		if strings.HasPrefix(a.Kind, "hold") || strings.HasPrefix(a.Kind, "release") {
			return true
		}
	}
	return false
}

// labels translates the history into the schedule of the labelled transition system:
// a start is Reg+SendReq; a response is taken by the matcher (RLookup, RDeliver) and then every
// waiting call gets the chance to take it and clean up; a cancel is CtxEnd+Cleanup. With gates the
// deliver / cleanup steps are postponed until their release.
func (c *c05Case) labels() []string {
	if c.Burst {
		return append([]string(nil), c.BurstLabels...)
	}
	var out []string
	n := len(c.IDs)
	takeAll := func() {
		for r := 0; r < n; r++ {
			out = append(out, fmt.Sprintf("TakeResp %d", r), fmt.Sprintf("Cleanup %d", r))
		}
	}
	holdDeliver, holdCleanup := false, false
	var pendingCleanup []int
	for _, a := range c.History {
		switch a.Kind {
		case "start":
			out = append(out, fmt.Sprintf("Reg %d", a.R), fmt.Sprintf("SendReq %d", a.R))
			if a.Dead {
				out = append(out, fmt.Sprintf("CtxEnd %d", a.R))
				if !holdCleanup {
					out = append(out, fmt.Sprintf("Cleanup %d", a.R))
				}
			}
		case "respond":
			out = append(out, "RLookup")
			if !holdDeliver {
				out = append(out, "RDeliver")
				if holdCleanup {
					for r := 0; r < n; r++ {
						out = append(out, fmt.Sprintf("TakeResp %d", r))
					}
				} else {
					takeAll()
				}
			}
		case "cancel":
			out = append(out, fmt.Sprintf("CtxEnd %d", a.R))
			if holdCleanup {
				pendingCleanup = append(pendingCleanup, a.R)
			} else {
				out = append(out, fmt.Sprintf("Cleanup %d", a.R))
			}
		case "hold-deliver":
			holdDeliver = true
		case "release-deliver":
			holdDeliver = false
			out = append(out, "RDeliver")
			if !holdCleanup {
				takeAll()
			} else {
				for r := 0; r < n; r++ {
					out = append(out, fmt.Sprintf("TakeResp %d", r))
				}
			}
		case "hold-cleanup":
			holdCleanup = true
		case "release-cleanup":
			holdCleanup = false
			for r := 0; r < n; r++ {
				out = append(out, fmt.Sprintf("Cleanup %d", r))
			}
			_ = pendingCleanup
			pendingCleanup = nil
		}
	}
	return out
}

func (c *c05Case) Coq() string {
	var resps []string
	var hist []string
	for _, a := range c.History {
		switch a.Kind {
		case "start":
			hist = append(hist, fmt.Sprintf("(HStart %d %d)", a.R, a.ID))
			if a.Dead {
				hist = append(hist, fmt.Sprintf("(HCancel %d)", a.R))
			}
		case "respond":
			hist = append(hist, fmt.Sprintf("(HRespond %d %d)", a.ID, a.Tag))
			resps = append(resps, coqfmt.Tuple(coqfmt.Nat(a.ID), coqfmt.Nat(a.Tag)))
		case "cancel":
			hist = append(hist, fmt.Sprintf("(HCancel %d)", a.R))
		default:
			hist = append(hist, "(HGate 0)")
		}
	}
	if c.Burst {
		resps = nil
		for _, r := range c.Responses {
			resps = append(resps, coqfmt.Tuple(coqfmt.Nat(r[0]), coqfmt.Nat(r[1])))
		}
	}
	labels := c.labels()
	for i := range labels {
		if strings.Contains(labels[i], " ") {
			labels[i] = "(" + labels[i] + ")"
		}
	}
	res := make([]string, len(c.Results))
	for i, r := range c.Results {
		switch {
		case strings.HasPrefix(r, "resp:"):
			p := strings.Split(r, ":")
			res[i] = fmt.Sprintf("(OResp %s %s)", p[1], p[2])
		case r == "ctx":
			res[i] = "OCtx"
		case r == "rejected":
			res[i] = "ORejected"
		case r == "idle":
			res[i] = "OIdle"
		default:
			res[i] = "OPending"
		}
	}
	stream := make([]string, len(c.Stream))
	for i, s := range c.Stream {
		stream[i] = coqfmt.Tuple(coqfmt.Nat(s[0]), coqfmt.Nat(s[1]))
	}
	return coqfmt.Record("k_ids", coqfmt.Nats(c.IDs), "k_responses", coqfmt.List(resps), "k_labels", coqfmt.List(labels),
		"k_history", coqfmt.List(hist), "k_gated", coqfmt.Bool(c.gated()), "k_burst", coqfmt.Bool(c.Burst), "o_results", coqfmt.List(res),
		"o_stream", coqfmt.List(stream), "o_table", coqfmt.Nat(c.Table))
}

type cmdProcessor interface {
	ProcessCommand(ctx context.Context, cmd *lime.RequestCommand) (*lime.ResponseCommand, error)
	RespCmdChan() <-chan *lime.ResponseCommand
	VerifPendingCommands() int
	Established() bool
}

// refused: the call came back with an error of its own - not the context's (also when the context is over: the
// channel looks at its table first), and the session is fine - i.e. the channel turned the request down (an id that
// is already waiting for its response).  (Decided without looking at the wording of the error.)
func refused(err error, ctx context.Context, proc cmdProcessor) bool {
	if err == nil || errors.Is(err, context.Canceled) || errors.Is(err, context.DeadlineExceeded) {
		return false
	}
	if ce := ctx.Err(); ce != nil && strings.Contains(err.Error(), ce.Error()) {
		return false // the context's error, passed on as text
	}
	return proc.Established()
}

type cmdPeer interface {
	ReqCmdChan() <-chan *lime.RequestCommand
	SendResponseCommand(ctx context.Context, cmd *lime.ResponseCommand) error
}

// gate implements the harness side of verifPoint: goroutines arriving at a held point block until released.
type gateCtl struct {
	mu      sync.Mutex
	held    map[string]chan struct{}
	arrived map[string]int
}

func newGateCtl() *gateCtl {
	return &gateCtl{held: map[string]chan struct{}{}, arrived: map[string]int{}}
}
func (g *gateCtl) point(name string) {
	g.mu.Lock()
	ch := g.held[name]
	if ch != nil {
		g.arrived[name]++
	}
	g.mu.Unlock()
	if ch != nil {
		<-ch
	}
}
func (g *gateCtl) hold(name string) {
	g.mu.Lock()
	if g.held[name] == nil {
		g.held[name] = make(chan struct{})
	}
	g.mu.Unlock()
}
func (g *gateCtl) release(name string) {
	g.mu.Lock()
	if ch := g.held[name]; ch != nil {
		close(ch)
		delete(g.held, name)
	}
	g.arrived[name] = 0
	g.mu.Unlock()
}
func (g *gateCtl) waiting(name string) int {
	g.mu.Lock()
	defer g.mu.Unlock()
	return g.arrived[name]
}

func runC05History(transport, role string, ids []int, history []hAction) (*c05Case, error) {
	c := &c05Case{Transport: transport, Role: role, IDs: ids, History: history}
	p, err := EstablishedPair(transport, 8)
	if err != nil {
		return nil, err
	}
	defer p.Close()
	var proc cmdProcessor = p.Client
	var peer cmdPeer = p.Server
	if role == "server" {
		proc, peer = p.Server, p.Client
	}
	g := newGateCtl()
	lime.VerifSetGate(g.point)
	defer lime.VerifSetGate(nil)

	var mu sync.Mutex
	results := make([]string, len(ids))
	returned := make([]bool, len(ids))
	cancels := make([]context.CancelFunc, len(ids))
	for i := range results {
		results[i] = "idle"
	}
	var stream [][2]int
	tagOf := func(r *lime.ResponseCommand) int {
		t, _ := strconv.Atoi(r.Metadata["tag"])
		return t
	}
	idOf := func(s string) int {
		v, _ := strconv.Atoi(strings.TrimPrefix(s, "id"))
		return v
	}
	stopStream := make(chan struct{})
	var streamPaused int32
	go func() {
		for {
			if atomic.LoadInt32(&streamPaused) == 1 {
				select {
				case <-stopStream:
					return
				case <-time.After(200 * time.Microsecond):
				}
				continue
			}
			select {
			case <-stopStream:
				return
			case r, ok := <-proc.RespCmdChan():
				if !ok {
					return
				}
				mu.Lock()
				stream = append(stream, [2]int{idOf(r.ID), tagOf(r)})
				mu.Unlock()
			}
		}
	}()
	defer close(stopStream)
	sentSeen := 0
	// the peer drains requests so that "sent" is observable
	go func() {
		for range peer.ReqCmdChan() {
			mu.Lock()
			sentSeen++
			mu.Unlock()
		}
	}()
	quiet := func(d time.Duration, cond func() bool) {
		if !waitUntil(d, func() bool { mu.Lock(); defer mu.Unlock(); return cond() }) {
			c.Note = "an action did not reach quiescence"
		}
	}
	for _, a := range history {
		switch a.Kind {
		case "start":
			r := a.R
			ctx, cancel := context.WithCancel(context.Background())
			cancels[r] = cancel
			if a.Dead {
				cancel()
			}
			mu.Lock()
			results[r] = "pending"
			before := sentSeen
			mu.Unlock()
			go func() {
				req := &lime.RequestCommand{}
				req.ID = fmt.Sprintf("id%d", a.ID)
				req.Method = lime.CommandMethodGet
				req.SetURIString("/x")
				resp, err := proc.ProcessCommand(ctx, req)
				mu.Lock()
				returned[r] = true
				switch {
				case err == nil && resp != nil:
					results[r] = fmt.Sprintf("resp:%d:%d", idOf(resp.ID), tagOf(resp))
				case refused(err, ctx, proc):
					results[r] = "rejected"
				case err != nil && ctx.Err() != nil:
					results[r] = "ctx"
				default:
					results[r] = "error:" + fmt.Sprint(err)
				}
				mu.Unlock()
			}()
			quiet(400*time.Millisecond, func() bool { return returned[r] || sentSeen > before })
		case "respond":
			resp := &lime.ResponseCommand{Status: lime.CommandStatusSuccess}
			resp.ID = fmt.Sprintf("id%d", a.ID)
			resp.Method = lime.CommandMethodGet
			resp.Metadata = map[string]string{"tag": strconv.Itoa(a.Tag)}
			mu.Lock()
			nret, nstream := 0, len(stream)
			for _, b := range returned {
				if b {
					nret++
				}
			}
			mu.Unlock()
			ctx, cancel := context.WithTimeout(context.Background(), time.Second)
			_ = peer.SendResponseCommand(ctx, resp)
			cancel()
			if atomic.LoadInt32(&streamPaused) == 1 {
				// nobody reads the response stream for now: there is nothing to wait for
				time.Sleep(2 * time.Millisecond)
				continue
			}
			holdCleanupArrived := g.waiting("process:before-cleanup")
			quiet(400*time.Millisecond, func() bool {
				n := 0
				for _, b := range returned {
					if b {
						n++
					}
				}
				return n > nret || len(stream) > nstream || g.waiting("submit:after-lookup") > 0 ||
					g.waiting("process:before-cleanup") > holdCleanupArrived
			})
		case "cancel":
			if cancels[a.R] != nil {
				cancels[a.R]()
			}
			before := g.waiting("process:before-cleanup")
			quiet(400*time.Millisecond, func() bool { return returned[a.R] || g.waiting("process:before-cleanup") > before })
		case "pause-stream":
			atomic.StoreInt32(&streamPaused, 1)
			time.Sleep(time.Millisecond)
		case "resume-stream":
			atomic.StoreInt32(&streamPaused, 0)
			mu.Lock()
			before := len(stream)
			mu.Unlock()
			quiet(400*time.Millisecond, func() bool { return len(stream) > before })
			time.Sleep(5 * time.Millisecond)
		case "hold-deliver":
			g.hold("submit:after-lookup")
		case "release-deliver":
			mu.Lock()
			nret := 0
			for _, b := range returned {
				if b {
					nret++
				}
			}
			mu.Unlock()
			g.release("submit:after-lookup")
			time.Sleep(2 * time.Millisecond)
			_ = nret
		case "hold-cleanup":
			g.hold("process:before-cleanup")
		case "release-cleanup":
			g.release("process:before-cleanup")
			time.Sleep(2 * time.Millisecond)
		}
	}
	time.Sleep(1 * time.Millisecond)
	mu.Lock()
	c.Results = append([]string(nil), results...)
	c.Stream = append([][2]int(nil), stream...)
	mu.Unlock()
	c.Table = proc.VerifPendingCommands()
	g.release("submit:after-lookup")
	g.release("process:before-cleanup")
	for _, cancel := range cancels {
		if cancel != nil {
			cancel()
		}
	}
	return c, nil
}

// runC05Burst releases k ProcessCommand calls with the same command id at the same instant against a peer that
// answers every request it receives (tagged in arrival order).  Whatever the interleaving, a call is either
// refused ("already in use") or completes with a response of its own; nothing surfaces on the response stream
// and nothing is left in the table.
func runC05Burst(transport, role string, k, id int) (*c05Case, error) {
	ids := make([]int, k)
	for i := range ids {
		ids[i] = id
	}
	c := &c05Case{Transport: transport, Role: role, IDs: ids, Burst: true}
	p, err := EstablishedPair(transport, 8)
	if err != nil {
		return nil, err
	}
	defer p.Close()
	var proc cmdProcessor = p.Client
	var peer cmdPeer = p.Server
	if role == "server" {
		proc, peer = p.Server, p.Client
	}
	var mu sync.Mutex
	var stream [][2]int
	tagOf := func(r *lime.ResponseCommand) int { t, _ := strconv.Atoi(r.Metadata["tag"]); return t }
	idOf := func(s string) int { v, _ := strconv.Atoi(strings.TrimPrefix(s, "id")); return v }
	stop := make(chan struct{})
	defer close(stop)
	go func() {
		for {
			select {
			case <-stop:
				return
			case r, ok := <-proc.RespCmdChan():
				if !ok {
					return
				}
				mu.Lock()
				stream = append(stream, [2]int{idOf(r.ID), tagOf(r)})
				mu.Unlock()
			}
		}
	}()
	// the echoing peer
	go func() {
		tag := 500
		for req := range peer.ReqCmdChan() {
			tag++
			resp := &lime.ResponseCommand{Status: lime.CommandStatusSuccess}
			resp.ID = req.ID
			resp.Method = lime.CommandMethodGet
			resp.Metadata = map[string]string{"tag": strconv.Itoa(tag)}
			mu.Lock()
			c.Responses = append(c.Responses, [2]int{idOf(req.ID), tag})
			mu.Unlock()
			ctx, cancel := context.WithTimeout(context.Background(), time.Second)
			_ = peer.SendResponseCommand(ctx, resp)
			cancel()
		}
	}()
	results := make([]string, k)
	var wg sync.WaitGroup
	gate := make(chan struct{})
	for r := 0; r < k; r++ {
		wg.Add(1)
		go func(r int) {
			defer wg.Done()
			req := &lime.RequestCommand{}
			req.ID = fmt.Sprintf("id%d", id)
			req.Method = lime.CommandMethodGet
			req.SetURIString("/x")
			ctx, cancel := context.WithTimeout(context.Background(), 400*time.Millisecond*slack)
			defer cancel()
			<-gate
			resp, err := proc.ProcessCommand(ctx, req)
			var res string
			switch {
			case err == nil && resp != nil:
				res = fmt.Sprintf("resp:%d:%d", idOf(resp.ID), tagOf(resp))
			case refused(err, ctx, proc):
				res = "rejected"
			case err != nil && ctx.Err() != nil:
				res = "ctx"
			default:
				res = "error:" + fmt.Sprint(err)
			}
			mu.Lock()
			results[r] = res
			mu.Unlock()
		}(r)
	}
	time.Sleep(200 * time.Microsecond)
	close(gate)
	wg.Wait()
	time.Sleep(2 * time.Millisecond)
	mu.Lock()
	c.Results = append([]string(nil), results...)
	c.Stream = append([][2]int(nil), stream...)
	resps := append([][2]int(nil), c.Responses...)
	mu.Unlock()
	c.Table = proc.VerifPendingCommands()
	// a schedule that explains the outcome: the accepted calls one after the other in the order of their
	// responses, the refused ones while the first accepted call holds the id, the timed-out ones as calls
	// whose context ended before their response was looked at
	byTag := map[int]int{}
	var refused, timedOut []int
	for r, res := range c.Results {
		switch {
		case strings.HasPrefix(res, "resp:"):
			parts := strings.Split(res, ":")
			t, _ := strconv.Atoi(parts[2])
			byTag[t] = r
		case res == "rejected":
			refused = append(refused, r)
		default:
			timedOut = append(timedOut, r)
		}
	}
	first := true
	var labels []string
	for _, rt := range resps {
		r, ok := byTag[rt[1]]
		if !ok {
			// a response nobody completed with: it belongs to a call that timed out
			if len(timedOut) > 0 {
				r = timedOut[0]
				timedOut = timedOut[1:]
				labels = append(labels, fmt.Sprintf("Reg %d", r), fmt.Sprintf("SendReq %d", r), fmt.Sprintf("CtxEnd %d", r), fmt.Sprintf("Cleanup %d", r), "RLookup", "RDeliver")
			} else {
				labels = append(labels, "RLookup", "RDeliver")
			}
			continue
		}
		labels = append(labels, fmt.Sprintf("Reg %d", r), fmt.Sprintf("SendReq %d", r))
		if first {
			for _, x := range refused {
				labels = append(labels, fmt.Sprintf("Reg %d", x))
			}
			first = false
		}
		labels = append(labels, "RLookup", "RDeliver", fmt.Sprintf("TakeResp %d", r), fmt.Sprintf("Cleanup %d", r))
	}
	if first {
		for _, x := range refused {
			labels = append(labels, fmt.Sprintf("Reg %d", x))
		}
	}
	for _, r := range timedOut {
		labels = append(labels, fmt.Sprintf("Reg %d", r), fmt.Sprintf("SendReq %d", r), fmt.Sprintf("CtxEnd %d", r), fmt.Sprintf("Cleanup %d", r))
	}
	c.BurstLabels = labels
	return c, nil
}

func runC05(env *Env) error {
	env.Header = "From Coq Require Import List.\nImport ListNotations.\nFrom Lime Require Import Base.Res Chan.CmdTable Corr.C05."
	env.ShardSize = 200
	env.Rule = "quiescent histories: up to 4 concurrent ProcessCommand calls (ids colliding or not), every permutation of the responses for <= 3 in flight (quick) / <= 4 (thorough), duplicates, unknown ids, omissions with cancellation, late responses after a cancellation, id reuse after completion; calls whose send fails while the channel stays established followed by the same id again; responses matching nothing while nobody reads the response stream (more than it holds); bursts of 8 calls with one id released at the same instant against an echoing peer; gated histories (build-tag gate points) replaying the refutation witness of the tree as found and its neighbours; both roles, in-process and in-memory TCP. Non-trivial: at least two calls or a response that matches no pending call. Distinct by printed case."
	var rc c05Case
	if ok, err := env.ReplayDesc(&rc); err != nil {
		return err
	} else if ok && rc.Burst {
		c, err := runC05Burst(rc.Transport, rc.Role, len(rc.IDs), rc.IDs[0])
		if err != nil {
			return err
		}
		env.Add(c.Coq(), c)
		return nil
	} else if ok {
		c, err := runC05History(rc.Transport, rc.Role, rc.IDs, rc.History)
		if err != nil {
			return err
		}
		env.Add(c.Coq(), c)
		return nil
	}
	add := func(transport, role string, ids []int, h []hAction) error {
		c, err := runC05History(transport, role, ids, h)
		if err != nil {
			return err
		}
		env.Add(c.Coq(), c)
		env.Count("role=" + role)
		env.Count("transport=" + transport)
		if c.gated() {
			env.Count("gated")
		}
		if c.Note != "" {
			env.Count("note=" + c.Note)
		}
		if len(ids) >= 2 || len(c.Stream) > 0 {
			env.NonTrivial(c.Coq())
		}
		return nil
	}
	start := func(r, id int) hAction { return hAction{Kind: "start", R: r, ID: id} }
	respond := func(id, tag int) hAction { return hAction{Kind: "respond", ID: id, Tag: tag} }
	cancel := func(r int) hAction { return hAction{Kind: "cancel", R: r} }
	k := func(s string) hAction { return hAction{Kind: s} }

	// regression first: the refutation witness of the tree as found, and its neighbours
	gatedHistories := [][]hAction{
		{start(0, 7), k("hold-deliver"), respond(7, 100), cancel(0), start(1, 7), k("release-deliver"), respond(7, 101)},
		{start(0, 7), k("hold-cleanup"), respond(7, 100), start(1, 7), k("release-cleanup"), respond(7, 101)},
		{start(0, 7), k("hold-cleanup"), cancel(0), start(1, 7), k("release-cleanup"), respond(7, 101)},
		{start(0, 7), start(1, 8), k("hold-deliver"), respond(7, 100), cancel(1), k("release-deliver"), respond(8, 101)},
		{start(0, 7), k("hold-deliver"), respond(7, 100), k("release-deliver"), start(1, 7), respond(7, 101)},
	}
	for _, h := range gatedHistories {
		ids := []int{}
		for _, a := range h {
			if a.Kind == "start" {
				ids = append(ids, a.ID)
			}
		}
		for _, role := range []string{"client", "server"} {
			if err := add("inproc", role, ids, h); err != nil {
				return err
			}
		}
	}
	// a send that fails while the channel stays established (the context of the call has already ended), then the
	// same id again
	dead := func(r, id int) hAction { return hAction{Kind: "start", R: r, ID: id, Dead: true} }
	deadHistories := [][]hAction{
		{dead(0, 7), start(1, 7), respond(7, 100)},
		{dead(0, 7), dead(1, 7), start(2, 7), respond(7, 100), respond(7, 101)},
		{start(0, 7), dead(1, 7), respond(7, 100), start(2, 7), respond(7, 101)},
		{dead(0, 7), respond(7, 100), start(1, 7), respond(7, 101)},
		{start(0, 8), dead(1, 7), respond(8, 100), dead(2, 8), start(3, 7), respond(7, 101)},
	}
	for _, h := range deadHistories {
		ids := []int{}
		for _, a := range h {
			if a.Kind == "start" {
				ids = append(ids, a.ID)
			}
		}
		for _, role := range []string{"client", "server"} {
			// in-process only: on TCP a failed Send leaves the encoder in a permanent error state (C12's stated
			// assumption: no Send is attempted after a failed Send on the same transport)
			for _, tr := range []string{"inproc"} {
				if err := add(tr, role, ids, h); err != nil {
					return err
				}
				env.Count("failed-send")
			}
		}
	}
	// responses that match nothing while nobody reads the response stream: more of them than the stream holds
	for _, tr := range []string{"inproc", "mem"} {
		for _, role := range []string{"client", "server"} {
			h := []hAction{start(0, 7), k("pause-stream")}
			for i := 0; i < 14; i++ {
				h = append(h, respond(30+i%3, 600+i))
			}
			h = append(h, k("resume-stream"), respond(7, 700))
			if err := add(tr, role, []int{7}, h); err != nil {
				return err
			}
			env.Count("unread-response-stream")
		}
	}
	// bursts: calls with one id released at the same instant
	for i := 0; i < env.Pick(80, 800); i++ {
		c, err := runC05Burst([]string{"inproc", "mem"}[i%2], []string{"client", "server"}[(i/2)%2], 8, 40+i%3)
		if err != nil {
			return err
		}
		env.Add(c.Coq(), c)
		env.Count("burst")
		acc := 0
		for _, r := range c.Results {
			if strings.HasPrefix(r, "resp:") {
				acc++
			}
		}
		env.Count(fmt.Sprintf("burst:accepted=%d", acc))
		env.NonTrivial(c.Coq())
	}
	// sequential histories: permutations
	maxN := env.Pick(3, 4)
	var perms func(a []int, f func([]int))
	perms = func(a []int, f func([]int)) {
		var rec func(i int)
		rec = func(i int) {
			if i == len(a) {
				f(append([]int(nil), a...))
				return
			}
			for j := i; j < len(a); j++ {
				a[i], a[j] = a[j], a[i]
				rec(i + 1)
				a[i], a[j] = a[j], a[i]
			}
		}
		rec(0)
	}
	tag := 200
	for n := 1; n <= maxN; n++ {
		ids := make([]int, n)
		for i := range ids {
			ids[i] = 10 + i
		}
		idx := make([]int, n)
		for i := range idx {
			idx[i] = i
		}
		var err error
		perms(idx, func(order []int) {
			if err != nil {
				return
			}
			var h []hAction
			for r := 0; r < n; r++ {
				h = append(h, start(r, ids[r]))
			}
			for _, r := range order {
				tag++
				h = append(h, respond(ids[r], tag))
			}
			transport := []string{"inproc", "mem"}[tag%2]
			role := []string{"client", "server"}[(tag/2)%2]
			err = add(transport, role, ids, h)
		})
		if err != nil {
			return err
		}
	}
	// PRNG histories: collisions, unknown ids, duplicates, cancellations, late responses, id reuse
	rng := env.Rng
	for i := 0; i < env.Pick(120, 1200); i++ {
		n := 1 + rng.Intn(4)
		ids := make([]int, n)
		for r := range ids {
			ids[r] = 20 + rng.Intn(3)
		}
		var h []hAction
		started := 0
		for step := 0; step < 3+rng.Intn(8); step++ {
			switch x := rng.Intn(10); {
			case x < 4 && started < n:
				h = append(h, start(started, ids[started]))
				started++
			case x < 8:
				tag++
				h = append(h, respond(20+rng.Intn(4), tag))
			default:
				if started > 0 {
					h = append(h, cancel(rng.Intn(started)))
				}
			}
		}
		if err := add([]string{"inproc", "mem"}[i%2], []string{"client", "server"}[(i/2)%2], ids, h); err != nil {
			return err
		}
	}
	return nil
}
