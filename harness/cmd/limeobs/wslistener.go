package main

// What a WebSocket listener hands out, by the shape of its TLS configuration (none; certificates in the
// configuration; only a GetCertificate callback; only a GetConfigForClient callback): does a plain ws:// client get
// through, does a wss:// client, and what does the accepted transport say its encryption is (C10: "the connection can
// provide one of the configured options" must be true of the connection, not only of the listener's configuration).

import (
	"context"
	"crypto/tls"
	"fmt"
	"time"

	lime "github.com/takenet/lime-go"
	"verifharness/coqfmt"
)

type wsListenerCase struct {
	WsListener bool   `json:"ws_listener_case"`
	Shape      string `json:"tls_config_shape"` // none certs getcert configforclient
	PlainOK    bool   `json:"plain_dial_ok"`
	PlainEnc   string `json:"plain_accepted_encryption"`
	TLSOK      bool   `json:"tls_dial_ok"`
	TLSEnc     string `json:"tls_accepted_encryption"`
}

func (c *wsListenerCase) coq() string {
	return coqfmt.App("KWsListener", coqfmt.Bool(c.Shape != "none"), coqfmt.Bool(c.PlainOK), coqfmt.Str(c.PlainEnc),
		coqfmt.Bool(c.TLSOK), coqfmt.Str(c.TLSEnc))
}

func runWsListenerCase(shape string) (*wsListenerCase, error) {
	c := &wsListenerCase{WsListener: true, Shape: shape}
	sc, cc := testTLS()
	var cfg *lime.WebsocketConfig
	switch shape {
	case "certs":
		cfg = &lime.WebsocketConfig{TLSConfig: sc}
	case "getcert":
		cert := sc.Certificates[0]
		cfg = &lime.WebsocketConfig{TLSConfig: &tls.Config{GetCertificate: func(*tls.ClientHelloInfo) (*tls.Certificate, error) { return &cert, nil }}}
	case "configforclient":
		cfg = &lime.WebsocketConfig{TLSConfig: &tls.Config{GetConfigForClient: func(*tls.ClientHelloInfo) (*tls.Config, error) { return sc, nil }}}
	}
	l := lime.NewWebsocketTransportListener(cfg)
	addr, err := freeTCPAddr()
	if err != nil {
		return nil, err
	}
	ctx, cancel := context.WithTimeout(context.Background(), 10*time.Second)
	defer cancel()
	if err := l.Listen(ctx, addr); err != nil {
		return nil, err
	}
	defer l.Close()
	time.Sleep(5 * time.Millisecond)
	try := func(url string, ccfg *tls.Config) (bool, string) {
		dctx, dc := context.WithTimeout(ctx, 700*time.Millisecond)
		defer dc()
		var ct lime.Transport
		var err error
		for i := 0; i < 5; i++ {
			ct, err = lime.DialWebsocket(dctx, url, nil, ccfg)
			if err == nil {
				break
			}
			time.Sleep(20 * time.Millisecond)
		}
		if err != nil {
			return false, ""
		}
		defer ct.Close()
		actx, ac := context.WithTimeout(ctx, time.Second)
		defer ac()
		st, err := l.Accept(actx)
		if err != nil {
			return true, "?"
		}
		defer st.Close()
		return true, string(st.Encryption())
	}
	c.PlainOK, c.PlainEnc = try(fmt.Sprintf("ws://127.0.0.1:%d", addr.Port), nil)
	c.TLSOK, c.TLSEnc = try(fmt.Sprintf("wss://localhost:%d", addr.Port), cc)
	return c, nil
}

func addWsListenerCases(env *Env) error {
	for _, shape := range []string{"none", "certs", "getcert", "configforclient"} {
		c, err := runWsListenerCase(shape)
		if err != nil {
			return err
		}
		env.Add("(KWsL "+c.coq()+")", c)
		env.Count("ws-listener:" + shape)
		env.NonTrivial("ws-listener:" + shape)
	}
	return nil
}
