package main

// Generators for abstract envelopes, documents and JSON trees (C01, C02, C11),
// and the real receive paths used to observe decoding.

import (
	"context"
	"encoding/json"
	"fmt"
	"math/rand"
	"net/http"
	"sync"
	"time"

	"github.com/gorilla/websocket"
	lime "github.com/takenet/lime-go"
	"verifharness/memconn"
)

var strPool = []string{"", "a", "x y", "é", "日本", `"q"`, `back\slash`, "<>&", " ", "😀", "tab\t", "nl\n",
	"a@b", "a/b", "a+b", "%41", "null", "0", " ", "Ünï", "\x7f", "{}", "[", "long-long-long-long-long-value"}
var cleanPool = []string{"", "a", "bob", "x y", "é", "日本", "q'", "<>&", "😀", "%41", "dom.com", "i-1", "Ünï", "0"}

type gen struct{ rng *rand.Rand }

func (g *gen) pick(p []string) string { return p[g.rng.Intn(len(p))] }
func (g *gen) str() string            { return g.pick(strPool) }

// node: wf=true avoids the separators the address grammar reserves.
func (g *gen) node(wf bool) ANode {
	if g.rng.Intn(4) == 0 {
		return ANode{}
	}
	p := cleanPool
	if !wf {
		p = strPool
	}
	return ANode{g.pick(p), g.pick(p), g.pick(p)}
}

func (g *gen) meta() [][2]string {
	n := g.rng.Intn(3)
	m := map[string]string{}
	for i := 0; i < n; i++ {
		m[g.str()] = g.str()
	}
	return metaOf(m)
}

func (g *gen) reason() *AReason {
	switch g.rng.Intn(4) {
	case 0:
		return nil
	case 1:
		return &AReason{0, ""}
	}
	codes := []int64{0, 1, 42, -7, 9223372036854775807, -9223372036854775808}
	return &AReason{codes[g.rng.Intn(len(codes))], g.str()}
}

var textMTs = []AMT{{"text", "plain", ""}, {"text", "unknown", ""}, {"application", "x-foo", ""}, {"a b", "ç", ""}, {"image", "png", "xml"}, {"", "x", ""}}
var jsonMTs = []AMT{{"application", "json", ""}, {"application", "vnd.foo", "json"}, {"x", "y", "json"}, {"", "", "json"}}

func mtForDoc(g *gen, d *ADoc) AMT {
	switch d.Kind {
	case "text":
		return textMTs[g.rng.Intn(len(textMTs))]
	case "json":
		return jsonMTs[g.rng.Intn(len(jsonMTs))]
	case "container":
		return AMT{"application", "vnd.lime.container", "json"}
	case "collection":
		return AMT{"application", "vnd.lime.collection", "json"}
	}
	return AMT{"application", "vnd.lime.ping", "json"}
}

func (g *gen) generic(depth int) interface{} {
	switch r := g.rng.Intn(9); {
	case r == 0:
		return nil
	case r == 1:
		return g.rng.Intn(2) == 0
	case r == 2:
		return float64(g.rng.Intn(2000) - 1000)
	case r == 3:
		return []float64{1.5, -0.25, 1e21, 3.0e-7}[g.rng.Intn(4)]
	case r <= 5 || depth <= 0:
		return g.str()
	case r == 6:
		n := g.rng.Intn(3)
		a := make([]interface{}, n)
		for i := range a {
			a[i] = g.generic(depth - 1)
		}
		return a
	default:
		return g.genericObj(depth - 1)
	}
}

func (g *gen) genericObj(depth int) map[string]interface{} {
	n := g.rng.Intn(4)
	m := map[string]interface{}{}
	for i := 0; i < n; i++ {
		m[g.str()] = g.generic(depth)
	}
	return m
}

// doc generates a well-formed document of nesting depth <= depth.
func (g *gen) doc(depth int) *ADoc {
	r := g.rng.Intn(10)
	if depth <= 1 && r >= 6 {
		r = g.rng.Intn(6)
	}
	switch {
	case r < 3:
		return &ADoc{Kind: "text", Text: g.str()}
	case r < 5:
		j, _ := canonicalJ(g.genericObj(2))
		return &ADoc{Kind: "json", JSON: &j}
	case r == 5:
		return &ADoc{Kind: "ping"}
	case r < 8:
		v := g.doc(depth - 1)
		return &ADoc{Kind: "container", MT: mtForDoc(g, v), Value: v}
	default:
		// a collection's items share one media type, hence one document kind
		proto := g.doc(depth - 1)
		mt := mtForDoc(g, proto)
		c := &ADoc{Kind: "collection", MT: mt}
		switch g.rng.Intn(4) {
		case 0: // nil items
		case 1:
			items := []ADoc{}
			c.Items = &items
		default:
			n := 1 + g.rng.Intn(3)
			items := make([]ADoc, 0, n)
			items = append(items, *proto)
			for i := 1; i < n; i++ {
				items = append(items, *g.docOfKind(proto.Kind, depth-1))
			}
			c.Items = &items
		}
		totals := []int64{0, 0, 1, 3, 1000000, -2}
		c.Total = totals[g.rng.Intn(len(totals))]
		return c
	}
}

func (g *gen) docOfKind(kind string, depth int) *ADoc {
	for i := 0; i < 200; i++ {
		d := g.doc(depth)
		if d.Kind == kind {
			return d
		}
	}
	switch kind {
	case "text":
		return &ADoc{Kind: "text", Text: "t"}
	case "json":
		j := JObj()
		return &ADoc{Kind: "json", JSON: &j}
	case "container":
		return &ADoc{Kind: "container", MT: AMT{"text", "plain", ""}, Value: &ADoc{Kind: "text", Text: "t"}}
	case "collection":
		return &ADoc{Kind: "collection", MT: AMT{"text", "plain", ""}}
	}
	return &ADoc{Kind: "ping"}
}

var uriPool = []string{"/ping", "/presence", "lime://name@domain.com/presence", "/a%20b?x=1&y=%C3%A9", "", "/contacts/a%40b", "lime://d.com/x#frag", "/é"}
var methods = []string{"get", "set", "delete", "subscribe", "unsubscribe", "observe", "merge"}
var events = []string{"accepted", "dispatched", "received", "consumed", "failed"}
var states = []string{"new", "negotiating", "authenticating", "established", "finishing", "finished", "failed"}

func normURI(s string) *string {
	u, err := lime.ParseLimeURI(s)
	if err != nil {
		return nil
	}
	p := u.String()
	return &p
}

// env generates a well-formed envelope of the kind; mask selects the optional parts
// (bit set = present). Bits: 0 id, 1 from, 2 pp, 3 to, 4 meta, 5.. kind-specific.
func (g *gen) env(kind string, mask int, depth int) *AEnv {
	e := &AEnv{Kind: kind}
	bit := func(i int) bool { return mask&(1<<uint(i)) != 0 }
	nz := func() ANode {
		for {
			n := g.node(true)
			if n != (ANode{}) {
				return n
			}
		}
	}
	if bit(0) {
		e.ID = g.pick(strPool[1:])
	}
	if bit(1) {
		e.From = nz()
	}
	if bit(2) {
		e.PP = nz()
	}
	if bit(3) {
		e.To = nz()
	}
	if bit(4) {
		e.Meta = [][2]string{{"k", g.str()}, {"z" + g.str(), "v"}}
		if e.Meta[0][0] > e.Meta[1][0] {
			e.Meta[0], e.Meta[1] = e.Meta[1], e.Meta[0]
		}
	}
	switch kind {
	case "msg":
		e.Doc = g.doc(depth)
		mt := mtForDoc(g, e.Doc)
		e.Type = &mt
	case "not":
		e.Event = g.pick(events)
		if bit(5) {
			e.Reason = &AReason{int64(g.rng.Intn(100)), g.str()}
		}
	case "req", "resp":
		e.Method = g.pick(methods)
		if bit(5) {
			e.Doc = g.doc(depth)
			mt := mtForDoc(g, e.Doc)
			e.Type = &mt
		}
		if kind == "req" {
			e.URI = normURI(g.pick(uriPool))
		} else {
			e.Status = []string{"success", "failure", "weird status"}[g.rng.Intn(3)]
			if bit(6) {
				e.Reason = &AReason{int64(g.rng.Intn(100)), g.str()}
			}
		}
	case "ses":
		e.State = g.pick(states)
		if bit(5) {
			e.EncOpts = []string{"none", "tls"}[:1+g.rng.Intn(2)]
		}
		if bit(6) {
			e.Enc = []string{"none", "tls", "rot13"}[g.rng.Intn(3)]
		}
		if bit(7) {
			e.CompOpts = []string{"none", "gzip"}[:1+g.rng.Intn(2)]
		}
		if bit(8) {
			e.Comp = []string{"none", "gzip"}[g.rng.Intn(2)]
		}
		if bit(9) {
			e.SchemeOpts = []string{"guest", "plain", "key", "transport", "external"}[:1+g.rng.Intn(5)]
		}
		if bit(10) {
			a := []*AAuth{{Scheme: "guest"}, {Scheme: "transport"}, {Scheme: "plain", A: g.str()}, {Scheme: "key", A: g.str()},
				{Scheme: "external", A: g.str(), B: g.str()}}[g.rng.Intn(5)]
			e.Auth = a
			e.Scheme = a.Scheme
		} else if bit(11) {
			e.Scheme = []string{"guest", "plain", "bogus"}[g.rng.Intn(3)]
		}
		if bit(12) {
			e.Reason = &AReason{int64(g.rng.Intn(100)), g.str()}
		}
	}
	return e
}

func optBits(kind string) int {
	switch kind {
	case "msg":
		return 5
	case "not", "req":
		return 6
	case "resp":
		return 7
	}
	return 13
}

// breakEnv makes a well-formed envelope ill-formed in one way (the property is silent there;
// model and implementation must still agree).
func (g *gen) breakEnv(e *AEnv) string {
	switch g.rng.Intn(9) {
	case 0:
		e.From = ANode{"a@b", "c/d", "e/f"}
		return "node-separators"
	case 1:
		if e.Type != nil {
			e.Type = &AMT{}
			return "zero-media-type"
		}
	case 2:
		if e.Kind == "msg" {
			e.Doc = nil
			return "message-without-content"
		}
	case 3:
		if e.Kind == "not" {
			e.Event = "bogus"
			return "invalid-event"
		}
		if e.Kind == "req" || e.Kind == "resp" {
			e.Method = "bogus"
			return "invalid-method"
		}
		if e.Kind == "ses" {
			e.State = "bogus"
			return "invalid-state"
		}
	case 4:
		if (e.Kind == "req" || e.Kind == "resp") && e.Doc != nil {
			e.Type = nil
			return "resource-without-type"
		}
	case 5:
		if (e.Kind == "req" || e.Kind == "resp") && e.Doc == nil {
			e.Type = &AMT{"text", "plain", ""}
			return "type-without-resource"
		}
	case 6:
		if e.Kind == "ses" && e.Auth != nil {
			e.Scheme = ""
			return "auth-without-scheme"
		}
		if e.Kind == "resp" {
			e.Status = ""
			return "response-without-status"
		}
		if e.Kind == "req" {
			e.URI = nil
			return "request-without-uri"
		}
	case 7:
		if e.Doc != nil && e.Type != nil {
			if e.Doc.Kind == "text" {
				e.Type = &AMT{"application", "json", ""}
			} else {
				e.Type = &AMT{"text", "plain", ""}
			}
			return "type-selects-other-factory"
		}
	case 8:
		if e.Kind == "not" || e.Kind == "ses" {
			e.Event, e.State = "", ""
			return "empty-enum"
		}
	}
	e.ID = ""
	return "none"
}

// ---------- receive paths ----------

// decodeViaTCP hands the bytes to the real TCP transport's Receive over an in-memory connection.
// One long-lived transport receives the envelopes of a run one after the other, as on a real
// connection (whatever the transport keeps between two Receive calls is part of what is observed);
// after an error the transport is replaced, since its decoder may be in a permanent error state.
var tcpPathMu sync.Mutex
var tcpPathConn *memconn.Conn
var tcpPathPeer *memconn.Conn
var tcpPathTransport lime.Transport

func decodeViaTCPFresh(b []byte) Res {
	c, s := memconn.Pipe(0)
	t := lime.NewTCPTransportOverConn(s, true, nil)
	_, _ = c.Write(b)
	c.CloseWrite()
	ctx, cancel := context.WithTimeout(context.Background(), 2*time.Second)
	defer cancel()
	defer c.Close()
	defer s.Close()
	return guard(func() Res {
		v, err := t.Receive(ctx)
		return resOf(v, err)
	})
}

func decodeViaTCP(b []byte) Res {
	if !json.Valid(b) {
		// byte-level inputs (truncations, concatenations, garbage) would leave bytes behind for the next case
		return decodeViaTCPFresh(b)
	}
	tcpPathMu.Lock()
	defer tcpPathMu.Unlock()
	if tcpPathTransport == nil {
		tcpPathConn, tcpPathPeer = memconn.Pipe(0)
		tcpPathTransport = lime.NewTCPTransportOverConn(tcpPathPeer, true, nil)
	}
	reset := func() {
		_ = tcpPathConn.Close()
		_ = tcpPathPeer.Close()
		tcpPathTransport = nil
	}
	_, _ = tcpPathConn.Write(append(append([]byte(nil), b...), '\n'))
	ctx, cancel := context.WithTimeout(context.Background(), 2*time.Second)
	defer cancel()
	t := tcpPathTransport
	failed := false
	r := guard(func() Res {
		v, err := t.Receive(ctx)
		failed = err != nil
		return resOf(v, err)
	})
	if failed || r.Tag != "ok" {
		// A rejected envelope need not end the connection (only a syntax error does): a well-known envelope is sent
		// behind it.  If it comes back as sent the transport stays in use; if Receive fails the stream is over; if it
		// comes back as something else, the rejected envelope has left something behind in the transport.
		_, _ = tcpPathConn.Write([]byte(`{"id":"probe","type":"text/plain","content":"p"}` + "\n"))
		pctx, pcancel := context.WithTimeout(context.Background(), time.Second)
		pr := guard(func() Res {
			v, err := t.Receive(pctx)
			return resOf(v, err)
		})
		pcancel()
		switch {
		case pr.Tag != "ok":
			reset()
		case pr.Coq() != tcpProbeTerm():
			tcpPathAnomalies = append(tcpPathAnomalies, tcpAnomaly{After: string(b), Got: pr})
			reset()
		}
	}
	return r
}

// tcpAnomaly: what the probe envelope came back as, after the given rejected input on the same connection
type tcpAnomaly struct {
	After string `json:"after_rejected_input"`
	Got   Res    `json:"probe_came_back_as"`
}

var tcpPathAnomalies []tcpAnomaly
var tcpProbeTermCache string

func tcpProbeTerm() string {
	if tcpProbeTermCache == "" {
		var m lime.Message
		_ = json.Unmarshal([]byte(`{"id":"probe","type":"text/plain","content":"p"}`), &m)
		tcpProbeTermCache = resOf(&m, nil).Coq()
	}
	return tcpProbeTermCache
}

// wsPath is a real WebSocket transport (server side) fed by a raw gorilla client.
type wsPath struct {
	mu     sync.Mutex
	l      lime.TransportListener
	client *websocket.Conn
	server lime.Transport
}

func newWSPath() (*wsPath, error) {
	p := &wsPath{}
	ctx, cancel := context.WithTimeout(context.Background(), 5*time.Second)
	defer cancel()
	p.l = lime.NewWebsocketTransportListener(nil)
	addr, err := freeTCPAddr()
	if err != nil {
		return nil, err
	}
	if err := p.l.Listen(ctx, addr); err != nil {
		return nil, err
	}
	d := websocket.Dialer{}
	h := http.Header{"Sec-WebSocket-Protocol": []string{"lime"}}
	for i := 0; i < 100; i++ {
		p.client, _, err = d.DialContext(ctx, fmt.Sprintf("ws://127.0.0.1:%d", addr.Port), h)
		if err == nil {
			break
		}
		time.Sleep(10 * time.Millisecond)
	}
	if err != nil {
		return nil, err
	}
	p.server, err = p.l.Accept(ctx)
	return p, err
}

func (p *wsPath) decode(b []byte) Res {
	p.mu.Lock()
	defer p.mu.Unlock()
	if err := p.client.WriteMessage(websocket.TextMessage, b); err != nil {
		return Res{Tag: "err", Msg: "ws write: " + err.Error()}
	}
	ctx, cancel := context.WithTimeout(context.Background(), 2*time.Second)
	defer cancel()
	return guard(func() Res {
		v, err := p.server.Receive(ctx)
		return resOf(v, err)
	})
}

func (p *wsPath) Close() {
	if p.client != nil {
		_ = p.client.Close()
	}
	if p.server != nil {
		_ = p.server.Close()
	}
	if p.l != nil {
		_ = p.l.Close()
	}
}
