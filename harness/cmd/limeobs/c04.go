package main

import (
	"bytes"
	"context"
	"fmt"
	"strings"
	"sync"
	"time"

	lime "github.com/takenet/lime-go"
	"verifharness/coqfmt"
)

func init() { register("C04", runC04) }

type c04Item struct {
	Kind int `json:"k"`
	Size int `json:"s"`
}

type c04Case struct {
	Transport string      `json:"transport"`
	Buffer    int         `json:"buffer"`
	Direction string      `json:"direction"` // c2s s2c
	DelayUS   int         `json:"consumer_delay_us"`
	Work      [][]c04Item `json:"work"`
	Delivered [4][][2]int `json:"delivered"`
	Overlap   bool        `json:"overlap"`
	Note      string      `json:"note,omitempty"`
	// Impatient: some senders used contexts that expire while they wait for their turn or while they write; Work
	// then lists, per sender, only the envelopes whose send reported success
	// Consumer: how the receiving side takes the envelopes: "" = reads of the four inbound streams; "mux" = an EnvelopeMux
	// dispatch loop with a handler per kind; "muxrestart" = the same loop cancelled and started again every few
	// hundred microseconds (an envelope is either handled or still in its stream)
	Consumer  string `json:"consumer,omitempty"`
	Impatient bool   `json:"impatient,omitempty"`
	Attempts  []int  `json:"attempts,omitempty"` // per sender: sends attempted
}

func (c *c04Case) Coq() string {
	work := make([]string, len(c.Work))
	for i, w := range c.Work {
		ks := make([]int, len(w))
		for j, it := range w {
			ks[j] = it.Kind
		}
		work[i] = coqfmt.Nats(ks)
	}
	del := make([]string, 4)
	for k := 0; k < 4; k++ {
		items := make([]string, len(c.Delivered[k]))
		for i, p := range c.Delivered[k] {
			items[i] = coqfmt.Tuple(coqfmt.Nat(p[0]), coqfmt.Nat(p[1]))
		}
		del[k] = coqfmt.List(items)
	}
	return coqfmt.Record("w_work", coqfmt.List(work), "o_delivered", coqfmt.List(del), "o_overlap", coqfmt.Bool(c.Overlap))
}

func c04Envelope(t, seq int, it c04Item) interface{} {
	id := fmt.Sprintf("t%d-%d", t, seq)
	payload := strings.Repeat("x", it.Size)
	switch it.Kind {
	case 0:
		return textMessage(id, payload)
	case 1:
		n := &lime.Notification{Event: lime.NotificationEventReceived}
		n.ID = id
		n.Metadata = map[string]string{"p": payload}
		return n
	case 2:
		r := &lime.RequestCommand{}
		r.ID = id
		r.Method = lime.CommandMethodSet
		r.SetURIString("/r")
		r.SetResource(lime.TextDocument(payload))
		return r
	}
	r := &lime.ResponseCommand{Status: lime.CommandStatusSuccess}
	r.ID = id
	r.Method = lime.CommandMethodSet
	r.SetResource(lime.TextDocument(payload))
	return r
}

type c04Receiver interface {
	MsgChan() <-chan *lime.Message
	NotChan() <-chan *lime.Notification
	ReqCmdChan() <-chan *lime.RequestCommand
	RespCmdChan() <-chan *lime.ResponseCommand
}

// consume drains the four inbound streams of r, recording (sender, seq) per kind; a corrupted
// envelope gets sequence number 999999.
func consume(r c04Receiver, work [][]c04Item, delay time.Duration, out *[4][][2]int, mu *sync.Mutex, stop <-chan struct{}) {
	rec := func(kind int, id string, payload string) {
		var t, seq int
		if _, err := fmt.Sscanf(id, "t%d-%d", &t, &seq); err != nil {
			t, seq = 999999, 999999
		} else if t < len(work) && seq < len(work[t]) {
			if work[t][seq].Kind != kind || len(payload) != work[t][seq].Size || strings.Trim(payload, "x") != "" {
				seq = 999999
			}
		}
		mu.Lock()
		out[kind] = append(out[kind], [2]int{t, seq})
		mu.Unlock()
		if delay > 0 {
			time.Sleep(delay)
		}
	}
	for {
		select {
		case <-stop:
			return
		case m, ok := <-r.MsgChan():
			if !ok {
				return
			}
			rec(0, m.ID, docText(m.Content))
		case n, ok := <-r.NotChan():
			if !ok {
				return
			}
			rec(1, n.ID, n.Metadata["p"])
		case q, ok := <-r.ReqCmdChan():
			if !ok {
				return
			}
			rec(2, q.ID, docText(q.Resource))
		case q, ok := <-r.RespCmdChan():
			if !ok {
				return
			}
			rec(3, q.ID, docText(q.Resource))
		}
	}
}

// consumeMux takes the envelopes through a real EnvelopeMux dispatch loop (ListenServer / ListenClient).
func consumeMux(srv *lime.ServerChannel, cli *lime.ClientChannel, work [][]c04Item, delay time.Duration, restart bool, out *[4][][2]int, mu *sync.Mutex, stop <-chan struct{}) {
	rec := func(kind int, id string, payload string) {
		var t, seq int
		if _, err := fmt.Sscanf(id, "t%d-%d", &t, &seq); err != nil {
			t, seq = 999999, 999999
		} else if t < len(work) && seq < len(work[t]) {
			if work[t][seq].Kind != kind || len(payload) != work[t][seq].Size || strings.Trim(payload, "x") != "" {
				seq = 999999
			}
		}
		mu.Lock()
		out[kind] = append(out[kind], [2]int{t, seq})
		mu.Unlock()
		if delay > 0 {
			time.Sleep(delay)
		}
	}
	mux := &lime.EnvelopeMux{}
	mux.MessageHandlerFunc(nil, func(ctx context.Context, m *lime.Message, s lime.Sender) error {
		rec(0, m.ID, docText(m.Content))
		return nil
	})
	mux.NotificationHandlerFunc(nil, func(ctx context.Context, n *lime.Notification) error {
		rec(1, n.ID, n.Metadata["p"])
		return nil
	})
	mux.RequestCommandHandlerFunc(nil, func(ctx context.Context, q *lime.RequestCommand, s lime.Sender) error {
		rec(2, q.ID, docText(q.Resource))
		return nil
	})
	mux.ResponseCommandHandlerFunc(nil, func(ctx context.Context, q *lime.ResponseCommand, s lime.Sender) error {
		rec(3, q.ID, docText(q.Resource))
		return nil
	})
	// a second handler of every kind that accepts everything as well, registered behind the first (the usual layout:
	// a specific handler, then a catch-all): the first one took the envelope, so this one is never handed it - if
	// it is, the envelope was delivered twice
	mux.MessageHandlerFunc(nil, func(ctx context.Context, m *lime.Message, s lime.Sender) error {
		rec(0, m.ID, docText(m.Content))
		return nil
	})
	mux.NotificationHandlerFunc(nil, func(ctx context.Context, n *lime.Notification) error {
		rec(1, n.ID, n.Metadata["p"])
		return nil
	})
	mux.RequestCommandHandlerFunc(nil, func(ctx context.Context, q *lime.RequestCommand, s lime.Sender) error {
		rec(2, q.ID, docText(q.Resource))
		return nil
	})
	mux.ResponseCommandHandlerFunc(nil, func(ctx context.Context, q *lime.ResponseCommand, s lime.Sender) error {
		rec(3, q.ID, docText(q.Resource))
		return nil
	})
	for round := 0; ; round++ {
		select {
		case <-stop:
			return
		default:
		}
		ctx, cancel := context.WithCancel(context.Background())
		done := make(chan struct{})
		go func() {
			defer close(done)
			if srv != nil {
				_ = mux.ListenServer(ctx, srv)
			} else {
				_ = mux.ListenClient(ctx, cli)
			}
		}()
		var pause <-chan time.Time
		if restart {
			pause = time.After(time.Duration(150+97*(round%7)) * time.Microsecond)
		}
		select {
		case <-stop:
			cancel()
			<-done
			return
		case <-pause:
			cancel()
			<-done
		case <-done:
			cancel()
			if !restart {
				return
			}
			time.Sleep(200 * time.Microsecond)
		}
	}
}

// runC04Pair runs both directions at once on one established pair.
func runC04Pair(transport string, buffer int, delayUS int, workC2S, workS2C [][]c04Item) ([]*c04Case, error) {
	return runC04PairWith(transport, buffer, delayUS, workC2S, workS2C, "")
}

func runC04PairWith(transport string, buffer int, delayUS int, workC2S, workS2C [][]c04Item, consumer string) ([]*c04Case, error) {
	p, err := EstablishedPair(transport, buffer)
	if err != nil {
		return nil, err
	}
	defer p.Close()
	c2s := &c04Case{Transport: transport, Buffer: buffer, Direction: "c2s", DelayUS: delayUS, Work: workC2S, Consumer: consumer}
	s2c := &c04Case{Transport: transport, Buffer: buffer, Direction: "s2c", DelayUS: delayUS, Work: workS2C, Consumer: consumer}
	var mu sync.Mutex
	badWrite := false
	check := func(b []byte) {
		if bytes.Count(b, []byte("\n")) != 1 || !bytes.HasSuffix(b, []byte("\n")) {
			badWrite = true
		}
	}
	if p.MemC != nil && transport == "mem" {
		p.MemC.OnWrite = check
		p.MemS.OnWrite = check
	}
	stop := make(chan struct{})
	delay := time.Duration(delayUS) * time.Microsecond
	if consumer == "" {
		go consume(p.Server, workC2S, delay, &c2s.Delivered, &mu, stop)
		go consume(p.Client, workS2C, delay, &s2c.Delivered, &mu, stop)
	} else {
		go consumeMux(p.Server, nil, workC2S, delay, consumer == "muxrestart", &c2s.Delivered, &mu, stop)
		go consumeMux(nil, p.Client, workS2C, delay, consumer == "muxrestart", &s2c.Delivered, &mu, stop)
	}
	var wg sync.WaitGroup
	sendAll := func(s anySender, work [][]c04Item, c *c04Case) {
		for t := range work {
			t := t
			wg.Add(1)
			go func() {
				defer wg.Done()
				ctx, cancel := context.WithTimeout(context.Background(), 20*time.Second)
				defer cancel()
				for seq, it := range work[t] {
					if err := sendAny(ctx, s, c04Envelope(t, seq, it)); err != nil {
						mu.Lock()
						c.Note = "send failed: " + err.Error()
						mu.Unlock()
						return
					}
				}
			}()
		}
	}
	sendAll(p.Client, workC2S, c2s)
	sendAll(p.Server, workS2C, s2c)
	wg.Wait()
	total := func(w [][]c04Item) int {
		n := 0
		for _, x := range w {
			n += len(x)
		}
		return n
	}
	count := func(c *c04Case) int {
		mu.Lock()
		defer mu.Unlock()
		return len(c.Delivered[0]) + len(c.Delivered[1]) + len(c.Delivered[2]) + len(c.Delivered[3])
	}
	if !waitUntil(10*time.Second, func() bool { return count(c2s) >= total(workC2S) && count(s2c) >= total(workS2C) }) {
		c2s.Note += " not everything was delivered in time"
	}
	time.Sleep(3 * time.Millisecond) // a duplicate would surface now
	close(stop)
	mu.Lock()
	if p.MemC != nil && transport == "mem" {
		c2s.Overlap = p.MemC.Overlap || badWrite
		s2c.Overlap = p.MemS.Overlap || badWrite
	}
	mu.Unlock()
	return []*c04Case{c2s, s2c}, nil
}

// runC04Impatient: a connection with small buffers and a slow reader, so that writers stall in the middle of an
// envelope; two senders with long contexts and large envelopes, and several senders whose contexts expire after
// 0.2-2 ms (while they wait for their turn, or while they write).  A send that fails may leave the TCP transport
// unusable (a stated assumption of C12), so the case keeps, per sender, the envelopes whose send reported
// success: exactly those must be delivered, in order, intact - and no two writes may ever overlap.
func runC04Impatient(seed int64) (*c04Case, error) {
	p, err := EstablishedPair("memb", 1)
	if err != nil {
		return nil, err
	}
	defer p.Close()
	c := &c04Case{Transport: "memb", Buffer: 1, Direction: "c2s", DelayUS: 150, Impatient: true}
	var mu sync.Mutex
	badWrite := false
	p.MemC.OnWrite = func(b []byte) {
		if bytes.Count(b, []byte("\n")) > 1 {
			mu.Lock()
			badWrite = true
			mu.Unlock()
		}
	}
	const patient, impatient = 2, 4
	n := patient + impatient
	plan := make([][]c04Item, n)
	for t := 0; t < n; t++ {
		for i := 0; i < 6+int(seed+int64(t))%5; i++ {
			size := 20
			if t < patient {
				size = 9000 + 3000*((int(seed)+t+i)%4)
			}
			if seed%2 == 1 && t == patient && i == 2 {
				// an impatient sender with an envelope several times the connection's buffer: its context ends in the
				// middle of the write, part of the envelope is on the wire for good
				size = 30000
			}
			plan[t] = append(plan[t], c04Item{Kind: (t + i) % 4, Size: size})
		}
	}
	var delivered [4][][2]int
	stop := make(chan struct{})
	go consume(p.Server, plan, 150*time.Microsecond, &delivered, &mu, stop)
	okSent := make([][]int, n) // per sender: attempt numbers whose send reported success
	attempts := make([]int, n)
	var wg sync.WaitGroup
	for t := 0; t < n; t++ {
		t := t
		wg.Add(1)
		go func() {
			defer wg.Done()
			for seq, it := range plan[t] {
				d := 20 * time.Second
				if t >= patient {
					d = time.Duration(200+300*((int(seed)+t+seq)%7)) * time.Microsecond
					time.Sleep(time.Duration(100*((t+seq)%5)) * time.Microsecond)
				}
				ctx, cancel := context.WithTimeout(context.Background(), d)
				err := sendAny(ctx, p.Client, c04Envelope(t, seq, it))
				cancel()
				mu.Lock()
				attempts[t]++
				if err == nil {
					okSent[t] = append(okSent[t], seq)
				}
				mu.Unlock()
				if err != nil && t < patient {
					return
				}
			}
		}()
	}
	wg.Wait()
	total := 0
	for t := range okSent {
		total += len(okSent[t])
	}
	count := func() int {
		mu.Lock()
		defer mu.Unlock()
		k := 0
		for kind := 0; kind < 4; kind++ {
			for _, d := range delivered[kind] {
				for _, s := range okSent[d[0]%n] {
					if d[0] < n && s == d[1] {
						k++
					}
				}
			}
		}
		return k
	}
	if !waitUntil(5*time.Second, func() bool { return count() >= total }) {
		c.Note = "not everything that was reported sent was delivered in time"
	}
	time.Sleep(3 * time.Millisecond)
	close(stop)
	mu.Lock()
	defer mu.Unlock()
	// renumber: the case talks about the envelopes that were reported sent
	c.Work = make([][]c04Item, n)
	index := make([]map[int]int, n)
	for t := 0; t < n; t++ {
		index[t] = map[int]int{}
		for i, seq := range okSent[t] {
			index[t][seq] = i
			c.Work[t] = append(c.Work[t], plan[t][seq])
		}
	}
	for kind := 0; kind < 4; kind++ {
		for _, d := range delivered[kind] {
			if d[0] < n {
				if i, ok := index[d[0]][d[1]]; ok {
					c.Delivered[kind] = append(c.Delivered[kind], [2]int{d[0], i})
					continue
				}
				if d[1] != 999999 && d[1] < len(plan[d[0]]) {
					continue // delivered although its send reported an error: allowed
				}
			}
			c.Delivered[kind] = append(c.Delivered[kind], [2]int{d[0], 999999})
		}
	}
	c.Overlap = p.MemC.Overlap || badWrite
	c.Attempts = attempts
	return c, nil
}

// runC04AfterDeadline: one side sends with a context that has a short deadline (the send succeeds at once); the
// deadline then passes while the session is idle; then the other side sends: everything must still arrive.
func runC04AfterDeadline(transport string) (*c04Case, error) {
	p, err := EstablishedPair(transport, 4)
	if err != nil {
		return nil, err
	}
	defer p.Close()
	work := [][]c04Item{{{Kind: 0, Size: 10}, {Kind: 1, Size: 10}, {Kind: 0, Size: 300}, {Kind: 2, Size: 10}, {Kind: 3, Size: 5}}}
	c := &c04Case{Transport: transport, Buffer: 4, Direction: "s2c", Work: work, Consumer: "after-deadline"}
	var mu sync.Mutex
	stop := make(chan struct{})
	go consume(p.Client, work, 0, &c.Delivered, &mu, stop)
	// drain what the client sends
	go func() {
		for {
			select {
			case <-stop:
				return
			case <-p.Server.MsgChan():
			}
		}
	}()
	sctx, cancel := context.WithTimeout(context.Background(), 60*time.Millisecond)
	if err := p.Client.SendMessage(sctx, textMessage("pre", "x")); err != nil {
		c.Note = "the first send failed: " + err.Error()
	}
	cancel()
	time.Sleep(150 * time.Millisecond)
	for seq, it := range work[0] {
		ctx, cc := context.WithTimeout(context.Background(), 5*time.Second)
		if err := sendAny(ctx, p.Server, c04Envelope(0, seq, it)); err != nil {
			c.Note += " send failed: " + err.Error()
		}
		cc()
		time.Sleep(20 * time.Millisecond)
	}
	waitUntil(3*time.Second*slack, func() bool {
		mu.Lock()
		defer mu.Unlock()
		return len(c.Delivered[0])+len(c.Delivered[1])+len(c.Delivered[2])+len(c.Delivered[3]) >= len(work[0])
	})
	close(stop)
	mu.Lock()
	defer mu.Unlock()
	cp := *c
	return &cp, nil
}

func runC04(env *Env) error {
	env.Header = "From Coq Require Import List.\nImport ListNotations.\nFrom Lime Require Import Base.Res Chan.Pipeline Corr.C04."
	env.ShardSize = 40
	env.Rule = "real established pairs over in-process, TCP over an injected connection (Write calls monitored for overlap and for carrying exactly one envelope), TCP and TCP+TLS over loopback, WebSocket and secure WebSocket; PRNG workloads (4 kinds, payloads 0 B to 40 kB (quick) / 200 kB (thorough)), both directions at once, 1-8 sender goroutines per side, channel/transport buffers 0, 1, 2, 64, consumer delays 0-300 us, the receiving side reading its four streams, or running an EnvelopeMux dispatch loop, or a dispatch loop that is cancelled and started again every few hundred microseconds; plus runs over a connection with 8 kB buffers and a slow reader where, next to two patient senders of large envelopes, four senders use contexts that expire after 0.2-2 ms (while waiting for their turn or while writing): exactly the envelopes whose send reported success must arrive, and writes must never overlap; and sessions left idle past the deadline of an earlier, successful send before the other side sends. Non-trivial: at least two senders or a buffer of at most one slot. Distinct by (transport, buffer, workload)."
	rng := env.Rng
	var rc c04Case
	if ok, err := env.ReplayDesc(&rc); err != nil {
		return err
	} else if ok && rc.Consumer == "after-deadline" {
		c, err := runC04AfterDeadline(rc.Transport)
		if err != nil {
			return err
		}
		env.Add(c.Coq(), c)
		return nil
	} else if ok && rc.Impatient {
		for i := int64(0); i < 20; i++ {
			c, err := runC04Impatient(i)
			if err != nil {
				return err
			}
			env.Add(c.Coq(), c)
		}
		return nil
	} else if ok {
		cs, err := runC04PairWith(rc.Transport, rc.Buffer, rc.DelayUS, rc.Work, rc.Work, rc.Consumer)
		if err != nil {
			return err
		}
		env.Add(cs[0].Coq(), cs[0])
		env.Add(cs[1].Coq(), cs[1])
		return nil
	}
	transports := []string{"inproc", "mem", "tcp", "memtls", "ws", "wss", "tcptls"}
	buffers := []int{0, 1, 2, 64}
	maxSize := env.Pick(40000, 200000)
	genWork := func(senders, per int) [][]c04Item {
		w := make([][]c04Item, senders)
		for t := range w {
			for i := 0; i < per; i++ {
				size := 0
				switch rng.Intn(6) {
				case 0:
					size = rng.Intn(maxSize)
				case 1, 2:
					size = rng.Intn(2000)
				default:
					size = rng.Intn(40)
				}
				w[t] = append(w[t], c04Item{Kind: rng.Intn(4), Size: size})
			}
		}
		return w
	}
	for i := 0; i < env.Pick(20, 200); i++ {
		c, err := runC04Impatient(int64(i))
		if err != nil {
			return fmt.Errorf("impatient: %w", err)
		}
		env.Add(c.Coq(), c)
		env.Count("impatient-senders")
		ok := 0
		for _, w := range c.Work {
			ok += len(w)
		}
		env.Count(fmt.Sprintf("impatient:reported-sent=%d", ok/10*10))
		if c.Note != "" {
			env.Count("note=" + strings.TrimSpace(c.Note))
		}
		env.NonTrivial(c.Coq())
	}
	for _, tr := range []string{"inproc", "mem", "tcp", "memtls", "ws", "wss"} {
		c, err := runC04AfterDeadline(tr)
		if err != nil {
			return fmt.Errorf("after-deadline/%s: %w", tr, err)
		}
		env.Add(c.Coq(), c)
		env.Count("idle-past-the-deadline-of-an-earlier-send")
		env.NonTrivial(c.Coq())
	}
	runs := env.Pick(26, 160)
	for i := 0; i < runs; i++ {
		transport := transports[i%len(transports)]
		buffer := buffers[(i/len(transports)+i)%len(buffers)]
		senders := 1 + rng.Intn(8)
		per := 3 + rng.Intn(env.Pick(12, 40))
		delay := []int{0, 0, 50, 300}[rng.Intn(4)]
		consumer := []string{"", "mux", "muxrestart"}[(i/2)%3]
		cs, err := runC04PairWith(transport, buffer, delay, genWork(senders, per), genWork(1+rng.Intn(4), per), consumer)
		if err != nil {
			return fmt.Errorf("%s/%d: %w", transport, buffer, err)
		}
		for _, c := range cs {
			env.Add(c.Coq(), c)
			env.Count("transport=" + c.Transport)
			env.Count(fmt.Sprintf("buffer=%d", c.Buffer))
			env.Count(fmt.Sprintf("senders=%d", len(c.Work)))
			env.Count("consumer=" + map[string]string{"": "streams", "mux": "dispatch-loop", "muxrestart": "dispatch-loop-restarted"}[c.Consumer])
			if c.Note != "" {
				env.Count("note=" + strings.TrimSpace(c.Note))
			}
			if len(c.Work) >= 2 || c.Buffer <= 1 {
				env.NonTrivial(c.Coq())
			}
		}
	}
	return nil
}
