package main

// The WebSocket receive path in a process of its own: websocketTransport.Receive decodes inside a goroutine it
// starts itself, so a panic there cannot be recovered by the caller - it ends the process.  The parent feeds the
// child one input per line and takes a dead child for what it is: the input crashed the process.

import (
	"bufio"
	"context"
	"encoding/base64"
	"encoding/json"
	"fmt"
	lime "github.com/takenet/lime-go"
	"io"
	"os"
	"os/exec"
	"strings"
	"sync"
	"time"
	"verifharness/memconn"
)

func wsDecodeChild(args []string) {
	in := bufio.NewReaderSize(os.Stdin, 1<<20)
	out := bufio.NewWriter(os.Stdout)
	var p *wsPath
	for {
		line, err := in.ReadString('\n')
		if err != nil {
			return
		}
		b, err := base64.StdEncoding.DecodeString(strings.TrimSpace(line))
		if err != nil {
			continue
		}
		if p == nil {
			if p, err = newWSPath(); err != nil {
				j, _ := json.Marshal(wsRes{Tag: "unsupported", Msg: "ws path: " + err.Error()})
				_, _ = out.Write(append(j, '\n'))
				_ = out.Flush()
				p = nil
				continue
			}
		}
		r := p.decode(b)
		if r.Tag == "err" && (strings.Contains(r.Msg, "deadline") || strings.Contains(r.Msg, "ws write") || strings.Contains(r.Msg, "closed") || strings.Contains(r.Msg, "timeout")) {
			p.Close()
			p = nil
		}
		j, _ := json.Marshal(wsRes{Tag: r.Tag, Msg: r.Msg, Term: r.Coq()})
		_, _ = out.Write(append(j, '\n'))
		_ = out.Flush()
	}
}

func init() { childCmds["wsdecode"] = wsDecodeChild }

// wsRes is a decode result as it crosses the process boundary: the Gallina term is printed by the child, so that
// nothing is lost to a second JSON encoding.
type wsRes struct {
	Tag  string `json:"tag"`
	Msg  string `json:"msg,omitempty"`
	Term string `json:"term"`
}

type wsIsolated struct {
	mu     sync.Mutex
	cmd    *exec.Cmd
	stdin  io.WriteCloser
	out    *bufio.Reader
	errbuf *strings.Builder
	Deaths int
}

func (w *wsIsolated) start() error {
	w.cmd = exec.Command(os.Args[0], "child", "wsdecode")
	w.cmd.Env = os.Environ()
	var err error
	if w.stdin, err = w.cmd.StdinPipe(); err != nil {
		return err
	}
	so, err := w.cmd.StdoutPipe()
	if err != nil {
		return err
	}
	w.errbuf = &strings.Builder{}
	w.cmd.Stderr = w.errbuf
	w.out = bufio.NewReaderSize(so, 1<<20)
	return w.cmd.Start()
}

func (w *wsIsolated) stop() {
	if w.cmd != nil {
		_ = w.stdin.Close()
		done := make(chan struct{})
		go func() { _ = w.cmd.Wait(); close(done) }()
		select {
		case <-done:
		case <-time.After(2 * time.Second):
			_ = w.cmd.Process.Kill()
			<-done
		}
		w.cmd = nil
	}
}

// decode sends b as one text frame to a real WebSocket transport in the child and returns what Receive returned;
// a child that dies while decoding is reported as a panic.
func (w *wsIsolated) decode(b []byte) wsRes {
	w.mu.Lock()
	defer w.mu.Unlock()
	if w.cmd == nil {
		if err := w.start(); err != nil {
			return wsRes{Tag: "unsupported", Msg: err.Error()}
		}
	}
	if _, err := io.WriteString(w.stdin, base64.StdEncoding.EncodeToString(b)+"\n"); err != nil {
		w.stop()
		return wsRes{Tag: "unsupported", Msg: "child not writable: " + err.Error()}
	}
	type lineRes struct {
		s   string
		err error
	}
	ch := make(chan lineRes, 1)
	go func() { s, err := w.out.ReadString('\n'); ch <- lineRes{s, err} }()
	select {
	case lr := <-ch:
		if lr.err != nil {
			// the child is gone: the input ended the process
			_ = w.cmd.Wait()
			msg := w.errbuf.String()
			if len(msg) > 400 {
				msg = msg[:400]
			}
			w.cmd = nil
			w.Deaths++
			return wsRes{Tag: "panic", Term: "Panic", Msg: "the process receiving on the WebSocket transport died: " + msg}
		}
		var r wsRes
		if json.Unmarshal([]byte(lr.s), &r) != nil {
			return wsRes{Tag: "unsupported", Msg: "unreadable answer"}
		}
		return r
	case <-time.After(20 * time.Second):
		_ = w.cmd.Process.Kill()
		_ = w.cmd.Wait()
		w.cmd = nil
		return wsRes{Tag: "unsupported", Msg: "child did not answer"}
	}
}

// c02ConcurrentChild: several TCP transports receive, at the same time, envelopes whose documents have media types
// nobody has seen before (decoding untrusted bytes must not write to state shared between connections: a data race
// on a map ends the process with a fatal error that nothing can recover).  Prints "ok <n>" when it survived.
func c02ConcurrentChild(args []string) {
	const conns, per = 8, 400
	var wg sync.WaitGroup
	total := int64(0)
	var mu sync.Mutex
	for c := 0; c < conns; c++ {
		wg.Add(1)
		go func(c int) {
			defer wg.Done()
			cm, sm := memconn.Pipe(0)
			t := lime.NewTCPTransportOverConn(sm, true, nil)
			go func() {
				for i := 0; i < per; i++ {
					suffix := "+json"
					content := `{"a":1}`
					if i%3 == 0 {
						suffix, content = "", `"x"`
					}
					_, _ = cm.Write([]byte(fmt.Sprintf(`{"id":"m","type":"application/vnd.never.seen.c%dn%d%s","content":%s}`+"\n", c, i, suffix, content)))
				}
			}()
			n := 0
			for i := 0; i < per; i++ {
				ctx, cancel := context.WithTimeout(context.Background(), 2*time.Second)
				_, err := t.Receive(ctx)
				cancel()
				if err == nil {
					n++
				}
			}
			mu.Lock()
			total += int64(n)
			mu.Unlock()
			_ = cm.Close()
			_ = sm.Close()
		}(c)
	}
	wg.Wait()
	fmt.Printf("ok %d\n", total)
}

func init() { childCmds["c02conc"] = c02ConcurrentChild }

// runConcurrentDecoders runs the child; survived reports whether it printed its result.
func runConcurrentDecoders() (survived bool, detail string) {
	cmd := exec.Command(os.Args[0], "child", "c02conc")
	cmd.Env = os.Environ()
	var out, errb strings.Builder
	cmd.Stdout, cmd.Stderr = &out, &errb
	done := make(chan error, 1)
	if err := cmd.Start(); err != nil {
		return true, "could not start: " + err.Error()
	}
	go func() { done <- cmd.Wait() }()
	select {
	case <-done:
	case <-time.After(60 * time.Second):
		_ = cmd.Process.Kill()
		<-done
		return true, "timed out"
	}
	if strings.HasPrefix(out.String(), "ok ") {
		return true, strings.TrimSpace(out.String())
	}
	msg := errb.String()
	if len(msg) > 300 {
		msg = msg[:300]
	}
	return false, msg
}
