package main

import (
	"fmt"
	"strings"
)

func vs(state, id string, from, to int, enco, compo, scho []string, enc, comp string, round *int) SIn {
	return SIn{Kind: "ses", Ses: &VSes{State: state, ID: id, From: from, To: to, EncOpts: enco, CompOpts: compo, SchemeOpts: scho, Enc: enc, Comp: comp, Round: round}}
}

// every session state (regressions included), id variants, option lists (normal, empty, unknown),
// confirmations (matching, different, empty), scheme lists, round-trip data, data envelope, garbage, EOF
var clientAlphabet = []SIn{
	vs("negotiating", "S1", 9, 0, []string{"none", "tls"}, []string{"none"}, nil, "", "", nil), // 0 offer
	vs("negotiating", "S1", 9, 0, nil, nil, nil, "", "", nil),                                  // 1 offer without options / empty confirmation
	vs("negotiating", "S1", 9, 0, []string{"rot13"}, []string{"zip"}, nil, "", "", nil),        // 2 unknown options
	vs("negotiating", "S1", 9, 0, nil, nil, nil, "none", "none", nil),                          // 3 confirmation none/none
	vs("negotiating", "S1", 9, 0, nil, nil, nil, "tls", "none", nil),                           // 4 confirmation tls
	vs("negotiating", "S1", 9, 0, nil, nil, nil, "none", "gzip", nil),                          // 5 confirmation gzip
	vs("authenticating", "S1", 9, 0, nil, nil, []string{"plain", "guest"}, "", "", nil),        // 6
	vs("authenticating", "S1", 9, 0, nil, nil, nil, "", "", nil),                               // 7 no schemes
	vs("authenticating", "S1", 9, 0, nil, nil, nil, "", "", ip(7)),                             // 8 round trip
	vs("authenticating", "S2", 9, 0, nil, nil, []string{"key"}, "", "", nil),                   // 9 id changes
	vs("established", "S1", 9, 5, nil, nil, nil, "", "", nil),                                  // 10
	vs("established", "S2", 8, 6, nil, nil, nil, "", "", nil),                                  // 11
	vs("established", "", 0, 0, nil, nil, nil, "", "", nil),                                    // 12 no id, no nodes
	vs("finished", "S1", 9, 0, nil, nil, nil, "", "", nil),                                     // 13
	vs("failed", "S1", 9, 0, nil, nil, nil, "", "", nil),                                       // 14
	vs("new", "S1", 9, 0, nil, nil, nil, "", "", nil),                                          // 15 regression
	vs("finishing", "S1", 9, 0, nil, nil, nil, "", "", nil),                                    // 16
	vs("negotiating", "", 9, 0, []string{"tls"}, []string{"none"}, nil, "", "", nil),           // 17 offer without id
	vs("authenticating", "S2", 9, 0, nil, nil, nil, "", "", ip(9)),                             // a round trip under another session id
	vs("negotiating", "S1", 9, 0, nil, nil, nil, "rot13", "none", nil),                         // a confirmation of an encryption nobody knows
	// members that Model C does not look at: a failed envelope without its reason; an established one with a pp
	{Kind: "ses", Ses: &VSes{State: "failed", ID: "S1", From: 9, Bare: true}},
	{Kind: "ses", Ses: &VSes{State: "established", ID: "S1", From: 9, To: 5, PP: 4}},
	{Kind: "data"}, // 18
	{Kind: "bad"},  // 19
	{Kind: "eof"},  // 20
}

var clientConfs = []*CConf{
	{Name: "none/guest", CompSel: "none", EncSel: "none", Auth: "guest", Kind: "mem", TLSOk: true},
	{Name: "default/plain/tls", CompSel: "first", EncSel: "default", Auth: "plain1", Kind: "memtls", TLSOk: true},
	{Name: "first/byround", CompSel: "first", EncSel: "first", Auth: "byround", Kind: "mem", TLSOk: true},
	{Name: "const-tls/no-config", CompSel: "none", EncSel: "tls", Auth: "byround", Kind: "mem", TLSOk: true},
	{Name: "default/tls-fails", CompSel: "none", EncSel: "default", Auth: "guest", Kind: "memtls", TLSOk: false},
}

// configurations made by a real ClientBuilder (Model K)
var builtClientConfs = []*CConf{
	{Name: "built:guest", Kind: "mem", TLSOk: true, Builder: []KOp{{Op: "guest"}}},
	{Name: "built:tls+plain", Kind: "memtls", TLSOk: true, Builder: []KOp{{Op: "enc", Arg: "tls"}, {Op: "plain", N: 5}}},
	{Name: "built:none+key, overridden", Kind: "memtls", TLSOk: true, Builder: []KOp{{Op: "plain", N: 3}, {Op: "enc", Arg: "tls"}, {Op: "key", N: 4}, {Op: "enc", Arg: "none"}, {Op: "comp", Arg: "none"}}},
	{Name: "built:defaults+external", Kind: "memtls", TLSOk: true, Builder: []KOp{{Op: "external", N: 7}}},
	{Name: "built:gzip+transport", Kind: "mem", TLSOk: true, Builder: []KOp{{Op: "comp", Arg: "gzip"}, {Op: "transport"}, {Op: "guest"}, {Op: "transport"}}},
}

func init() {
	register("C08", func(env *Env) error {
		env.Header = "From Coq Require Import List String.\nImport ListNotations.\nOpen Scope string_scope.\nFrom Lime Require Import Base.Res Hs.Types Hs.Client Hs.ClientBuilder Corr.C08."
		env.ShardSize = 250
		env.Rule = "every server script up to the depth bound over a 23-letter alphabet (every session state incl. regressions, id variants, offers with normal/empty/unknown options, matching/different/empty/unknown confirmations, scheme lists, round-trip data, data envelope, undecodable bytes, EOF), extended breadth-first while the client is still waiting (third level sampled 1 in 3 in the quick tier, fourth level 1 in 2 in the thorough tier), x client configurations (selector and authenticator choices incl. the library defaults and configurations made by sequences of calls on a real ClientBuilder, with/without TLS configuration, TLS handshake succeeding or not), against the real ClientChannel.EstablishSession over an injected in-memory TCP connection. Non-trivial: the client sent at least two envelopes. Distinct by (configuration, script)."
		var rc CCase
		if ok, err := env.ReplayDesc(&rc); err != nil {
			return err
		} else if ok {
			c := &CCase{Conf: rc.Conf, Script: rc.Script, Obs: runClientScript(rc.Conf, rc.Script)}
			if rc.Obs != nil && rc.Obs.Client != nil {
				p, pan := runClientEstablishIsolated(rc.Conf, rc.Script)
				c.Obs.Client = &p
				c.Obs.ClientPanic = pan
			}
			env.Add(c.Coq(), c)
			return nil
		}
		clientRuns, clientRunsMax := 0, env.Pick(60, 600)
		depth := env.Pick(3, 4)
		confs := append(append([]*CConf(nil), clientConfs[:env.Pick(3, len(clientConfs))]...), builtClientConfs[1:env.Pick(3, len(builtClientConfs))]...)
		for _, conf := range confs {
			level := [][]SIn{{}}
			for d := 1; d <= depth && len(level) > 0; d++ {
				var next [][]SIn
				for _, prefix := range level {
					for ai, a := range clientAlphabet {
						if !env.Thorough() && d == 3 && (ai+len(prefix[1].Kind)+len(next))%3 != 0 {
							continue // the third level is sampled in the quick tier
						}
						if env.Thorough() && d == 4 && (ai+len(prefix[1].Kind)+len(prefix[2].Kind)+len(next))%2 != 0 {
							continue // ... and the fourth level in the thorough tier (every other extension)
						}
						script := append(append([]SIn(nil), prefix...), a)
						obs := runClientScript(conf, script)
						// what the high-level Client makes of a handshake that returned a session without an error
						// (every such script that did not establish, and a sample of those that did)
						if conf.Kind == "mem" && strings.HasPrefix(obs.Out, "ret:") && (obs.Out != "ret:established" || clientRuns%7 == 0) && clientRuns < clientRunsMax {
							p, pan := runClientEstablishIsolated(conf, script)
							obs.Client = &p
							obs.ClientPanic = pan
							env.Count("client-establish")
						}
						if strings.HasPrefix(obs.Out, "ret:") {
							clientRuns++
						}
						c := &CCase{Conf: conf, Script: script, Obs: obs}
						env.Add(c.Coq(), c)
						env.Count(fmt.Sprintf("depth=%d", d))
						env.Count("out=" + obs.Out)
						sent := 0
						for _, e := range obs.Trace {
							if !e.Took {
								sent++
							}
						}
						if sent >= 2 {
							env.NonTrivial(c.Coq())
						}
						if obs.Out == "blocked" && a.Kind != "eof" {
							next = append(next, script)
						}
					}
				}
				level = next
			}
			env.Count("conf=" + conf.Name)
		}
		return nil
	})
}
