package main

// Scripted raw servers against the real ClientChannel.EstablishSession (C08, C09 client half).

import (
	"bufio"
	"context"
	"crypto/tls"
	"encoding/base64"
	"encoding/json"
	"fmt"
	"io"
	"net"
	"os"
	"os/exec"
	"strconv"
	"strings"
	"sync"
	"time"

	lime "github.com/takenet/lime-go"
	"verifharness/coqfmt"
	"verifharness/memconn"
)

type VSes struct {
	State      string   `json:"state"`
	ID         string   `json:"id"`
	From       int      `json:"from"`
	To         int      `json:"to"`
	EncOpts    []string `json:"encopts"`
	CompOpts   []string `json:"compopts"`
	SchemeOpts []string `json:"schemeopts"`
	Enc        string   `json:"enc"`
	Comp       string   `json:"comp"`
	Round      *int     `json:"round"`
	// on the wire only (Model C does not look at them): a failed envelope without its reason member; a pp member
	Bare bool `json:"bare,omitempty"`
	PP   int  `json:"pp,omitempty"`
}

type SIn struct {
	Kind string `json:"kind"` // ses data bad eof
	Ses  *VSes  `json:"ses,omitempty"`
}

func (s SIn) Coq() string {
	switch s.Kind {
	case "ses":
		v := s.Ses
		return coqfmt.App("VSes", coqfmt.Record("vs_state", coqState(v.State), "vs_id", coqfmt.Str(v.ID),
			"vs_from", coqfmt.Nat(v.From), "vs_to", coqfmt.Nat(v.To), "vs_encopts", coqfmt.Strs(v.EncOpts),
			"vs_compopts", coqfmt.Strs(v.CompOpts), "vs_schemeopts", coqfmt.Strs(v.SchemeOpts),
			"vs_enc", coqfmt.Str(v.Enc), "vs_comp", coqfmt.Str(v.Comp), "vs_round", optNat(v.Round)))
	case "data":
		return "VData"
	case "bad":
		return "VBad"
	}
	return "VEof"
}

func nodeTok(n int) string {
	if n == 0 {
		return ""
	}
	return fmt.Sprintf("n%d@verif.test/x%d", n, n)
}
func tokOfNode(n lime.Node) int {
	if n == (lime.Node{}) {
		return 0
	}
	return tokenOfName(n.Name)
}

func (s SIn) line() []byte {
	switch s.Kind {
	case "data":
		return []byte(`{"id":"d1","type":"text/plain","content":"hello"}` + "\n")
	case "bad":
		return []byte(`{"state":"bogus-state","id":5}` + "\n")
	}
	v := s.Ses
	m := map[string]interface{}{"state": v.State}
	if v.ID != "" {
		m["id"] = v.ID
	}
	if v.From != 0 {
		m["from"] = nodeTok(v.From)
	}
	if v.To != 0 {
		m["to"] = nodeTok(v.To)
	}
	if v.EncOpts != nil {
		m["encryptionOptions"] = v.EncOpts
	}
	if v.CompOpts != nil {
		m["compressionOptions"] = v.CompOpts
	}
	if v.SchemeOpts != nil {
		m["schemeOptions"] = v.SchemeOpts
	}
	if v.Enc != "" {
		m["encryption"] = v.Enc
	}
	if v.Comp != "" {
		m["compression"] = v.Comp
	}
	if v.Round != nil {
		m["scheme"] = "plain"
		m["authentication"] = map[string]string{"password": fmt.Sprintf("rt%d", *v.Round)}
	}
	if v.PP != 0 {
		m["pp"] = nodeTok(v.PP)
	}
	if v.State == "failed" && !v.Bare {
		m["reason"] = map[string]interface{}{"code": 1, "description": "scripted"}
	}
	b, _ := json.Marshal(m)
	return append(b, '\n')
}

// client configurations, as descriptors interpreted identically by Corr/C08.v
type CConf struct {
	Name    string `json:"name"`
	CompSel string `json:"comp_sel"` // none first tls
	EncSel  string `json:"enc_sel"`  // none default first tls
	Auth    string `json:"auth"`     // guest plain1 byround
	Kind    string `json:"kind"`     // mem memtls
	TLSOk   bool   `json:"tls_ok"`
	// Builder: when given, the selectors and the authenticator are those a real ClientBuilder holds after these calls
	// (CompSel, EncSel and Auth are then unused)
	Builder []KOp `json:"builder,omitempty"`
}

// KOp is one ClientBuilder call (Hs/ClientBuilder.v: kop).
type KOp struct {
	Op  string `json:"op"` // comp enc guest transport plain key external
	Arg string `json:"arg,omitempty"`
	N   int    `json:"n,omitempty"`
}

func (o KOp) Coq() string {
	switch o.Op {
	case "comp":
		return coqfmt.App("KComp", coqfmt.Str(o.Arg))
	case "enc":
		return coqfmt.App("KEnc", coqfmt.Str(o.Arg))
	case "guest":
		return "KGuest"
	case "transport":
		return "KTransport"
	case "plain":
		return coqfmt.App("KPlain", coqfmt.Nat(o.N))
	case "key":
		return coqfmt.App("KKey", coqfmt.Nat(o.N))
	}
	return coqfmt.App("KExternal", coqfmt.Nat(o.N))
}

// builderConfig makes the calls on a real ClientBuilder and returns the configuration it holds.
func builderConfig(ops []KOp) *lime.ClientConfig {
	b := lime.NewClientBuilder()
	for _, o := range ops {
		switch o.Op {
		case "comp":
			b.Compression(lime.SessionCompression(o.Arg))
		case "enc":
			b.Encryption(lime.SessionEncryption(o.Arg))
		case "guest":
			b.GuestAuthentication()
		case "transport":
			b.TransportAuthentication()
		case "plain":
			b.PlainAuthentication(fmt.Sprintf("c%d", o.N))
		case "key":
			b.KeyAuthentication(fmt.Sprintf("c%d", o.N))
		case "external":
			b.ExternalAuthentication(fmt.Sprintf("c%d", o.N), "iss")
		}
	}
	return b.VerifConfig()
}

// callbacks returns the selectors and the authenticator of the configuration.
func (c *CConf) callbacks() (lime.CompressionSelector, lime.EncryptionSelector, lime.Authenticator) {
	if len(c.Builder) > 0 {
		cfg := builderConfig(c.Builder)
		return cfg.CompSelector, cfg.EncryptSelector, cfg.Authenticator
	}
	return compSelector(c.CompSel), encSelector(c.EncSel), authenticatorOf(c.Auth)
}

func selCoq(s string) string {
	switch s {
	case "none":
		return "SelNone"
	case "default":
		return "SelDefaultEnc"
	case "first":
		return "SelFirst"
	}
	return "(SelConst " + coqfmt.Str(s) + ")"
}
func (c *CConf) Coq() string {
	auth := map[string]string{"guest": "AuGuest", "plain1": "AuPlain1", "byround": "AuByRound"}[c.Auth]
	kind := coqKind(c.Kind)
	if len(c.Builder) > 0 {
		ops := make([]string, len(c.Builder))
		for i, o := range c.Builder {
			ops[i] = o.Coq()
		}
		return coqfmt.App("built_desc", coqfmt.List(ops), kind, coqfmt.Bool(c.TLSOk))
	}
	return coqfmt.Record("cd_comp", selCoq(c.CompSel), "cd_enc", selCoq(c.EncSel), "cd_auth", auth,
		"cd_kind", kind, "cd_tls_ok", coqfmt.Bool(c.TLSOk))
}

func compSelector(s string) lime.CompressionSelector {
	def := lime.NewClientConfig()
	switch s {
	case "none":
		return lime.NoneCompressionSelector
	case "first":
		return def.CompSelector
	}
	return func([]lime.SessionCompression) lime.SessionCompression { return lime.SessionCompression(s) }
}
func encSelector(s string) lime.EncryptionSelector {
	def := lime.NewClientConfig()
	switch s {
	case "none":
		return lime.NoneEncryptionSelector
	case "default":
		return def.EncryptSelector
	case "first":
		return func(o []lime.SessionEncryption) lime.SessionEncryption {
			if len(o) == 0 {
				return lime.SessionEncryptionNone
			}
			return o[0]
		}
	}
	return func([]lime.SessionEncryption) lime.SessionEncryption { return lime.SessionEncryption(s) }
}
func authenticatorOf(s string) lime.Authenticator {
	switch s {
	case "guest":
		return lime.GuestAuthenticator
	case "plain1":
		return func([]lime.AuthenticationScheme, lime.Authentication) lime.Authentication {
			return &lime.PlainAuthentication{Password: "c1"}
		}
	}
	// byround: key credentials derived from the round-trip data, scheme = first offered or plain
	return func(schemes []lime.AuthenticationScheme, rt lime.Authentication) lime.Authentication {
		cred := 1
		if p, ok := rt.(*lime.PlainAuthentication); ok {
			if v, err := strconv.Atoi(strings.TrimPrefix(p.Password, "rt")); err == nil {
				cred = v + 10
			}
		}
		if len(schemes) > 0 && schemes[0] == lime.AuthenticationSchemeKey {
			return &lime.KeyAuthentication{Key: fmt.Sprintf("c%d", cred)}
		}
		return &lime.PlainAuthentication{Password: fmt.Sprintf("c%d", cred)}
	}
}

type USent struct {
	State  string `json:"state"`
	ID     string `json:"id"`
	Enc    string `json:"enc"`
	Comp   string `json:"comp"`
	Scheme string `json:"scheme"`
	Cred   *int   `json:"cred"`
	From   int    `json:"from"`
	Under  string `json:"under"`
}
type UEv struct {
	Took bool   `json:"took,omitempty"`
	In   *SIn   `json:"in,omitempty"`
	Sent *USent `json:"sent,omitempty"`
}

func (e UEv) Coq() string {
	if e.Took {
		return coqfmt.App("UTook", e.In.Coq())
	}
	s := e.Sent
	return coqfmt.App("USent", coqfmt.Record("us_state", coqState(s.State), "us_id", coqfmt.Str(s.ID), "us_enc", coqfmt.Str(s.Enc),
		"us_comp", coqfmt.Str(s.Comp), "us_scheme", coqfmt.Str(s.Scheme), "us_cred", optNat(s.Cred), "us_from", coqfmt.Nat(s.From)),
		coqfmt.Str(s.Under))
}

type CObs struct {
	Trace   []UEv  `json:"trace"`
	Out     string `json:"out"` // ret:<state> err blocked panic
	State   string `json:"state"`
	SID     string `json:"sid"`
	Local   int    `json:"local"`
	Remote  int    `json:"remote"`
	Closed  bool   `json:"closed"`
	EstAPI  bool   `json:"established_api"`
	ErrText string `json:"err,omitempty"`
	Client  *bool  `json:"client_published,omitempty"` // the high-level Client published a channel for this script
	// the high-level Client panicked while establishing over this script
	ClientPanic string `json:"client_panic,omitempty"`
}

func (o *CObs) Coq() string {
	tr := make([]string, len(o.Trace))
	for i, e := range o.Trace {
		tr[i] = e.Coq()
	}
	out := "OErr"
	switch {
	case strings.HasPrefix(o.Out, "ret:"):
		out = coqfmt.App("ORet", coqState(o.Out[4:]))
	case o.Out == "blocked":
		out = "OBlocked"
	case o.Out == "panic":
		out = "OPanic"
	}
	return coqfmt.Record("co_trace", coqfmt.List(tr), "co_out", out, "co_state", coqState(o.State), "co_sid", coqfmt.Str(o.SID),
		"co_local", coqfmt.Nat(o.Local), "co_remote", coqfmt.Nat(o.Remote), "co_closed", coqfmt.Bool(o.Closed),
		"co_est", coqfmt.Bool(o.EstAPI), "co_client_panic", coqfmt.Bool(o.ClientPanic != ""), "co_client", optBool(o.Client))
}

func optBool(b *bool) string {
	if b == nil {
		return coqfmt.None
	}
	return coqfmt.Some(coqfmt.Bool(*b))
}

// runClientEstablish gives a real high-level Client a transport factory whose every connection is
// answered with the script, and reports whether Establish published a channel within its deadline
// (Client.buildChannel must only publish a channel for a session the server established).
func runClientEstablish(conf *CConf, script []SIn) (bool, string) {
	var conns []*memconn.Conn
	var mu sync.Mutex
	cfg := lime.NewClientConfig()
	cfg.Node = lime.Node{Identity: lime.Identity{Name: "u1", Domain: "verif.test"}, Instance: "i1"}
	cfg.ChannelBufferSize = 4
	cfg.CompSelector, cfg.EncryptSelector, cfg.Authenticator = conf.callbacks()
	cfg.NewTransport = func(ctx context.Context) (lime.Transport, error) {
		cmem, smem := memconn.Pipe(0)
		mu.Lock()
		conns = append(conns, cmem, smem)
		mu.Unlock()
		go func() {
			go func() { // drain what the client writes
				buf := make([]byte, 4096)
				for {
					if _, err := smem.Read(buf); err != nil {
						return
					}
				}
			}()
			for _, in := range script {
				// the client waits for the server, and everything it wrote was read
				waitUntil(100*time.Millisecond, func() bool { return cmem.ReaderWaiting() && smem.Pending() == 0 })
				if in.Kind == "eof" {
					_ = smem.Close()
					return
				}
				if _, err := smem.Write(in.line()); err != nil {
					return
				}
			}
		}()
		return lime.NewTCPTransportOverConn(cmem, false, nil), nil
	}
	published := false
	panicked := ""
	func() {
		defer func() {
			if p := recover(); p != nil {
				panicked = fmt.Sprint(p)
			}
		}()
		client := lime.NewClient(cfg, &lime.EnvelopeMux{})
		ctx, cancel := context.WithTimeout(context.Background(), 150*time.Millisecond*slack)
		published = client.Establish(ctx) == nil
		cancel()
		mu.Lock()
		for _, c := range conns {
			_ = c.Close()
		}
		mu.Unlock()
		done := make(chan struct{})
		go func() { _ = client.Close(); close(done) }()
		select {
		case <-done:
		case <-time.After(3 * time.Second):
		}
	}()
	return published, panicked
}

type CCase struct {
	Conf   *CConf `json:"conf"`
	Script []SIn  `json:"script"`
	Obs    *CObs  `json:"obs"`
}

func (c *CCase) Coq() string {
	sc := make([]string, len(c.Script))
	for i, x := range c.Script {
		sc[i] = x.Coq()
	}
	return coqfmt.Record("q_conf", c.Conf.Coq(), "q_script", coqfmt.List(sc), "q_obs", c.Obs.Coq())
}

// prefixConn replays bytes already taken from the connection before reading on.
type prefixConn struct {
	net.Conn
	pre []byte
}

func (p *prefixConn) Read(b []byte) (int, error) {
	if len(p.pre) > 0 {
		n := copy(b, p.pre)
		p.pre = p.pre[n:]
		return n, nil
	}
	return p.Conn.Read(b)
}

// runClientScript plays the server script against the real client handshake.
func runClientScript(conf *CConf, script []SIn) *CObs {
	cmem, smem := memconn.Pipe(0)
	var cfg *lime.TCPConfig
	if conf.Kind == "memtls" {
		_, cc := testTLS()
		cfg = &lime.TCPConfig{TLSConfig: cc}
		if len(script)%2 == 0 {
			// with envelope tracing switched on
			cfg.TraceWriter = &discardTrace{w: io.Discard}
		}
	}
	ct := lime.NewTCPTransportOverConn(cmem, false, cfg)
	cc := lime.NewClientChannel(ct, 4)
	obs := &CObs{}
	var mu sync.Mutex
	under := "none"
	var conn net.Conn = smem
	eof := false

	// reader of what the client writes
	var readLoop func(c net.Conn)
	project := func(raw map[string]json.RawMessage) USent {
		u := USent{State: strOf(raw["state"]), ID: strOf(raw["id"]), Enc: strOf(raw["encryption"]), Comp: strOf(raw["compression"]),
			Scheme: strOf(raw["scheme"])}
		if f, ok := raw["from"]; ok {
			u.From = tokenOfName(lime.ParseNode(strOf(f)).Name)
		}
		if a, ok := raw["authentication"]; ok {
			var p struct {
				Password string `json:"password"`
				Key      string `json:"key"`
				Token    string `json:"token"`
			}
			_ = json.Unmarshal(a, &p)
			v := 0
			s := p.Password + p.Key + p.Token
			if b, err := base64.StdEncoding.DecodeString(s); err == nil && strings.HasPrefix(string(b), "c") {
				s = string(b) // the builder's authenticators send the secret base64-encoded
			}
			if strings.HasPrefix(s, "c") {
				v, _ = strconv.Atoi(s[1:])
			}
			u.Cred = &v
		}
		return u
	}
	readLoop = func(c net.Conn) {
		r := bufio.NewReader(c)
		for {
			// a TLS client hello instead of a JSON line?
			b, err := r.Peek(1)
			if err != nil {
				mu.Lock()
				eof = true
				mu.Unlock()
				return
			}
			if b[0] == 0x16 {
				buffered, _ := r.Peek(r.Buffered())
				pc := &prefixConn{Conn: c, pre: append([]byte(nil), buffered...)}
				if !conf.TLSOk {
					_, _ = c.Write([]byte("this is not a TLS server hello\n"))
					mu.Lock()
					eof = true
					mu.Unlock()
					return
				}
				sc, _ := testTLS()
				tc := tls.Server(pc, sc)
				_ = tc.SetDeadline(time.Now().Add(3 * time.Second))
				if err := tc.Handshake(); err != nil {
					mu.Lock()
					eof = true
					mu.Unlock()
					return
				}
				_ = tc.SetDeadline(time.Time{})
				mu.Lock()
				conn = tc
				under = "tls"
				mu.Unlock()
				readLoop(tc)
				return
			}
			line, err := r.ReadBytes('\n')
			if err != nil {
				mu.Lock()
				eof = true
				mu.Unlock()
				return
			}
			var raw map[string]json.RawMessage
			if json.Unmarshal(line, &raw) != nil {
				continue
			}
			u := project(raw)
			mu.Lock()
			u.Under = under
			obs.Trace = append(obs.Trace, UEv{Sent: &u})
			mu.Unlock()
		}
	}
	go readLoop(smem)

	type ret struct {
		ses *lime.Session
		err error
		pan interface{}
	}
	done := make(chan ret, 1)
	ctx, cancel := context.WithCancel(context.Background())
	defer cancel()
	go func() {
		var r ret
		defer func() {
			if p := recover(); p != nil {
				r.pan = p
			}
			done <- r
		}()
		csel, esel, au := conf.callbacks()
		r.ses, r.err = cc.EstablishSession(ctx, csel, esel, lime.Identity{Name: "u1", Domain: "verif.test"}, au, "i1")
	}()

	var result *ret
	finished := func() bool {
		if result != nil {
			return true
		}
		select {
		case r := <-done:
			result = &r
			return true
		default:
			return false
		}
	}
	quiet := func() bool {
		if finished() {
			return true
		}
		mu.Lock()
		e := eof
		mu.Unlock()
		if e {
			return false // the client closed; its call is about to return
		}
		// the client waits for the server, and the scripted server has read everything the client wrote
		return cmem.ReaderWaiting() && smem.Pending() == 0 && smem.ReaderWaiting()
	}
	settle := func() bool {
		return waitUntil(400*time.Millisecond, func() bool {
			if !quiet() {
				return false
			}
			time.Sleep(100 * time.Microsecond)
			return quiet()
		})
	}
	settle()
	for _, in := range script {
		if finished() {
			break
		}
		inCopy := in
		mu.Lock()
		obs.Trace = append(obs.Trace, UEv{Took: true, In: &inCopy})
		c := conn
		mu.Unlock()
		if in.Kind == "eof" {
			_ = c.Close()
			_ = smem.Close()
		} else if _, err := c.Write(in.line()); err != nil {
			break
		}
		settle()
	}
	if !finished() {
		obs.Out = "blocked"
		cancel()
		_ = smem.Close()
		select {
		case r := <-done:
			result = &r
		case <-time.After(7 * time.Second):
		}
	} else {
		switch {
		case result.pan != nil:
			obs.Out = "panic"
			obs.ErrText = fmt.Sprint(result.pan)
		case result.err != nil:
			obs.Out = "err"
			obs.ErrText = result.err.Error()
		default:
			obs.Out = "ret:" + string(result.ses.State)
		}
	}
	if obs.Out != "blocked" {
		obs.State = string(cc.State())
		obs.SID = cc.ID()
		obs.Local = tokOfNode(cc.LocalNode())
		obs.Remote = tokOfNode(cc.RemoteNode())
		obs.Closed = cmem.Closed()
		obs.EstAPI = cc.Established()
	} else {
		obs.State = "new"
	}
	_ = smem.Close()
	_ = cc.Close()
	_ = cmem.Close()
	return obs
}

// ---- the high-level Client in a process of its own: a panic in one of its goroutines cannot be recovered ----

type c08EstReq struct {
	Conf   *CConf `json:"conf"`
	Script []SIn  `json:"script"`
}

func c08EstChild(args []string) {
	var r c08EstReq
	if len(args) < 1 || json.Unmarshal([]byte(args[0]), &r) != nil {
		os.Exit(2)
	}
	p, pan := runClientEstablish(r.Conf, r.Script)
	b, _ := json.Marshal(map[string]interface{}{"published": p, "panic": pan})
	fmt.Printf("C08EST %s\n", b)
	os.Exit(0)
}

func init() { childCmds["c08est"] = c08EstChild }

// runClientEstablishIsolated: (published, panic text); a crash of the child process is a panic
func runClientEstablishIsolated(conf *CConf, script []SIn) (bool, string) {
	b, _ := json.Marshal(c08EstReq{Conf: conf, Script: script})
	cmd := exec.Command(os.Args[0], "child", "c08est", string(b))
	cmd.Env = os.Environ()
	var out, errb strings.Builder
	cmd.Stdout = &out
	cmd.Stderr = &errb
	done := make(chan error, 1)
	if err := cmd.Start(); err != nil {
		return runClientEstablish(conf, script)
	}
	go func() { done <- cmd.Wait() }()
	select {
	case <-done:
	case <-time.After(60 * time.Second * slack):
		_ = cmd.Process.Kill()
		return false, "the client's establishment did not come to an end"
	}
	for _, line := range strings.Split(out.String(), "\n") {
		if strings.HasPrefix(line, "C08EST ") {
			var r struct {
				Published bool   `json:"published"`
				Panic     string `json:"panic"`
			}
			_ = json.Unmarshal([]byte(strings.TrimPrefix(line, "C08EST ")), &r)
			return r.Published, r.Panic
		}
	}
	txt := errb.String()
	if i := strings.Index(txt, "panic:"); i >= 0 {
		txt = txt[i:]
	}
	if len(txt) > 300 {
		txt = txt[:300]
	}
	if txt == "" {
		txt = "the process of the client ended without a result"
	}
	return false, txt
}
