package main

// C13: ending an established session in every way, with traffic in flight, over
// every transport; observations after quiescence.  Each scenario runs in a child
// process (goroutine census, and a panic in the library must not take the run down).

import (
	"context"
	"encoding/json"
	"errors"
	"fmt"
	"net"
	"os"
	"os/exec"
	"strconv"
	"strings"
	"sync"
	"sync/atomic"
	"time"

	lime "github.com/takenet/lime-go"
	"verifharness/coqfmt"
)

type c13Scn struct {
	Kind string `json:"kind"` // inproc | tcp | ws
	Init string `json:"init"` // clientfinish serverfinish serverfail clientclose serverclose crossfail
	Cap  int    `json:"cap"`
	ToCl int    `json:"to_cl"`
	ToSv int    `json:"to_sv"`
	Slow bool   `json:"slow"` // the client's consumers take their time
	// Mix: the envelopes sent to the server are messages, notifications, request commands and response commands that
	// answer nothing, in turn (each kind has its own inbound stream and its own hand-over in the receiver)
	Mix bool `json:"mix,omitempty"`
	// AgeMs: the session has been established for that long when it is ended
	AgeMs int `json:"age_ms,omitempty"`
}

// -1 = not observed
type c13Obs struct {
	ClState   string `json:"cl_state"`
	SvState   string `json:"sv_state"`
	ClRcvDone int    `json:"cl_rcvdone"`
	SvRcvDone int    `json:"sv_rcvdone"`
	ClStreams int    `json:"cl_streams"`
	SvStreams int    `json:"sv_streams"`
	ClConn    int    `json:"cl_conn"`
	SvConn    int    `json:"sv_conn"`
	ClAfter   int    `json:"cl_conn_after"`
	Delivered int    `json:"delivered_cl"`
	Finished  int    `json:"finished_cb"`
	Gor       int    `json:"goroutines"`
	Panic     bool   `json:"panic,omitempty"`
	Note      string `json:"note,omitempty"`
}

type c13Case struct {
	Scn c13Scn `json:"scn"`
	Obs c13Obs `json:"obs"`
	// Class names a scenario class with a recorded finding, Symptom what deviated (both only serve the
	// matching of known_findings.json; the verdict is computed inside Coq from the observation)
	Class   string `json:"class,omitempty"`
	Symptom string `json:"symptom,omitempty"`
}

// classify tags the scenarios in which the server ends the session over a socket while data sent by the
// client is still unread in the server's socket buffer (closing such a socket resets the connection).
func (c *c13Case) classify() {
	s, o := c.Scn, c.Obs
	serverEnds := s.Init == "serverfinish" || s.Init == "serverfail" || s.Init == "serverclose"
	if (s.Kind == "tcp" || s.Kind == "ws") && serverEnds && s.ToSv > 0 {
		c.Class = "server-ends-over-socket-with-unread-client-data"
	}
	want := "finished"
	if s.Init == "serverfail" {
		want = "failed"
	}
	serverSideClean := o.SvState == want && o.SvRcvDone == 1 && o.SvStreams == 1 && o.SvConn == 0 && o.Finished == 1 &&
		o.Gor == 0 && !o.Panic && o.ClRcvDone == 1 && o.ClStreams == 1 && o.ClAfter == 0
	clientMissedTail := o.ClState == "established" || (o.Delivered >= 0 && o.Delivered < s.ToCl)
	if serverSideClean && clientMissedTail {
		c.Symptom = "client-missed-the-end-of-the-stream"
	}
}

func b2i(b bool) int {
	if b {
		return 1
	}
	return 0
}

func chanClosed(ch interface{}, d time.Duration) bool {
	deadline := time.After(d * slack)
	switch c := ch.(type) {
	case <-chan *lime.Message:
		for {
			select {
			case _, ok := <-c:
				if !ok {
					return true
				}
			case <-deadline:
				return false
			}
		}
	case <-chan *lime.Notification:
		for {
			select {
			case _, ok := <-c:
				if !ok {
					return true
				}
			case <-deadline:
				return false
			}
		}
	case <-chan *lime.RequestCommand:
		for {
			select {
			case _, ok := <-c:
				if !ok {
					return true
				}
			case <-deadline:
				return false
			}
		}
	case <-chan *lime.ResponseCommand:
		for {
			select {
			case _, ok := <-c:
				if !ok {
					return true
				}
			case <-deadline:
				return false
			}
		}
	}
	return false
}

func c13Run(scn *c13Scn) c13Obs {
	o := c13Obs{ClRcvDone: -1, SvRcvDone: -1, ClStreams: -1, SvStreams: -1, ClConn: -1, SvConn: -1, ClAfter: -1, Delivered: -1}
	base := limeGoroutines()
	var mu sync.Mutex
	chans := map[string]*lime.ServerChannel{}
	var finished int32
	cfg := lime.NewServerConfig()
	cfg.Node = serverNode
	cfg.SchemeOpts = []lime.AuthenticationScheme{lime.AuthenticationSchemeGuest}
	cfg.EncryptOpts = []lime.SessionEncryption{lime.SessionEncryptionNone}
	cfg.ChannelBufferSize = scn.Cap
	cfg.Authenticate = allowAll
	cfg.Register = func(ctx context.Context, cand lime.Node, ch *lime.ServerChannel) (lime.Node, error) { return cand, nil }
	cfg.Established = func(sid string, ch *lime.ServerChannel) { mu.Lock(); chans[sid] = ch; mu.Unlock() }
	cfg.Finished = func(sid string) { atomic.AddInt32(&finished, 1) }
	mux := &lime.EnvelopeMux{}
	burst := func(ctx context.Context, s lime.Sender, n int) {
		for i := 0; i < n; i++ {
			m := &lime.Message{Envelope: lime.Envelope{ID: fmt.Sprintf("b%d", i)}}
			m.SetContent(lime.TextDocument("x"))
			if err := s.SendMessage(ctx, m); err != nil {
				return
			}
		}
	}
	mux.MessageHandlerFunc(nil, func(ctx context.Context, msg *lime.Message, s lime.Sender) error {
		text := ""
		switch d := msg.Content.(type) {
		case *lime.TextDocument:
			text = string(*d)
		case lime.TextDocument:
			text = string(d)
		}
		switch {
		case strings.HasPrefix(text, "die:"):
			n, _ := strconv.Atoi(strings.TrimPrefix(text, "die:"))
			burst(ctx, s, n)
			return errors.New("scripted handler error")
		case strings.HasPrefix(text, "fail:"):
			n, _ := strconv.Atoi(strings.TrimPrefix(text, "fail:"))
			burst(ctx, s, n)
			sid, _ := lime.ContextSessionID(ctx)
			mu.Lock()
			sc := chans[sid]
			mu.Unlock()
			if sc != nil {
				fctx, fc := context.WithTimeout(context.Background(), 8*time.Second)
				_ = sc.FailSession(fctx, &lime.Reason{Code: 42, Description: "scripted"})
				fc()
			}
		}
		return nil
	})
	var addr net.Addr
	var l lime.TransportListener
	switch scn.Kind {
	case "inproc":
		a := lime.InProcessAddr(fmt.Sprintf("c13-%d", os.Getpid()))
		addr, l = a, lime.NewInProcessTransportListener(a)
	case "tcp":
		a, err := freeTCPAddr()
		if err != nil {
			o.Note = err.Error()
			return o
		}
		addr, l = a, lime.NewTCPTransportListener(nil)
	default:
		a, err := freeTCPAddr()
		if err != nil {
			o.Note = err.Error()
			return o
		}
		addr, l = a, lime.NewWebsocketTransportListener(nil)
	}
	srv := lime.NewServer(cfg, mux, lime.NewBoundListener(l, addr))
	served := make(chan error, 1)
	go func() { served <- srv.ListenAndServe() }()
	closeServer := func() {
		for i := 0; i < 2000000; i++ {
			if err := srv.Close(); !notServingYet(err) {
				break
			}
		}
		select {
		case <-served:
		case <-time.After(15 * time.Second):
		}
	}
	ctx, cancel := context.WithTimeout(context.Background(), 40*time.Second*slack)
	defer cancel()
	dial := func(ctx context.Context) (lime.Transport, error) {
		var t lime.Transport
		var err error
		ok := waitUntil(3*time.Second, func() bool {
			switch scn.Kind {
			case "inproc":
				t, err = lime.DialInProcess(addr.(lime.InProcessAddr), scn.Cap+1)
			case "tcp":
				t, err = lime.DialTcp(ctx, addr, nil)
			default:
				t, err = lime.DialWebsocket(ctx, "ws://"+addr.String(), nil, nil)
			}
			return err == nil
		})
		if !ok {
			return nil, err
		}
		return t, nil
	}
	msg := func(id, text string) *lime.Message {
		m := &lime.Message{Envelope: lime.Envelope{ID: id}}
		m.SetContent(lime.TextDocument(text))
		return m
	}
	stateOf := func(s lime.SessionState) string { return string(s) }
	theServerChannel := func() *lime.ServerChannel {
		var sc *lime.ServerChannel
		waitUntil(3*time.Second, func() bool {
			mu.Lock()
			defer mu.Unlock()
			for _, c := range chans {
				sc = c
			}
			return sc != nil
		})
		return sc
	}
	observeServer := func(sc *lime.ServerChannel) {
		if sc == nil {
			o.Note += "no server channel; "
			return
		}
		select {
		case <-sc.RcvDone():
			o.SvRcvDone = 1
		case <-time.After(9 * time.Second * slack):
			o.SvRcvDone = 0
		}
		waitUntil(9*time.Second, func() bool { return atomic.LoadInt32(&finished) >= 1 })
		o.SvState = stateOf(sc.State())
		o.SvStreams = b2i(chanClosed(sc.MsgChan(), time.Second) && chanClosed(sc.NotChan(), time.Second) &&
			chanClosed(sc.ReqCmdChan(), time.Second) && chanClosed(sc.RespCmdChan(), time.Second))
		o.SvConn = b2i(sc.VerifTransport().Connected())
	}

	finishedFirst := -1
	if scn.Init == "hlserverfinish" || scn.Init == "hlserverfail" {
		// the high-level Client, whose session the server ends: the Client goes on to a new session for its next
		// operation - and the connection of the session that ended is closed, not left behind.  What is observed of
		// the client side: the transport the factory handed out first, once the Client has moved on.
		var tmu sync.Mutex
		var handed []lime.Transport
		ccfg := lime.NewClientConfig()
		ccfg.Node = lime.Node{Identity: lime.Identity{Name: "cli", Domain: "verif.test"}, Instance: "i1"}
		ccfg.ChannelBufferSize = scn.Cap
		ccfg.Authenticator = lime.GuestAuthenticator
		ccfg.NewTransport = func(ctx context.Context) (lime.Transport, error) {
			t, err := dial(ctx)
			if err == nil {
				tmu.Lock()
				handed = append(handed, t)
				tmu.Unlock()
			}
			return t, err
		}
		client := lime.NewClient(ccfg, &lime.EnvelopeMux{})
		if err := client.Establish(ctx); err != nil {
			o.Note = "establish: " + err.Error()
		}
		sc := theServerChannel()
		if sc != nil {
			fctx, fc := context.WithTimeout(ctx, 8*time.Second)
			if scn.Init == "hlserverfail" {
				_ = sc.FailSession(fctx, &lime.Reason{Code: 42, Description: "scripted"})
			} else {
				_ = sc.FinishSession(fctx)
			}
			fc()
		}
		observeServer(sc)
		finishedFirst = int(atomic.LoadInt32(&finished)) // (the Client's second session will end as well)
		// the next operations of the application: the Client notices that its session is over and builds a new one
		moved := waitUntil(6*time.Second*slack, func() bool {
			sctx, scc := context.WithTimeout(ctx, time.Second)
			_ = client.SendMessage(sctx, msg("after", "x"))
			scc()
			tmu.Lock()
			defer tmu.Unlock()
			return len(handed) >= 2
		})
		if !moved {
			o.Note += "the client did not build a new session; "
		}
		time.Sleep(20 * time.Millisecond)
		tmu.Lock()
		if len(handed) > 0 {
			o.ClAfter = b2i(handed[0].Connected())
		}
		tmu.Unlock()
		_ = client.Close()
		o.ClState = "n/a"
	} else if scn.Init == "clientclose" {
		// the high-level Client: its channel is not accessible, the client side is observed through the census
		ccfg := lime.NewClientConfig()
		ccfg.Node = lime.Node{Identity: lime.Identity{Name: "cli", Domain: "verif.test"}, Instance: "i1"}
		ccfg.ChannelBufferSize = scn.Cap
		ccfg.Authenticator = lime.GuestAuthenticator
		ccfg.NewTransport = dial
		client := lime.NewClient(ccfg, &lime.EnvelopeMux{})
		if err := client.Establish(ctx); err != nil {
			o.Note = "establish: " + err.Error()
		}
		sc := theServerChannel()
		for i := 0; i < scn.ToSv; i++ {
			_ = client.SendMessage(ctx, msg(fmt.Sprintf("m%d", i), "x"))
		}
		_ = client.Close()
		observeServer(sc)
		o.ClState = "n/a"
	} else {
		t, err := dial(ctx)
		if err != nil {
			o.Note = "dial: " + err.Error()
			return o
		}
		var cc *lime.ClientChannel
		var hold *c13HoldConn
		if scn.Init == "crossfail" {
			// pin the crossing: the write of the finishing envelope returns only once the client's receiver
			// has processed the failed envelope that the server sent meanwhile (TCP only: the real TCP
			// transport over a wrapped socket)
			_ = t.Close()
			raw, err := net.Dial("tcp", addr.String())
			if err != nil {
				o.Note = "dial: " + err.Error()
				return o
			}
			hold = &c13HoldConn{Conn: raw, after: func() {
				waitUntil(3*time.Second, func() bool { return cc.State() == lime.SessionStateFailed })
			}}
			t = lime.NewTCPTransportOverConn(hold, false, nil)
		}
		cc = lime.NewClientChannel(t, scn.Cap)
		ses, err := cc.EstablishSession(ctx, lime.NoneCompressionSelector, lime.NoneEncryptionSelector,
			lime.Identity{Name: "cli", Domain: "verif.test"}, lime.GuestAuthenticator, "i1")
		if err != nil || ses.State != lime.SessionStateEstablished {
			o.Note = fmt.Sprintf("establish: %v", err)
			return o
		}
		sc := theServerChannel()
		var delivered int32
		var cw sync.WaitGroup
		cw.Add(1)
		go func() { // the consumer of the client's inbound messages keeps draining
			defer cw.Done()
			for range cc.MsgChan() {
				atomic.AddInt32(&delivered, 1)
				if scn.Slow {
					time.Sleep(300 * time.Microsecond)
				}
			}
		}()
		sendToServer := func() {
			for i := 0; i < scn.ToSv; i++ {
				sctx, sc := context.WithTimeout(ctx, 2*time.Second)
				var err error
				id := fmt.Sprintf("m%d", i)
				// which kind comes first varies with the amount of traffic: the receiver stays blocked on the first
				// envelope it cannot hand over
				switch k := (i + scn.ToSv) % 4; {
				case !scn.Mix || k == 0:
					err = cc.SendMessage(sctx, msg(id, "x"))
				case k == 1:
					err = cc.SendNotification(sctx, &lime.Notification{Envelope: lime.Envelope{ID: id}, Event: lime.NotificationEventReceived})
				case k == 2:
					rq := &lime.RequestCommand{Command: lime.Command{Envelope: lime.Envelope{ID: id}, Method: lime.CommandMethodGet}}
					rq.SetURIString("/x")
					err = cc.SendRequestCommand(sctx, rq)
				default:
					err = cc.SendResponseCommand(sctx, &lime.ResponseCommand{Command: lime.Command{Envelope: lime.Envelope{ID: id}, Method: lime.CommandMethodGet}, Status: lime.CommandStatusSuccess})
				}
				sc()
				if err != nil {
					return
				}
			}
		}
		if scn.AgeMs > 0 {
			time.Sleep(time.Duration(scn.AgeMs) * time.Millisecond)
		}
		switch scn.Init {
		case "clientfinish":
			sendToServer()
			fctx, fc := context.WithTimeout(ctx, 10*time.Second)
			_, err := cc.FinishSession(fctx)
			fc()
			if err != nil {
				o.Note += "FinishSession: " + err.Error() + "; "
			}
		case "serverfinish":
			_ = cc.SendMessage(ctx, msg("die", fmt.Sprintf("die:%d", scn.ToCl)))
			sendToServer()
		case "serverfail":
			_ = cc.SendMessage(ctx, msg("fail", fmt.Sprintf("fail:%d", scn.ToCl)))
			sendToServer()
		case "serverclose":
			sendToServer()
			closeServer()
		case "crossfail":
			_ = cc.SendMessage(ctx, msg("fail", "fail:0"))
			fctx, fc := context.WithTimeout(ctx, 10*time.Second)
			ses, err := cc.FinishSession(fctx)
			fc()
			if err != nil {
				o.Note += "FinishSession: " + err.Error() + "; "
			} else if ses.State != lime.SessionStateFailed {
				o.Note += "FinishSession returned " + string(ses.State) + "; "
			}
		}
		select {
		case <-cc.RcvDone():
			o.ClRcvDone = 1
		case <-time.After(9 * time.Second * slack):
			o.ClRcvDone = 0
		}
		observeServer(sc)
		cw.Wait()
		o.ClState = stateOf(cc.State())
		o.ClStreams = b2i(chanClosed(cc.MsgChan(), time.Second) && chanClosed(cc.NotChan(), time.Second) &&
			chanClosed(cc.ReqCmdChan(), time.Second) && chanClosed(cc.RespCmdChan(), time.Second))
		o.ClConn = b2i(t.Connected())
		if hold != nil {
			// the socket itself: a TCP transport that has read EOF reports itself disconnected whether or
			// not it has released its connection
			o.ClConn = b2i(atomic.LoadInt32(&hold.closed) == 0)
		}
		o.Delivered = int(atomic.LoadInt32(&delivered))
		_ = cc.Close()
		o.ClAfter = b2i(t.Connected())
		if hold != nil {
			o.ClAfter = b2i(atomic.LoadInt32(&hold.closed) == 0)
		}
	}
	if scn.Init != "serverclose" {
		closeServer()
	}
	o.Finished = int(atomic.LoadInt32(&finished))
	if finishedFirst >= 0 {
		o.Finished = finishedFirst
	}
	waitUntil(10*time.Second, func() bool { return limeGoroutines() <= base })
	o.Gor = limeGoroutines() - base
	if o.Gor < 0 {
		o.Gor = 0
	}
	return o
}

// c13HoldConn delays the return of the write that carries a finishing session envelope.
type c13HoldConn struct {
	net.Conn
	after  func()
	closed int32
}

func (h *c13HoldConn) Close() error {
	atomic.StoreInt32(&h.closed, 1)
	return h.Conn.Close()
}

func (h *c13HoldConn) Write(b []byte) (int, error) {
	n, err := h.Conn.Write(b)
	if err == nil && strings.Contains(string(b), `"finishing"`) {
		h.after()
	}
	return n, err
}

func c13Child(args []string) {
	var scn c13Scn
	if len(args) < 1 || json.Unmarshal([]byte(args[0]), &scn) != nil {
		os.Exit(2)
	}
	o := c13Run(&scn)
	b, _ := json.Marshal(o)
	fmt.Printf("C13OBS %s\n", b)
	os.Exit(0)
}

func init() { childCmds["c13"] = c13Child }

func runC13Scn(scn c13Scn) c13Case {
	b, _ := json.Marshal(scn)
	cmd := exec.Command(os.Args[0], "child", "c13", string(b))
	cmd.Env = os.Environ()
	var out, errb strings.Builder
	cmd.Stdout = &out
	cmd.Stderr = &errb
	c := c13Case{Scn: scn}
	done := make(chan error, 1)
	_ = cmd.Start()
	go func() { done <- cmd.Wait() }()
	select {
	case <-done:
	case <-time.After(120 * time.Second * slack):
		_ = cmd.Process.Kill()
		c.Obs.Note = "scenario timed out"
		c.Obs.Gor = 99
		return c
	}
	for _, line := range strings.Split(out.String(), "\n") {
		if strings.HasPrefix(line, "C13OBS ") {
			_ = json.Unmarshal([]byte(strings.TrimPrefix(line, "C13OBS ")), &c.Obs)
			return c
		}
	}
	c.Obs.Panic = true
	c.Obs.Gor = 99
	txt := errb.String()
	if i := strings.Index(txt, "panic:"); i >= 0 {
		txt = txt[i:]
	}
	if len(txt) > 300 {
		txt = txt[:300]
	}
	c.Obs.Note = txt
	return c
}

func coqEState(s string) string {
	switch s {
	case "established":
		return coqfmt.Some("SEst")
	case "finished":
		return coqfmt.Some("(STerm TFinished)")
	case "failed":
		return coqfmt.Some("(STerm TFailed)")
	case "n/a", "":
		return coqfmt.None
	}
	return coqfmt.Some("SEst") // any other state is "not terminal"
}

func coqOptBool(v int) string {
	if v < 0 {
		return coqfmt.None
	}
	return coqfmt.Some(coqfmt.Bool(v == 1))
}

func (c *c13Case) coq() string {
	inits := map[string]string{"clientfinish": "IClientFinish", "serverfinish": "IServerFinish", "serverfail": "IServerFail",
		"clientclose": "IClientClose", "serverclose": "IServerClose", "crossfail": "ICrossFail",
		// the same endings seen through a high-level Client (only the server side and the fate of the client's old
		// connection are observed)
		"hlserverfinish": "IServerFinish", "hlserverfail": "IServerFail"}
	del := coqfmt.None
	if c.Obs.Delivered >= 0 {
		del = coqfmt.Some(coqfmt.Nat(c.Obs.Delivered))
	}
	ob := coqfmt.Record(
		"b_cl_state", coqEState(c.Obs.ClState), "b_sv_state", coqEState(c.Obs.SvState),
		"b_cl_rcvdone", coqOptBool(c.Obs.ClRcvDone), "b_sv_rcvdone", coqOptBool(c.Obs.SvRcvDone),
		"b_cl_streams", coqOptBool(c.Obs.ClStreams), "b_sv_streams", coqOptBool(c.Obs.SvStreams),
		"b_cl_conn", coqOptBool(c.Obs.ClConn), "b_sv_conn", coqOptBool(c.Obs.SvConn),
		"b_cl_conn_after", coqOptBool(c.Obs.ClAfter),
		"b_delivered_cl", del,
		"b_finished_cb", coqfmt.Nat(c.Obs.Finished), "b_goroutines", coqfmt.Nat(c.Obs.Gor))
	return coqfmt.Record("k_inproc", coqfmt.Bool(c.Scn.Kind == "inproc"), "k_init", inits[c.Scn.Init],
		"k_cap", coqfmt.Nat(c.Scn.Cap), "k_to_cl", coqfmt.Nat(c.Scn.ToCl), "k_to_sv", coqfmt.Nat(c.Scn.ToSv), "o", ob)
}

func runC13(env *Env) error {
	env.Header = "From Coq Require Import List Bool Arith.\nImport ListNotations.\nFrom Lime Require Import Base.Res Chan.Teardown Corr.C13.\n"
	env.ShardSize = 30
	env.Rule = "real Server (handleChannel, dispatch loop, deferred finish) and real ClientChannel / high-level Client, each scenario in its own process: 5 initiators (client FinishSession, handler error -> server finish, ServerChannel.FailSession from a handler, Client.Close, Server.Close) x in-process / TCP / WebSocket x stream capacities 0, 1, 64 x 0-40 envelopes sent right before the terminal envelope in either direction (towards the server also as a mix of messages, notifications, request commands and unsolicited response commands) x fast / slow consumers; sessions ended at once or after 1.2 s. Non-trivial: traffic in flight in some direction. Distinct by printed scenario."
	var rc c13Case
	if ok, err := env.ReplayDesc(&rc); err != nil {
		return err
	} else if ok {
		c := runC13Scn(rc.Scn)
		c.classify()
		env.Add(c.coq(), c)
		return nil
	}
	var scns []c13Scn
	kinds := []string{"inproc", "tcp", "ws"}
	inits := []string{"clientfinish", "serverfinish", "serverfail", "clientclose", "serverclose"}
	caps := []int{0, 1, 64}
	for _, k := range kinds {
		for _, in := range inits {
			for ci, cp := range caps {
				if !env.Thorough() && (ci+len(scns))%2 == 1 && cp == 1 {
					continue
				}
				toCl, toSv := 0, 0
				if in == "serverfinish" || in == "serverfail" {
					toCl = []int{0, 3, 25}[env.Rng.Intn(3)]
				}
				toSv = []int{0, 2, 12}[env.Rng.Intn(3)]
				scns = append(scns, c13Scn{Kind: k, Init: in, Cap: cp, ToCl: toCl, ToSv: toSv, Slow: env.Rng.Intn(2) == 0})
			}
		}
	}
	// idle sessions and heavy traffic
	for _, k := range kinds {
		scns = append(scns,
			c13Scn{Kind: k, Init: "serverfinish", Cap: 0, ToCl: 40, ToSv: 0, Slow: true},
			c13Scn{Kind: k, Init: "serverfail", Cap: 1, ToCl: 40, ToSv: 20, Slow: true},
			c13Scn{Kind: k, Init: "clientfinish", Cap: 0, ToCl: 0, ToSv: 0},
			c13Scn{Kind: k, Init: "serverclose", Cap: 64, ToCl: 0, ToSv: 0},
			c13Scn{Kind: k, Init: "serverfinish", Cap: 1, ToCl: 5, ToSv: 0})
	}
	for _, cp := range []int{0, 1, 64} {
		scns = append(scns, c13Scn{Kind: "tcp", Init: "crossfail", Cap: cp})
	}
	// sessions that have lived for more than a second when they end
	for _, k := range kinds {
		for _, in := range []string{"clientfinish", "serverclose", "serverfinish"} {
			scns = append(scns, c13Scn{Kind: k, Init: in, Cap: 4, ToSv: 2, ToCl: 0, AgeMs: 1200})
		}
	}
	// mixed kinds towards a server that ends the session itself while its inbound streams fill up
	for _, k := range kinds {
		for _, in := range []string{"serverfinish", "serverfail", "serverclose", "clientfinish"} {
			for _, cp := range []int{0, 1} {
				for first := 0; first < 4; first++ {
					scns = append(scns, c13Scn{Kind: k, Init: in, Cap: cp, ToSv: 8 + 4*cp + first, Mix: true})
				}
			}
		}
	}
	// a high-level Client whose session the server ends: it moves on to a new session and closes the old connection
	for _, k := range kinds {
		for _, in := range []string{"hlserverfinish", "hlserverfail"} {
			scns = append(scns, c13Scn{Kind: k, Init: in, Cap: 4})
		}
	}
	extra := env.Pick(0, 60)
	for i := 0; i < extra; i++ {
		in := inits[env.Rng.Intn(len(inits))]
		toCl := 0
		if in == "serverfinish" || in == "serverfail" {
			toCl = env.Rng.Intn(41)
		}
		scns = append(scns, c13Scn{Kind: kinds[env.Rng.Intn(3)], Init: in, Cap: caps[env.Rng.Intn(3)], ToCl: toCl, ToSv: env.Rng.Intn(21), Slow: env.Rng.Intn(2) == 0, Mix: env.Rng.Intn(2) == 0})
	}
	cases := make([]c13Case, len(scns))
	sem := make(chan struct{}, 8)
	var wg sync.WaitGroup
	for i := range scns {
		wg.Add(1)
		sem <- struct{}{}
		go func(i int) {
			defer wg.Done()
			defer func() { <-sem }()
			cases[i] = runC13Scn(scns[i])
		}(i)
	}
	wg.Wait()
	for i := range cases {
		c := &cases[i]
		c.classify()
		env.Add(c.coq(), c)
		if c.Class != "" {
			env.Count("class=" + c.Class)
		}
		env.Count("transport=" + c.Scn.Kind)
		env.Count("initiator=" + c.Scn.Init)
		env.Count(fmt.Sprintf("cap=%d", c.Scn.Cap))
		if c.Scn.ToCl > 0 {
			env.Count("traffic-to-client")
		}
		if c.Scn.ToSv > 0 {
			env.Count("traffic-to-server")
		}
		if c.Scn.Mix {
			env.Count("traffic-of-all-four-kinds")
		}
		if c.Scn.ToCl+c.Scn.ToSv > 0 {
			b, _ := json.Marshal(c.Scn)
			env.NonTrivial(string(b))
		}
	}
	return nil
}

func init() { register("C13", runC13) }
