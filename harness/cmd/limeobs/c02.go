package main

import (
	"encoding/json"
	"fmt"
	"sort"
	"strconv"
	"strings"

	"verifharness/coqfmt"
)

func init() { register("C02", runC02) }

type c02Case struct {
	Input    string `json:"input"` // the bytes handed to the decoders
	Mutation string `json:"mutation"`
	InDomain bool   `json:"in_domain"`
	IsTree   bool   `json:"is_tree"`
	Typed    []Res  `json:"typed"`
	Any      Res    `json:"any"`
	ReTyped  []*Res `json:"re_typed"`
	ReAny    *Res   `json:"re_any"`
	Panic    bool   `json:"panic"`
	Unstable bool   `json:"unstable"`
	Ws       *wsRes `json:"ws,omitempty"` // what websocketTransport.Receive made of the same bytes (in a process of its own)
	term     string
	treeTerm string // "(Some (tree, uris))" for inputs in the model's reach, else None
}

func sortTree(j J) J {
	switch j.K {
	case "arr":
		out := make([]J, len(j.A))
		for i, x := range j.A {
			out[i] = sortTree(x)
		}
		return J{K: "arr", A: out}
	case "obj":
		out := make([]JKV, len(j.O))
		for i, kv := range j.O {
			out[i] = JKV{kv.K, sortTree(kv.V)}
		}
		sort.SliceStable(out, func(a, b int) bool { return out[a].K < out[b].K })
		return J{K: "obj", O: out}
	}
	return j
}

func canonicalNumber(lit string) bool {
	f, err := strconv.ParseFloat(lit, 64)
	if err != nil {
		return false
	}
	b, err := json.Marshal(f)
	return err == nil && string(b) == lit
}

// inDomain: the model covers trees without two members matching one name up to
// ASCII case, and whose number literals outside integer fields are in Go's canonical form.
func inDomain(j J, key string) bool {
	switch j.K {
	case "int", "float":
		lk := strings.ToLower(key)
		if lk == "code" || lk == "total" {
			return true
		}
		return canonicalNumber(j.N)
	case "arr":
		for _, x := range j.A {
			if !inDomain(x, "") {
				return false
			}
		}
	case "obj":
		seen := map[string]bool{}
		for _, kv := range j.O {
			lk := strings.ToLower(kv.K)
			if seen[lk] {
				return false
			}
			for _, r := range kv.K {
				if r > 127 {
					return false // non-ASCII member names may fold onto ASCII field names (K, long s)
				}
			}
			seen[lk] = true
			if !inDomain(kv.V, kv.K) {
				return false
			}
		}
	}
	return true
}

func collectURIs(j J, out *[]string) {
	for _, kv := range j.O {
		if strings.EqualFold(kv.K, "uri") && kv.V.K == "str" {
			*out = append(*out, kv.V.S)
		}
		collectURIs(kv.V, out)
	}
	for _, x := range j.A {
		collectURIs(x, out)
	}
}

// reDecode encodes an accepted envelope again and decodes it with the same decoder.
func reDecode(r Res, dec func([]byte) Res) *Res {
	if r.Tag != "ok" {
		return nil
	}
	out := guard(func() Res {
		b, err := json.Marshal(r.Env.lime())
		if err != nil {
			return Res{Tag: "err", Msg: "re-encode: " + err.Error()}
		}
		return dec(b)
	})
	return &out
}

func sameRes(a Res, b *Res) bool {
	if b == nil || a.Tag != b.Tag {
		return false
	}
	if a.Tag != "ok" {
		return true
	}
	return a.Env.Coq() == b.Env.Coq()
}

func observeBytes(b []byte, mutation string) *c02Case {
	c := &c02Case{Input: string(b), Mutation: mutation}
	for _, k := range kindOrder {
		k := k
		r := decodeTyped(k, b)
		c.Typed = append(c.Typed, r)
		c.ReTyped = append(c.ReTyped, reDecode(r, func(x []byte) Res { return decodeTyped(k, x) }))
	}
	c.Any = decodeViaTCP(b)
	c.ReAny = reDecode(c.Any, decodeViaTCP)
	all := append(append([]Res(nil), c.Typed...), c.Any)
	res := append(append([]*Res(nil), c.ReTyped...), c.ReAny)
	for i, r := range all {
		if r.Tag == "panic" || (res[i] != nil && res[i].Tag == "panic") {
			c.Panic = true
		}
		if r.Tag == "ok" && !sameRes(r, res[i]) {
			c.Unstable = true
		}
	}
	return c
}

func optRes(r *Res) string {
	if r == nil {
		return coqfmt.None
	}
	return coqfmt.Some(r.Coq())
}

var c02Counter int

func (c *c02Case) finish(tree *J) {
	unsupported := false
	for _, r := range c.Typed {
		if r.Tag == "unsupported" {
			unsupported = true
		}
	}
	if c.Any.Tag == "unsupported" {
		unsupported = true
	}
	if tree == nil || tree.hasNUL() || unsupported || tree.depth() > 40 {
		c02Counter++
		c.term = coqfmt.App("CBytes", coqfmt.Nat(c02Counter), coqfmt.Bool(c.Panic), coqfmt.Bool(c.Unstable))
		return
	}
	c.IsTree = true
	// generic payloads are compared in encoding/json's canonical (sorted) form: only sorted trees are in the model's domain
	c.InDomain = inDomain(*tree, "") && string(sortTree(*tree).Bytes()) == string(tree.Bytes())
	var uris []string
	collectURIs(*tree, &uris)
	typed := make([]string, len(c.Typed))
	re := make([]string, len(c.ReTyped))
	for i := range c.Typed {
		typed[i] = c.Typed[i].Coq()
		re[i] = optRes(c.ReTyped[i])
	}
	c.treeTerm = coqfmt.Some("(" + tree.Coq() + ", " + coqURITable(uris) + ")")
	c.term = coqfmt.App("CTree", coqfmt.Bool(c.InDomain), tree.Coq(), coqURITable(uris),
		coqfmt.List(typed), c.Any.Coq(), coqfmt.List(re), optRes(c.ReAny))
}

// ---- structural mutations ----

type jpath []int // indices into members / elements

func positions(j J, cur jpath, out *[]jpath) {
	n := len(j.O)
	if j.K == "arr" {
		n = len(j.A)
	}
	for i := 0; i < n; i++ {
		p := append(append(jpath(nil), cur...), i)
		*out = append(*out, p)
		if j.K == "arr" {
			positions(j.A[i], p, out)
		} else {
			positions(j.O[i].V, p, out)
		}
	}
}

func cloneJ(j J) J {
	out := j
	if j.A != nil {
		out.A = make([]J, len(j.A))
		for i, x := range j.A {
			out.A[i] = cloneJ(x)
		}
	}
	if j.O != nil {
		out.O = make([]JKV, len(j.O))
		for i, kv := range j.O {
			out.O[i] = JKV{kv.K, cloneJ(kv.V)}
		}
	}
	return out
}

// at returns the parent container of the position and the index in it.
func jat(j *J, p jpath) (*J, int) {
	cur := j
	for _, i := range p[:len(p)-1] {
		if cur.K == "arr" {
			cur = &cur.A[i]
		} else {
			cur = &cur.O[i].V
		}
	}
	return cur, p[len(p)-1]
}

func jget(j *J, p jpath) *J {
	par, i := jat(j, p)
	if par.K == "arr" {
		return &par.A[i]
	}
	return &par.O[i].V
}

var replacements = []struct {
	name string
	v    J
}{
	{"null", JNull()}, {"number", JInt(5)}, {"float", J{K: "float", N: "1.5"}}, {"string", JStr("s")},
	{"empty-string", JStr("")}, {"bool", J{K: "bool", B: true}}, {"empty-array", JArr()}, {"array", JArr(JNull(), JStr("x"))},
	{"empty-object", JObj()}, {"object", JObj(KV("type", JStr("text/plain")), KV("value", JNull()))},
	{"big-int", J{K: "int", N: "92233720368547758070"}},
}

func caseVariant(k string) string {
	if k == "" {
		return "X"
	}
	if k == strings.ToUpper(k) {
		return strings.ToLower(k)
	}
	return strings.ToUpper(k[:1]) + k[1:]
}

// mutate applies mutation m at position p of a copy of j; ok=false when it does not apply.
func mutate(j J, p jpath, m int, g *gen) (J, string, bool) {
	t := cloneJ(j)
	par, i := jat(&t, p)
	switch {
	case m < len(replacements):
		*jget(&t, p) = cloneJ(replacements[m].v)
		return t, "replace:" + replacements[m].name, true
	case m == len(replacements): // delete
		if par.K == "arr" {
			par.A = append(par.A[:i], par.A[i+1:]...)
		} else {
			par.O = append(par.O[:i], par.O[i+1:]...)
		}
		return t, "delete", true
	case m == len(replacements)+1: // alien member
		if par.K != "obj" {
			return t, "", false
		}
		par.O = append(par.O, KV("alien", JArr(JInt(1))))
		return t, "alien-member", true
	case m == len(replacements)+2: // case variant of the member name
		if par.K != "obj" {
			return t, "", false
		}
		par.O[i].K = caseVariant(par.O[i].K)
		return t, "case-variant", true
	case m == len(replacements)+3: // duplicate the member with another value
		if par.K != "obj" {
			return t, "", false
		}
		par.O = append(par.O, KV(par.O[i].K, JStr("dup")))
		return t, "duplicate-member", true
	case m == len(replacements)+4: // swap with another sub-tree
		var ps []jpath
		positions(t, nil, &ps)
		isPrefix := func(a, b jpath) bool {
			if len(a) > len(b) {
				return false
			}
			for i := range a {
				if a[i] != b[i] {
					return false
				}
			}
			return true
		}
		var cands []jpath
		for _, q := range ps {
			if !isPrefix(p, q) && !isPrefix(q, p) {
				cands = append(cands, q)
			}
		}
		if len(cands) == 0 {
			return t, "", false
		}
		q := cands[g.rng.Intn(len(cands))]
		a, b := jget(&t, p), jget(&t, q)
		*a, *b = *b, *a
		return t, "swap", true
	case m == len(replacements)+5: // a known sibling name with a string value (e.g. adds "uri", "status", "event")
		if par.K != "obj" {
			return t, "", false
		}
		names := []string{"uri", "status", "event", "state", "method", "content", "resource", "type", "scheme", "authentication", "value", "items", "itemType", "total", "code"}
		vals := []J{JStr(""), JStr("get"), JStr("/"), JStr("received"), JStr("failed"), JStr("text/plain"), JObj(), JInt(0)}
		par.O = append(par.O, KV(names[g.rng.Intn(len(names))], vals[g.rng.Intn(len(vals))]))
		return t, "add-field", true
	}
	return t, "", false
}

const numMutations = 11 + 6

func runC02(env *Env) error {
	env.Header = codecHeader + "Corr.Codec Corr.C02."
	env.ShardSize = 150
	env.Rule = "trees: every single structural mutation (11 replacement values, delete, alien member, case variant of the name, duplicate member, swap, added known field) at every position of every nesting level of a corpus of valid encodings of generated envelopes, plus PRNG double mutations and hand-written regression trees, every string up to length 4 (5) over {a, /, +} as media type in the four places where one is parsed; bytes: truncations at every offset, concatenations, byte flips; eight connections decoding never-seen media types at the same time (in a process of its own). Each input goes to the 5 typed decoders, the TCP receive path and (as one text frame, in a process of its own because a panic there cannot be recovered) the WebSocket receive path; accepted results are re-encoded and re-decoded. Non-trivial: at least one decoder accepted the input or a mutation hit nesting level >= 2; distinct by input bytes."
	g := &gen{rng: env.Rng}
	seen := map[string]bool{}
	wsIso := &wsIsolated{}
	defer wsIso.stop()
	defer func() {
		// envelopes that came back changed when received behind a rejected one on the same connection
		for _, a := range tcpPathAnomalies {
			c02Counter++
			c := &c02Case{Input: a.After, Mutation: "received-behind-a-rejected-envelope", Unstable: true, Any: a.Got}
			c.term = coqfmt.App("CBytes", coqfmt.Nat(c02Counter), coqfmt.Bool(false), coqfmt.Bool(true))
			env.Add(c.term, c)
		}
		tcpPathAnomalies = nil
	}()
	addBytes := func(b []byte, mutation string) {
		if seen[string(b)] {
			return
		}
		seen[string(b)] = true
		c := observeBytes(b, mutation)
		var tree *J
		if t, err := parseJ(b); err == nil {
			tree = &t
		}
		c.finish(tree)
		env.Add(c.term, c)
		// the same bytes as one text frame into a real WebSocket transport
		if w := wsIso.decode(b); w.Tag != "unsupported" {
			wc := *c
			wc.Ws = &w
			tt := wc.treeTerm
			if tt == "" {
				tt = coqfmt.None
			}
			env.Add(coqfmt.App("CWs", coqfmt.Bool(c.InDomain && c.IsTree), tt, w.Term), &wc)
			env.Count("ws-result=" + w.Tag)
		} else {
			env.Count("ws-unavailable")
		}
		env.Count("mutation=" + strings.SplitN(mutation, ":", 2)[0])
		accepted := false
		for _, r := range append(append([]Res(nil), c.Typed...), c.Any) {
			env.Count("result=" + r.Tag)
			if r.Tag == "ok" {
				accepted = true
			}
		}
		if c.IsTree {
			env.Count(fmt.Sprintf("tree,in_domain=%v", c.InDomain))
		} else {
			env.Count("bytes-only")
		}
		if accepted || strings.Contains(mutation, "@deep") {
			env.NonTrivial(string(b))
		}
	}
	addTree := func(t J, mutation string) { addBytes(sortTree(t).Bytes(), mutation) }

	var rc c02Case
	if ok, err := env.ReplayDesc(&rc); err != nil {
		return err
	} else if ok && rc.Mutation == "concurrent-decoders" {
		for i := 0; i < 5; i++ {
			survived, detail := runConcurrentDecoders()
			c02Counter++
			c := &c02Case{Input: rc.Input, Mutation: rc.Mutation, Panic: !survived}
			if !survived {
				c.Input += " - the process died: " + detail
			}
			c.term = coqfmt.App("CBytes", coqfmt.Nat(c02Counter), coqfmt.Bool(c.Panic), coqfmt.Bool(false))
			env.Add(c.term, c)
		}
		return nil
	} else if ok {
		addBytes([]byte(rc.Input), rc.Mutation)
		return nil
	}

	// regression corpus first: the refutation witnesses of the tree as found and their neighbours
	regress := []string{
		`{"type":"application/vnd.lime.container+json","content":{"type":"text/plain"}}`,
		`{"type":"application/vnd.lime.container+json","content":{"type":"text/plain","value":null}}`,
		`{"type":"application/vnd.lime.collection+json","content":{"itemType":"text/plain","items":[null]}}`,
		`{"type":"application/vnd.lime.collection+json","content":{"itemType":"text/plain","items":["a",null]}}`,
		`{"method":"get","uri":"/x","type":"application/vnd.lime.container+json","resource":{"type":"application/vnd.lime.container+json","value":{"type":"text/plain"}}}`,
		`{"method":"get","status":""}`,
		`{"method":"get","status":"","id":"1"}`,
		`{"type":"/","content":"x"}`,
		`{"type":"/+","content":"x"}`,
		`{"type":"application/vnd.lime.container+json","content":{"type":"/","value":"x"}}`,
		`{"type":"application/vnd.lime.collection+json","content":{"itemType":"/","items":[]}}`,
		`{"method":"get"}`, `{"state":"new"}`, `{"event":"received"}`, `{"content":"x","type":"text/plain"}`,
		`null`, `{}`, `[]`, `"x"`, `5`, `{"id":null,"from":null,"state":"new","reason":null,"metadata":null}`,
		`{"state":"authenticating","scheme":"plain","authentication":{"password":"cA=="}}`,
		`{"state":"authenticating","scheme":"bogus","authentication":{}}`,
		`{"state":"authenticating","authentication":{}}`,
		// the shape of the server's own round-trip request (sendAuthenticatingRoundTripSession): authentication, no scheme
		`{"state":"authenticating","id":"s1","from":"postmaster@verif.test/srv","authentication":{"password":"cnQz"}}`,
		`{"state":"authenticating","scheme":"guest","authentication":"x"}`,
		`{"state":"failed","reason":{"code":1.5}}`, `{"state":"failed","reason":{"code":9223372036854775808}}`,
		`{"state":"failed","reason":{"code":-9223372036854775808,"description":null}}`,
		`{"event":"failed","reason":"r"}`, `{"event":"consumed","id":"n1","reason":{"code":5,"description":"d"}}`,
		`{"event":"received","reason":{"code":1}}`, `{"event":"failed","id":"n2","reason":{"code":2,"description":"x"}}`, `{"method":"get","uri":"http://x/y"}`, `{"method":"get","uri":"%zz"}`,
		`{"method":"get","uri":"/a b"}`, `{"method":"get","uri":"LIME://x/y"}`,
		`{"metadata":{"a":null,"b":"c"},"event":"consumed"}`, `{"metadata":{"a":1},"event":"consumed"}`,
		`{"type":"application/json","content":null}`, `{"type":"application/json","content":[1]}`,
		`{"type":"application/vnd.lime.ping+json","content":{"x":1}}`, `{"type":"application/vnd.lime.ping+json","content":"x"}`,
		`{"encryptionOptions":[null,"tls"],"state":"negotiating"}`, `{"encryptionOptions":"tls","state":"negotiating"}`,
	}
	for _, s := range regress {
		addBytes([]byte(s), "regression")
	}

	// every short string over {a, /, +} as a media type, in each place where one is parsed
	allStrings([]byte{'a', '/', '+'}, env.Pick(4, 5), func(mt string) {
		q, _ := json.Marshal(mt)
		for _, tmpl := range []string{
			`{"type":%s,"content":"x"}`,
			`{"type":"application/vnd.lime.container+json","content":{"type":%s,"value":"x"}}`,
			`{"type":"application/vnd.lime.collection+json","content":{"itemType":%s,"items":["x"]}}`,
			`{"method":"set","uri":"/x","type":%s,"resource":"x"}`,
		} {
			if t, err := parseJ([]byte(fmt.Sprintf(tmpl, q))); err == nil {
				addTree(t, "media-type-string") // members sorted: inside the model's domain
			}
		}
	})

	// several connections decoding documents of never-seen media types at the same time, in a process of its own
	for i := 0; i < env.Pick(2, 6); i++ {
		survived, detail := runConcurrentDecoders()
		c02Counter++
		c := &c02Case{Input: "(8 TCP transports receive, at the same time, 400 messages each whose media types nobody has seen before)", Mutation: "concurrent-decoders", Panic: !survived}
		if !survived {
			c.Input += " - the process died: " + detail
		}
		c.term = coqfmt.App("CBytes", coqfmt.Nat(c02Counter), coqfmt.Bool(c.Panic), coqfmt.Bool(false))
		env.Add(c.term, c)
		env.Count("mutation=concurrent-decoders")
		env.NonTrivial(fmt.Sprintf("concurrent-decoders-%d", i))
	}

	// corpus of valid encodings
	ncorpus := env.Pick(14, 60)
	depth := env.Pick(3, 4)
	var corpus []J
	for i := 0; len(corpus) < ncorpus && i < 10*ncorpus; i++ {
		kind := kindOrder[i%5]
		e := g.env(kind, g.rng.Intn(1<<uint(optBits(kind))), depth)
		b, err := json.Marshal(e.lime())
		if err != nil {
			continue
		}
		t, err := parseJ(b)
		if err != nil || len(b) > 700 {
			continue
		}
		corpus = append(corpus, t)
		addBytes(b, "valid")
	}
	for _, t := range corpus {
		var ps []jpath
		positions(t, nil, &ps)
		for _, p := range ps {
			deep := ""
			if len(p) >= 2 {
				deep = "@deep"
			}
			for m := 0; m < numMutations; m++ {
				if !env.Thorough() && len(ps) > 12 && (m*7+len(p)+p[len(p)-1])%3 != 0 {
					continue // large trees are sub-sampled in the quick tier
				}
				if mt, name, ok := mutate(t, p, m, g); ok {
					addTree(mt, name+deep)
				}
			}
		}
		// double mutations
		for k := 0; k < env.Pick(6, 40); k++ {
			p1 := ps[g.rng.Intn(len(ps))]
			t1, n1, ok := mutate(t, p1, g.rng.Intn(numMutations), g)
			if !ok {
				continue
			}
			var ps2 []jpath
			positions(t1, nil, &ps2)
			if len(ps2) == 0 {
				continue
			}
			p2 := ps2[g.rng.Intn(len(ps2))]
			if t2, n2, ok := mutate(t1, p2, g.rng.Intn(numMutations), g); ok {
				addTree(t2, "double:"+n1+"+"+n2)
			}
		}
	}

	// byte level: truncations, concatenations, byte flips
	for ci, t := range corpus {
		b := t.Bytes()
		if ci < env.Pick(3, 12) {
			for cut := 0; cut < len(b); cut++ {
				addBytes(b[:cut], "truncate")
			}
		}
		other := corpus[(ci+1)%len(corpus)].Bytes()
		addBytes(append(append(append([]byte(nil), b...), '\n'), other...), "concat")
		for k := 0; k < env.Pick(10, 120); k++ {
			x := append([]byte(nil), b...)
			for f := 0; f <= g.rng.Intn(3); f++ {
				i := g.rng.Intn(len(x))
				switch g.rng.Intn(4) {
				case 0:
					x[i] = byte(g.rng.Intn(256))
				case 1:
					x[i] = []byte(`{}[]",:0n\`)[g.rng.Intn(10)]
				case 2:
					x = append(x[:i], x[i+1:]...)
				default:
					x = append(x[:i], append([]byte{[]byte(`{}[]",:`)[g.rng.Intn(7)]}, x[i:]...)...)
				}
				if len(x) == 0 {
					break
				}
			}
			addBytes(x, "byteflip")
		}
	}
	return nil
}
