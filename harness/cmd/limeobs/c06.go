package main

import (
	"bufio"
	"bytes"
	"context"
	"fmt"
	"strings"
	"sync"
	"sync/atomic"
	"time"

	lime "github.com/takenet/lime-go"
	"verifharness/coqfmt"
	"verifharness/memconn"
)

func init() { register("C06", runC06) }

type c06Send struct {
	Role      string `json:"role"`  // client server
	Stage     string `json:"stage"` // new negotiating authenticating established finishing finished failed
	State     string `json:"state"` // State() sampled just before
	Connected bool   `json:"connected"`
	Op        string `json:"op"`
	OK        bool   `json:"ok"`
	Emitted   int    `json:"emitted"`
	Err       string `json:"err,omitempty"`
	Buf       int    `json:"buf"` // the channel's buffer size (0: every inbound stream is a pure hand-off)
}

func (c *c06Send) Coq() string {
	op := map[string]string{"message": "OpMessage", "notification": "OpNotification", "request": "OpRequestCommand",
		"response": "OpResponseCommand", "process": "OpProcessCommand"}[c.Op]
	est := c.Stage == "established" || c.Stage == "finishing"
	return coqfmt.App("GSend", coqfmt.Bool(c.Role == "client"), coqfmt.Bool(est), coqState(c.State), coqfmt.Bool(c.Connected), op,
		coqfmt.Bool(c.OK), coqfmt.Nat(c.Emitted))
}

var c06Ops = []string{"message", "notification", "request", "response", "process"}

type stagedChannel interface {
	anySender
	ProcessCommand(ctx context.Context, cmd *lime.RequestCommand) (*lime.ResponseCommand, error)
	State() lime.SessionState
	VerifTransport() lime.Transport
}

// lineCounter counts the JSON lines the peer receives (and remembers data envelopes).
type lineCounter struct {
	mu    sync.Mutex
	lines int
	data  int
}

func (l *lineCounter) run(c *memconn.Conn) {
	r := bufio.NewReader(c)
	for {
		line, err := r.ReadBytes('\n')
		if err != nil {
			return
		}
		l.mu.Lock()
		l.lines++
		if !bytes.Contains(line, []byte(`"state"`)) {
			l.data++
		}
		l.mu.Unlock()
	}
}
func (l *lineCounter) dataCount() int { l.mu.Lock(); defer l.mu.Unlock(); return l.data }

func tryOps(role, stage string, ch stagedChannel, peer *lineCounter, peerEnd *memconn.Conn) []*c06Send {
	var out []*c06Send
	for i, op := range c06Ops {
		c := &c06Send{Role: role, Stage: stage, Op: op}
		c.State = string(ch.State())
		c.Connected = ch.VerifTransport().Connected()
		before := peer.dataCount()
		ctx, cancel := context.WithTimeout(context.Background(), 150*time.Millisecond)
		id := fmt.Sprintf("g%d", i)
		var err error
		switch op {
		case "message":
			err = ch.SendMessage(ctx, textMessage(id, "x"))
		case "notification":
			n := &lime.Notification{Event: lime.NotificationEventReceived}
			n.ID = id
			err = ch.SendNotification(ctx, n)
		case "request":
			r := &lime.RequestCommand{}
			r.ID = id
			r.Method = lime.CommandMethodGet
			r.SetURIString("/x")
			err = ch.SendRequestCommand(ctx, r)
		case "response":
			r := &lime.ResponseCommand{Status: lime.CommandStatusSuccess}
			r.ID = id
			r.Method = lime.CommandMethodGet
			err = ch.SendResponseCommand(ctx, r)
		case "process":
			r := &lime.RequestCommand{}
			r.ID = id
			r.Method = lime.CommandMethodGet
			r.SetURIString("/x")
			_, err = ch.ProcessCommand(ctx, r)
			// when the request goes out, nobody answers: the context error is not a refusal to send
			if err != nil && ctx.Err() != nil && peer.dataCount() > before {
				err = nil
			}
		}
		cancel()
		// let the bytes (if any) reach the peer's reader
		waitUntil(5*time.Millisecond, func() bool { return peerEnd.Pending() == 0 && peer.dataCount() > before })
		c.OK = err == nil
		if err != nil {
			c.Err = err.Error()
		}
		c.Emitted = peer.dataCount() - before
		out = append(out, c)
	}
	return out
}

// serverStages drives a real ServerChannel with a raw scripted client to each stage.
func serverStages() ([]*c06Send, error) {
	var out []*c06Send
	type stage struct {
		name   string
		enc    []lime.SessionEncryption
		script []string
		after  string // finish fail
	}
	newSes := `{"state":"new"}`
	stages := []stage{
		{"new", []lime.SessionEncryption{"none"}, nil, ""},
		{"negotiating", []lime.SessionEncryption{"none", "tls"}, []string{newSes}, ""},
		{"authenticating", []lime.SessionEncryption{"none"}, []string{newSes}, ""},
		{"established", []lime.SessionEncryption{"none"}, []string{newSes, "AUTH"}, ""},
		{"finished", []lime.SessionEncryption{"none"}, []string{newSes, "AUTH"}, "finish"},
		{"failed", []lime.SessionEncryption{"none"}, []string{`{"state":"new","id":"unexpected"}`}, ""},
		{"failed-after-established", []lime.SessionEncryption{"none"}, []string{newSes, "AUTH"}, "fail"},
		// the terminating call itself cannot tell the peer (the peer is not reading, its buffers are full, the
		// call's context expires): the session is over all the same
		{"finished", []lime.SessionEncryption{"none"}, []string{newSes, "AUTH"}, "finish-blocked"},
		{"failed-after-established", []lime.SessionEncryption{"none"}, []string{newSes, "AUTH"}, "fail-blocked"},
	}
	for _, buf := range []int{4, 0} {
		for _, st := range stages {
			capacity := 0
			if strings.HasSuffix(st.after, "-blocked") {
				capacity = 8192
			}
			cmem, smem := memconn.Pipe(capacity)
			var pauseRead int32
			peer := &lineCounter{}
			var sidMu sync.Mutex
			sid := ""
			// the raw client reads lines itself to learn the session id
			go func() {
				r := bufio.NewReader(cmem)
				for {
					for atomic.LoadInt32(&pauseRead) == 1 {
						time.Sleep(200 * time.Microsecond)
					}
					line, err := r.ReadBytes('\n')
					if err != nil {
						return
					}
					peer.mu.Lock()
					peer.lines++
					if !bytes.Contains(line, []byte(`"state"`)) {
						peer.data++
					}
					peer.mu.Unlock()
					if bytes.Contains(line, []byte(`"state":"finished"`)) || bytes.Contains(line, []byte(`"state":"failed"`)) {
						// a real client closes its side now (which also lets the server's receiver stop at once);
						// the half-close keeps this reader able to see anything the server still writes
						cmem.CloseWrite()
					}
					if i := bytes.Index(line, []byte(`"id":"`)); i >= 0 {
						rest := line[i+6:]
						if j := bytes.IndexByte(rest, '"'); j >= 0 {
							sidMu.Lock()
							if sid == "" {
								sid = string(rest[:j])
							}
							sidMu.Unlock()
						}
					}
				}
			}()
			sc := lime.NewServerChannel(lime.NewTCPTransportOverConn(smem, true, nil), buf, serverNode, nextSID())
			done := make(chan error, 1)
			ctx, cancel := context.WithTimeout(context.Background(), 5*time.Second)
			go func() {
				done <- sc.EstablishSession(ctx, []lime.SessionCompression{"none"}, st.enc,
					[]lime.AuthenticationScheme{"guest"}, allowAll, registerAs(lime.Node{Identity: lime.Identity{Name: "cli", Domain: "verif.test"}, Instance: "i"}))
			}()
			returned := false
			settle := func() {
				waitUntil(300*time.Millisecond, func() bool {
					if !returned {
						select {
						case <-done:
							returned = true
						default:
						}
					}
					return returned || (smem.ReaderWaiting() && cmem.Pending() == 0)
				})
			}
			settle()
			for _, line := range st.script {
				if line == "AUTH" {
					sidMu.Lock()
					s := sid
					sidMu.Unlock()
					line = fmt.Sprintf(`{"state":"authenticating","id":"%s","scheme":"guest","authentication":{},"from":"cli@verif.test/i"}`, s)
				}
				_, _ = cmem.Write([]byte(line + "\n"))
				settle()
			}
			switch st.after {
			case "finish":
				fctx, fcancel := context.WithTimeout(context.Background(), time.Second)
				_ = sc.FinishSession(fctx)
				fcancel()
			case "fail":
				fctx, fcancel := context.WithTimeout(context.Background(), time.Second)
				_ = sc.FailSession(fctx, &lime.Reason{Code: 1, Description: "scripted"})
				fcancel()
			case "finish-blocked", "fail-blocked":
				atomic.StoreInt32(&pauseRead, 1)
				time.Sleep(time.Millisecond)
				fill, fc := context.WithTimeout(context.Background(), time.Second)
				_ = sc.SendMessage(fill, textMessage("fill", strings.Repeat("x", 8132)))
				fc()
				fctx, fcancel := context.WithTimeout(context.Background(), 100*time.Millisecond)
				if st.after == "finish-blocked" {
					_ = sc.FinishSession(fctx)
				} else {
					_ = sc.FailSession(fctx, &lime.Reason{Code: 1, Description: "scripted"})
				}
				fcancel()
				atomic.StoreInt32(&pauseRead, 0)
				time.Sleep(3 * time.Millisecond)
			}
			time.Sleep(200 * time.Microsecond)
			ops := tryOps("server", st.name, sc, peer, cmem)
			for _, o := range ops {
				o.Buf = buf
			}
			out = append(out, ops...)
			cancel()
			_ = cmem.Close()
			_ = smem.Close()
			_ = sc.Close()
		}
	}
	return out, nil
}

// clientStages drives a real ClientChannel with a raw scripted server to each stage.
func clientStages() ([]*c06Send, error) {
	var out []*c06Send
	offer := `{"state":"negotiating","id":"S1","from":"postmaster@verif.test/srv","encryptionOptions":["none"],"compressionOptions":["none"]}`
	authreq := `{"state":"authenticating","id":"S1","from":"postmaster@verif.test/srv","schemeOptions":["guest"]}`
	est := `{"state":"established","id":"S1","from":"postmaster@verif.test/srv","to":"cli@verif.test/i"}`
	type stage struct {
		name   string
		script []string
		after  string // finishing finished
	}
	stages := []stage{
		{"new", nil, ""},
		{"negotiating", []string{offer}, ""},
		{"authenticating", []string{authreq}, ""},
		{"established", []string{authreq, est}, ""},
		{"finishing", []string{authreq, est}, "finishing"},
		{"finished", []string{authreq, est}, "finished"},
		{"failed", []string{authreq, `{"state":"failed","id":"S1","reason":{"code":1,"description":"no"}}`}, ""},
		// the server ends the established session on its own and leaves the connection open
		{"failed-after-established", []string{authreq, est, `{"state":"failed","id":"S1","from":"postmaster@verif.test/srv","reason":{"code":1,"description":"no"}}`}, ""},
		{"finished-by-server", []string{authreq, est, `{"state":"finished","id":"S1","from":"postmaster@verif.test/srv"}`}, ""},
	}
	for _, buf := range []int{4, 0} {
		for _, st := range stages {
			cmem, smem := memconn.Pipe(0)
			peer := &lineCounter{}
			go peer.run(smem)
			cc := lime.NewClientChannel(lime.NewTCPTransportOverConn(cmem, false, nil), buf)
			done := make(chan error, 1)
			ctx, cancel := context.WithTimeout(context.Background(), 5*time.Second)
			go func() {
				_, err := cc.EstablishSession(ctx, lime.NoneCompressionSelector, lime.NoneEncryptionSelector,
					lime.Identity{Name: "cli", Domain: "verif.test"}, lime.GuestAuthenticator, "i")
				done <- err
			}()
			returned := false
			settle := func() {
				waitUntil(300*time.Millisecond, func() bool {
					if !returned {
						select {
						case <-done:
							returned = true
						default:
						}
					}
					return (returned || cmem.ReaderWaiting()) && smem.Pending() == 0
				})
			}
			settle()
			for _, line := range st.script {
				_, _ = smem.Write([]byte(line + "\n"))
				settle()
			}
			switch st.after {
			case "finishing", "finished":
				fdone := make(chan struct{})
				go func() {
					fctx, fcancel := context.WithTimeout(context.Background(), 2*time.Second)
					_, _ = cc.FinishSession(fctx)
					fcancel()
					close(fdone)
				}()
				waitUntil(300*time.Millisecond, func() bool { peer.mu.Lock(); defer peer.mu.Unlock(); return peer.lines >= 3 })
				if st.after == "finished" {
					_, _ = smem.Write([]byte(`{"state":"finished","id":"S1","from":"postmaster@verif.test/srv"}` + "\n"))
					select {
					case <-fdone:
					case <-time.After(7 * time.Second):
					}
				}
			}
			time.Sleep(200 * time.Microsecond)
			ops := tryOps("client", st.name, cc, peer, smem)
			for _, o := range ops {
				o.Buf = buf
			}
			out = append(out, ops...)
			cancel()
			_ = smem.Close()
			_ = cmem.Close()
			_ = cc.Close()
		}
	}
	return out, nil
}

func runC06(env *Env) error {
	env.Header = hsHeader + "Corr.HsChecks Chan.Gate Corr.C06."
	env.ShardSize = 40
	env.Rule = "send side: each of SendMessage, SendNotification, SendRequestCommand, SendResponseCommand and ProcessCommand called on a real ServerChannel / ClientChannel held by a scripted raw peer at every stage (new, negotiating, authenticating, established, finishing, finished, failed, failed after established), with channel buffers of 4 and of 0, recording the result and every byte the peer sees; receive side: the server script enumeration (data envelope, undecodable input and EOF at every position) against a real Server with catch-all handlers registered. Non-trivial: a send at a non-established stage, or a script containing a data envelope. Distinct by printed case."
	var rs struct {
		Role  string `json:"role"`
		Stage string `json:"stage"`
	}
	var rc SCase
	if env.Replay != "" {
		// a script case has "script"; a send case has "stage"
		if ok, _ := env.ReplayDesc(&rs); ok && rs.Stage != "" {
			var cs []*c06Send
			var err error
			if rs.Role == "server" {
				cs, err = serverStages()
			} else {
				cs, err = clientStages()
			}
			if err != nil {
				return err
			}
			for _, c := range cs {
				if c.Stage == rs.Stage {
					env.Add(c.Coq(), c)
				}
			}
			return nil
		}
		if ok, err := env.ReplayDesc(&rc); err != nil {
			return err
		} else if ok {
			srv := newScriptServer(rc.Conf, rc.Oracle)
			defer srv.Close()
			c := &SCase{Conf: rc.Conf, Oracle: rc.Oracle, Script: rc.Script, Obs: srv.run(rc.Script)}
			env.Add(coqfmt.App("GScript", c.Coq()), c)
			return nil
		}
	}
	for round := 0; round < env.Pick(1, 3); round++ {
		ss, err := serverStages()
		if err != nil {
			return err
		}
		cs, err := clientStages()
		if err != nil {
			return err
		}
		for _, c := range append(ss, cs...) {
			env.Add(c.Coq(), c)
			env.Count("send:" + c.Role + "/" + c.Stage)
			if c.State != "established" {
				env.NonTrivial(c.Coq())
			}
		}
	}
	o := enumOpts{confs: confsByName("plain-only", "none-or-tls", "tls-only")[:env.Pick(2, 3)], oracles: serverOracles[:env.Pick(1, 2)], alphabet: serverAlphabet, depth: env.Pick(3, 4)}
	enumerateServerScripts(env, o, func(c *SCase) {
		env.Add(coqfmt.App("GScript", c.Coq()), c)
		for _, in := range c.Script {
			if in.Kind == "data" {
				env.NonTrivial(c.Coq())
				break
			}
		}
	})
	return nil
}
