package main

// C17: several real clients, over mixed transports, on one real Server.  The
// handlers record the three session values of their context and reply through
// the Sender they were given, echoing those values; every client records what
// it receives.  Strings are interned into numbers for the Coq side.

import (
	"context"
	"fmt"
	"net"
	"sort"
	"strconv"
	"strings"
	"sync"
	"time"

	lime "github.com/takenet/lime-go"
	"verifharness/coqfmt"
)

type c17Case struct {
	Kinds    []string `json:"kinds"`    // transport of client i
	Cands    []int    `json:"cands"`    // candidate node number of client i
	RegTab   [][2]int `json:"regtab"`   // candidate number -> assigned node number
	Ops      [][2]int `json:"ops"`      // (client, envelope number)
	Fin      [][2]int `json:"fin"`      // (position in ops, client)
	Together bool     `json:"together"` // the clients connect and establish concurrently
	// Pings > 0: the Server is made by a ServerBuilder with AutoReplyPings, and every client fires that many ping
	// requests concurrently with its own envelopes; a ping reply that is not the answer to a ping of the client
	// that received it, or a ping left without its reply, shows up in the client's view as a foreign item
	Pings int `json:"pings,omitempty"`
	// Gate: the server's consumer goroutine is held before its first select until every client has dialled, so that
	// it then takes the accepted transports from its backlog back to back (build-tag gate consume:before-select)
	Gate bool `json:"gate,omitempty"`
	// observed
	Server int        `json:"server"`
	Sids   []int      `json:"sids"`
	Ctx    [][3]int   `json:"ctx"`
	In     [][][4]int `json:"in"`
	Out    [][][4]int `json:"out"`
	Note   string     `json:"note,omitempty"`
}

func c17Replies(e int) []int {
	switch e % 3 {
	case 0:
		return nil
	case 1:
		return []int{e}
	}
	return []int{e, e + 1000}
}

type interner struct {
	mu sync.Mutex
	m  map[string]int
}

func (t *interner) tok(s string) int {
	t.mu.Lock()
	defer t.mu.Unlock()
	if v, ok := t.m[s]; ok {
		return v
	}
	v := len(t.m) + 1
	t.m[s] = v
	return v
}

func c17Node(n int) lime.Node {
	return lime.Node{Identity: lime.Identity{Name: fmt.Sprintf("node%d", n), Domain: "verif.test"}, Instance: fmt.Sprintf("inst%d", n)}
}

func (c *c17Case) run() error {
	n := len(c.Cands)
	in := &interner{m: map[string]int{}}
	c.Server = in.tok(serverNode.String())
	reg := map[string]lime.Node{}
	for _, r := range c.RegTab {
		reg[fmt.Sprintf("cand%d", r[0])] = c17Node(r[1])
	}
	// pre-intern the assigned nodes so that the table printed for Coq uses the same numbers
	regTok := make([][2]int, len(c.RegTab))
	for i, r := range c.RegTab {
		regTok[i] = [2]int{r[0], in.tok(c17Node(r[1]).String())}
	}

	var mu sync.Mutex
	inLog := make([][][4]int, n)
	// a handler may keep the context it was given (a reply produced later, a goroutine): what it says is looked at
	// again when everything is over and must still be the same
	type lateView struct {
		ctx     context.Context
		cl, idx int
	}
	var late []lateView
	// delegate node that client cl puts into the pp of what it sends (every other client of each transport kind:
	// the kinds go round in threes)
	ppOf := func(cl int) lime.Node {
		if (cl/3)%2 == 0 {
			return lime.Node{}
		}
		return lime.Node{Identity: lime.Identity{Name: fmt.Sprintf("dlg%d", cl), Domain: "verif.test"}, Instance: "d"}
	}
	record := func(ctx context.Context, id string, pp lime.Node) (cl, e int, echo string, ok bool) {
		// envelope ids are "c<client>-<number>"
		parts := strings.Split(strings.TrimPrefix(id, "c"), "-")
		if len(parts) != 2 {
			return 0, 0, "", false
		}
		cl, _ = strconv.Atoi(parts[0])
		e, _ = strconv.Atoi(parts[1])
		sid, _ := lime.ContextSessionID(ctx)
		loc, _ := lime.ContextSessionLocalNode(ctx)
		rem, _ := lime.ContextSessionRemoteNode(ctx)
		mu.Lock()
		if cl >= 0 && cl < n {
			remTok := in.tok(rem.String())
			if pp != ppOf(cl) {
				// the envelope arrived with a delegation node its sender did not put there (or lost the one it did)
				remTok = in.tok("foreign-pp:" + pp.String())
				c.Note = "an envelope was dispatched with another sender's addressing"
			}
			inLog[cl] = append(inLog[cl], [4]int{in.tok(sid), in.tok(loc.String()), remTok, e})
			if len(late) < 400 {
				late = append(late, lateView{ctx: ctx, cl: cl, idx: len(inLog[cl]) - 1})
			}
		}
		mu.Unlock()
		return cl, e, sid + "|" + loc.String() + "|" + rem.String(), true
	}

	cfg := lime.NewServerConfig()
	cfg.Node = serverNode
	cfg.SchemeOpts = []lime.AuthenticationScheme{lime.AuthenticationSchemeGuest}
	cfg.EncryptOpts = []lime.SessionEncryption{lime.SessionEncryptionNone}
	cfg.ChannelBufferSize = 4
	if c.Gate {
		cfg.Backlog = 32 // room for every accepted transport to wait for the consumer
	}
	cfg.Authenticate = allowAll
	cfg.Register = func(ctx context.Context, cand lime.Node, ch *lime.ServerChannel) (lime.Node, error) {
		if nd, ok := reg[cand.Name]; ok {
			return nd, nil
		}
		return cand, nil
	}
	mux := &lime.EnvelopeMux{}
	msgHandler := func(ctx context.Context, msg *lime.Message, s lime.Sender) error {
		_, e, echo, ok := record(ctx, msg.ID, msg.PP)
		if !ok {
			return nil
		}
		for _, p := range c17Replies(e) {
			r := &lime.Message{Envelope: lime.Envelope{ID: fmt.Sprintf("r-%d", p)}}
			r.SetContent(lime.TextDocument(fmt.Sprintf("%s|%d", echo, p)))
			if err := s.SendMessage(ctx, r); err != nil {
				return nil
			}
		}
		return nil
	}
	mux.MessageHandlerFunc(nil, msgHandler)
	reqHandler := func(ctx context.Context, cmd *lime.RequestCommand, s lime.Sender) error {
		_, e, echo, ok := record(ctx, cmd.ID, cmd.PP)
		if !ok {
			return nil
		}
		for _, p := range c17Replies(e) {
			r := cmd.FailureResponse(&lime.Reason{Code: p, Description: fmt.Sprintf("%s|%d", echo, p)})
			if err := s.SendResponseCommand(ctx, r); err != nil {
				return nil
			}
		}
		return nil
	}
	mux.RequestCommandHandlerFunc(nil, reqHandler)

	inprocMu.Lock()
	ipAddr := nextInprocAddr()
	inprocMu.Unlock()
	tcpAddr, err := freeTCPAddr()
	if err != nil {
		return err
	}
	wsAddr, err := freeTCPAddr()
	if err != nil {
		return err
	}
	var srv *lime.Server
	if c.Pings > 0 {
		b := lime.NewServerBuilder().Name(serverNode.Name).Domain(serverNode.Domain).Instance(serverNode.Instance).
			EnableGuestAuthentication().EncryptionOptions(lime.SessionEncryptionNone).ChannelBufferSize(4).
			Register(cfg.Register).AutoReplyPings().
			MessagesHandlerFunc(msgHandler).RequestCommandsHandlerFunc(reqHandler).
			ListenInProcess(ipAddr).ListenTCP(tcpAddr, nil).ListenWebsocket(&net.TCPAddr{IP: wsAddr.IP, Port: wsAddr.Port}, nil)
		srv = b.Build()
		// the builder's guest rule wants UUID names; this scenario is not about authentication
		srv.VerifConfig().Authenticate = allowAll
	} else {
		srv = lime.NewServer(cfg, mux,
			lime.NewBoundListener(lime.NewInProcessTransportListener(ipAddr), ipAddr),
			lime.NewBoundListener(lime.NewTCPTransportListener(nil), tcpAddr),
			lime.NewBoundListener(lime.NewWebsocketTransportListener(nil), &net.TCPAddr{IP: wsAddr.IP, Port: wsAddr.Port}))
	}
	var gate *gateCtl
	if c.Gate {
		gate = newGateCtl()
		lime.VerifSetGate(gate.point)
		defer lime.VerifSetGate(nil)
		gate.hold("consume:before-select")
	}
	served := make(chan error, 1)
	go func() { served <- srv.ListenAndServe() }()
	defer func() {
		for i := 0; i < 200; i++ {
			if err := srv.Close(); !notServingYet(err) {
				break
			}
			time.Sleep(time.Millisecond)
		}
		select {
		case <-served:
		case <-time.After(10 * time.Second):
		}
	}()

	ctx, cancel := context.WithTimeout(context.Background(), 20*time.Second*slack)
	defer cancel()
	dial := func(kind string) (lime.Transport, error) {
		var t lime.Transport
		var err error
		ok := waitUntil(3*time.Second, func() bool {
			switch kind {
			case "inproc":
				t, err = lime.DialInProcess(ipAddr, 4)
			case "tcp":
				t, err = lime.DialTcp(ctx, tcpAddr, nil)
			default:
				t, err = lime.DialWebsocket(ctx, fmt.Sprintf("ws://127.0.0.1:%d", wsAddr.Port), nil, nil)
			}
			return err == nil
		})
		if !ok {
			return nil, fmt.Errorf("dial %s: %v", kind, err)
		}
		return t, nil
	}

	chans := make([]*lime.ClientChannel, n)
	trs := make([]lime.Transport, n)
	c.Sids = make([]int, n)
	c.Ctx = make([][3]int, n)
	c.Out = make([][][4]int, n)
	outMu := make([]sync.Mutex, n)
	pongs := make([]int, n)
	// clients connect one after the other, or all at once (then the server's backlog and its
	// per-transport goroutines are exercised); client i's view is what is compared either way
	connect := func(i int) error {
		t, err := dial(c.Kinds[i])
		if err != nil {
			return err
		}
		cc := lime.NewClientChannel(t, 4)
		ses, err := cc.EstablishSession(ctx, lime.NoneCompressionSelector, lime.NoneEncryptionSelector,
			lime.Identity{Name: fmt.Sprintf("cand%d", c.Cands[i]), Domain: "verif.test"}, lime.GuestAuthenticator, fmt.Sprintf("ci%d", i))
		if err != nil || ses.State != lime.SessionStateEstablished {
			_ = t.Close()
			return fmt.Errorf("client %d (%s): establish: %v", i, c.Kinds[i], err)
		}
		chans[i] = cc
		trs[i] = t
		c.Sids[i] = in.tok(ses.ID)
		c.Ctx[i] = [3]int{in.tok(ses.ID), in.tok(ses.From.String()), in.tok(ses.To.String())}
		parse := func(text string) {
			f := strings.Split(text, "|")
			if len(f) != 4 {
				return
			}
			p, _ := strconv.Atoi(f[3])
			outMu[i].Lock()
			c.Out[i] = append(c.Out[i], [4]int{in.tok(f[0]), in.tok(f[1]), in.tok(f[2]), p})
			outMu[i].Unlock()
		}
		go func() {
			for m := range cc.MsgChan() {
				if td, ok := m.Content.(*lime.TextDocument); ok {
					parse(string(*td))
				} else if td, ok := m.Content.(lime.TextDocument); ok {
					parse(string(td))
				}
			}
		}()
		own := ses.To
		go func() {
			for r := range cc.RespCmdChan() {
				if strings.HasPrefix(r.ID, "ping-") {
					// the answer to a ping: it must be one of this client's pings, addressed to this client
					mine := strings.HasPrefix(r.ID, fmt.Sprintf("ping-c%d-", i)) && (r.To == (lime.Node{}) || r.To == own)
					outMu[i].Lock()
					if mine {
						pongs[i]++
					} else {
						c.Out[i] = append(c.Out[i], [4]int{0, 0, 0, 777000 + i})
						c.Note = "a ping reply reached a client that had not asked for it"
					}
					outMu[i].Unlock()
					continue
				}
				if r.Reason != nil {
					parse(r.Reason.Description)
				}
			}
		}()
		return nil
	}
	if c.Together {
		cerrs := make([]error, n)
		var cwg sync.WaitGroup
		for i := 0; i < n; i++ {
			cwg.Add(1)
			go func(i int) { defer cwg.Done(); cerrs[i] = connect(i) }(i)
		}
		if gate != nil {
			// everybody has dialled and sits in the listener's queue or the server's backlog: now the consumer runs
			time.Sleep(40 * time.Millisecond)
			gate.release("consume:before-select")
		}
		cwg.Wait()
		for i, e := range cerrs {
			if e != nil {
				// a client that the server never served: recorded as an empty view with id 0
				c.Note += fmt.Sprintf("client %d not established: %v; ", i, e)
			}
		}
	} else {
		for i := 0; i < n; i++ {
			if err := connect(i); err != nil {
				return err
			}
		}
	}
	established := func(i int) bool { return chans[i] != nil }

	// per-client programs: own sends in order, finishing where the history says so
	type step struct {
		fin bool
		e   int
	}
	progs := make([][]step, n)
	for pos := 0; pos <= len(c.Ops); pos++ {
		for _, f := range c.Fin {
			if f[0] == pos {
				progs[f[1]] = append(progs[f[1]], step{fin: true})
			}
		}
		if pos < len(c.Ops) {
			o := c.Ops[pos]
			progs[o[0]] = append(progs[o[0]], step{e: o[1]})
		}
	}
	var wg sync.WaitGroup
	for i := 0; i < n; i++ {
		i := i
		wg.Add(1)
		go func() {
			defer wg.Done()
			if !established(i) {
				return
			}
			expect, handledWant := 0, 0
			got := func() int { outMu[i].Lock(); defer outMu[i].Unlock(); return len(c.Out[i]) }
			finished := false
			pinged := make(chan int, 1)
			if c.Pings > 0 {
				go func() {
					sent := 0
					uri, _ := lime.ParseLimeURI("/ping")
					for k := 0; k < c.Pings; k++ {
						q := &lime.RequestCommand{Command: lime.Command{Envelope: lime.Envelope{ID: fmt.Sprintf("ping-c%d-%d", i, k)}, Method: lime.CommandMethodGet}, URI: uri}
						if chans[i].SendRequestCommand(ctx, q) == nil {
							sent++
						}
					}
					pinged <- sent
				}()
			} else {
				pinged <- 0
			}
			for _, s := range progs[i] {
				if s.fin {
					// finish only once everything asked so far was answered, so that the view is determined
					waitUntil(5*time.Second, func() bool { return got() >= expect })
					waitUntil(5*time.Second*slack, func() bool {
						mu.Lock()
						defer mu.Unlock()
						return len(inLog[i]) >= handledWant
					})
					fctx, fc := context.WithTimeout(ctx, 8*time.Second)
					_, _ = chans[i].FinishSession(fctx)
					fc()
					finished = true
					continue
				}
				id := fmt.Sprintf("c%d-%d", i, s.e)
				var err error
				if i%2 == 0 {
					m := &lime.Message{Envelope: lime.Envelope{ID: id, PP: ppOf(i)}}
					m.SetContent(lime.TextDocument("x"))
					err = chans[i].SendMessage(ctx, m)
				} else {
					uri, _ := lime.ParseLimeURI("/c17")
					err = chans[i].SendRequestCommand(ctx, &lime.RequestCommand{Command: lime.Command{Envelope: lime.Envelope{ID: id, PP: ppOf(i)}, Method: lime.CommandMethodGet}, URI: uri})
				}
				if err == nil && !finished {
					expect += len(c17Replies(s.e))
					handledWant++
				}
			}
			waitUntil(5*time.Second, func() bool { return got() >= expect })
			// ... and until the handlers have run for everything this client sent while its session was on (envelopes
			// that get no reply leave no other trace)
			waitUntil(5*time.Second*slack, func() bool {
				mu.Lock()
				defer mu.Unlock()
				return len(inLog[i]) >= handledWant
			})
			if sent := <-pinged; sent > 0 && !finished {
				if !waitUntil(5*time.Second*slack, func() bool { outMu[i].Lock(); defer outMu[i].Unlock(); return pongs[i] >= sent }) {
					outMu[i].Lock()
					c.Out[i] = append(c.Out[i], [4]int{0, 0, 0, 888000 + i})
					c.Note = "a ping was left without its reply"
					outMu[i].Unlock()
				}
			}
		}()
	}
	wg.Wait()
	// let replies that went to the wrong connection surface, and the handler log settle
	time.Sleep(5 * time.Millisecond)
	mu.Lock()
	for _, lv := range late {
		sid, _ := lime.ContextSessionID(lv.ctx)
		loc, _ := lime.ContextSessionLocalNode(lv.ctx)
		rem, _ := lime.ContextSessionRemoteNode(lv.ctx)
		now := [3]int{in.tok(sid), in.tok(loc.String()), in.tok(rem.String())}
		rec := &inLog[lv.cl][lv.idx]
		if now != [3]int{rec[0], rec[1], rec[2]} {
			// the context changed under the handler's feet: the record shows what it says now
			rec[0], rec[1], rec[2] = now[0], now[1], now[2]
			c.Note = "a handler's context said something else after the handler had returned"
		}
	}
	c.In = make([][][4]int, n)
	for i := range inLog {
		c.In[i] = append([][4]int(nil), inLog[i]...)
	}
	mu.Unlock()
	for i := 0; i < n; i++ {
		outMu[i].Lock()
		c.Out[i] = append([][4]int(nil), c.Out[i]...)
		outMu[i].Unlock()
	}
	var cw sync.WaitGroup
	for i := 0; i < n; i++ {
		cw.Add(1)
		go func(i int) {
			defer cw.Done()
			if !established(i) {
				return
			}
			// closing a TCP transport first makes its receiver, blocked on the socket, return at once
			// (the WebSocket transport must not be closed under a running Receive)
			if c.Kinds[i] == "tcp" {
				_ = trs[i].Close()
			}
			_ = chans[i].Close()
		}(i)
	}
	cw.Wait()
	c.RegTab = regTok
	return nil
}

func wrList(l [][4]int) string {
	items := make([]string, len(l))
	for i, w := range l {
		items[i] = coqfmt.Tuple(coqfmt.Tuple(coqfmt.Nat(w[0]), coqfmt.Nat(w[1]), coqfmt.Nat(w[2])), coqfmt.Nat(w[3]))
	}
	return coqfmt.List(items)
}

func pairList(l [][2]int) string {
	items := make([]string, len(l))
	for i, w := range l {
		items[i] = coqfmt.Tuple(coqfmt.Nat(w[0]), coqfmt.Nat(w[1]))
	}
	return coqfmt.List(items)
}

func (c *c17Case) coq() string {
	ctxs := make([]string, len(c.Ctx))
	for i, x := range c.Ctx {
		ctxs[i] = coqfmt.Tuple(coqfmt.Nat(x[0]), coqfmt.Nat(x[1]), coqfmt.Nat(x[2]))
	}
	ins := make([]string, len(c.In))
	for i := range c.In {
		ins[i] = wrList(c.In[i])
	}
	outs := make([]string, len(c.Out))
	for i := range c.Out {
		outs[i] = wrList(c.Out[i])
	}
	return coqfmt.Record(
		"c_server", coqfmt.Nat(c.Server),
		"c_cands", coqfmt.Nats(c.Cands),
		"c_regtab", pairList(c.RegTab),
		"c_ops", pairList(c.Ops),
		"c_fin", pairList(c.Fin),
		"o_sids", coqfmt.Nats(c.Sids),
		"o_ctx", coqfmt.List(ctxs),
		"o_in", coqfmt.List(ins),
		"o_out", coqfmt.List(outs))
}

func genC17Burst(env *Env, n, per int) *c17Case {
	c := &c17Case{Together: true}
	kinds := []string{"inproc", "tcp", "ws"}
	for i := 0; i < n; i++ {
		c.Kinds = append(c.Kinds, kinds[i%3])
		c.Cands = append(c.Cands, i+1)
		c.RegTab = append(c.RegTab, [2]int{i + 1, 100 + (i+1)%n})
	}
	e := 1
	for k := 0; k < per; k++ {
		for i := 0; i < n; i++ {
			c.Ops = append(c.Ops, [2]int{i, e})
			e++
		}
	}
	return c
}

// genC17Rush: n clients of one transport kind that all connect at the same moment, so that the server takes
// several accepted transports from its backlog back to back; two envelopes each afterwards
func genC17Rush(n int, kind string) *c17Case {
	c := &c17Case{Together: true}
	for i := 0; i < n; i++ {
		c.Kinds = append(c.Kinds, kind)
		c.Cands = append(c.Cands, i+1)
		c.RegTab = append(c.RegTab, [2]int{i + 1, 100 + (i+3)%n})
	}
	e := 1
	for k := 0; k < 2; k++ {
		for i := 0; i < n; i++ {
			c.Ops = append(c.Ops, [2]int{i, e})
			e++
		}
	}
	return c
}

func genC17(env *Env, n int, idx int) *c17Case {
	rng := env.Rng
	c := &c17Case{Together: idx%2 == 0}
	kinds := []string{"inproc", "tcp", "ws"}
	for i := 0; i < n; i++ {
		switch idx % 4 {
		case 0:
			c.Kinds = append(c.Kinds, kinds[i%3])
		case 1:
			c.Kinds = append(c.Kinds, kinds[rng.Intn(3)])
		case 2:
			c.Kinds = append(c.Kinds, "inproc")
		default:
			c.Kinds = append(c.Kinds, kinds[1+rng.Intn(2)])
		}
		c.Cands = append(c.Cands, i+1)
	}
	// Register: a permutation of the addresses, sometimes with two candidates mapped to one node
	perm := rng.Perm(n)
	for i := 0; i < n; i++ {
		c.RegTab = append(c.RegTab, [2]int{i + 1, 100 + perm[i]})
	}
	if n >= 3 && idx%3 == 0 {
		c.RegTab[1][1] = c.RegTab[0][1]
	}
	nops := n * (2 + rng.Intn(4))
	e := 1
	for k := 0; k < nops; k++ {
		c.Ops = append(c.Ops, [2]int{rng.Intn(n), e})
		e += 1 + rng.Intn(2)
	}
	if idx%2 == 1 {
		c.Fin = append(c.Fin, [2]int{rng.Intn(nops), rng.Intn(n)})
		if n > 3 {
			c.Fin = append(c.Fin, [2]int{rng.Intn(nops), rng.Intn(n)})
		}
		sort.Slice(c.Fin, func(a, b int) bool { return c.Fin[a][0] < c.Fin[b][0] })
		if len(c.Fin) == 2 && c.Fin[0][1] == c.Fin[1][1] {
			c.Fin = c.Fin[:1]
		}
	}
	return c
}

func runC17(env *Env) error {
	env.Header = "From Coq Require Import List Bool Arith.\nImport ListNotations.\nFrom Lime Require Import Base.Res Mux.Sessions Corr.C17.\n"
	env.ShardSize = 4
	env.Rule = "one real Server with in-process, TCP and WebSocket listeners; 2-8 (quick) / 2-32 (thorough) clients over mixed transports connected one after the other, each sending its own envelopes (messages on even clients, request commands on odd ones) concurrently with the others; Register permutes the addresses (sometimes two candidates get one node); some clients finish mid-way. Non-trivial: at least two clients with traffic. Distinct by printed case."
	var rc c17Case
	if ok, err := env.ReplayDesc(&rc); err != nil {
		return err
	} else if ok {
		c := &c17Case{Kinds: rc.Kinds, Cands: rc.Cands, Ops: rc.Ops, Fin: rc.Fin, Together: rc.Together, Pings: rc.Pings, Gate: rc.Gate}
		// the replayed table carries interned node numbers; rebuild a table with the same shape
		for _, r := range rc.RegTab {
			c.RegTab = append(c.RegTab, [2]int{r[0], 100 + r[1]})
		}
		if err := c.run(); err != nil {
			return err
		}
		env.Add(c.coq(), c)
		return nil
	}
	sizes := []int{2, 3, 4, 5, 8}
	reps := 8
	if env.Thorough() {
		sizes = []int{2, 3, 4, 5, 8, 13, 21, 32}
		reps = 16
	}
	idx := 0
	var cases []*c17Case
	for _, n := range sizes {
		for r := 0; r < reps; r++ {
			cases = append(cases, genC17(env, n, idx))
			idx++
		}
	}
	if env.Thorough() {
		cases = append(cases, genC17Burst(env, 8, 300), genC17Burst(env, 16, 150), genC17Burst(env, 4, 600), genC17Burst(env, 32, 60), genC17Burst(env, 8, 100), genC17Burst(env, 6, 130))
	} else {
		cases = append(cases, genC17Burst(env, 8, 100), genC17Burst(env, 4, 200), genC17Burst(env, 6, 130))
	}
	// sessions that ping a Server with AutoReplyPings all at the same time
	for r := 0; r < env.Pick(3, 10); r++ {
		pc := genC17Burst(env, 6, 20)
		pc.Pings = env.Pick(400, 1500)
		if r%2 == 1 {
			for i := range pc.Kinds {
				pc.Kinds[i] = []string{"inproc", "tcp"}[i%2]
			}
		}
		cases = append(cases, pc)
	}
	for r := 0; r < env.Pick(4, 16); r++ {
		cases = append(cases, genC17Rush(16, "inproc"))
		if r%2 == 0 {
			cases = append(cases, genC17Rush(12, "tcp"))
		}
	}
	// cases are independent servers; run a few at a time
	sem := make(chan struct{}, 4)
	errs := make([]error, len(cases))
	var wg sync.WaitGroup
	for i, c := range cases {
		wg.Add(1)
		sem <- struct{}{}
		go func(i int, c *c17Case) {
			defer wg.Done()
			defer func() { <-sem }()
			errs[i] = c.run()
		}(i, c)
	}
	wg.Wait()
	// the gate is process-wide: the cases that use it run one at a time, after the others
	for r := 0; r < env.Pick(3, 10); r++ {
		gc := genC17Rush(16, []string{"inproc", "tcp"}[r%2])
		gc.Gate = true
		cases = append(cases, gc)
		errs = append(errs, gc.run())
	}
	for i, c := range cases {
		if errs[i] != nil {
			return errs[i]
		}
		env.Add(c.coq(), c)
		env.Count(fmt.Sprintf("clients=%d", len(c.Cands)))
		for _, k := range c.Kinds {
			env.Count("transport=" + k)
		}
		if len(c.Fin) > 0 {
			env.Count("with-finish")
		}
		if c.Together {
			env.Count("connect=together")
		}
		if len(c.Ops) >= 600 {
			env.Count("burst")
		}
		active := map[int]bool{}
		for _, o := range c.Ops {
			active[o[0]] = true
		}
		if len(active) >= 2 {
			env.NonTrivial(c.coq())
		}
	}
	return nil
}

func init() { register("C17", runC17) }
