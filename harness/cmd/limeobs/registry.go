package main

// The document registry (RegisterDocumentFactory / GetDocumentFactory) against coq/Codec/Registry.v: fresh media types
// are registered and decoded, in varying order, in one process.

import (
	"encoding/json"
	"fmt"
	"os"
	"reflect"
	"sync/atomic"

	lime "github.com/takenet/lime-go"
	"verifharness/coqfmt"
)

// verifDoc is a document type of the harness's own; every registered media type gets a factory producing it.
type verifDoc struct {
	mt lime.MediaType
	A  string `json:"a"`
	B  string `json:"b,omitempty"`
}

func (d *verifDoc) MediaType() lime.MediaType { return d.mt }

type regOp struct {
	Register bool `json:"register,omitempty"`
	T        int  `json:"t"`
	JSON     bool `json:"is_json,omitempty"`
}

type registryCase struct {
	Form   string   `json:"form"` // registry
	Ops    []regOp  `json:"ops"`
	Kinds  []string `json:"kinds"` // per decode: custom:<t> json text
	Stable []bool   `json:"stable"`
	term   string
}

var registrySeq int64

// runRegistry performs the operations on the real registry.  Type names are made unique per run (the registry is
// process-wide and has no removal): name t of the case becomes vnd.verif.p<pid>r<run>t<t>.
func runRegistry(ops []regOp) *registryCase {
	run := atomic.AddInt64(&registrySeq, 1)
	c := &registryCase{Form: "registry", Ops: ops, Kinds: []string{}, Stable: []bool{}}
	mtOf := func(t int, isJSON bool) lime.MediaType {
		m := lime.MediaType{Type: "application", Subtype: fmt.Sprintf("vnd.verif.p%dr%dt%d", os.Getpid(), run, t)}
		if t%2 == 1 {
			// spelled with capitals: the registry and the decoder take a media type as it is written
			m.Subtype = fmt.Sprintf("vnd.verifOrderStatus.P%dR%dT%d", os.Getpid(), run, t)
		}
		if isJSON {
			m.Suffix = "json"
		}
		return m
	}
	jsonOf := map[int]bool{}
	for _, o := range ops {
		if !o.Register {
			jsonOf[o.T] = o.JSON
		}
	}
	for _, o := range ops {
		if o.Register {
			mt := mtOf(o.T, jsonOf[o.T])
			lime.RegisterDocumentFactory(func() lime.Document { return &verifDoc{mt: mt} })
			continue
		}
		mt := mtOf(o.T, o.JSON)
		content := `{"a":"x","b":"y"}`
		if !o.JSON {
			content = `"plain text"`
		}
		in := fmt.Sprintf(`{"id":"r1","type":%q,"content":%s}`, mt.String(), content)
		var m lime.Message
		kind, stable := "error", false
		if err := json.Unmarshal([]byte(in), &m); err == nil {
			switch d := m.Content.(type) {
			case *verifDoc:
				kind = fmt.Sprintf("custom:%d", o.T)
				stable = d.A == "x" && d.B == "y"
			case *lime.JsonDocument:
				kind = "json"
			case *lime.TextDocument, lime.TextDocument:
				kind = "text"
			default:
				kind = "other:" + reflect.TypeOf(m.Content).String()
			}
			// what was decoded encodes back to an equal envelope
			if out, err := json.Marshal(&m); err == nil {
				var a, b interface{}
				_ = json.Unmarshal([]byte(in), &a)
				_ = json.Unmarshal(out, &b)
				stable = (kind[:4] != "cust" || stable) && reflect.DeepEqual(a, b)
			} else {
				stable = false
			}
		}
		c.Kinds = append(c.Kinds, kind)
		c.Stable = append(c.Stable, stable)
	}
	opsT := make([]string, len(ops))
	for i, o := range ops {
		if o.Register {
			opsT[i] = coqfmt.App("RRegister", coqfmt.Nat(o.T))
		} else {
			opsT[i] = coqfmt.App("RDecode", coqfmt.Nat(o.T), coqfmt.Bool(o.JSON))
		}
	}
	kindsT := make([]string, len(c.Kinds))
	for i, k := range c.Kinds {
		switch {
		case k == "json":
			kindsT[i] = "RkJson"
		case k == "text":
			kindsT[i] = "RkText"
		case len(k) > 7 && k[:7] == "custom:":
			kindsT[i] = "(RkCustom " + k[7:] + ")"
		default:
			kindsT[i] = "(RkCustom 999999)"
		}
	}
	st := make([]string, len(c.Stable))
	for i, b := range c.Stable {
		st[i] = coqfmt.Bool(b)
	}
	c.term = coqfmt.App("CRegistry", coqfmt.List(opsT), coqfmt.List(kindsT), coqfmt.List(st))
	return c
}

func addRegistryCases(env *Env) {
	// every order of {register, decode} for one type, decode-before-register included; then PRNG sequences over
	// three types
	fixed := [][]regOp{
		{{T: 1, JSON: true}, {Register: true, T: 1}, {T: 1, JSON: true}},
		{{Register: true, T: 1}, {T: 1, JSON: true}, {T: 2, JSON: true}},
		{{T: 1}, {Register: true, T: 2}, {T: 1}, {T: 2, JSON: true}},
		{{T: 1, JSON: true}, {T: 1, JSON: true}, {Register: true, T: 2}, {T: 1, JSON: true}, {T: 2, JSON: true}, {Register: true, T: 1}, {T: 1, JSON: true}},
	}
	for _, ops := range fixed {
		c := runRegistry(ops)
		env.Add(c.term, c)
		env.Count("form=registry")
		env.NonTrivial(c.term)
	}
	for i := 0; i < env.Pick(40, 400); i++ {
		var ops []regOp
		isJSON := []bool{env.Rng.Intn(2) == 0, env.Rng.Intn(2) == 0, true}
		registered := map[int]bool{}
		for j := 0; j < 3+env.Rng.Intn(8); j++ {
			t := env.Rng.Intn(3)
			// (the harness's document type is a JSON object: it is registered for +json types only)
			if env.Rng.Intn(3) == 0 && !registered[t] && isJSON[t] {
				registered[t] = true
				ops = append(ops, regOp{Register: true, T: t})
			} else {
				ops = append(ops, regOp{T: t, JSON: isJSON[t]})
			}
		}
		c := runRegistry(ops)
		env.Add(c.term, c)
		env.Count("form=registry")
		env.NonTrivial(c.term)
	}
}
