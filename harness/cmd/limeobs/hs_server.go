package main

// Scripted raw clients against the real Server (shared by C03, C06, C07, C09, C10, C14).

import (
	"bufio"
	"context"
	"crypto/tls"
	"encoding/base64"
	"encoding/json"
	"errors"
	"fmt"
	"io"
	"net"
	"runtime"
	"strconv"
	"strings"
	"sync"
	"sync/atomic"
	"time"

	lime "github.com/takenet/lime-go"
	"verifharness/coqfmt"
	"verifharness/memconn"
)

// ---- abstract script items (mirror of Hs/Server.v) ----

type CSes struct {
	ID     string `json:"id"`    // "" absent, "SID" the session id, anything else is wrong
	State  string `json:"state"` // new negotiating ...
	Enc    string `json:"enc"`
	Comp   string `json:"comp"`
	Scheme string `json:"scheme"`
	Cred   *int   `json:"cred"` // nil = no authentication member
	From   int    `json:"from"`
}

type CIn struct {
	Kind string `json:"kind"` // ses data bad eof
	Ses  *CSes  `json:"ses,omitempty"`
	Sub  string `json:"sub,omitempty"` // data: "" a message, ping a GET /ping request command, not a notification, resp a response command
	// Glued: written in the same segment as the item before it, without waiting for the server's answer
	Glued bool `json:"glued,omitempty"`
}

func (c CIn) Coq() string {
	switch c.Kind {
	case "ses":
		cred := coqfmt.None
		if c.Ses.Cred != nil {
			cred = coqfmt.Some(coqfmt.Nat(*c.Ses.Cred))
		}
		return coqfmt.App("CSes", coqfmt.Record("cs_id", coqfmt.Str(c.Ses.ID), "cs_state", coqState(c.Ses.State),
			"cs_enc", coqfmt.Str(c.Ses.Enc), "cs_comp", coqfmt.Str(c.Ses.Comp), "cs_scheme", coqfmt.Str(c.Ses.Scheme),
			"cs_cred", cred, "cs_from", coqfmt.Nat(c.Ses.From)))
	case "data":
		return "CData"
	case "bad":
		return "CBad"
	}
	return "CEof"
}

func coqState(s string) string {
	switch s {
	case "new":
		return "SNew"
	case "negotiating":
		return "SNegotiating"
	case "authenticating":
		return "SAuthenticating"
	case "established":
		return "SEstablished"
	case "finishing":
		return "SFinishing"
	case "finished":
		return "SFinished"
	}
	return "SFailed"
}

type SConf struct {
	Name    string   `json:"name"`
	Comp    []string `json:"comp"`
	Enc     []string `json:"enc"`
	Schemes []string `json:"schemes"`
	Kind    string   `json:"kind"` // mem memtls
	TLSOk   bool     `json:"tls_ok"`
}

func (c *SConf) Coq() string {
	kind := coqKind(c.Kind)
	return coqfmt.Record("sc_comp", coqfmt.Strs(c.Comp), "sc_enc", coqfmt.Strs(c.Enc), "sc_schemes", coqfmt.Strs(c.Schemes),
		"sc_kind", kind, "sc_tls_ok", coqfmt.Bool(c.TLSOk), "sc_sid", coqfmt.Str("SID"))
}

type AuthRow struct {
	From   int    `json:"from"`
	Scheme string `json:"scheme"`
	Cred   *int   `json:"cred"`
	Round  int    `json:"round"`
	Res    string `json:"res"` // role role+rt:<n> unknown empty round:<n> eround:<n> err
}
type RegRow struct {
	From int    `json:"from"`
	Res  string `json:"res"` // node:<n> err
}
type SOracle struct {
	Name string    `json:"name"`
	Auth []AuthRow `json:"auth"`
	Reg  []RegRow  `json:"reg"`
}

func (o *SOracle) coqAuth() string {
	rows := []string{}
	for _, r := range o.Auth {
		cred := coqfmt.None
		if r.Cred != nil {
			cred = coqfmt.Some(coqfmt.Nat(*r.Cred))
		}
		// the callback's result as it is: role field (0 unset, 1 unknown, 2 a domain role) and round-trip data;
		// the model's classify decides what it means
		res := "(classify 1 None)"
		switch {
		case r.Res == "role":
			res = "(classify 2 None)"
		case strings.HasPrefix(r.Res, "role+rt:"):
			res = "(classify 2 (Some " + r.Res[8:] + "))"
		case r.Res == "empty":
			res = "(classify 0 None)"
		case r.Res == "err":
			res = "AErr"
		case strings.HasPrefix(r.Res, "round:"):
			res = "(classify 1 (Some " + r.Res[6:] + "))"
		case strings.HasPrefix(r.Res, "eround:"):
			res = "(classify 0 (Some " + r.Res[7:] + "))"
		}
		rows = append(rows, coqfmt.Tuple(coqfmt.Nat(r.From), coqfmt.Str(r.Scheme), cred, coqfmt.Nat(r.Round), res))
	}
	return coqfmt.List(rows)
}
func (o *SOracle) coqReg() string {
	rows := []string{}
	for _, r := range o.Reg {
		res := "RegErr"
		if strings.HasPrefix(r.Res, "node:") {
			res = "(RNode " + r.Res[5:] + ")"
		}
		rows = append(rows, coqfmt.Tuple(coqfmt.Nat(r.From), res))
	}
	return coqfmt.List(rows)
}

// ---- observations ----

type SSes struct {
	State      string   `json:"state"`
	ID         string   `json:"id"` // "SID" when it is the connection's session id
	FromOK     bool     `json:"from_ok"`
	To         *int     `json:"to"`
	EncOpts    []string `json:"encopts"`
	CompOpts   []string `json:"compopts"`
	SchemeOpts []string `json:"schemeopts"`
	Enc        string   `json:"enc"`
	Comp       string   `json:"comp"`
	Round      *int     `json:"round"`
	Reason     bool     `json:"reason"`
	ReadUnder  string   `json:"read_under"` // none | tls
}

func optNat(p *int) string {
	if p == nil {
		return coqfmt.None
	}
	return coqfmt.Some(coqfmt.Nat(*p))
}

func (s *SSes) Coq() string {
	id := s.ID
	if !s.FromOK {
		id = id + "#from-is-not-the-server-node"
	}
	return coqfmt.App("Sent", coqfmt.Record("ss_state", coqState(s.State), "ss_id", coqfmt.Str(id), "ss_to", optNat(s.To),
		"ss_encopts", coqfmt.Strs(s.EncOpts), "ss_compopts", coqfmt.Strs(s.CompOpts), "ss_schemeopts", coqfmt.Strs(s.SchemeOpts),
		"ss_enc", coqfmt.Str(s.Enc), "ss_comp", coqfmt.Str(s.Comp), "ss_round", optNat(s.Round), "ss_reason", coqfmt.Bool(s.Reason)),
		coqfmt.Str(s.ReadUnder))
}

type SCall struct {
	Kind   string `json:"kind"` // auth reg est fin dispatch
	From   int    `json:"from,omitempty"`
	Scheme string `json:"scheme,omitempty"`
	Cred   *int   `json:"cred,omitempty"`
	Enc    string `json:"enc,omitempty"`
	In     *CIn   `json:"in,omitempty"`
}

func (c *SCall) Coq() string {
	switch c.Kind {
	case "auth":
		return coqfmt.App("AuthCall", coqfmt.Nat(c.From), coqfmt.Str(c.Scheme), optNat(c.Cred), coqfmt.Str(c.Enc))
	case "reg":
		return coqfmt.App("RegCall", coqfmt.Nat(c.From), coqfmt.Str(c.Enc))
	case "est":
		return "EstCb"
	case "fin":
		return "FinCb"
	case "took":
		return coqfmt.App("Took", c.In.Coq())
	}
	return "Dispatch"
}

// WEv is one event on the wire as the client sees it: it wrote its next input (Took) or read a session envelope.
type WEv struct {
	Took bool  `json:"took,omitempty"`
	In   *CIn  `json:"in,omitempty"`
	Ses  *SSes `json:"ses,omitempty"`
}

type SObs struct {
	Wire   []WEv   `json:"wire"`
	Calls  []SCall `json:"calls"`
	Closed bool    `json:"closed"`
	Ended  bool    `json:"ended"`
	Note   string  `json:"note,omitempty"`
}

func (o *SObs) Coq() string {
	sent := make([]string, len(o.Wire))
	for i := range o.Wire {
		if o.Wire[i].Took {
			sent[i] = coqfmt.App("Took", o.Wire[i].In.Coq())
		} else {
			sent[i] = o.Wire[i].Ses.Coq()
		}
	}
	calls := make([]string, len(o.Calls))
	for i := range o.Calls {
		calls[i] = o.Calls[i].Coq()
	}
	return coqfmt.Record("ob_wire", coqfmt.List(sent), "ob_calls", coqfmt.List(calls),
		"ob_closed", coqfmt.Bool(o.Closed), "ob_ended", coqfmt.Bool(o.Ended))
}

type SCase struct {
	Conf   *SConf   `json:"conf"`
	Oracle *SOracle `json:"oracle"`
	Script []CIn    `json:"script"`
	Obs    *SObs    `json:"obs"`
}

func (c *SCase) Coq() string {
	script := make([]string, len(c.Script))
	for i, x := range c.Script {
		script[i] = x.Coq()
	}
	return coqfmt.Record("k_conf", c.Conf.Coq(), "k_auth", c.Oracle.coqAuth(), "k_reg", c.Oracle.coqReg(),
		"k_script", coqfmt.List(script), "k_obs", c.Obs.Coq())
}

// ---- node / credential tokens ----

// identity tokens of 50 or more stand for names that are UUIDs
func clientNode(n int) string {
	if n >= 50 {
		return fmt.Sprintf("00000000-0000-4000-8000-%012d@verif.test/i%d", n, n)
	}
	return fmt.Sprintf("u%d@verif.test/i%d", n, n)
}
func regNode(n int) lime.Node {
	return lime.Node{Identity: lime.Identity{Name: fmt.Sprintf("r%d", n), Domain: "verif.test"}, Instance: "x"}
}
func tokenOfName(name string) int {
	if len(name) < 2 {
		return 9999
	}
	if strings.HasPrefix(name, "00000000-0000-4000-8000-") {
		if n, err := strconv.Atoi(strings.TrimLeft(name[24:], "0")); err == nil {
			return n
		}
		return 9999
	}
	n, err := strconv.Atoi(name[1:])
	if err != nil {
		return 9999
	}
	return n
}

func credOf(a lime.Authentication) (string, *int) {
	tok := func(s string) *int {
		n := 9999
		if strings.HasPrefix(s, "%%%") { // the stand-in for text that is not base64
			if v, err := strconv.Atoi(s[3:]); err == nil {
				return &v
			}
		}
		if b, err := base64.StdEncoding.DecodeString(s); err == nil && strings.HasPrefix(string(b), "c") {
			s = string(b)
		}
		if strings.HasPrefix(s, "c") {
			if v, err := strconv.Atoi(s[1:]); err == nil {
				n = v
			}
		}
		return &n
	}
	zero := 0
	switch x := a.(type) {
	case nil:
		return "", nil
	case *lime.GuestAuthentication:
		return "guest", &zero
	case *lime.TransportAuthentication:
		return "transport", &zero
	case *lime.PlainAuthentication:
		return "plain", tok(x.Password)
	case *lime.KeyAuthentication:
		return "key", tok(x.Key)
	case *lime.ExternalAuthentication:
		return "external", tok(x.Token)
	}
	return "?", nil
}

// ---- the serving side: a real Server over an injected listener ----

type memTransportListener struct {
	ch     chan lime.Transport
	done   chan struct{}
	once   sync.Once
	listen bool
}

func newMemTransportListener() *memTransportListener {
	return &memTransportListener{ch: make(chan lime.Transport, 16), done: make(chan struct{})}
}
func (l *memTransportListener) Listen(ctx context.Context, addr net.Addr) error {
	l.listen = true
	return nil
}
func (l *memTransportListener) Accept(ctx context.Context) (lime.Transport, error) {
	select {
	case <-ctx.Done():
		return nil, ctx.Err()
	case <-l.done:
		return nil, errors.New("mem listener closed")
	case t := <-l.ch:
		return t, nil
	}
}
func (l *memTransportListener) Close() error { l.once.Do(func() { close(l.done) }); return nil }

type memAddr string

func (a memAddr) Network() string { return "mem" }
func (a memAddr) String() string  { return string(a) }

// scriptServer is one real Server plus the recorder its callbacks write to.
type scriptServer struct {
	conf   *SConf
	oracle *SOracle
	srv    *lime.Server
	l      *memTransportListener
	done   chan error

	mu    sync.Mutex
	calls []SCall
	round map[string]int // authenticate rounds per connection are counted by the harness
	cur   lime.Transport // transport of the connection being scripted
	sid   string
	runs  int
	b64   bool // secrets travel base64-encoded (servers built by a ServerBuilder decode them)
	// what the Established callback was handed last (both-real-roles cases)
	estRemote int
	estSID    string
}

// decoy makes the same Server (same configuration object) serve a connection over a transport with other
// capabilities - the in-process transport, which supports neither TLS nor compression - before the scripted
// TCP connection: whatever a handshake leaves behind in the server must not leak into the next one.
func (s *scriptServer) decoy() {
	ctx, cancel := context.WithTimeout(context.Background(), 2*time.Second)
	defer cancel()
	inprocMu.Lock()
	addr := nextInprocAddr()
	inprocMu.Unlock()
	l := lime.NewInProcessTransportListener(addr)
	if err := l.Listen(ctx, addr); err != nil {
		return
	}
	defer l.Close()
	ct, err := lime.DialInProcess(addr, 4)
	if err != nil {
		return
	}
	st, err := l.Accept(ctx)
	if err != nil {
		return
	}
	s.l.ch <- st
	_ = ct.Send(ctx, &lime.Session{State: lime.SessionStateNew})
	rctx, rc := context.WithTimeout(ctx, 500*time.Millisecond)
	_, _ = ct.Receive(rctx)
	rc()
	_ = ct.Close()
	waitUntil(500*time.Millisecond, func() bool { return servingGoroutines() == 0 })
}

func (s *scriptServer) record(c SCall) {
	s.mu.Lock()
	s.calls = append(s.calls, c)
	s.mu.Unlock()
}

func (s *scriptServer) encNow() string {
	s.mu.Lock()
	t := s.cur
	s.mu.Unlock()
	if t == nil {
		return "?"
	}
	return string(t.Encryption())
}

func newScriptServer(conf *SConf, oracle *SOracle) *scriptServer {
	return newScriptServerWith(conf, oracle, nil)
}

// newScriptServerWith: when built is given, the Server runs with a copy of that configuration (option lists and
// Authenticate as a ServerBuilder left them; Authenticate is wrapped so that its invocations are recorded).
func newScriptServerWith(conf *SConf, oracle *SOracle, built *lime.ServerConfig) *scriptServer {
	s := &scriptServer{conf: conf, oracle: oracle, l: newMemTransportListener(), done: make(chan error, 1), round: map[string]int{}}
	cfg := lime.NewServerConfig()
	if built != nil {
		c := *built
		cfg = &c
		s.b64 = true
		orig := built.Authenticate
		cfg.Authenticate = func(ctx context.Context, id lime.Identity, a lime.Authentication) (*lime.AuthenticationResult, error) {
			scheme, cred := credOf(a)
			s.mu.Lock()
			s.round["cur"] = s.round["auth"]
			s.round["auth"]++
			s.mu.Unlock()
			s.record(SCall{Kind: "auth", From: tokenOfName(id.Name), Scheme: scheme, Cred: cred, Enc: s.encNow()})
			return orig(ctx, id, a)
		}
		s.finishConfig(cfg, oracle)
		return s
	}
	cfg.Node = serverNode
	cfg.CompOpts = []lime.SessionCompression{}
	for _, x := range conf.Comp {
		cfg.CompOpts = append(cfg.CompOpts, lime.SessionCompression(x))
	}
	cfg.EncryptOpts = []lime.SessionEncryption{}
	for _, x := range conf.Enc {
		cfg.EncryptOpts = append(cfg.EncryptOpts, lime.SessionEncryption(x))
	}
	cfg.SchemeOpts = []lime.AuthenticationScheme{}
	for _, x := range conf.Schemes {
		cfg.SchemeOpts = append(cfg.SchemeOpts, lime.AuthenticationScheme(x))
	}
	cfg.ChannelBufferSize = 4
	cfg.Backlog = 4
	cfg.Authenticate = func(ctx context.Context, id lime.Identity, a lime.Authentication) (*lime.AuthenticationResult, error) {
		scheme, cred := credOf(a)
		from := tokenOfName(id.Name)
		s.mu.Lock()
		round := s.round["auth"]
		s.round["auth"] = round + 1
		s.mu.Unlock()
		s.record(SCall{Kind: "auth", From: from, Scheme: scheme, Cred: cred, Enc: s.encNow()})
		for _, r := range oracle.Auth {
			same := (r.Cred == nil) == (cred == nil) && (cred == nil || *r.Cred == *cred)
			if r.From == from && r.Scheme == scheme && same && r.Round == round {
				switch {
				case r.Res == "role":
					return lime.MemberAuthenticationResult(), nil
				case strings.HasPrefix(r.Res, "role+rt:"):
					return &lime.AuthenticationResult{Role: lime.DomainRoleAuthority, RoundTrip: &lime.PlainAuthentication{Password: "rt" + r.Res[8:]}}, nil
				case r.Res == "empty":
					return &lime.AuthenticationResult{}, nil
				case r.Res == "err":
					return nil, errors.New("scripted authenticate error")
				case strings.HasPrefix(r.Res, "round:"):
					return &lime.AuthenticationResult{Role: lime.DomainRoleUnknown, RoundTrip: &lime.PlainAuthentication{Password: "rt" + r.Res[6:]}}, nil
				case strings.HasPrefix(r.Res, "eround:"):
					return &lime.AuthenticationResult{RoundTrip: &lime.PlainAuthentication{Password: "rt" + r.Res[7:]}}, nil
				}
				return lime.UnknownAuthenticationResult(), nil
			}
		}
		return lime.UnknownAuthenticationResult(), nil
	}
	s.finishConfig(cfg, oracle)
	return s
}

// finishConfig installs the recording Register / Established / Finished callbacks and handlers and starts the Server.
func (s *scriptServer) finishConfig(cfg *lime.ServerConfig, oracle *SOracle) {
	cfg.Node = serverNode
	cfg.ChannelBufferSize = 4
	cfg.Backlog = 4
	cfg.Register = func(ctx context.Context, n lime.Node, c *lime.ServerChannel) (lime.Node, error) {
		from := tokenOfName(n.Name)
		s.record(SCall{Kind: "reg", From: from, Enc: string(c.VerifTransport().Encryption())})
		for _, r := range oracle.Reg {
			if r.From == from {
				if strings.HasPrefix(r.Res, "node:") {
					v, _ := strconv.Atoi(r.Res[5:])
					return regNode(v), nil
				}
				return lime.Node{}, errors.New("scripted register error")
			}
		}
		return regNode(100 + from), nil
	}
	cfg.Established = func(sid string, c *lime.ServerChannel) {
		s.mu.Lock()
		s.estRemote = tokOfNode(c.RemoteNode())
		s.estSID = sid
		s.mu.Unlock()
		s.record(SCall{Kind: "est"})
	}
	cfg.Finished = func(sid string) { s.record(SCall{Kind: "fin"}) }
	mux := &lime.EnvelopeMux{}
	mux.MessageHandlerFunc(nil, func(ctx context.Context, m *lime.Message, snd lime.Sender) error {
		s.record(SCall{Kind: "dispatch"})
		return nil
	})
	mux.NotificationHandlerFunc(nil, func(ctx context.Context, n *lime.Notification) error {
		s.record(SCall{Kind: "dispatch"})
		return nil
	})
	mux.RequestCommandHandlerFunc(nil, func(ctx context.Context, c *lime.RequestCommand, snd lime.Sender) error {
		s.record(SCall{Kind: "dispatch"})
		return nil
	})
	mux.ResponseCommandHandlerFunc(nil, func(ctx context.Context, c *lime.ResponseCommand, snd lime.Sender) error {
		s.record(SCall{Kind: "dispatch"})
		return nil
	})
	s.srv = lime.NewServer(cfg, mux, lime.NewBoundListener(s.l, memAddr("script")))
	go func() { s.done <- s.srv.ListenAndServe() }()
	// let the consumer goroutine reach its select before anything else happens
	time.Sleep(3 * time.Millisecond)
	markIdle(1)
}

func (s *scriptServer) Close() {
	_ = s.srv.Close()
	select {
	case <-s.done:
	case <-time.After(8 * time.Second):
	}
	clearIdle()
}

// servingGoroutines counts the library's goroutines beyond those a Server has when it is idle (its acceptors and
// its consumer): the goroutines serving a connection and the receivers of channels.  It does not go by function
// names (a refactoring may rename them): a goroutine counts when its stack has a frame of the library and none of
// the harness, and the idle level is measured (markIdle) after the Server was started and before anything connects.
func servingGoroutines() int {
	n := libraryGoroutines() - int(atomic.LoadInt32(&servingBase))
	if n < 0 {
		return 0
	}
	return n
}

var servingBase int32

func libraryGoroutines() int {
	buf := make([]byte, 2<<20)
	n := runtime.Stack(buf, true)
	cnt := 0
	for _, g := range strings.Split(string(buf[:n]), "\n\n") {
		// (frames of the harness's in-memory connection are fine: the library's goroutines block in it)
		if strings.Contains(g, "takenet/lime-go.") && !strings.Contains(g, "\nmain.") && !strings.HasPrefix(g, "main.") {
			cnt++
		}
	}
	return cnt
}

// markIdle measures the idle level: the count has to be at least min and to stay the same for a few milliseconds.
func markIdle(min int) {
	last, same := -1, 0
	deadline := time.Now().Add(500 * time.Millisecond * slack)
	for time.Now().Before(deadline) {
		c := libraryGoroutines()
		if c == last && c >= min {
			same++
			if same >= 4 {
				break
			}
		} else {
			last, same = c, 0
		}
		time.Sleep(time.Millisecond)
	}
	if last < 0 {
		last = 0
	}
	atomic.StoreInt32(&servingBase, int32(last))
}

func clearIdle() { atomic.StoreInt32(&servingBase, 0) }

// rawClient is the scripted peer: it writes JSON lines and reads what the server sends.
type rawClient struct {
	mem     *memconn.Conn
	mu      sync.Mutex
	conn    net.Conn // mem or the TLS client over it
	under   string
	wire    []WEv
	sid     string
	eof     bool
	upgrade bool
	tlsOK   bool
	readerW func() bool
	b64     bool
}

func (c *rawClient) readLoop(start net.Conn) {
	conn := start
	for {
		r := bufio.NewReader(conn)
		upgraded := false
		for {
			line, err := r.ReadBytes('\n')
			if err != nil {
				c.mu.Lock()
				c.eof = true
				c.mu.Unlock()
				return
			}
			var raw map[string]json.RawMessage
			if json.Unmarshal(line, &raw) != nil {
				continue
			}
			s := c.project(raw)
			c.mu.Lock()
			s.ReadUnder = c.under
			sc := s
			c.wire = append(c.wire, WEv{Ses: &sc})
			needUpgrade := s.State == "negotiating" && s.Enc == "tls" && c.under != "tls"
			if needUpgrade {
				c.upgrade = true
			}
			c.mu.Unlock()
			if needUpgrade {
				if !c.tlsOK {
					// a peer that does not complete the TLS handshake
					_, _ = conn.Write([]byte("this is not a TLS client hello\n"))
					c.mu.Lock()
					c.upgrade = false
					c.mu.Unlock()
					continue
				}
				_, ccfg := testTLS()
				tc := tls.Client(conn, ccfg)
				_ = tc.SetDeadline(time.Now().Add(3 * time.Second))
				err := tc.Handshake()
				_ = tc.SetDeadline(time.Time{})
				c.mu.Lock()
				if err == nil {
					c.conn = tc
					c.under = "tls"
				}
				c.upgrade = false
				c.mu.Unlock()
				if err == nil {
					conn = tc
					upgraded = true
					break
				}
			}
		}
		if !upgraded {
			return
		}
	}
}

func strList(raw json.RawMessage) []string {
	var l []string
	_ = json.Unmarshal(raw, &l)
	return l
}
func strOf(raw json.RawMessage) string {
	var s string
	_ = json.Unmarshal(raw, &s)
	return s
}

func (c *rawClient) project(raw map[string]json.RawMessage) SSes {
	s := SSes{State: strOf(raw["state"]), Enc: strOf(raw["encryption"]), Comp: strOf(raw["compression"]),
		EncOpts: strList(raw["encryptionOptions"]), CompOpts: strList(raw["compressionOptions"]), SchemeOpts: strList(raw["schemeOptions"])}
	id := strOf(raw["id"])
	c.mu.Lock()
	if c.sid == "" && id != "" {
		c.sid = id
	}
	if id == c.sid && id != "" {
		s.ID = "SID"
	} else {
		s.ID = "other:" + id
	}
	c.mu.Unlock()
	s.FromOK = strOf(raw["from"]) == serverNode.String()
	if to, ok := raw["to"]; ok {
		n := lime.ParseNode(strOf(to))
		t := tokenOfName(n.Name)
		s.To = &t
	}
	if a, ok := raw["authentication"]; ok {
		var p struct {
			Password string `json:"password"`
		}
		_ = json.Unmarshal(a, &p)
		v, err := strconv.Atoi(strings.TrimPrefix(p.Password, "rt"))
		if err != nil {
			v = 9999
		}
		s.Round = &v
	}
	_, s.Reason = raw["reason"]
	return s
}

// line renders a script item as the bytes the raw client writes.
func (c *rawClient) line(in CIn) []byte {
	switch in.Kind {
	case "data":
		switch in.Sub {
		case "ping":
			return []byte(`{"id":"d2","method":"get","uri":"/ping","to":"postmaster@verif.test/srv"}` + "\n")
		case "not":
			return []byte(`{"id":"d3","event":"received","to":"postmaster@verif.test/srv"}` + "\n")
		case "resp":
			return []byte(`{"id":"d4","method":"get","status":"success","to":"postmaster@verif.test/srv"}` + "\n")
		}
		return []byte(`{"id":"d1","type":"text/plain","content":"hello","to":"postmaster@verif.test/srv"}` + "\n")
	case "bad":
		if in.Sub == "msg-no-type" {
			// well-formed JSON, recognisable as a message, that the envelope decoder rejects (content without type)
			return []byte(`{"id":"d9","content":"hello","to":"postmaster@verif.test/srv"}` + "\n")
		}
		return []byte(`{"state":"bogus-state","id":5}` + "\n")
	}
	s := in.Ses
	m := map[string]interface{}{"state": s.State}
	switch s.ID {
	case "":
	case "SID":
		c.mu.Lock()
		sid := c.sid
		c.mu.Unlock()
		if sid == "" {
			sid = "no-session-id-seen-yet"
		}
		m["id"] = sid
	default:
		m["id"] = s.ID
	}
	if s.Enc != "" {
		m["encryption"] = s.Enc
	}
	if s.Comp != "" {
		m["compression"] = s.Comp
	}
	if s.Scheme != "" {
		m["scheme"] = s.Scheme
	}
	if s.Cred != nil {
		cred := fmt.Sprintf("c%d", *s.Cred)
		if c.b64 && s.Scheme != "external" {
			if *s.Cred >= 1000 {
				cred = fmt.Sprintf("%%%%%%%d", *s.Cred)
			} else {
				cred = base64.StdEncoding.EncodeToString([]byte(cred))
			}
		}
		switch {
		case *s.Cred == 9999:
			m["authentication"] = map[string]string{}
		case s.Scheme == "plain":
			m["authentication"] = map[string]string{"password": cred}
		case s.Scheme == "key":
			m["authentication"] = map[string]string{"key": cred}
		case s.Scheme == "external":
			m["authentication"] = map[string]string{"token": cred, "issuer": "iss"}
		default:
			m["authentication"] = map[string]string{}
		}
	}
	if s.From != 0 {
		m["from"] = clientNode(s.From)
	}
	b, _ := json.Marshal(m)
	return append(b, '\n')
}

// runMulti plays the script over a transport pair that can switch both compression and encryption (build-tag hook
// VerifMultiTransportPair): the peer speaks through the client end with real Session envelopes and applies every
// confirmed pair on its own end, as a cooperative client does.
func (s *scriptServer) runMulti(script []CIn) *SObs {
	ct, st := lime.VerifMultiTransportPair(4)
	s.mu.Lock()
	s.calls = nil
	s.round = map[string]int{}
	s.cur = st
	s.mu.Unlock()
	var mu sync.Mutex
	var wire []WEv
	sid := ""
	eof := false
	last := time.Now()
	ctx, cancel := context.WithCancel(context.Background())
	defer cancel()
	go func() {
		for {
			e, err := ct.Receive(ctx)
			mu.Lock()
			last = time.Now()
			if err != nil {
				eof = true
				mu.Unlock()
				return
			}
			ses, ok := e.(*lime.Session)
			if !ok {
				mu.Unlock()
				continue
			}
			if sid == "" && ses.ID != "" {
				sid = ses.ID
			}
			x := SSes{State: string(ses.State), Enc: string(ses.Encryption), Comp: string(ses.Compression), ReadUnder: string(ct.Encryption())}
			if ses.ID == sid && sid != "" {
				x.ID = "SID"
			} else {
				x.ID = "other:" + ses.ID
			}
			x.FromOK = ses.From == serverNode
			for _, o := range ses.EncryptionOptions {
				x.EncOpts = append(x.EncOpts, string(o))
			}
			for _, o := range ses.CompressionOptions {
				x.CompOpts = append(x.CompOpts, string(o))
			}
			for _, o := range ses.SchemeOptions {
				x.SchemeOpts = append(x.SchemeOpts, string(o))
			}
			if ses.To != (lime.Node{}) {
				t := tokenOfName(ses.To.Name)
				x.To = &t
			}
			if ses.Authentication != nil {
				v := 9999
				if p, ok := ses.Authentication.(*lime.PlainAuthentication); ok {
					if n, err := strconv.Atoi(strings.TrimPrefix(p.Password, "rt")); err == nil {
						v = n
					}
				}
				x.Round = &v
			}
			x.Reason = ses.Reason != nil
			wire = append(wire, WEv{Ses: &x})
			confirm := ses.State == lime.SessionStateNegotiating && len(ses.EncryptionOptions) == 0 && ses.Encryption != ""
			mu.Unlock()
			if confirm {
				// apply the confirmed pair, compression first
				if ses.Compression != ct.Compression() {
					_ = ct.SetCompression(ctx, ses.Compression)
				}
				if ses.Encryption != ct.Encryption() {
					_ = ct.SetEncryption(ctx, ses.Encryption)
				}
			}
		}
	}()
	s.l.ch <- st
	settle := func() {
		waitUntil(250*time.Millisecond, func() bool {
			mu.Lock()
			defer mu.Unlock()
			s.mu.Lock()
			n := len(s.calls)
			s.mu.Unlock()
			_ = n
			return eof || time.Since(last) > 3*time.Millisecond
		})
	}
	mu.Lock()
	last = time.Now()
	mu.Unlock()
	settle()
	for _, in := range script {
		mu.Lock()
		over := eof
		cursid := sid
		mu.Unlock()
		if over {
			break
		}
		inCopy := in
		mu.Lock()
		wire = append(wire, WEv{Took: true, In: &inCopy})
		last = time.Now()
		mu.Unlock()
		s.record(SCall{Kind: "took", In: &inCopy})
		if in.Kind == "eof" {
			_ = ct.Close()
			waitUntil(250*time.Millisecond, func() bool { return servingGoroutines() == 0 })
			break
		}
		var env interface{ GetID() string }
		_ = env
		sctx, sc := context.WithTimeout(ctx, time.Second)
		switch in.Kind {
		case "data":
			m := &lime.Message{Envelope: lime.Envelope{ID: "d1", To: serverNode}}
			m.SetContent(lime.TextDocument("hello"))
			_ = ct.Send(sctx, m)
		case "bad":
			// nothing undecodable can be said through a typed transport: a session with an unknown state comes closest
			_ = ct.Send(sctx, &lime.Session{Envelope: lime.Envelope{ID: "5"}, State: lime.SessionState("bogus-state")})
		default:
			cs := in.Ses
			ses := &lime.Session{State: lime.SessionState(cs.State)}
			switch cs.ID {
			case "":
			case "SID":
				ses.ID = cursid
				if cursid == "" {
					ses.ID = "no-session-id-seen-yet"
				}
			default:
				ses.ID = cs.ID
			}
			ses.Encryption = lime.SessionEncryption(cs.Enc)
			ses.Compression = lime.SessionCompression(cs.Comp)
			ses.Scheme = lime.AuthenticationScheme(cs.Scheme)
			if cs.Cred != nil {
				cred := fmt.Sprintf("c%d", *cs.Cred)
				switch cs.Scheme {
				case "plain":
					ses.Authentication = &lime.PlainAuthentication{Password: cred}
				case "key":
					ses.Authentication = &lime.KeyAuthentication{Key: cred}
				case "guest":
					ses.Authentication = &lime.GuestAuthentication{}
				}
			}
			if cs.From != 0 {
				ses.From = lime.ParseNode(clientNode(cs.From))
			}
			_ = ct.Send(sctx, ses)
		}
		sc()
		settle()
	}
	obs := &SObs{}
	waitUntil(20*time.Millisecond, func() bool { return servingGoroutines() == 0 })
	obs.Closed = !st.Connected() || !ct.Connected()
	obs.Ended = servingGoroutines() == 0
	mu.Lock()
	obs.Wire = append([]WEv(nil), wire...)
	mu.Unlock()
	s.mu.Lock()
	obs.Calls = append([]SCall(nil), s.calls...)
	s.cur = nil
	s.mu.Unlock()
	_ = ct.Close()
	waitUntil(500*time.Millisecond, func() bool { return servingGoroutines() == 0 })
	_ = st.Close()
	return obs
}

// run plays the script against the server on a fresh connection.
func (s *scriptServer) run(script []CIn) *SObs {
	if s.conf.Kind == "multi" {
		return s.runMulti(script)
	}
	s.runs++
	if s.runs%6 == 1 {
		s.decoy()
	}
	cmem, smem := memconn.Pipe(0)
	var cfg *lime.TCPConfig
	if s.conf.Kind == "memtls" {
		sc, _ := testTLS()
		cfg = &lime.TCPConfig{TLSConfig: sc}
		if (s.runs+len(script))%2 == 0 {
			// with envelope tracing switched on: what is traced must not change what crosses the connection
			cfg.TraceWriter = &discardTrace{w: io.Discard}
		}
	}
	st := lime.NewTCPTransportOverConn(smem, true, cfg)
	s.mu.Lock()
	s.calls = nil
	s.round = map[string]int{}
	s.cur = st
	s.mu.Unlock()
	cl := &rawClient{mem: cmem, conn: cmem, under: "none", tlsOK: s.conf.TLSOk, b64: s.b64}
	go cl.readLoop(cmem)
	s.l.ch <- st

	obs := &SObs{}
	quiet := func() bool {
		cl.mu.Lock()
		eof, up := cl.eof, cl.upgrade
		cl.mu.Unlock()
		if up {
			return false
		}
		if eof {
			return true
		}
		return smem.ReaderWaiting() && cmem.ReaderWaiting() && cmem.Pending() == 0
	}
	settle := func() bool {
		ok := waitUntil(250*time.Millisecond, func() bool {
			if !quiet() {
				return false
			}
			s.mu.Lock()
			n1 := len(s.calls)
			s.mu.Unlock()
			time.Sleep(150 * time.Microsecond)
			s.mu.Lock()
			n2 := len(s.calls)
			s.mu.Unlock()
			return quiet() && n1 == n2
		})
		return ok
	}
	settle()
	for idx := 0; idx < len(script); idx++ {
		in := script[idx]
		cl.mu.Lock()
		eof := cl.eof
		conn := cl.conn
		cl.mu.Unlock()
		if eof {
			break
		}
		if in.Kind == "eof" {
			inCopy := in
			cl.mu.Lock()
			cl.wire = append(cl.wire, WEv{Took: true, In: &inCopy})
			cl.mu.Unlock()
			s.record(SCall{Kind: "took", In: &inCopy})
			_ = conn.Close()
			_ = cmem.Close()
			// wait for the serving side to notice
			waitUntil(250*time.Millisecond, func() bool { return servingGoroutines() == 0 })
			break
		}
		line := cl.line(in)
		inCopy := in
		cl.mu.Lock()
		cl.wire = append(cl.wire, WEv{Took: true, In: &inCopy})
		cl.mu.Unlock()
		s.record(SCall{Kind: "took", In: &inCopy})
		// items glued to this one go out in the same write
		for idx+1 < len(script) && script[idx+1].Glued && script[idx+1].Kind != "eof" {
			idx++
			g := script[idx]
			line = append(line, cl.line(g)...)
			cl.mu.Lock()
			cl.wire = append(cl.wire, WEv{Took: true, In: &g})
			cl.mu.Unlock()
			s.record(SCall{Kind: "took", In: &g})
		}
		if _, err := conn.Write(line); err != nil {
			break
		}
		if !settle() {
			obs.Note = "no quiescence after input (connection open, nobody reading)"
		}
	}
	// final observations
	waitUntil(20*time.Millisecond, func() bool { return !smem.Closed() || servingGoroutines() == 0 })
	obs.Closed = smem.Closed()
	obs.Ended = servingGoroutines() == 0
	cl.mu.Lock()
	obs.Wire = append([]WEv(nil), cl.wire...)
	cl.mu.Unlock()
	s.mu.Lock()
	obs.Calls = append([]SCall(nil), s.calls...)
	s.cur = nil
	s.mu.Unlock()
	// release
	_ = cmem.Close()
	waitUntil(500*time.Millisecond, func() bool { return servingGoroutines() == 0 })
	_ = smem.Close()
	return obs
}
