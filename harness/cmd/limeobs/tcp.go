package main

// C12 and C16: the real TCP transport over an injected connection with scripted
// fragmentation, short writes, stalls and cuts.

import (
	"context"
	"fmt"
	"io"
	"net"
	"strings"
	"sync"
	"time"

	lime "github.com/takenet/lime-go"
	"verifharness/coqfmt"
	"verifharness/memconn"
)

type wStep struct {
	Kind   string `json:"kind"` // conn ctxdone
	Accept int    `json:"accept"`
	Res    string `json:"res"` // ok timeout fatal
}

func (w wStep) Coq() string {
	if w.Kind == "ctxdone" {
		return "WCtxDone"
	}
	r := map[string]string{"ok": "WOk", "timeout": "WTimeout", "fatal": "WFatal"}[w.Res]
	return coqfmt.App("WConn", coqfmt.Nat(w.Accept), r)
}

type tcpCase struct {
	Form string `json:"form"` // write read

	// write
	Payloads []string `json:"payloads,omitempty"` // message contents
	Oracle   []wStep  `json:"oracle,omitempty"`
	TLS      bool     `json:"tls,omitempty"`
	Wire     string   `json:"wire,omitempty"`
	Oks      []bool   `json:"oks,omitempty"`

	// read
	Limit     int      `json:"limit,omitempty"`
	Sizes     []int    `json:"sizes,omitempty"`
	ReadPlan  []string `json:"read_plan,omitempty"` // scripted: chunk:<n> stall cut
	Logged    []string `json:"logged,omitempty"`    // what the Read calls returned
	N         int      `json:"n,omitempty"`
	Results   []string `json:"results,omitempty"` // got:<i> err corrupt
	Taken     []int    `json:"taken,omitempty"`
	Connected bool     `json:"connected,omitempty"`

	// accepted (a transport handed out by a real listener)
	Configured int  `json:"configured_limit,omitempty"`
	Reported   int  `json:"reported_limit,omitempty"`
	Before     int  `json:"before,omitempty"`
	Size       int  `json:"size,omitempty"`
	Accepted   bool `json:"accepted,omitempty"`
	DialSide   bool `json:"dial_side,omitempty"` // the transport under test is the one DialTcp returned (else the accepted one)
	Trace      bool `json:"trace,omitempty"`     // a TraceWriter is configured
	term       string
}

func textMessage(id, content string) *lime.Message {
	m := &lime.Message{}
	m.ID = id
	m.SetContent(lime.TextDocument(content))
	return m
}

func bytesCoq(b []byte) string {
	items := make([]string, len(b))
	for i, x := range b {
		items[i] = coqfmt.Nat(int(x))
	}
	return coqfmt.List(items)
}

// runWriteCase sends the payloads through the real transport over a connection with the write oracle.
func runWriteCase(payloads []string, oracle []wStep) *tcpCase {
	c := &tcpCase{Form: "write", Payloads: payloads, Oracle: oracle}
	cmem, smem := memconn.Pipe(0)
	t := lime.NewTCPTransportOverConn(cmem, false, nil)
	// encodings, as the real encoder produces them on a clean connection
	var frames [][]byte
	{
		a, b := memconn.Pipe(0)
		tt := lime.NewTCPTransportOverConn(a, false, nil)
		for i, p := range payloads {
			before := a.TotalWritten()
			_ = tt.Send(context.Background(), textMessage(fmt.Sprintf("m%d", i), p))
			buf := make([]byte, a.TotalWritten()-before)
			_, _ = b.Read(buf)
			frames = append(frames, buf)
		}
		_ = a.Close()
		_ = b.Close()
	}
	var plan []memconn.WriteStep
	ctxDoneAt := map[int]bool{} // index of the send (in order of oracle consumption) that finds its context expired
	var curCancel context.CancelFunc
	midCtx := 0 // context ends that happened in the middle of a send (behind a timed-out write)
	for i, s := range oracle {
		if s.Kind == "ctxdone" {
			plan = append(plan, memconn.WriteStep{Accept: -2}) // marker, handled below
			continue
		}
		st := memconn.WriteStep{Accept: s.Accept, Timeout: s.Res == "timeout", Fail: s.Res == "fatal"}
		if s.Res == "timeout" && i+1 < len(oracle) && oracle[i+1].Kind == "ctxdone" {
			// the context of the send in progress ends while this write is timing out: the loop finds it expired
			st.Hook = func() {
				if curCancel != nil {
					curCancel()
				}
				midCtx++
			}
		}
		plan = append(plan, st)
	}
	_ = ctxDoneAt
	// ctxdone steps are only generated as the first step of a send: translate by cancelling that send's context
	cmem.SetWritePlan(filterPlan(plan))
	cmem.EnableLog()
	consumed := 0
	for i, p := range payloads {
		ctx, cancel := context.WithCancel(context.Background())
		if consumed < len(oracle) && oracle[consumed].Kind == "ctxdone" {
			cancel()
			consumed++
		}
		curCancel = cancel
		before := countWrites(cmem)
		midBefore := midCtx
		err := t.Send(ctx, textMessage(fmt.Sprintf("m%d", i), p))
		cancel()
		consumed += countWrites(cmem) - before + (midCtx - midBefore)
		c.Oks = append(c.Oks, err == nil)
		// the following sends are made all the same: after a failed one they must fail and write nothing
	}
	n := smem.Pending()
	buf := make([]byte, n)
	if n > 0 {
		_, _ = smem.Read(buf)
	}
	c.Wire = string(buf)
	fr := make([]string, len(frames))
	for i, f := range frames {
		fr[i] = bytesCoq(f)
	}
	or := make([]string, len(oracle))
	for i, s := range oracle {
		or[i] = s.Coq()
	}
	c.term = coqfmt.App("CWrite", coqfmt.List(fr), coqfmt.List(or), bytesCoq(buf), coqfmt.Bools(c.Oks))
	_ = cmem.Close()
	_ = smem.Close()
	return c
}

func filterPlan(p []memconn.WriteStep) []memconn.WriteStep {
	var out []memconn.WriteStep
	for _, s := range p {
		if s.Accept != -2 {
			out = append(out, s)
		}
	}
	return out
}

var writeCounter = map[*memconn.Conn]int{}

func countWrites(c *memconn.Conn) int {
	for _, e := range c.TakeLog() {
		if e.Write {
			writeCounter[c]++
		}
	}
	return writeCounter[c]
}

// frameOfSize builds the encoding (with newline) of message f<i> whose total size is exactly size bytes.
func frameOfSize(i, size int) ([]byte, bool) {
	base := fmt.Sprintf(`{"id":"f%d","type":"text/plain","content":""}`+"\n", i)
	if size < len(base) {
		return nil, false
	}
	return []byte(fmt.Sprintf(`{"id":"f%d","type":"text/plain","content":"%s"}`+"\n", i, strings.Repeat("x", size-len(base)))), true
}

func minFrame(i int) int {
	return len(fmt.Sprintf(`{"id":"f%d","type":"text/plain","content":""}`+"\n", i))
}

// runReadCase writes the whole stream, then performs n Receive calls over a connection whose
// Read calls follow the scripted plan (then deliver whatever is asked), ending with EOF.
func runReadCase(limit int, sizes []int, plan []string, n int) *tcpCase {
	c := &tcpCase{Form: "read", Limit: limit, Sizes: sizes, ReadPlan: plan, N: n}
	cmem, smem := memconn.Pipe(0)
	var stream []byte
	for i, s := range sizes {
		f, ok := frameOfSize(i, s)
		if !ok {
			panic("frame size below the minimum")
		}
		stream = append(stream, f...)
	}
	_, _ = cmem.Write(stream)
	cmem.CloseWrite()
	var rp []memconn.ReadStep
	var curCancel context.CancelFunc
	var ctxMu sync.Mutex
	ctxFired := false
	for _, s := range plan {
		switch {
		case s == "ctx":
			// the connection stalls and the context of the Receive in progress ends meanwhile
			rp = append(rp, memconn.ReadStep{Stall: true, Hook: func() {
				ctxMu.Lock()
				ctxFired = true
				if curCancel != nil {
					curCancel()
				}
				ctxMu.Unlock()
			}})
		case s == "stall":
			rp = append(rp, memconn.ReadStep{Stall: true})
		case s == "cut":
			rp = append(rp, memconn.ReadStep{Cut: true})
		case strings.HasPrefix(s, "chunk:"):
			var k int
			fmt.Sscanf(s, "chunk:%d", &k)
			rp = append(rp, memconn.ReadStep{Max: k})
		}
	}
	smem.SetReadPlan(rp)
	smem.EnableLog()
	t := lime.NewTCPTransportOverConn(smem, true, &lime.TCPConfig{ReadLimit: int64(limit)})
	var logged []string
	for k := 0; k < n; k++ {
		ctx, cancel := context.WithTimeout(context.Background(), 3*time.Second)
		ctxMu.Lock()
		curCancel = cancel
		ctxFired = false
		ctxMu.Unlock()
		res := guard(func() Res {
			v, err := t.Receive(ctx)
			return resOf(v, err)
		})
		cancel()
		ctxMu.Lock()
		fired := ctxFired
		ctxMu.Unlock()
		taken := 0
		for _, e := range smem.TakeLog() {
			if e.Write {
				continue
			}
			switch {
			case e.Err == "":
				if e.N > 0 {
					logged = append(logged, fmt.Sprintf("chunk:%d", e.N))
					taken += e.N
				}
			case e.Err == memconn.ErrTimeout.Error():
				logged = append(logged, "stall")
			case e.Err == "EOF":
				logged = append(logged, "eof")
			default:
				logged = append(logged, "cut")
			}
		}
		if fired {
			logged = append(logged, "ctx")
		}
		c.Taken = append(c.Taken, taken)
		switch res.Tag {
		case "ok":
			idx := -1
			fmt.Sscanf(res.Env.ID, "f%d", &idx)
			want, _ := frameOfSize(idx, 0)
			_ = want
			intact := idx >= 0 && idx < len(sizes) && res.Env.Doc != nil && res.Env.Doc.Kind == "text" &&
				len(res.Env.Doc.Text) == sizes[idx]-minFrame(idx) && strings.Trim(res.Env.Doc.Text, "x") == ""
			if intact {
				c.Results = append(c.Results, fmt.Sprintf("got:%d", idx))
			} else {
				c.Results = append(c.Results, "corrupt")
			}
		default:
			c.Results = append(c.Results, "err")
		}
	}
	c.Logged = logged
	c.Connected = t.Connected()
	planT := make([]string, len(logged))
	for i, s := range logged {
		switch {
		case s == "stall":
			planT[i] = "RStall"
		case s == "eof":
			planT[i] = "REof"
		case s == "cut":
			planT[i] = "RCut"
		case s == "ctx":
			planT[i] = "RCtxDone"
		default:
			planT[i] = "(RChunk " + s[6:] + ")"
		}
	}
	res := make([]string, len(c.Results))
	for i, r := range c.Results {
		rt := "RError"
		if strings.HasPrefix(r, "got:") {
			rt = "(RGotFrame " + r[4:] + ")"
		} else if r == "corrupt" {
			rt = "(RGotFrame 999999)"
		}
		res[i] = coqfmt.Tuple(rt, coqfmt.Nat(c.Taken[i]))
	}
	c.term = coqfmt.App("CRead", coqfmt.Nat(limit), coqfmt.Nats(sizes), coqfmt.List(planT), coqfmt.Nat(n),
		coqfmt.List(res), coqfmt.Bool(c.Connected))
	_ = cmem.Close()
	_ = smem.Close()
	return c
}

// runAcceptedCase: a real TCP listener configured with read limit L (0: no configuration) on a loopback socket; the
// transport it hands out reports its limit, then receives small frames totalling about `before` bytes and one frame
// of `size` bytes.
type discardTrace struct{ w io.Writer }

func (d *discardTrace) SendWriter() *io.Writer    { return &d.w }
func (d *discardTrace) ReceiveWriter() *io.Writer { return &d.w }

func runAcceptedCase(L, before, size int, dialSide, trace bool) (*tcpCase, error) {
	c := &tcpCase{Form: "accepted", Configured: L, Before: before, Size: size, DialSide: dialSide, Trace: trace}
	var cfg *lime.TCPConfig
	if L > 0 || trace {
		cfg = &lime.TCPConfig{ReadLimit: int64(L)}
		if trace {
			cfg.TraceWriter = &discardTrace{w: io.Discard}
		}
	}
	if dialSide {
		return runDialedCase(c, cfg)
	}
	l := lime.NewTCPTransportListener(cfg)
	addr, err := freeTCPAddr()
	if err != nil {
		return nil, err
	}
	ctx, cancel := context.WithTimeout(context.Background(), 10*time.Second)
	defer cancel()
	if err := l.Listen(ctx, addr); err != nil {
		return nil, err
	}
	defer l.Close()
	conn, err := net.Dial("tcp", addr.String())
	if err != nil {
		return nil, err
	}
	defer conn.Close()
	st, err := l.Accept(ctx)
	if err != nil {
		return nil, err
	}
	defer st.Close()
	rep := lime.VerifTCPReadBudget(st)
	switch {
	case rep == lime.DefaultReadLimit:
		c.Reported = 0
	case rep > 99999:
		c.Reported = 99999
	default:
		c.Reported = int(rep)
	}
	var stream []byte
	i := 0
	for len(stream) < before {
		f, _ := frameOfSize(i, minFrame(i)+5)
		stream = append(stream, f...)
		i++
	}
	small := i
	big, ok := frameOfSize(i, size)
	if !ok {
		return nil, fmt.Errorf("frame size below the minimum")
	}
	go func() { _, _ = conn.Write(append(stream, big...)) }()
	for k := 0; k <= small; k++ {
		rctx, rc := context.WithTimeout(ctx, 3*time.Second)
		v, err := st.Receive(rctx)
		rc()
		if err != nil {
			break
		}
		if m, ok := v.(*lime.Message); ok && m.ID == fmt.Sprintf("f%d", small) {
			c.Accepted = true
		}
	}
	c.term = coqfmt.App("CAccepted", coqfmt.Nat(c.Configured), coqfmt.Nat(c.Reported), coqfmt.Nat(before), coqfmt.Nat(size), coqfmt.Bool(c.Accepted))
	return c, nil
}

// runDialedCase: the same through the transport DialTcp returns, fed by a raw server socket.
func runDialedCase(c *tcpCase, cfg *lime.TCPConfig) (*tcpCase, error) {
	ln, err := net.Listen("tcp", "127.0.0.1:0")
	if err != nil {
		return nil, err
	}
	defer ln.Close()
	ctx, cancel := context.WithTimeout(context.Background(), 10*time.Second)
	defer cancel()
	accepted := make(chan net.Conn, 1)
	go func() {
		if conn, err := ln.Accept(); err == nil {
			accepted <- conn
		}
	}()
	ct, err := lime.DialTcp(ctx, ln.Addr(), cfg)
	if err != nil {
		return nil, err
	}
	defer ct.Close()
	var conn net.Conn
	select {
	case conn = <-accepted:
	case <-time.After(3 * time.Second):
		return nil, fmt.Errorf("no connection accepted")
	}
	defer conn.Close()
	rep := lime.VerifTCPReadBudget(ct)
	switch {
	case rep == lime.DefaultReadLimit:
		c.Reported = 0
	case rep > 99999:
		c.Reported = 99999
	default:
		c.Reported = int(rep)
	}
	var stream []byte
	i := 0
	for len(stream) < c.Before {
		f, _ := frameOfSize(i, minFrame(i)+5)
		stream = append(stream, f...)
		i++
	}
	small := i
	big, ok := frameOfSize(i, c.Size)
	if !ok {
		return nil, fmt.Errorf("frame size below the minimum")
	}
	go func() { _, _ = conn.Write(append(stream, big...)) }()
	for k := 0; k <= small; k++ {
		rctx, rc := context.WithTimeout(ctx, 3*time.Second)
		v, err := ct.Receive(rctx)
		rc()
		if err != nil {
			break
		}
		if m, ok := v.(*lime.Message); ok && m.ID == fmt.Sprintf("f%d", small) {
			c.Accepted = true
		}
	}
	c.term = coqfmt.App("CAccepted", coqfmt.Nat(c.Configured), coqfmt.Nat(c.Reported), coqfmt.Nat(c.Before), coqfmt.Nat(c.Size), coqfmt.Bool(c.Accepted))
	return c, nil
}

func tcpReplay(env *Env) (bool, error) {
	var rc tcpCase
	ok, err := env.ReplayDesc(&rc)
	if err != nil || !ok {
		return ok, err
	}
	var c *tcpCase
	if rc.Form == "accepted" {
		if c, err = runAcceptedCase(rc.Configured, rc.Before, rc.Size, rc.DialSide, rc.Trace); err != nil {
			return true, err
		}
	} else if rc.Form == "write" {
		c = runWriteCase(rc.Payloads, rc.Oracle)
	} else {
		c = runReadCase(rc.Limit, rc.Sizes, rc.ReadPlan, rc.N)
	}
	env.Add(c.term, c)
	return true, nil
}

const tcpHeader = "From Coq Require Import List.\nImport ListNotations.\nFrom Lime Require Import Base.Res Tcp.Writer Tcp.Reader Corr.Tcp "

func init() {
	register("C12", func(env *Env) error {
		env.Header = tcpHeader + "Corr.C12."
		env.ShardSize = 120
		env.Rule = "writer: 1-3 envelopes sent through the real transport over a connection whose Write calls take k bytes and then report a temporary timeout / a fatal error / success, for every k from 0 to the encoding's length, repeated up to 3 times, and with an expired context; reader: streams of 1-4 frames delivered under every split-point set (short streams) or sampled plans (every single and double split, stalls, cuts at every offset), with coalescing; long streams of small frames totalling six times a small read limit. Non-trivial: a fault or a split actually occurred inside an envelope. Distinct by printed case."
		if ok, err := tcpReplay(env); ok || err != nil {
			return err
		}
		add := func(c *tcpCase, nt bool) {
			env.Add(c.term, c)
			env.Count("form=" + c.Form)
			if nt {
				env.NonTrivial(c.term)
			}
		}
		rng := env.Rng
		// writer: every short-write length with a timeout, then repeated
		probe := runWriteCase([]string{"ab"}, nil)
		flen := len(probe.Wire)
		for k := 0; k <= flen; k++ {
			add(runWriteCase([]string{"ab"}, []wStep{{"conn", k, "timeout"}}), true)
			add(runWriteCase([]string{"ab"}, []wStep{{"conn", k, "fatal"}}), true)
			add(runWriteCase([]string{"ab", "cd"}, []wStep{{"conn", k, "timeout"}, {"conn", 3, "timeout"}}), true)
			if k%3 == 0 {
				add(runWriteCase([]string{"ab", "cd", "ef"}, []wStep{{"conn", -1 + 1 + flen, "ok"}, {"conn", k, "timeout"}, {"conn", 1, "timeout"}, {"conn", 0, "timeout"}}), true)
			}
		}
		// the context of a send ends in the middle of it (behind a partial write that timed out); the connection is
		// fine afterwards, and more sends follow
		for k := 0; k <= flen; k += 3 {
			add(runWriteCase([]string{"ab", "cd"}, []wStep{{"conn", k, "timeout"}, {Kind: "ctxdone"}}), true)
			add(runWriteCase([]string{"ab", "ab", "cd"}, []wStep{{"conn", k, "timeout"}, {Kind: "ctxdone"}}), true)
			add(runWriteCase([]string{"ab", "cd", "ef"}, []wStep{{"conn", flen, "ok"}, {"conn", k, "timeout"}, {"conn", 2, "timeout"}, {Kind: "ctxdone"}}), true)
		}
		add(runWriteCase([]string{"ab"}, []wStep{{Kind: "ctxdone"}}), true)
		add(runWriteCase([]string{"ab", "cd"}, []wStep{{"conn", flen, "ok"}, {Kind: "ctxdone"}}), true)
		add(runWriteCase([]string{"ab", "cd", "ef"}, nil), false)
		for i := 0; i < env.Pick(60, 600); i++ {
			var or []wStep
			for j := 0; j < 1+rng.Intn(4); j++ {
				res := []string{"timeout", "timeout", "timeout", "fatal"}[rng.Intn(4)]
				or = append(or, wStep{"conn", rng.Intn(flen + 2), res})
			}
			add(runWriteCase([]string{"ab", "cd", "ef"}[:1+rng.Intn(3)], or), true)
		}
		// reader: every split set of a short stream
		sizes := []int{minFrame(0), minFrame(1) + 2}
		total := sizes[0] + sizes[1]
		stride := env.Pick(7, 1)
		for cut1 := 1; cut1 < total; cut1 += stride {
			add(runReadCase(4096, sizes, []string{fmt.Sprintf("chunk:%d", cut1)}, 3), true)
			for cut2 := cut1 + 1; cut2 < total; cut2 += stride * 3 {
				add(runReadCase(4096, sizes, []string{fmt.Sprintf("chunk:%d", cut1), "stall", fmt.Sprintf("chunk:%d", cut2-cut1)}, 3), true)
			}
			// cut of the connection at this offset
			add(runReadCase(4096, sizes, []string{fmt.Sprintf("chunk:%d", cut1), "cut"}, 3), true)
		}
		// the context of a Receive ends while the envelope is incomplete, at every offset of a stream
		// with a nested object; the rest arrives for the following Receive calls
		nested := []int{minFrame(0) + 3, minFrame(1)}
		for cut1 := 1; cut1 < nested[0]+nested[1]; cut1++ {
			add(runReadCase(4096, nested, []string{fmt.Sprintf("chunk:%d", cut1), "ctx"}, 3), true)
		}
		// byte-by-byte delivery, and everything coalesced
		one := []string{}
		for i := 0; i < total; i++ {
			one = append(one, "chunk:1")
			if i%9 == 4 {
				one = append(one, "stall")
			}
		}
		add(runReadCase(4096, sizes, one, 3), true)
		add(runReadCase(4096, []int{50, 60, 70, 80}, nil, 5), false)
		// long streams of small envelopes under a small read limit: in total many times the limit (the budget
		// is per envelope, not per connection)
		for _, L := range []int{128, 256, 1000} {
			var long []int
			tot := 0
			for f := 0; tot < 6*L; f++ {
				sz := minFrame(f) + (f*7)%40
				long = append(long, sz)
				tot += sz
			}
			for _, k := range []int{0, 1, 7, L, 3 * L} {
				var plan []string
				if k > 0 {
					for i := 0; i < tot; i += k {
						plan = append(plan, fmt.Sprintf("chunk:%d", k))
					}
				}
				add(runReadCase(L, long, plan, len(long)+1), true)
			}
		}
		for i := 0; i < env.Pick(60, 800); i++ {
			nf := 1 + rng.Intn(4)
			var sz []int
			for f := 0; f < nf; f++ {
				sz = append(sz, minFrame(f)+rng.Intn(120))
			}
			var plan []string
			for j := 0; j < rng.Intn(8); j++ {
				switch rng.Intn(8) {
				case 0:
					plan = append(plan, "stall")
				case 1:
					if rng.Intn(3) == 0 {
						plan = append(plan, "cut")
					}
				default:
					plan = append(plan, fmt.Sprintf("chunk:%d", 1+rng.Intn(150)))
				}
			}
			add(runReadCase(4096, sz, plan, nf+1), len(plan) > 0)
		}
		return nil
	})
	register("C16", func(env *Env) error {
		env.Header = tcpHeader + "Corr.C16."
		env.ShardSize = 120
		env.Rule = "limits 64, 100, 1000, 4096 x a frame of size around limit, limit+1, 2*limit, 2*limit+1, 2*limit+2 and 10*limit at every position 0..k of a stream of small frames x coalescing patterns (everything at once, chunks of 1/7/limit bytes, chunk boundaries just before and after the big frame); per Receive the bytes taken from the injected connection are counted exactly; an oversized frame trickling in under Receive contexts that end in the middle of it; plus transports handed out by a real listener and returned by DialTcp, configured with limits none/200/4096/65536, with and without a TraceWriter, on a loopback socket (reported limit, frames within the limit and beyond twice the limit, first and behind three limits of small frames). Non-trivial: the stream contains a frame larger than the limit. Distinct by printed case."
		if ok, err := tcpReplay(env); ok || err != nil {
			return err
		}
		add := func(c *tcpCase, nt bool) {
			env.Add(c.term, c)
			env.Count(fmt.Sprintf("limit=%d", c.Limit))
			if nt {
				env.NonTrivial(c.term)
			}
		}
		// the limit a listener was configured with reaches the transports it hands out
		for _, L := range []int{0, 200, 4096, 65536} {
			sizes := []int{100}
			if L > 0 {
				sizes = []int{L - 50, L, 2*L + 2, 3 * L, 10 * L}
			}
			for _, size := range sizes {
				for _, before := range []int{0, 3 * (L + 100)} {
					for v := 0; v < 4; v++ {
						c, err := runAcceptedCase(L, before, size, v&1 != 0, v&2 != 0)
						if err != nil {
							return err
						}
						env.Add(c.term, c)
						env.Count([]string{"accepted-by-listener", "returned-by-dial"}[v&1])
						if v&2 != 0 {
							env.Count("with-trace-writer")
						}
						env.NonTrivial(fmt.Sprintf("%s/%d", c.term, v))
					}
				}
			}
		}
		// an oversized envelope trickling in while the Receive contexts end in the middle of it, Receive after Receive:
		// it must never be accepted, however many receives it takes
		for _, L := range []int{100, 1000} {
			for _, step := range []int{L / 2, L - 1} {
				sizes := []int{minFrame(0) + 4, 10 * L, minFrame(2) + 2}
				var plan []string
				for got := 0; got < sizes[0]+sizes[1]+sizes[2]; got += step {
					plan = append(plan, fmt.Sprintf("chunk:%d", step), "ctx")
				}
				c := runReadCase(L, sizes, plan, len(plan)/2+3)
				env.Add(c.term, c)
				env.Count("trickled-under-expiring-contexts")
				env.NonTrivial(c.term)
			}
		}
		limits := []int{64, 100, 1000, 4096}
		for _, L := range limits[:env.Pick(3, 4)] {
			bigs := []int{L - 1, L, L + 1, 2*L - 1, 2 * L, 2*L + 1, 2*L + 2, 2*L + 3, 3 * L, 10 * L}
			for _, big := range bigs {
				for pos := 0; pos <= env.Pick(3, 8); pos++ {
					var sizes []int
					for i := 0; i < pos; i++ {
						sizes = append(sizes, minFrame(i)+(i*5)%15)
					}
					if big < minFrame(pos) {
						continue
					}
					sizes = append(sizes, big)
					sizes = append(sizes, minFrame(pos+1), minFrame(pos+2)+3)
					n := len(sizes) + 1
					patterns := [][]string{nil}
					chunks := func(k int) []string {
						var p []string
						t := 0
						for _, s := range sizes {
							t += s
						}
						for i := 0; i < t; i += k {
							p = append(p, fmt.Sprintf("chunk:%d", k))
						}
						return p
					}
					patterns = append(patterns, chunks(L))
					if env.Thorough() || (pos+big)%2 == 0 {
						patterns = append(patterns, chunks(7))
					}
					pre := 0
					for i := 0; i < pos; i++ {
						pre += sizes[i]
					}
					if pre > 0 {
						patterns = append(patterns, []string{fmt.Sprintf("chunk:%d", pre)}, []string{fmt.Sprintf("chunk:%d", pre+1)}, []string{fmt.Sprintf("chunk:%d", pre-1)})
					}
					for _, p := range patterns {
						add(runReadCase(L, sizes, p, n), big > L)
					}
				}
			}
		}
		return nil
	})
}
