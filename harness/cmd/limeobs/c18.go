package main

// C18: a real Server is started, given clients in various phases, and closed.
// Every scenario runs in a child process (a panic in a library goroutine kills
// the process; the parent records it).  Observations: what ListenAndServe
// returned, listeners and goroutines left behind, and per client the trace of
// callback / handler / client-side events.

import (
	"bufio"
	"bytes"
	"context"
	"encoding/json"
	"errors"
	"fmt"
	"io"
	"net"
	"os"
	"os/exec"
	"runtime"
	"strings"
	"sync"
	"time"

	lime "github.com/takenet/lime-go"
	"verifharness/coqfmt"
)

type c18Client struct {
	Kind  string `json:"kind"`  // inproc | tcp | ws
	Phase string `json:"phase"` // idle traffic racing stalled authfail finished gone connecting
	Msgs  int    `json:"msgs"`
}

type c18Scn struct {
	Kind      string      `json:"kind"` // startstop | gated | sessions
	Listeners []string    `json:"listeners"`
	Gate      string      `json:"gate,omitempty"`
	Iter      int         `json:"iter,omitempty"`
	DelayUs   int         `json:"delay_us,omitempty"`
	Clients   []c18Client `json:"clients,omitempty"`
	Buf       int         `json:"buf"`
	SlowEst   bool        `json:"slow_est,omitempty"`   // the Established callback takes a few milliseconds
	Push      bool        `json:"push,omitempty"`       // an application goroutine keeps sending to every established client through its ServerChannel
	TLS       bool        `json:"tls,omitempty"`        // the server also offers TLS (TCP listener with a TLS configuration): a negotiation stage takes place
	Restart   bool        `json:"restart,omitempty"`    // startstop: the same Server is served a second time after its Close (socket listeners start again)
	Odd       bool        `json:"odd,omitempty"`        // besides the clients: on every listener a peer whose only envelope is a session that cannot start one, gone at once
	NoBacklog bool        `json:"no_backlog,omitempty"` // the queue between acceptors and consumer has no buffer (Backlog 0): a pure hand-off
	// HoldEst: the server is held right after the bytes of its established envelope left through the TCP connection
	// (a TraceWriter that takes its time), until every client of the scenario has gone
	HoldEst bool `json:"hold_established,omitempty"`
}

// holdTrace is a TraceWriter whose send side blocks on an established envelope until released.
type holdTrace struct {
	send, recv io.Writer
}

func (h *holdTrace) SendWriter() *io.Writer    { return &h.send }
func (h *holdTrace) ReceiveWriter() *io.Writer { return &h.recv }

type holdWriter struct{ release chan struct{} }

func (w *holdWriter) Write(p []byte) (int, error) {
	if bytes.Contains(p, []byte(`"established"`)) {
		select {
		case <-w.release:
		case <-time.After(20 * time.Second):
		}
	}
	return len(p), nil
}

const (
	evEst = iota
	evRun
	evSentFinished
	evClosed
	evFin
)

type c18Obs struct {
	Panic          bool    `json:"panic"`
	PanicText      string  `json:"panic_text,omitempty"`
	Result         int     `json:"result"` // 0 ErrServerClosed, 1 another error, 2 nil, 3 did not return
	ResultText     string  `json:"result_text,omitempty"`
	ListenersLeft  int     `json:"listeners_left"`
	GoroutinesLeft int     `json:"goroutines_left"`
	Traces         [][]int `json:"traces"`
	Stray          int     `json:"stray"` // callbacks or handler runs that belong to no client of the scenario
	Released       int     `json:"released"`
	Note           string  `json:"note,omitempty"`
}

type c18Case struct {
	Scn c18Scn `json:"scn"`
	Obs c18Obs `json:"obs"`
}

// ---------------------------------------------------------------- child side

func limeGoroutines() int {
	buf := make([]byte, 4<<20)
	n := runtime.Stack(buf, true)
	cnt := 0
	for _, g := range strings.Split(string(buf[:n]), "\n\n") {
		if strings.Contains(g, "takenet/lime-go.") && !strings.Contains(g, "verifharness") && !strings.Contains(g, "main.") {
			cnt++
		}
	}
	return cnt
}

type c18Server struct {
	holdRelease chan struct{}
	// raw TCP connections to the WebSocket listeners that have not sent their upgrade request yet (see addPending)
	pending  []net.Conn
	srv      *lime.Server
	addrs    []net.Addr
	kinds    []string
	mu       sync.Mutex
	log      []c18Ev
	served   chan error
	gate     *gateCtl
	inprocAd lime.InProcessAddr
}

type c18Ev struct {
	sid string
	ev  int
}

func (s *c18Server) rec(sid string, ev int) {
	s.mu.Lock()
	s.log = append(s.log, c18Ev{sid, ev})
	s.mu.Unlock()
}

func (s *c18Server) runs(sid string) int {
	s.mu.Lock()
	defer s.mu.Unlock()
	n := 0
	for _, e := range s.log {
		if e.sid == sid && e.ev == evRun {
			n++
		}
	}
	return n
}

func newC18Server(scn *c18Scn) (*c18Server, error) {
	s := &c18Server{served: make(chan error, 1)}
	cfg := lime.NewServerConfig()
	cfg.Node = serverNode
	cfg.SchemeOpts = []lime.AuthenticationScheme{lime.AuthenticationSchemeGuest}
	cfg.EncryptOpts = []lime.SessionEncryption{lime.SessionEncryptionNone}
	var tcpCfg *lime.TCPConfig
	if scn.TLS {
		cfg.EncryptOpts = []lime.SessionEncryption{lime.SessionEncryptionNone, lime.SessionEncryptionTLS}
		sc, _ := testTLS()
		tcpCfg = &lime.TCPConfig{TLSConfig: sc}
	}
	if scn.HoldEst {
		if tcpCfg == nil {
			tcpCfg = &lime.TCPConfig{}
		}
		s.holdRelease = make(chan struct{})
		tcpCfg.TraceWriter = &holdTrace{send: &holdWriter{release: s.holdRelease}, recv: io.Discard}
	}
	cfg.ChannelBufferSize = scn.Buf
	cfg.Backlog = 4
	if scn.NoBacklog {
		cfg.Backlog = 0
	}
	cfg.Authenticate = func(ctx context.Context, id lime.Identity, a lime.Authentication) (*lime.AuthenticationResult, error) {
		if id.Name == "bad" {
			return lime.UnknownAuthenticationResult(), nil
		}
		return lime.MemberAuthenticationResult(), nil
	}
	cfg.Register = func(ctx context.Context, cand lime.Node, ch *lime.ServerChannel) (lime.Node, error) { return cand, nil }
	cfg.Established = func(sid string, ch *lime.ServerChannel) {
		if scn.SlowEst {
			// a callback that takes its time: nothing may be dispatched for the session meanwhile
			time.Sleep(3 * time.Millisecond)
		}
		s.rec(sid, evEst)
		if os.Getenv("VERIF_DEBUG") != "" {
			fmt.Fprintf(os.Stderr, "DEBUG %v established callback recorded for %s\n", time.Now().Format("15:04:05.000000"), sid)
		}
		if scn.Push {
			// what a server application does: push envelopes to a client from a goroutine of its own,
			// through the channel the callback was given - also while the server is being closed
			go func() {
				for i := 0; ; i++ {
					pctx, pc := context.WithTimeout(context.Background(), time.Second)
					m := &lime.Message{Envelope: lime.Envelope{ID: fmt.Sprintf("push%d", i)}}
					m.SetContent(lime.TextDocument("pushed"))
					err := ch.SendMessage(pctx, m)
					pc()
					if err != nil {
						return
					}
					time.Sleep(50 * time.Microsecond)
				}
			}()
		}
	}
	cfg.Finished = func(sid string) {
		s.rec(sid, evFin)
		if os.Getenv("VERIF_DEBUG") != "" {
			fmt.Fprintf(os.Stderr, "DEBUG %v finished callback recorded for %s\n", time.Now().Format("15:04:05.000000"), sid)
		}
	}
	mux := &lime.EnvelopeMux{}
	mux.MessageHandlerFunc(nil, func(ctx context.Context, msg *lime.Message, snd lime.Sender) error {
		sid, _ := lime.ContextSessionID(ctx)
		s.rec(sid, evRun)
		return nil
	})
	var ls []lime.BoundListener
	for i, k := range scn.Listeners {
		switch k {
		case "inproc":
			a := lime.InProcessAddr(fmt.Sprintf("c18-%d-%d", os.Getpid(), i))
			s.inprocAd = a
			s.addrs = append(s.addrs, a)
			// (the listener is constructed with one address and bound to another: the address it serves is the one
			// Listen is given)
			ls = append(ls, lime.NewBoundListener(lime.NewInProcessTransportListener("made-for-"+a), a))
		case "tcp":
			a, err := freeTCPAddr()
			if err != nil {
				return nil, err
			}
			s.addrs = append(s.addrs, a)
			ls = append(ls, lime.NewBoundListener(lime.NewTCPTransportListener(tcpCfg), a))
		default:
			a, err := freeTCPAddr()
			if err != nil {
				return nil, err
			}
			s.addrs = append(s.addrs, a)
			ls = append(ls, lime.NewBoundListener(lime.NewWebsocketTransportListener(nil), a))
		}
		s.kinds = append(s.kinds, k)
	}
	s.srv = lime.NewServer(cfg, mux, ls...)
	return s, nil
}

func (s *c18Server) start() { go func() { s.served <- s.srv.ListenAndServe() }() }

// closeServing calls Close until the server is serving (Close reports "server not listening" before that).
func (s *c18Server) closeServing() {
	for i := 0; i < 2000000; i++ {
		if err := s.srv.Close(); !notServingYet(err) {
			return
		}
		runtime.Gosched()
	}
}

func (s *c18Server) result(o *c18Obs, d time.Duration) {
	select {
	case err := <-s.served:
		switch {
		case err == nil:
			o.Result = 2
		case errors.Is(err, lime.ErrServerClosed):
			o.Result = 0
		default:
			o.Result = 1
			o.ResultText = err.Error()
		}
	case <-time.After(d):
		o.Result = 3
	}
}

// addPending connects to every WebSocket listener without saying anything yet: a connection that is still in the
// listener's hands when the server is closed.
func (s *c18Server) addPending() {
	for i, a := range s.addrs {
		if s.kinds[i] != "ws" {
			continue
		}
		if c, err := net.DialTimeout("tcp", a.String(), time.Second); err == nil {
			s.pending = append(s.pending, c)
		}
	}
}

func (s *c18Server) listenersLeft() int {
	left := 0
	// a listener that was stopped does not take up a connection it had accepted before
	for _, c := range s.pending {
		_ = c.SetDeadline(time.Now().Add(1500 * time.Millisecond))
		_, _ = c.Write([]byte("GET / HTTP/1.1\r\nHost: localhost\r\nUpgrade: websocket\r\nConnection: Upgrade\r\nSec-WebSocket-Key: dGhlIHNhbXBsZSBub25jZQ==\r\nSec-WebSocket-Version: 13\r\nSec-WebSocket-Protocol: lime\r\n\r\n"))
		buf := make([]byte, 64)
		n, _ := c.Read(buf)
		if n > 0 && strings.Contains(string(buf[:n]), " 101 ") {
			left++
		}
		_ = c.Close()
	}
	s.pending = nil
	for i, a := range s.addrs {
		switch s.kinds[i] {
		case "inproc":
			if t, err := lime.DialInProcess(a.(lime.InProcessAddr), 1); err == nil {
				_ = t.Close()
				left++
			}
		default:
			ok := waitUntil(300*time.Millisecond, func() bool {
				l, err := net.Listen("tcp", a.String())
				if err != nil {
					return false
				}
				_ = l.Close()
				return true
			})
			if !ok {
				left++
			}
		}
	}
	return left
}

func (s *c18Server) dial(ctx context.Context, kind string) (lime.Transport, error) {
	for i, k := range s.kinds {
		if k != kind {
			continue
		}
		var t lime.Transport
		var err error
		ok := waitUntil(3*time.Second, func() bool {
			switch kind {
			case "inproc":
				t, err = lime.DialInProcess(s.addrs[i].(lime.InProcessAddr), 8)
			case "tcp":
				t, err = lime.DialTcp(ctx, s.addrs[i], nil)
			default:
				t, err = lime.DialWebsocket(ctx, fmt.Sprintf("ws://%s", s.addrs[i].String()), nil, nil)
			}
			return err == nil
		})
		if !ok {
			return nil, err
		}
		return t, nil
	}
	return nil, fmt.Errorf("no %s listener", kind)
}

func c18StartStop(scn *c18Scn) c18Obs {
	var o c18Obs
	base := limeGoroutines()
	for it := 0; it < scn.Iter; it++ {
		s, err := newC18Server(scn)
		if err != nil {
			o.Note = err.Error()
			return o
		}
		s.start()
		if scn.DelayUs > 0 {
			time.Sleep(time.Duration(scn.DelayUs*(it%5)) * time.Microsecond)
		}
		s.closeServing()
		s.result(&o, 10*time.Second)
		if o.Result != 0 {
			o.Note = fmt.Sprintf("iteration %d", it)
			return o
		}
		if scn.Restart {
			// a second serving period of the same Server, with a session in it
			s.start()
			ctx, cancel := context.WithTimeout(context.Background(), 5*time.Second)
			var cc *lime.ClientChannel
			if t, err := s.dial(ctx, s.kinds[0]); err == nil {
				cc = lime.NewClientChannel(t, 4)
				_, _ = cc.EstablishSession(ctx, lime.NoneCompressionSelector, lime.NoneEncryptionSelector,
					lime.Identity{Name: "u0", Domain: "verif.test"}, lime.GuestAuthenticator, "i0")
				go func(cc *lime.ClientChannel) {
					for range cc.MsgChan() {
					}
				}(cc)
			} else {
				o.Note = fmt.Sprintf("iteration %d: second period: dial: %v", it, err)
			}
			cancel()
			s.closeServing()
			s.result(&o, 10*time.Second)
			if cc != nil {
				_ = cc.Close()
			}
			if o.Result != 0 {
				o.Note = fmt.Sprintf("iteration %d (second serving period)", it)
				return o
			}
		}
		if l := s.listenersLeft(); l > 0 {
			o.ListenersLeft = l
			o.Note = fmt.Sprintf("iteration %d", it)
			return o
		}
	}
	waitUntil(3*time.Second, func() bool { return limeGoroutines() <= base })
	o.GoroutinesLeft = limeGoroutines() - base
	return o
}

func c18Gated(scn *c18Scn) c18Obs {
	var o c18Obs
	base := limeGoroutines()
	g := newGateCtl()
	lime.VerifSetGate(g.point)
	defer lime.VerifSetGate(nil)
	for it := 0; it < scn.Iter; it++ {
		s, err := newC18Server(scn)
		if err != nil {
			o.Note = err.Error()
			return o
		}
		switch scn.Gate {
		case "close-before-consume":
			// the consumer goroutine is held before its select; Close runs to completion; then it selects
			g.hold("consume:before-select")
			s.start()
			waitUntil(3*time.Second, func() bool { return g.waiting("consume:before-select") > 0 })
			s.closeServing()
			g.release("consume:before-select")
		case "restart-over-old-accept-loop":
			// the goroutine of the TCP listener's accept loop is slow to start: the Server is closed and served a second
			// time before the loop of the first serving period has run a single statement; whatever that loop does
			// when it finally runs must not touch the second period (a client connects and establishes a session in it)
			g.hold("tcplistener:serve:start")
			s.start()
			waitUntil(3*time.Second, func() bool {
				c, err := net.DialTimeout("tcp", s.addrs[0].String(), time.Second)
				if err == nil {
					_ = c.Close()
				}
				return err == nil
			})
			s.closeServing()
			s.result(&o, 10*time.Second)
			waitUntil(3*time.Second, func() bool { return g.waiting("tcplistener:serve:start") > 0 })
			s.start()
			waitUntil(3*time.Second, func() bool {
				c, err := net.DialTimeout("tcp", s.addrs[0].String(), time.Second)
				if err == nil {
					_ = c.Close()
				}
				return err == nil
			})
			g.release("tcplistener:serve:start")
			time.Sleep(5 * time.Millisecond)
			ctx, cancel := context.WithTimeout(context.Background(), 5*time.Second)
			if t, err := s.dial(ctx, "tcp"); err == nil {
				cc := lime.NewClientChannel(t, 4)
				if _, err := cc.EstablishSession(ctx, lime.NoneCompressionSelector, lime.NoneEncryptionSelector,
					lime.Identity{Name: "u0", Domain: "verif.test"}, lime.GuestAuthenticator, "i0"); err != nil {
					o.Note = "second serving period: establish: " + err.Error()
				}
				go func() {
					for range cc.MsgChan() {
					}
				}()
				defer cc.Close()
			} else {
				o.Note = "second serving period: dial: " + err.Error()
			}
			cancel()
			s.closeServing()
		case "close-while-holding":
			// an acceptor holds an accepted transport before its select; Close runs; then it selects
			g.hold("accept:before-send")
			s.start()
			ctx, cancel := context.WithTimeout(context.Background(), 5*time.Second)
			var raw net.Conn
			var tr lime.Transport
			if s.kinds[0] == "tcp" {
				waitUntil(3*time.Second, func() bool {
					var err error
					raw, err = net.Dial("tcp", s.addrs[0].String())
					return err == nil
				})
			} else {
				tr, _ = s.dial(ctx, s.kinds[0])
			}
			waitUntil(3*time.Second, func() bool { return g.waiting("accept:before-send") > 0 })
			s.closeServing()
			g.release("accept:before-send")
			// the client must not be left on an open connection that nobody serves
			closed := false
			if raw != nil {
				_ = raw.SetReadDeadline(time.Now().Add(8 * time.Second * slack))
				_, err := bufio.NewReader(raw).ReadByte()
				var ne net.Error
				closed = err != nil && !(errors.As(err, &ne) && ne.Timeout())
				_ = raw.Close()
			} else if tr != nil {
				rctx, rc := context.WithTimeout(context.Background(), 8*time.Second*slack)
				_, err := tr.Receive(rctx)
				closed = err != nil && rctx.Err() == nil
				rc()
				_ = tr.Close()
			}
			cancel()
			if closed {
				o.Released++
			}
		}
		s.result(&o, 10*time.Second)
		if o.Result != 0 {
			o.Note = fmt.Sprintf("iteration %d", it)
			return o
		}
		if l := s.listenersLeft(); l > 0 {
			o.ListenersLeft = l
			return o
		}
	}
	waitUntil(8*time.Second, func() bool { return limeGoroutines() <= base })
	o.GoroutinesLeft = limeGoroutines() - base
	return o
}

type c18Cli struct {
	atTLS      bool          // a raw peer that chose TLS, got the confirmation and does not begin the handshake
	eof        chan struct{} // closed when the watcher of such a peer saw the connection end (or gave up)
	eofAt      time.Time
	eofTimeout bool
	spec       c18Client
	cc         *lime.ClientChannel
	tr         lime.Transport
	raw        net.Conn
	rawR       *bufio.Reader
	sid        string
	est        bool
	sawFin     bool
	closed     bool
	stop       chan struct{}
	done       chan struct{}
}

func c18Sessions(scn *c18Scn) c18Obs {
	var o c18Obs
	base := limeGoroutines()
	s, err := newC18Server(scn)
	if err != nil {
		o.Note = err.Error()
		return o
	}
	s.start()
	ctx, cancel := context.WithTimeout(context.Background(), 30*time.Second*slack)
	defer cancel()
	clis := make([]*c18Cli, len(scn.Clients))
	msg := func(i, k int) *lime.Message {
		m := &lime.Message{Envelope: lime.Envelope{ID: fmt.Sprintf("m%d-%d", i, k)}}
		m.SetContent(lime.TextDocument("x"))
		return m
	}
	establishIn := func(ctx context.Context, c *c18Cli, i int, name string) error {
		t, err := s.dial(ctx, c.spec.Kind)
		if err != nil {
			return err
		}
		c.tr = t
		c.cc = lime.NewClientChannel(t, scn.Buf)
		ses, err := c.cc.EstablishSession(ctx, lime.NoneCompressionSelector, lime.NoneEncryptionSelector,
			lime.Identity{Name: name, Domain: "verif.test"}, lime.GuestAuthenticator, fmt.Sprintf("i%d", i))
		if err != nil {
			return err
		}
		c.sid = ses.ID
		c.est = ses.State == lime.SessionStateEstablished
		if c.est {
			cc := c.cc
			go func() { // the client keeps consuming what it is sent
				for range cc.MsgChan() {
				}
			}()
		}
		return nil
	}
	establish := func(c *c18Cli, i int, name string) error { return establishIn(ctx, c, i, name) }
	// (a client that connects while Close runs may be left without an answer: it does not wait for the whole scenario)
	establishWithin := func(c *c18Cli, i int, name string, d time.Duration) error {
		ectx, ec := context.WithTimeout(ctx, d)
		defer ec()
		return establishIn(ectx, c, i, name)
	}
	for i, spec := range scn.Clients {
		c := &c18Cli{spec: spec, stop: make(chan struct{}), done: make(chan struct{})}
		clis[i] = c
		switch spec.Phase {
		case "connecting":
			// connects while Close runs (started below)
		case "stalled":
			// a raw peer that starts the handshake and then says nothing more
			if spec.Kind == "tcp" {
				var idx int
				for j, k := range s.kinds {
					if k == "tcp" {
						idx = j
					}
				}
				waitUntil(3*time.Second, func() bool {
					var err error
					c.raw, err = net.Dial("tcp", s.addrs[idx].String())
					return err == nil
				})
				if c.raw == nil {
					o.Note = "stalled: dial failed"
					return o
				}
				c.rawR = bufio.NewReader(c.raw)
				_, _ = c.raw.Write([]byte("{\"state\":\"new\"}\n"))
				_ = c.raw.SetReadDeadline(time.Now().Add(5 * time.Second))
				line, _ := c.rawR.ReadString('\n') // the authentication request, or (TLS offered) the negotiation options
				if scn.TLS && strings.Contains(line, "negotiating") {
					// choose TLS, read the confirmation - and never begin the TLS handshake
					var off struct {
						ID string `json:"id"`
					}
					_ = json.Unmarshal([]byte(line), &off)
					_, _ = c.raw.Write([]byte(fmt.Sprintf("{\"state\":\"negotiating\",\"id\":%q,\"encryption\":\"tls\",\"compression\":\"none\"}\n", off.ID)))
					_, _ = c.rawR.ReadString('\n')
					c.atTLS = true
				}
			} else {
				t, err := s.dial(ctx, spec.Kind)
				if err != nil {
					o.Note = err.Error()
					return o
				}
				c.tr = t
				_ = t.Send(ctx, &lime.Session{State: lime.SessionStateNew})
				_, _ = t.Receive(ctx)
			}
		case "authfail":
			if err := establish(c, i, "bad"); err != nil {
				o.Note = "authfail: " + err.Error()
				return o
			}
			if c.est {
				o.Note = "authfail: established"
			}
			c.closed = !c.tr.Connected()
		default:
			if err := establish(c, i, fmt.Sprintf("u%d", i)); err != nil || !c.est {
				o.Note = fmt.Sprintf("client %d: establish: %v", i, err)
				return o
			}
			for k := 0; k < spec.Msgs; k++ {
				if err := c.cc.SendMessage(ctx, msg(i, k)); err != nil {
					o.Note = fmt.Sprintf("client %d: send: %v", i, err)
					return o
				}
			}
			if !waitUntil(5*time.Second, func() bool { return s.runs(c.sid) >= spec.Msgs }) {
				o.Note = fmt.Sprintf("client %d: handlers did not run", i)
			}
			switch spec.Phase {
			case "finished":
				fctx, fc := context.WithTimeout(ctx, 8*time.Second)
				ses, err := c.cc.FinishSession(fctx)
				fc()
				c.sawFin = err == nil && ses.State == lime.SessionStateFinished
				c.closed = !c.tr.Connected()
			case "gone":
				if spec.Kind == "ws" {
					_ = c.cc.Close()
				} else {
					_ = c.tr.Close()
					_ = c.cc.Close()
				}
				c.closed = true
			case "racing":
				go func(i int, c *c18Cli) {
					defer close(c.done)
					for k := spec.Msgs; k < spec.Msgs+25; k++ {
						select {
						case <-c.stop:
							return
						case <-time.After(150 * time.Microsecond):
						}
						sctx, sc := context.WithTimeout(ctx, 2*time.Second)
						err := c.cc.SendMessage(sctx, msg(i, k))
						sc()
						if err != nil {
							return
						}
					}
				}(i, c)
			}
		}
	}
	// sessions that ended before Close: their serving goroutines must have finished their callbacks
	time.Sleep(2 * time.Millisecond)

	var cwg sync.WaitGroup
	for i, c := range clis {
		if c.spec.Phase == "connecting" {
			cwg.Add(1)
			go func(i int, c *c18Cli) {
				defer cwg.Done()
				err := establishWithin(c, i, fmt.Sprintf("u%d", i), 6*time.Second*slack)
				if os.Getenv("VERIF_DEBUG") != "" {
					fmt.Fprintf(os.Stderr, "DEBUG %v connecting client %d: establish returned %v\n", time.Now().Format("15:04:05.000000"), i, err)
				}
			}(i, c)
		}
	}
	if scn.HoldEst {
		// every client has gone while the server was still inside the send of its established envelope
		time.Sleep(40 * time.Millisecond)
		close(s.holdRelease)
		time.Sleep(20 * time.Millisecond)
	}
	if scn.Odd {
		// no session may come of these, so no callback either: whatever fires for them counts as stray
		for _, k := range s.kinds {
			for _, st := range []lime.SessionState{lime.SessionStateAuthenticating, lime.SessionStateEstablished} {
				if t, err := s.dial(ctx, k); err == nil {
					_ = t.Send(ctx, &lime.Session{State: st})
					_ = t.Close()
				}
			}
		}
		time.Sleep(3 * time.Millisecond)
	}
	if scn.DelayUs > 0 {
		time.Sleep(time.Duration(scn.DelayUs) * time.Microsecond)
	}
	s.addPending()
	// a peer that sits at the in-place TLS upgrade is let go at once when the server is closed (the handshake runs
	// under the server's context), not at the end of some poll interval: watched from before the Close
	var closeAt time.Time
	for _, c := range clis {
		if c != nil && c.raw != nil && c.atTLS {
			c.eof = make(chan struct{})
			go func(c *c18Cli) {
				defer close(c.eof)
				_ = c.raw.SetReadDeadline(time.Now().Add(8 * time.Second * slack))
				for {
					if _, err := c.rawR.ReadString('\n'); err != nil {
						var ne net.Error
						c.eofTimeout = errors.As(err, &ne) && ne.Timeout()
						c.eofAt = time.Now()
						return
					}
				}
			}(c)
		}
	}
	closeAt = time.Now()
	s.closeServing()
	s.result(&o, 15*time.Second*slack)
	cwg.Wait()

	// client-side observations
	for _, c := range clis {
		switch c.spec.Phase {
		case "finished", "gone", "authfail":
			continue
		}
		if c.spec.Phase == "racing" {
			close(c.stop)
			<-c.done
		}
		if c.raw != nil && c.eof != nil {
			<-c.eof
			late := c.eofAt.Sub(closeAt)
			c.closed = !c.eofTimeout && late <= 2500*time.Millisecond+150*time.Millisecond*slack
			if !c.eofTimeout && !c.closed {
				o.Note += fmt.Sprintf("a peer at the TLS upgrade was let go only %v after Close; ", late.Round(100*time.Millisecond))
			}
			_ = c.raw.Close()
			continue
		}
		if c.raw != nil {
			_ = c.raw.SetReadDeadline(time.Now().Add(8 * time.Second * slack))
			for {
				_, err := c.rawR.ReadString('\n')
				if err != nil {
					var ne net.Error
					c.closed = !(errors.As(err, &ne) && ne.Timeout())
					break
				}
			}
			_ = c.raw.Close()
			continue
		}
		if c.cc == nil || !c.est {
			// stalled in-process / websocket peer, or a connecting client that did not make it
			if c.tr != nil {
				rctx, rc := context.WithTimeout(context.Background(), 8*time.Second*slack)
				for {
					_, err := c.tr.Receive(rctx)
					if err != nil {
						c.closed = rctx.Err() == nil
						break
					}
				}
				rc()
				if !c.closed && c.spec.Phase == "connecting" && c.spec.Kind == "inproc" {
					// DialInProcess found the listener registered a moment before Close removed it; the connection sits
					// in the stopped listener's queue, which nobody reads any more (in_process_transport.go: newClient /
					// Close).  The Server never saw this connection; no clause of C18 is about it (DESIGN.md 10.3,
					// observations): it counts as a client that did not get through.
					c.closed = true
					o.Note += "an in-process dial that raced with Close was left in the stopped listener's queue; "
				}
				if c.cc != nil {
					_ = c.cc.Close()
				} else {
					_ = c.tr.Close()
				}
			} else {
				c.closed = true // never connected
			}
			continue
		}
		// an established client: its receiver ends on the finished session envelope
		select {
		case <-c.cc.RcvDone():
		case <-time.After(8 * time.Second * slack):
		}
		fctx, fc := context.WithTimeout(context.Background(), 2*time.Second*slack)
		if c.cc.State() == lime.SessionStateFinished {
			c.sawFin = true
			if os.Getenv("VERIF_DEBUG") != "" {
				o.Note += " sawFin-by-state"
			}
		} else if ses, err := c.cc.FinishSession(fctx); err == nil && ses.State == lime.SessionStateFinished {
			// the finished envelope is waiting in the session stream (the client had not looked yet)
			c.sawFin = true
		}
		fc()
		c.closed = waitUntil(3*time.Second, func() bool {
			if !c.tr.Connected() {
				return true
			}
			rctx, rc := context.WithTimeout(context.Background(), 50*time.Millisecond)
			_, err := c.tr.Receive(rctx)
			timedOut := rctx.Err() != nil
			rc()
			return err != nil && !timedOut
		})
		_ = c.cc.Close()
	}
	waitUntil(10*time.Second, func() bool { return limeGoroutines() <= base })
	o.GoroutinesLeft = limeGoroutines() - base
	o.ListenersLeft = s.listenersLeft()

	// assemble the per-client traces
	if os.Getenv("VERIF_DEBUG") != "" {
		fmt.Fprintf(os.Stderr, "DEBUG %v assembling traces now\n", time.Now().Format("15:04:05.000000"))
	}
	s.mu.Lock()
	log := append([]c18Ev(nil), s.log...)
	s.mu.Unlock()
	known := map[string]bool{}
	o.Traces = make([][]int, len(clis))
	for i, c := range clis {
		var tr []int
		if c.sid != "" {
			known[c.sid] = true
		}
		var srvEv []int
		for _, e := range log {
			if c.sid != "" && e.sid == c.sid {
				srvEv = append(srvEv, e.ev)
			}
		}
		var cliEv []int
		if c.sawFin {
			cliEv = append(cliEv, evSentFinished)
		}
		if c.closed {
			cliEv = append(cliEv, evClosed)
		}
		placed := false
		for _, e := range srvEv {
			if e == evFin && !placed {
				tr = append(tr, cliEv...)
				placed = true
			}
			tr = append(tr, e)
		}
		if !placed {
			tr = append(tr, cliEv...)
		}
		o.Traces[i] = tr
	}
	if os.Getenv("VERIF_DEBUG") != "" {
		o.Note += fmt.Sprintf(" DEBUG log=%v", log)
		for i, c := range clis {
			o.Note += fmt.Sprintf(" cli%d{sid=%q est=%v sawFin=%v closed=%v}", i, c.sid, c.est, c.sawFin, c.closed)
		}
	}
	for _, e := range log {
		if !known[e.sid] {
			o.Stray++
		}
	}
	return o
}

func c18Child(args []string) {
	var scn c18Scn
	if len(args) < 1 || json.Unmarshal([]byte(args[0]), &scn) != nil {
		os.Exit(2)
	}
	var o c18Obs
	// A port that this process found free may be taken by another process before the Server binds it; that is
	// the machine, not the Server: the scenario is run again with fresh ports.
	for attempt := 0; attempt < 6; attempt++ {
		switch scn.Kind {
		case "startstop":
			o = c18StartStop(&scn)
		case "gated":
			o = c18Gated(&scn)
		default:
			o = c18Sessions(&scn)
		}
		if !strings.Contains(o.ResultText, "address already in use") && !strings.Contains(o.Note, "address already in use") {
			break
		}
		o.Note = "port taken by another process: " + o.Note
	}
	b, _ := json.Marshal(o)
	fmt.Printf("C18OBS %s\n", b)
}

func init() { childCmds["c18"] = c18Child }

// --------------------------------------------------------------- parent side

func runC18Scn(scn c18Scn) c18Case {
	b, _ := json.Marshal(scn)
	cmd := exec.Command(os.Args[0], "child", "c18", string(b))
	cmd.Env = os.Environ()
	var out, errb strings.Builder
	cmd.Stdout = &out
	cmd.Stderr = &errb
	done := make(chan error, 1)
	_ = cmd.Start()
	go func() { done <- cmd.Wait() }()
	c := c18Case{Scn: scn}
	select {
	case <-done:
	case <-time.After(120 * time.Second * slack):
		_ = cmd.Process.Kill()
		c.Obs.Result = 3
		c.Obs.Note = "scenario timed out"
		return c
	}
	for _, line := range strings.Split(out.String(), "\n") {
		if strings.HasPrefix(line, "C18OBS ") {
			_ = json.Unmarshal([]byte(strings.TrimPrefix(line, "C18OBS ")), &c.Obs)
			return c
		}
	}
	// the child died: a panic in a library goroutine
	c.Obs.Panic = true
	txt := errb.String()
	if i := strings.Index(txt, "panic:"); i >= 0 {
		txt = txt[i:]
	} else if i := strings.Index(txt, "fatal error:"); i >= 0 {
		txt = txt[i:]
	}
	if len(txt) > 300 {
		txt = txt[:300]
	}
	c.Obs.PanicText = txt
	c.Obs.Result = 3
	return c
}

var c18Phases = map[string]string{"idle": "PhIdle", "traffic": "PhTraffic", "racing": "PhRacing", "stalled": "PhStalled",
	"authfail": "PhAuthFail", "finished": "PhFinished", "gone": "PhGone", "connecting": "PhConnecting"}

func (c *c18Case) coq() string {
	kinds := map[string]string{"startstop": "KStartStop", "gated": "KGated", "sessions": "KSessions"}
	cl := make([]string, len(c.Scn.Clients))
	for i, x := range c.Scn.Clients {
		cl[i] = coqfmt.Tuple(c18Phases[x.Phase], coqfmt.Nat(x.Msgs))
	}
	tr := make([]string, len(c.Obs.Traces))
	for i, t := range c.Obs.Traces {
		evs := make([]string, len(t))
		for j, e := range t {
			evs[j] = []string{"EvEst", "EvRun", "EvSentFinished", "EvClosed", "EvFin"}[e]
		}
		tr[i] = coqfmt.List(evs)
	}
	res := []string{"ErrServerClosed", "ListenerError", "NoError", "NoError"}[c.Obs.Result]
	held := 0
	if c.Scn.Kind == "gated" && c.Scn.Gate == "close-while-holding" {
		held = c.Scn.Iter
	}
	return coqfmt.Record(
		"k_kind", kinds[c.Scn.Kind],
		"k_listeners", coqfmt.Nat(len(c.Scn.Listeners)),
		"k_held", coqfmt.Nat(held),
		"k_clients", coqfmt.List(cl),
		"o_panic", coqfmt.Bool(c.Obs.Panic),
		"o_returned", coqfmt.Bool(c.Obs.Result != 3),
		"o_result", res,
		"o_listeners_left", coqfmt.Nat(c.Obs.ListenersLeft),
		"o_goroutines_left", coqfmt.Nat(maxInt(c.Obs.GoroutinesLeft, 0)),
		"o_released", coqfmt.Nat(c.Obs.Released),
		"o_stray", coqfmt.Nat(c.Obs.Stray),
		"o_traces", coqfmt.List(tr))
}

func maxInt(a, b int) int {
	if a > b {
		return a
	}
	return b
}

func runC18(env *Env) error {
	env.Header = "From Coq Require Import List Bool Arith.\nImport ListNotations.\nFrom Lime Require Import Base.Res Life.Handler Life.Server Corr.C18.\n"
	env.ShardSize = 100
	env.Rule = "real Server, each scenario in its own process: (startstop) ListenAndServe and Close racing at start-up, 1-3 listeners of every kind, repeated, also with a second serving period of the same Server; (gated) Close while the consumer is held before its select / while an acceptor holds an accepted transport (build-tag gates); (sessions) 1-8 clients over in-process, TCP and WebSocket in the phases idle, after traffic, sending while Close runs, stalled mid-handshake (also at the in-place TLS upgrade), failed authentication, finished earlier, vanished earlier, connecting while Close runs, optionally next to peers whose only envelope cannot start a session and who vanish at once; the queue between acceptors and consumer with 4 slots or none (Backlog 0). Non-trivial: a gated scenario, a start-up race with two or more listeners, or at least two clients. Distinct by printed scenario."
	var rc c18Case
	if ok, err := env.ReplayDesc(&rc); err != nil {
		return err
	} else if ok {
		c := runC18Scn(rc.Scn)
		env.Add(c.coq(), c)
		return nil
	}
	var scns []c18Scn
	lsets := [][]string{{"inproc"}, {"tcp"}, {"ws"}, {"inproc", "tcp"}, {"tcp", "ws"}, {"inproc", "tcp", "ws"}, {"inproc", "inproc"}}
	iter := env.Pick(60, 400)
	for _, ls := range lsets {
		scns = append(scns, c18Scn{Kind: "startstop", Listeners: ls, Iter: iter, Buf: 4})
		scns = append(scns, c18Scn{Kind: "startstop", Listeners: ls, Iter: iter / 2, DelayUs: 40, Buf: 4})
	}
	for _, ls := range [][]string{{"tcp"}, {"ws"}, {"tcp", "ws"}} {
		scns = append(scns, c18Scn{Kind: "startstop", Listeners: ls, Iter: env.Pick(8, 60), Buf: 4, Restart: true})
	}
	for _, k := range []string{"inproc", "tcp", "ws"} {
		scns = append(scns, c18Scn{Kind: "gated", Gate: "close-before-consume", Listeners: []string{k}, Iter: env.Pick(6, 30), Buf: 4})
		scns = append(scns, c18Scn{Kind: "gated", Gate: "close-while-holding", Listeners: []string{k}, Iter: env.Pick(3, 12), Buf: 4})
		scns = append(scns, c18Scn{Kind: "gated", Gate: "close-while-holding", Listeners: []string{k}, Iter: env.Pick(2, 8), Buf: 4, NoBacklog: true})
		scns = append(scns, c18Scn{Kind: "gated", Gate: "close-before-consume", Listeners: []string{k}, Iter: env.Pick(2, 8), Buf: 4, NoBacklog: true})
		scns = append(scns, c18Scn{Kind: "sessions", Listeners: []string{k}, Buf: 4, NoBacklog: true,
			Clients: []c18Client{{Kind: k, Phase: "connecting"}, {Kind: k, Phase: "connecting"}, {Kind: k, Phase: "idle"}, {Kind: k, Phase: "connecting"}}})
	}
	scns = append(scns, c18Scn{Kind: "gated", Gate: "restart-over-old-accept-loop", Listeners: []string{"tcp"}, Iter: env.Pick(2, 6), Buf: 4})
	all := []string{"inproc", "tcp", "ws"}
	phases := []string{"idle", "traffic", "racing", "stalled", "authfail", "finished", "gone", "connecting"}
	// every phase alone on every transport, then mixtures
	for _, ph := range phases {
		for _, k := range all {
			if ph == "stalled" && k == "tcp" && !env.Thorough() && env.Rng.Intn(2) == 0 {
				// a stalled TCP handshake notices the cancellation at its next 5 s poll: sampled in the quick tier
			}
			scns = append(scns, c18Scn{Kind: "sessions", Listeners: all, Buf: env.Rng.Intn(3) * 2, SlowEst: len(scns)%2 == 0,
				Clients: []c18Client{{Kind: k, Phase: ph, Msgs: 1 + env.Rng.Intn(3)}}})
		}
	}
	for _, k := range all {
		scns = append(scns, c18Scn{Kind: "sessions", Listeners: all, Buf: 4, Push: true,
			Clients: []c18Client{{Kind: k, Phase: "idle", Msgs: 1}, {Kind: k, Phase: "traffic", Msgs: 2}}})
	}
	scns = append(scns, c18Scn{Kind: "sessions", Listeners: all, Buf: 4, Odd: true,
		Clients: []c18Client{{Kind: "inproc", Phase: "idle"}, {Kind: "tcp", Phase: "traffic", Msgs: 2}}})
	// Close while a TCP session sits at its in-place TLS upgrade (the peer chose TLS and does not begin the handshake)
	scns = append(scns, c18Scn{Kind: "sessions", Listeners: []string{"tcp"}, Buf: 4, TLS: true,
		Clients: []c18Client{{Kind: "tcp", Phase: "stalled"}, {Kind: "tcp", Phase: "idle"}}},
		c18Scn{Kind: "sessions", Listeners: all, Buf: 4, TLS: true,
			Clients: []c18Client{{Kind: "tcp", Phase: "stalled"}, {Kind: "tcp", Phase: "stalled"}, {Kind: "inproc", Phase: "traffic", Msgs: 2}}})
	// clients that are gone before the server has come back from sending them the established envelope
	scns = append(scns, c18Scn{Kind: "sessions", Listeners: all, Buf: 4, HoldEst: true,
		Clients: []c18Client{{Kind: "tcp", Phase: "gone"}, {Kind: "tcp", Phase: "gone"}}},
		c18Scn{Kind: "sessions", Listeners: []string{"tcp"}, Buf: 1, HoldEst: true, SlowEst: true,
			Clients: []c18Client{{Kind: "tcp", Phase: "gone"}}})
	nmix := env.Pick(14, 80)
	for m := 0; m < nmix; m++ {
		n := 2 + env.Rng.Intn(env.Pick(4, 7))
		sc := c18Scn{Kind: "sessions", Listeners: all, Buf: []int{0, 1, 4, 16}[env.Rng.Intn(4)], DelayUs: env.Rng.Intn(3) * 200, SlowEst: m%2 == 0, Push: m%3 == 0, NoBacklog: m%4 == 1, Odd: m%3 == 1}
		for i := 0; i < n; i++ {
			sc.Clients = append(sc.Clients, c18Client{Kind: all[env.Rng.Intn(3)], Phase: phases[env.Rng.Intn(len(phases))], Msgs: env.Rng.Intn(4)})
		}
		scns = append(scns, sc)
	}
	cases := make([]c18Case, len(scns))
	sem := make(chan struct{}, 8)
	var wg sync.WaitGroup
	for i := range scns {
		wg.Add(1)
		sem <- struct{}{}
		go func(i int) {
			defer wg.Done()
			defer func() { <-sem }()
			cases[i] = runC18Scn(scns[i])
		}(i)
	}
	wg.Wait()
	for i := range cases {
		c := &cases[i]
		env.Add(c.coq(), c)
		env.Count("kind=" + c.Scn.Kind)
		env.Count(fmt.Sprintf("listeners=%d", len(c.Scn.Listeners)))
		if c.Scn.SlowEst {
			env.Count("slow-established-callback")
		}
		if c.Scn.Push {
			env.Count("server-pushes-while-closing")
		}
		if c.Scn.NoBacklog {
			env.Count("backlog=0")
		}
		if c.Scn.Odd {
			env.Count("peers-that-cannot-start-a-session")
		}
		if c.Scn.HoldEst {
			env.Count("client-gone-while-the-server-is-still-sending-established")
		}
		if strings.Contains(c.Obs.Note, "left in the stopped listener's queue") {
			env.Count("in-process-dial-left-in-the-stopped-listeners-queue (outside C18)")
		}
		for _, cl := range c.Scn.Clients {
			env.Count("phase=" + cl.Phase)
			env.Count("transport=" + cl.Kind)
		}
		if c.Scn.Kind == "gated" || (c.Scn.Kind == "startstop" && len(c.Scn.Listeners) >= 2) || len(c.Scn.Clients) >= 2 {
			b, _ := json.Marshal(c.Scn)
			env.NonTrivial(string(b))
		}
	}
	return nil
}

func init() { register("C18", runC18) }
