package main

// C19: a real Client (automatic reconnection) against a scripted server that
// injects faults on the newest session.  Each scenario runs in a child process
// so that the CPU spent by a spinning listener goroutine can be measured.

import (
	"bufio"
	"context"
	"encoding/json"
	"errors"
	"fmt"
	"net"
	"os"
	"os/exec"
	"strconv"
	"strings"
	"sync"
	"sync/atomic"
	"syscall"
	"time"

	lime "github.com/takenet/lime-go"
	"verifharness/coqfmt"
	"verifharness/memconn"
)

type c19Scn struct {
	Kind    string   `json:"kind"`    // mem | tcp | ws | inproc
	Actions []string `json:"actions"` // send fault:<kind> down up push watch
	// Unbuffered: the client is configured with a channel buffer size of 0 (every inbound stream is a pure hand-off)
	Unbuffered bool `json:"unbuffered,omitempty"`
}

type c19Ob struct {
	Tag      string `json:"tag"` // send push watch none
	A        bool   `json:"a"`
	B        bool   `json:"b"`
	Sessions int    `json:"sessions"`
}

type c19Obs struct {
	Init  int     `json:"init"`
	Obs   []c19Ob `json:"obs"`
	Panic bool    `json:"panic,omitempty"`
	Note  string  `json:"note,omitempty"`
}

type c19Case struct {
	Scn c19Scn `json:"scn"`
	Obs c19Obs `json:"obs"`
}

const c19ReadLimit = 4096

// ---------------------------------------------------------------- scripted server

type c19Session struct {
	id    string
	raw   net.Conn       // mem / tcp
	mem   *memconn.Conn  // the client's end (mem), for scripted read errors
	tr    lime.Transport // ws / inproc (server-side transport)
	mu    sync.Mutex
	got   map[string]bool
	ended bool
}

func (s *c19Session) write(line string) {
	if s.raw != nil {
		_, _ = s.raw.Write([]byte(line + "\n"))
	}
}

type c19Server struct {
	kind     string
	mu       sync.Mutex
	sessions []*c19Session
	down     int32 // 1: connections are refused; 2: every new session is answered with "finished" (a server shutting down)
	drained  int32 // sessions ended that way
	ln       net.Listener
	tl       lime.TransportListener
	wsURL    string
	ipAddr   lime.InProcessAddr
	stop     chan struct{}
}

func (sv *c19Server) count() int {
	sv.mu.Lock()
	defer sv.mu.Unlock()
	return len(sv.sessions)
}

func (sv *c19Server) newest() *c19Session {
	sv.mu.Lock()
	defer sv.mu.Unlock()
	if len(sv.sessions) == 0 {
		return nil
	}
	return sv.sessions[len(sv.sessions)-1]
}

func (sv *c19Server) serveRaw(c net.Conn, mem *memconn.Conn) {
	r := bufio.NewReaderSize(c, 1<<16)
	if _, err := r.ReadString('\n'); err != nil {
		_ = c.Close()
		return
	}
	if atomic.LoadInt32(&sv.down) == 2 {
		// a server that is shutting down: every new session is ended at once
		atomic.AddInt32(&sv.drained, 1)
		_, _ = c.Write([]byte(fmt.Sprintf(`{"state":"finished","id":"d%d","from":"%s"}`+"\n", atomic.LoadInt32(&sv.drained), serverNode.String())))
		time.Sleep(time.Millisecond)
		_ = c.Close()
		return
	}
	sv.mu.Lock()
	s := &c19Session{id: fmt.Sprintf("s%d", len(sv.sessions)+1), raw: c, mem: mem, got: map[string]bool{}}
	sv.sessions = append(sv.sessions, s)
	sv.mu.Unlock()
	s.write(fmt.Sprintf(`{"state":"established","id":"%s","from":"%s","to":"cli@verif.test/i1"}`, s.id, serverNode.String()))
	for {
		line, err := r.ReadString('\n')
		if err != nil {
			s.mu.Lock()
			s.ended = true
			s.mu.Unlock()
			return
		}
		var m map[string]json.RawMessage
		if json.Unmarshal([]byte(line), &m) == nil {
			var id string
			_ = json.Unmarshal(m["id"], &id)
			s.mu.Lock()
			s.got[id] = true
			s.mu.Unlock()
		}
	}
}

func (sv *c19Server) serveTransport(t lime.Transport) {
	ctx := context.Background()
	e, err := t.Receive(ctx)
	if err != nil {
		_ = t.Close()
		return
	}
	if ses, ok := e.(*lime.Session); !ok || ses.State != lime.SessionStateNew {
		_ = t.Close()
		return
	}
	if atomic.LoadInt32(&sv.down) == 2 {
		n := atomic.AddInt32(&sv.drained, 1)
		_ = t.Send(ctx, &lime.Session{Envelope: lime.Envelope{ID: fmt.Sprintf("d%d", n), From: serverNode}, State: lime.SessionStateFinished})
		time.Sleep(time.Millisecond)
		_ = t.Close()
		return
	}
	sv.mu.Lock()
	s := &c19Session{id: fmt.Sprintf("s%d", len(sv.sessions)+1), tr: t, got: map[string]bool{}}
	sv.sessions = append(sv.sessions, s)
	sv.mu.Unlock()
	_ = t.Send(ctx, &lime.Session{Envelope: lime.Envelope{ID: s.id, From: serverNode,
		To: lime.Node{Identity: lime.Identity{Name: "cli", Domain: "verif.test"}, Instance: "i1"}}, State: lime.SessionStateEstablished})
	for {
		e, err := t.Receive(ctx)
		if err != nil {
			s.mu.Lock()
			s.ended = true
			s.mu.Unlock()
			return
		}
		var eid string
		switch m := e.(type) {
		case *lime.Message:
			eid = m.ID
		case *lime.Notification:
			eid = m.ID
		case *lime.RequestCommand:
			eid = m.ID
		}
		if eid != "" {
			s.mu.Lock()
			s.got[eid] = true
			s.mu.Unlock()
		}
	}
}

func newC19Server(kind string) (*c19Server, func(ctx context.Context) (lime.Transport, error), error) {
	sv := &c19Server{kind: kind, stop: make(chan struct{})}
	refused := errors.New("connection refused (scripted)")
	cfg := &lime.TCPConfig{ReadLimit: c19ReadLimit}
	switch kind {
	case "mem":
		return sv, func(ctx context.Context) (lime.Transport, error) {
			if atomic.LoadInt32(&sv.down) == 1 {
				return nil, refused
			}
			c, s := memconn.Pipe(0)
			go sv.serveRaw(s, c)
			return lime.NewTCPTransportOverConn(c, false, cfg), nil
		}, nil
	case "tcp":
		ln, err := net.Listen("tcp", "127.0.0.1:0")
		if err != nil {
			return nil, nil, err
		}
		sv.ln = ln
		go func() {
			for {
				c, err := ln.Accept()
				if err != nil {
					return
				}
				if atomic.LoadInt32(&sv.down) == 1 {
					_ = c.Close()
					continue
				}
				go sv.serveRaw(c, nil)
			}
		}()
		return sv, func(ctx context.Context) (lime.Transport, error) {
			if atomic.LoadInt32(&sv.down) == 1 {
				return nil, refused
			}
			return lime.DialTcp(ctx, ln.Addr(), cfg)
		}, nil
	case "ws", "inproc":
		var l lime.TransportListener
		var addr net.Addr
		if kind == "ws" {
			a, err := freeTCPAddr()
			if err != nil {
				return nil, nil, err
			}
			l = lime.NewWebsocketTransportListener(nil)
			addr = a
			sv.wsURL = fmt.Sprintf("ws://%s", a.String())
		} else {
			sv.ipAddr = lime.InProcessAddr(fmt.Sprintf("c19-%d", os.Getpid()))
			l = lime.NewInProcessTransportListener(sv.ipAddr)
			addr = sv.ipAddr
		}
		if err := l.Listen(context.Background(), addr); err != nil {
			return nil, nil, err
		}
		sv.tl = l
		go func() {
			for {
				t, err := l.Accept(context.Background())
				if err != nil {
					return
				}
				go sv.serveTransport(t)
			}
		}()
		return sv, func(ctx context.Context) (lime.Transport, error) {
			if atomic.LoadInt32(&sv.down) == 1 {
				return nil, refused
			}
			if kind == "ws" {
				return lime.DialWebsocket(ctx, sv.wsURL, nil, nil)
			}
			return lime.DialInProcess(sv.ipAddr, 8)
		}, nil
	}
	return nil, nil, fmt.Errorf("unknown kind %q", kind)
}

// inject plays a fault on the newest session.
func (sv *c19Server) inject(f string) {
	s := sv.newest()
	if s == nil {
		return
	}
	ctx := context.Background()
	fin := func(state lime.SessionState) {
		if s.raw != nil {
			if state == lime.SessionStateFailed {
				s.write(fmt.Sprintf(`{"state":"failed","id":"%s","from":"%s","reason":{"code":1,"description":"scripted"}}`, s.id, serverNode.String()))
			} else {
				s.write(fmt.Sprintf(`{"state":"finished","id":"%s","from":"%s"}`, s.id, serverNode.String()))
			}
			time.Sleep(2 * time.Millisecond)
			_ = s.raw.Close()
			return
		}
		ses := &lime.Session{Envelope: lime.Envelope{ID: s.id, From: serverNode}, State: state}
		if state == lime.SessionStateFailed {
			ses.Reason = &lime.Reason{Code: 1, Description: "scripted"}
		}
		_ = s.tr.Send(ctx, ses)
		time.Sleep(2 * time.Millisecond)
		_ = s.tr.Close()
	}
	switch f {
	case "finish":
		fin(lime.SessionStateFinished)
	case "fail":
		fin(lime.SessionStateFailed)
	case "eof":
		if s.raw != nil {
			_ = s.raw.Close()
		} else {
			_ = s.tr.Close()
		}
	case "reset":
		if s.mem != nil {
			// the client's next Read call fails with an error that is not EOF
			s.mem.SetReadPlan([]memconn.ReadStep{{Cut: true}})
			s.write("")
		} else if tc, ok := s.raw.(*net.TCPConn); ok {
			_ = tc.SetLinger(0) // RST
			_ = tc.Close()
		}
	case "garbage":
		s.write(`{"foo":1}`)
	case "nonjson":
		s.write(`this is not json`)
	case "oversize":
		s.write(fmt.Sprintf(`{"id":"big","type":"text/plain","content":"%s"}`, strings.Repeat("x", 3*c19ReadLimit)))
	case "regress":
		if s.raw != nil {
			s.write(fmt.Sprintf(`{"state":"negotiating","id":"%s","from":"%s"}`, s.id, serverNode.String()))
		} else {
			_ = s.tr.Send(ctx, &lime.Session{Envelope: lime.Envelope{ID: s.id, From: serverNode}, State: lime.SessionStateNegotiating})
		}
	}
}

func (sv *c19Server) push(n int, slow bool) { sv.pushID(n, slow, "") }

// pushID: id, when given, replaces the generated id (the envelopes of a flood)
func (sv *c19Server) pushID(n int, slow bool, id string) {
	s := sv.newest()
	if s == nil {
		return
	}
	if id == "" {
		id = fmt.Sprintf("p%d", n)
		if slow {
			id = fmt.Sprintf("slow%d", n)
		}
	}
	if s.raw != nil {
		s.write(fmt.Sprintf(`{"id":"%s","from":"%s","event":"received"}`, id, serverNode.String()))
		return
	}
	ctx, cancel := context.WithTimeout(context.Background(), 300*time.Millisecond)
	defer cancel()
	_ = s.tr.Send(ctx, &lime.Notification{Envelope: lime.Envelope{ID: id, From: serverNode}, Event: lime.NotificationEventReceived})
}

func cpuTime() time.Duration {
	var ru syscall.Rusage
	_ = syscall.Getrusage(syscall.RUSAGE_SELF, &ru)
	return time.Duration(ru.Utime.Nano() + ru.Stime.Nano())
}

// c19Faults: which faults each transport kind can be given by the scripted server
var c19Faults = map[string][]string{
	"mem":    {"finish", "fail", "eof", "reset", "garbage", "nonjson", "oversize", "regress"},
	"tcp":    {"finish", "fail", "eof", "reset", "garbage", "nonjson", "oversize", "regress"},
	"ws":     {"finish", "fail", "eof", "regress"},
	"inproc": {"finish", "fail", "eof", "regress"},
}

func c19Run(scn *c19Scn) c19Obs {
	var o c19Obs
	sv, factory, err := newC19Server(scn.Kind)
	if err != nil {
		o.Note = err.Error()
		return o
	}
	var notifs int32
	cfg := lime.NewClientConfig()
	cfg.Node = lime.Node{Identity: lime.Identity{Name: "cli", Domain: "verif.test"}, Instance: "i1"}
	cfg.ChannelBufferSize = 4
	if scn.Unbuffered {
		cfg.ChannelBufferSize = 0
	}
	cfg.NewTransport = factory
	cfg.Authenticator = lime.GuestAuthenticator
	mux := &lime.EnvelopeMux{}
	var handledMu sync.Mutex
	handled := map[string]bool{}
	mux.NotificationHandlerFunc(nil, func(ctx context.Context, n *lime.Notification) error {
		atomic.AddInt32(&notifs, 1)
		handledMu.Lock()
		handled[n.ID] = true
		handledMu.Unlock()
		if strings.HasPrefix(n.ID, "slow") {
			// a handler that takes its time: the listener goroutine is busy meanwhile, so whatever the
			// application does next finds the build lock free
			time.Sleep(700 * time.Millisecond)
		}
		return nil
	})
	client := lime.NewClient(cfg, mux)
	// quiescence: the number of sessions the server has seen stays put for a while
	stable := func(window, max time.Duration) {
		deadline := time.Now().Add(max * slack)
		last, since := sv.count(), time.Now()
		for time.Now().Before(deadline) {
			time.Sleep(2 * time.Millisecond)
			if n := sv.count(); n != last {
				last, since = n, time.Now()
			} else if time.Since(since) >= window {
				return
			}
		}
	}
	waitUntil(3*time.Second, func() bool { return sv.count() >= 1 })
	stable(40*time.Millisecond, time.Second)
	o.Init = sv.count()
	msgN, pushN := 0, 0
	for _, a := range scn.Actions {
		ob := c19Ob{Tag: "none"}
		switch {
		case a == "send":
			msgN++
			id := fmt.Sprintf("m%d", msgN)
			ctx, cancel := context.WithTimeout(context.Background(), 500*time.Millisecond*slack)
			// every sending operation of the Client goes through the same channel look-up
			var err error
			switch msgN % 3 {
			case 1:
				m := &lime.Message{Envelope: lime.Envelope{ID: id}}
				m.SetContent(lime.TextDocument("x"))
				err = client.SendMessage(ctx, m)
			case 2:
				err = client.SendNotification(ctx, &lime.Notification{Envelope: lime.Envelope{ID: id}, Event: lime.NotificationEventReceived})
			default:
				rc := &lime.RequestCommand{Command: lime.Command{Envelope: lime.Envelope{ID: id}, Method: lime.CommandMethodGet}}
				rc.SetURIString("/presence")
				err = client.SendRequestCommand(ctx, rc)
			}
			cancel()
			ob.Tag = "send"
			ob.A = err == nil
			if err == nil {
				ob.B = waitUntil(400*time.Millisecond, func() bool {
					s := sv.newest()
					if s == nil {
						return false
					}
					s.mu.Lock()
					defer s.mu.Unlock()
					return s.got[id]
				})
			}
			stable(30*time.Millisecond, 500*time.Millisecond)
		case strings.HasPrefix(a, "fault:"):
			sv.inject(strings.TrimPrefix(a, "fault:"))
			// a client with a reachable server reconnects at once; give it time, then wait for quiescence
			before := sv.count()
			waitUntil(400*time.Millisecond, func() bool { return sv.count() > before })
			stable(40*time.Millisecond, time.Second)
		case a == "down":
			atomic.StoreInt32(&sv.down, 1)
		case a == "drain":
			atomic.StoreInt32(&sv.down, 2)
		case a == "up":
			atomic.StoreInt32(&sv.down, 0)
			// a client without a session retries with a growing back-off
			before := sv.count()
			waitUntil(2500*time.Millisecond, func() bool { return sv.count() > before })
			stable(40*time.Millisecond, time.Second)
		case a == "push" || a == "slowpush" || strings.HasPrefix(a, "floodpush"):
			pushN++
			slow := a != "push"
			sv.push(pushN, slow)
			want := fmt.Sprintf("p%d", pushN)
			if slow {
				want = fmt.Sprintf("slow%d", pushN)
			}
			ob.Tag = "push"
			ob.A = waitUntil(400*time.Millisecond, func() bool { handledMu.Lock(); defer handledMu.Unlock(); return handled[want] })
			if strings.HasPrefix(a, "floodpush") {
				// behind the envelope whose handler takes its time: "floodpush" = more than the channel's buffers hold
				// (some stay unread in the transport); "floodpush:<n>" = exactly n (5 = the buffer and the receiver's
				// hands full, nothing left in the transport)
				count := 9
				if i := strings.IndexByte(a, ':'); i >= 0 {
					count, _ = strconv.Atoi(a[i+1:])
				}
				for i := 0; i < count; i++ {
					sv.pushID(pushN, false, fmt.Sprintf("flood%d-%d", pushN, i))
				}
			}
		case a == "watch":
			c0 := cpuTime()
			time.Sleep(200 * time.Millisecond)
			ob.Tag = "watch"
			ob.A = cpuTime()-c0 > 80*time.Millisecond
		}
		ob.Sessions = sv.count()
		o.Obs = append(o.Obs, ob)
	}
	done := make(chan struct{})
	go func() { _ = client.Close(); close(done) }()
	select {
	case <-done:
	case <-time.After(7 * time.Second):
	}
	return o
}

func c19Child(args []string) {
	var scn c19Scn
	if len(args) < 1 || json.Unmarshal([]byte(args[0]), &scn) != nil {
		os.Exit(2)
	}
	o := c19Run(&scn)
	b, _ := json.Marshal(o)
	fmt.Printf("C19OBS %s\n", b)
	os.Exit(0)
}

func init() { childCmds["c19"] = c19Child }

func runC19Scn(scn c19Scn) c19Case {
	b, _ := json.Marshal(scn)
	cmd := exec.Command(os.Args[0], "child", "c19", string(b))
	cmd.Env = os.Environ()
	var out, errb strings.Builder
	cmd.Stdout = &out
	cmd.Stderr = &errb
	c := c19Case{Scn: scn}
	done := make(chan error, 1)
	_ = cmd.Start()
	go func() { done <- cmd.Wait() }()
	select {
	case <-done:
	case <-time.After(90 * time.Second * slack):
		_ = cmd.Process.Kill()
		c.Obs.Note = "scenario timed out"
		return c
	}
	for _, line := range strings.Split(out.String(), "\n") {
		if strings.HasPrefix(line, "C19OBS ") {
			_ = json.Unmarshal([]byte(strings.TrimPrefix(line, "C19OBS ")), &c.Obs)
			return c
		}
	}
	c.Obs.Panic = true
	txt := errb.String()
	if i := strings.Index(txt, "panic:"); i >= 0 {
		txt = txt[i:]
	}
	if len(txt) > 300 {
		txt = txt[:300]
	}
	c.Obs.Note = txt
	return c
}

var c19FaultCtor = map[string]string{"finish": "FFinish", "fail": "FFail", "eof": "FEof", "reset": "FReset",
	"garbage": "FGarbage", "nonjson": "FGarbage", "oversize": "FOversize", "regress": "FRegress"}

func (c *c19Case) coq() string {
	acts := make([]string, len(c.Scn.Actions))
	for i, a := range c.Scn.Actions {
		switch {
		case a == "send":
			acts[i] = "ASendOp"
		case a == "down" || a == "drain":
			// a server that ends every new session at once is as unreachable as one that refuses connections
			acts[i] = "ADown"
		case a == "up":
			acts[i] = "AUp"
		case a == "push" || a == "slowpush" || strings.HasPrefix(a, "floodpush"):
			acts[i] = "APush"
		case a == "watch":
			acts[i] = "AWatch"
		default:
			acts[i] = coqfmt.App("AFaultOp", c19FaultCtor[strings.TrimPrefix(a, "fault:")])
		}
	}
	obs := make([]string, len(c.Obs.Obs))
	for i, o := range c.Obs.Obs {
		var t string
		switch o.Tag {
		case "send":
			t = coqfmt.App("OSend", coqfmt.Bool(o.A), coqfmt.Bool(o.B))
		case "push":
			t = coqfmt.App("OPush", coqfmt.Bool(o.A))
		case "watch":
			t = coqfmt.App("OWatch", coqfmt.Bool(o.A))
		default:
			t = "ONone"
		}
		obs[i] = coqfmt.Tuple(t, coqfmt.Nat(o.Sessions))
	}
	if c.Obs.Panic {
		// a crashed client process observed nothing: the lists differ in length and the case is flagged
		obs = nil
	}
	return coqfmt.Record("k_actions", coqfmt.List(acts), "o_init", coqfmt.Nat(c.Obs.Init), "o_obs", coqfmt.List(obs))
}

func genC19(env *Env, kind string, n int) c19Scn {
	rng := env.Rng
	faults := c19Faults[kind]
	sc := c19Scn{Kind: kind}
	down := false
	downBudget := 0
	for len(sc.Actions) < n {
		if down {
			// keep outages short: the client's retry back-off grows with every failed attempt
			downBudget--
			if downBudget <= 0 {
				sc.Actions = append(sc.Actions, "up")
				down = false
				continue
			}
			switch rng.Intn(3) {
			case 0:
				sc.Actions = append(sc.Actions, "fault:"+faults[rng.Intn(len(faults))])
			case 1:
				sc.Actions = append(sc.Actions, "push")
			default:
				sc.Actions = append(sc.Actions, "send")
			}
			continue
		}
		switch r := rng.Intn(10); {
		case r < 4:
			sc.Actions = append(sc.Actions, "fault:"+faults[rng.Intn(len(faults))])
		case r < 6:
			sc.Actions = append(sc.Actions, "send")
		case r < 8:
			sc.Actions = append(sc.Actions, "push")
		case r < 9:
			sc.Actions = append(sc.Actions, "watch")
		default:
			if rng.Intn(2) == 0 {
				sc.Actions = append(sc.Actions, "down")
			} else {
				sc.Actions = append(sc.Actions, "drain")
			}
			down = true
			downBudget = 1 + rng.Intn(2)
		}
	}
	if down {
		sc.Actions = append(sc.Actions, "up")
	}
	return sc
}

func runC19(env *Env) error {
	env.Header = "From Coq Require Import List Bool Arith.\nImport ListNotations.\nFrom Lime Require Import Base.Res Life.Client Corr.C19.\n"
	env.ShardSize = 60
	env.Rule = "real Client (background listener, automatic reconnection) against a scripted server, each scenario in its own process: every fault kind the transport allows (server finish/fail, EOF, reset, undecodable and non-envelope JSON, oversized envelope, regressing session envelope) followed by push / send / CPU watch, repeated faults, faults and sends while the server is unreachable (refusing connections, or answering every new session with finished), over in-memory TCP, loopback TCP, WebSocket and in-process. Non-trivial: at least one fault followed by an observation. Distinct by printed scenario."
	var rc c19Case
	if ok, err := env.ReplayDesc(&rc); err != nil {
		return err
	} else if ok {
		c := runC19Scn(rc.Scn)
		env.Add(c.coq(), c)
		return nil
	}
	var scns []c19Scn
	kinds := []string{"mem", "tcp", "ws", "inproc"}
	// every fault, alone, followed by the three observations
	for _, k := range kinds {
		for _, f := range c19Faults[k] {
			scns = append(scns, c19Scn{Kind: k, Actions: []string{"push", "fault:" + f, "push", "watch", "send", "push"}})
		}
	}
	// the refutation witness of the tree as found and its neighbours
	scns = append(scns,
		c19Scn{Kind: "mem", Actions: []string{"fault:garbage", "watch", "push", "send", "fault:garbage", "watch", "push"}},
		c19Scn{Kind: "tcp", Actions: []string{"send", "fault:oversize", "send", "push", "watch"}},
		c19Scn{Kind: "mem", Actions: []string{"down", "fault:eof", "send", "push", "up", "push", "send"}},
		c19Scn{Kind: "tcp", Actions: []string{"down", "fault:reset", "up", "watch", "push"}},
		c19Scn{Kind: "inproc", Actions: []string{"fault:finish", "fault:fail", "fault:eof", "push", "send"}},
		c19Scn{Kind: "ws", Actions: []string{"fault:regress", "push", "fault:eof", "send", "watch"}},
		// the application, not the listener (busy in a slow handler), is the one that finds the session gone
		// and holds the build lock while the server is unreachable and its own deadline expires
		c19Scn{Kind: "mem", Actions: []string{"slowpush", "down", "fault:eof", "send", "up", "send", "push"}},
		c19Scn{Kind: "tcp", Actions: []string{"slowpush", "down", "fault:reset", "send", "send", "up", "push", "send"}},
		c19Scn{Kind: "inproc", Actions: []string{"slowpush", "down", "fault:finish", "send", "up", "push"}},
		// a server that is shutting down answers every new session with "finished": no session, no busy retrying
		c19Scn{Kind: "mem", Actions: []string{"drain", "fault:eof", "watch", "send", "up", "push", "send"}},
		c19Scn{Kind: "tcp", Actions: []string{"drain", "fault:finish", "watch", "push", "up", "watch", "push"}},
		c19Scn{Kind: "ws", Actions: []string{"push", "drain", "fault:eof", "send", "watch", "up", "send", "push"}},
		c19Scn{Kind: "inproc", Actions: []string{"drain", "fault:fail", "watch", "send", "up", "push"}},
		// inbound envelopes still unread in the transport when the server drops the connection: sends must fail
		c19Scn{Kind: "inproc", Actions: []string{"floodpush", "down", "fault:eof", "send", "send", "send", "send", "up", "send", "push"}},
		c19Scn{Kind: "inproc", Actions: []string{"floodpush", "down", "fault:finish", "send", "send", "send", "up", "push"}},
		// the receiver held up with its hands full and nothing unread in the transport when the server drops the
		// connection: the client must still notice, build a fresh session, and not spin
		// (the server is unreachable meanwhile, as in the scenarios above: the listener, busy in its slow handler, does
		// not reconnect on its own at the moment of the fault)
		c19Scn{Kind: "inproc", Actions: []string{"floodpush:5", "down", "fault:eof", "send", "send", "watch", "watch", "up", "push", "send"}},
		c19Scn{Kind: "inproc", Actions: []string{"floodpush:4", "down", "fault:eof", "send", "send", "watch", "watch", "up", "push", "send"}},
		c19Scn{Kind: "inproc", Actions: []string{"floodpush:6", "down", "fault:finish", "send", "send", "watch", "watch", "up", "push"}},
		// (not over real sockets: there the first write after the peer closed is accepted by the kernel, and a receiver
		// held up by full buffers has not read the end of the stream yet - nothing the library could know)
		c19Scn{Kind: "mem", Actions: []string{"floodpush", "down", "fault:eof", "send", "send", "up", "send"}})
	// a client without buffers whose session the server ends (or loses)
	for _, k := range kinds {
		scns = append(scns,
			c19Scn{Kind: k, Unbuffered: true, Actions: []string{"push", "fault:finish", "push", "send", "push"}},
			c19Scn{Kind: k, Unbuffered: true, Actions: []string{"fault:fail", "send", "push", "fault:eof", "push", "send"}})
	}
	nrand := env.Pick(24, 160)
	for i := 0; i < nrand; i++ {
		sc := genC19(env, kinds[i%len(kinds)], 5+env.Rng.Intn(env.Pick(6, 14)))
		sc.Unbuffered = i%5 == 4
		scns = append(scns, sc)
	}
	cases := make([]c19Case, len(scns))
	sem := make(chan struct{}, 6)
	var wg sync.WaitGroup
	for i := range scns {
		wg.Add(1)
		sem <- struct{}{}
		go func(i int) {
			defer wg.Done()
			defer func() { <-sem }()
			cases[i] = runC19Scn(scns[i])
		}(i)
	}
	wg.Wait()
	for i := range cases {
		c := &cases[i]
		env.Add(c.coq(), c)
		env.Count("transport=" + c.Scn.Kind)
		if c.Scn.Unbuffered {
			env.Count("client-buffer=0")
		}
		nf := 0
		for _, a := range c.Scn.Actions {
			if strings.HasPrefix(a, "fault:") {
				env.Count(a)
				nf++
			} else {
				env.Count("action=" + a)
			}
		}
		if nf > 0 {
			b, _ := json.Marshal(c.Scn)
			env.NonTrivial(string(b))
		}
	}
	return nil
}

func init() { register("C19", runC19) }
