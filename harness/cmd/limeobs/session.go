package main

import (
	"context"
	"crypto/ecdsa"
	"crypto/elliptic"
	"crypto/rand"
	"crypto/tls"
	"crypto/x509"
	"crypto/x509/pkix"
	"errors"
	"fmt"
	"math/big"
	"net"
	"os"
	"path/filepath"
	"strconv"
	"sync"
	"sync/atomic"
	"syscall"
	"time"

	lime "github.com/takenet/lime-go"
	"verifharness/memconn"
)

var serverNode = lime.Node{Identity: lime.Identity{Name: "postmaster", Domain: "verif.test"}, Instance: "srv"}

var inprocSeq int64
var inprocMu sync.Mutex // the library's in-process listener registry is an unprotected map

func nextInprocAddr() lime.InProcessAddr {
	return lime.InProcessAddr(fmt.Sprintf("verif-%d", atomic.AddInt64(&inprocSeq, 1)))
}

// Pair is an established client/server channel pair over some transport.
type Pair struct {
	Kind    string
	Client  *lime.ClientChannel
	Server  *lime.ServerChannel
	CT, ST  lime.Transport
	MemC    *memconn.Conn // client end (mem transports)
	MemS    *memconn.Conn // server end
	SID     string
	cleanup []func()
}

func (p *Pair) Close() {
	// closing the in-memory connection first makes blocked reads return at once
	// (otherwise stopping a TCP receiver waits for its 5 s deadline poll)
	if p.MemC != nil {
		_ = p.MemC.Close()
	}
	if p.MemS != nil {
		_ = p.MemS.Close()
	}
	// closing the transports first makes blocked reads on real sockets return at once too
	if p.ST != nil {
		_ = p.ST.Close()
	}
	if p.CT != nil {
		_ = p.CT.Close()
	}
	if p.Client != nil {
		_ = p.Client.Close()
	}
	if p.Server != nil {
		_ = p.Server.Close()
	}
	for i := len(p.cleanup) - 1; i >= 0; i-- {
		p.cleanup[i]()
	}
}

var tlsOnce sync.Once
var tlsServerCfg, tlsClientCfg *tls.Config

// testTLS returns a self-signed server configuration and a client
// configuration trusting it (generated once per process).
func testTLS() (*tls.Config, *tls.Config) {
	tlsOnce.Do(func() {
		key, err := ecdsa.GenerateKey(elliptic.P256(), rand.Reader)
		if err != nil {
			panic(err)
		}
		tmpl := &x509.Certificate{
			SerialNumber:          big.NewInt(1),
			Subject:               pkix.Name{CommonName: "localhost"},
			NotBefore:             time.Now().Add(-time.Hour),
			NotAfter:              time.Now().Add(24 * time.Hour),
			KeyUsage:              x509.KeyUsageDigitalSignature | x509.KeyUsageCertSign,
			ExtKeyUsage:           []x509.ExtKeyUsage{x509.ExtKeyUsageServerAuth},
			BasicConstraintsValid: true,
			IsCA:                  true,
			DNSNames:              []string{"localhost"},
			IPAddresses:           []net.IP{net.IPv4(127, 0, 0, 1)},
		}
		der, err := x509.CreateCertificate(rand.Reader, tmpl, tmpl, &key.PublicKey, key)
		if err != nil {
			panic(err)
		}
		cert := tls.Certificate{Certificate: [][]byte{der}, PrivateKey: key}
		pool := x509.NewCertPool()
		c, _ := x509.ParseCertificate(der)
		pool.AddCert(c)
		tlsServerCfg = &tls.Config{Certificates: []tls.Certificate{cert}}
		tlsClientCfg = &tls.Config{RootCAs: pool, ServerName: "localhost"}
	})
	return tlsServerCfg, tlsClientCfg
}

// TransportPair returns connected client and server transports of the given kind:
//
//	inproc  – the in-process transport
//	mem     – the real TCP transport over an in-memory connection (hook H1)
//	memtls  – same, with TLS configurations available for negotiation
//	tcp     – the real TCP transport over a loopback socket
//	tcptls  – same with TLS configurations
//	ws, wss – WebSocket over loopback
func TransportPair(kind string, bufSize int) (ct, st lime.Transport, p *Pair, err error) {
	p = &Pair{Kind: kind}
	ctx, cancel := context.WithTimeout(context.Background(), 10*time.Second)
	defer cancel()
	switch kind {
	case "inproc":
		inprocMu.Lock()
		defer inprocMu.Unlock()
		addr := nextInprocAddr()
		l := lime.NewInProcessTransportListener(addr)
		if err = l.Listen(ctx, addr); err != nil {
			return
		}
		p.cleanup = append(p.cleanup, func() { inprocMu.Lock(); _ = l.Close(); inprocMu.Unlock() })
		if ct, err = lime.DialInProcess(addr, bufSize); err != nil {
			return
		}
		st, err = l.Accept(ctx)
	case "mem", "memtls", "memb":
		capacity := 0
		if kind == "memb" {
			capacity = 8192 // a connection with small buffers: a peer that stops reading blocks the writer soon
		}
		c, s := memconn.Pipe(capacity)
		p.MemC, p.MemS = c, s
		var ccfg, scfg *lime.TCPConfig
		if kind == "memtls" {
			sc, cc := testTLS()
			ccfg = &lime.TCPConfig{TLSConfig: cc}
			scfg = &lime.TCPConfig{TLSConfig: sc}
		}
		ct = lime.NewTCPTransportOverConn(c, false, ccfg)
		st = lime.NewTCPTransportOverConn(s, true, scfg)
	case "tcp", "tcptls":
		var ccfg, scfg *lime.TCPConfig
		if kind == "tcptls" {
			sc, cc := testTLS()
			ccfg = &lime.TCPConfig{TLSConfig: cc}
			scfg = &lime.TCPConfig{TLSConfig: sc}
		}
		l := lime.NewTCPTransportListener(scfg)
		addr, e := freeTCPAddr()
		if e != nil {
			err = e
			return
		}
		if err = l.Listen(ctx, addr); err != nil {
			return
		}
		p.cleanup = append(p.cleanup, func() { _ = l.Close() })
		if ct, err = lime.DialTcp(ctx, addr, ccfg); err != nil {
			return
		}
		st, err = l.Accept(ctx)
	case "ws", "wss":
		var cfg *lime.WebsocketConfig
		var ccfg *tls.Config
		scheme := "ws"
		if kind == "wss" {
			sc, cc := testTLS()
			cfg = &lime.WebsocketConfig{TLSConfig: sc}
			ccfg = cc
			scheme = "wss"
		}
		l := lime.NewWebsocketTransportListener(cfg)
		addr, e := freeTCPAddr()
		if e != nil {
			err = e
			return
		}
		if err = l.Listen(ctx, addr); err != nil {
			return
		}
		p.cleanup = append(p.cleanup, func() { _ = l.Close() })
		url := fmt.Sprintf("%s://localhost:%d", scheme, addr.Port)
		for i := 0; i < 50; i++ {
			ct, err = lime.DialWebsocket(ctx, url, nil, ccfg)
			if err == nil {
				break
			}
			time.Sleep(10 * time.Millisecond)
		}
		if err != nil {
			return
		}
		st, err = l.Accept(ctx)
	default:
		err = fmt.Errorf("unknown transport kind %q", kind)
	}
	p.CT, p.ST = ct, st
	return
}

var portSeq uint32

// freeTCPAddr returns a loopback address nobody listens on.  Ports come from a slice of the range below the kernel's
// ephemeral ports that this process holds exclusively: the slice is claimed by an advisory lock on a file, held until
// the process ends, so that no other harness process - several checks may run at the same time, each with child
// processes - ever listens on a port this process has just stopped listening on (a client that is still dialling
// would find itself talking to a server of another scenario), and no outgoing connection of any process takes the
// port between this probe and the caller's own Listen.
func freeTCPAddr() (*net.TCPAddr, error) {
	portSlotOnce.Do(claimPortSlot)
	for i := 0; i < 100; i++ {
		n := atomic.AddUint32(&portSeq, 1)
		port := 10000 + portSlot*100 + int(n%100)
		l, err := net.Listen("tcp", fmt.Sprintf("127.0.0.1:%d", port))
		if err != nil {
			continue
		}
		a := l.Addr().(*net.TCPAddr)
		_ = l.Close()
		return a, nil
	}
	l, err := net.Listen("tcp", "127.0.0.1:0")
	if err != nil {
		return nil, err
	}
	a := l.Addr().(*net.TCPAddr)
	_ = l.Close()
	return a, nil
}

var (
	portSlotOnce sync.Once
	portSlot     int
	portSlotFile *os.File // kept open: the lock lives as long as the process
)

const portSlots = 220

func claimPortSlot() {
	dir := filepath.Join(os.TempDir(), "verif-limeobs-ports")
	_ = os.MkdirAll(dir, 0o777)
	start := os.Getpid() % portSlots
	for i := 0; i < portSlots; i++ {
		k := (start + i) % portSlots
		f, err := os.OpenFile(filepath.Join(dir, fmt.Sprintf("slot-%03d.lock", k)), os.O_CREATE|os.O_RDWR, 0o666)
		if err != nil {
			continue
		}
		if syscall.Flock(int(f.Fd()), syscall.LOCK_EX|syscall.LOCK_NB) == nil {
			portSlot, portSlotFile = k, f
			return
		}
		_ = f.Close()
	}
	portSlot = start // every slice is taken (or the directory is not writable): fall back to the process id
}

var sidSeq int64

func nextSID() string { return fmt.Sprintf("sid-%d", atomic.AddInt64(&sidSeq, 1)) }

func allowAll(ctx context.Context, id lime.Identity, a lime.Authentication) (*lime.AuthenticationResult, error) {
	return lime.MemberAuthenticationResult(), nil
}

func registerAs(n lime.Node) func(context.Context, lime.Node, *lime.ServerChannel) (lime.Node, error) {
	return func(context.Context, lime.Node, *lime.ServerChannel) (lime.Node, error) { return n, nil }
}

// EstablishedPair builds transports of the given kind and runs the real
// handshake on both ends (guest authentication, no negotiation).
func EstablishedPair(kind string, bufSize int) (*Pair, error) {
	ct, st, p, err := TransportPair(kind, bufSize)
	if err != nil {
		p.Close()
		return nil, err
	}
	p.SID = nextSID()
	p.Client = lime.NewClientChannel(ct, bufSize)
	p.Server = lime.NewServerChannel(st, bufSize, serverNode, p.SID)
	ctx, cancel := context.WithTimeout(context.Background(), 10*time.Second)
	defer cancel()
	errc := make(chan error, 1)
	clientNode := lime.Node{Identity: lime.Identity{Name: "cli", Domain: "verif.test"}, Instance: "i1"}
	encOpts := []lime.SessionEncryption{lime.SessionEncryptionNone}
	encSel := lime.NoneEncryptionSelector
	if kind == "memtls" || kind == "tcptls" {
		// negotiate the in-place TLS upgrade
		encOpts = []lime.SessionEncryption{lime.SessionEncryptionNone, lime.SessionEncryptionTLS}
		encSel = lime.TLSEncryptionSelector
	}
	go func() {
		errc <- p.Server.EstablishSession(ctx,
			[]lime.SessionCompression{lime.SessionCompressionNone},
			encOpts,
			[]lime.AuthenticationScheme{lime.AuthenticationSchemeGuest},
			allowAll, registerAs(clientNode))
	}()
	ses, err := p.Client.EstablishSession(ctx, lime.NoneCompressionSelector, encSel,
		clientNode.Identity, lime.GuestAuthenticator, clientNode.Instance)
	if err != nil {
		p.Close()
		return nil, fmt.Errorf("client establish: %w", err)
	}
	if err := <-errc; err != nil {
		p.Close()
		return nil, fmt.Errorf("server establish: %w", err)
	}
	if ses.State != lime.SessionStateEstablished || !p.Server.Established() {
		p.Close()
		return nil, errors.New("pair not established")
	}
	return p, nil
}

// slack scales every bounded wait of the harness (VERIF_SLACK, default 1). The driver re-runs a
// case that disagreed with a large slack before it believes the disagreement, so that a machine
// under load cannot turn a late observation into an alarm.
var slack = func() time.Duration {
	if v, err := strconv.Atoi(os.Getenv("VERIF_SLACK")); err == nil && v >= 1 && v <= 100 {
		return time.Duration(v)
	}
	return 1
}()

// waitUntil polls cond every 50µs up to d (times slack); reports whether cond became true.
func waitUntil(d time.Duration, cond func() bool) bool {
	deadline := time.Now().Add(d * slack)
	for {
		if cond() {
			return true
		}
		if time.Now().After(deadline) {
			return false
		}
		time.Sleep(50 * time.Microsecond)
	}
}

// notServingText is what Close says on a Server that is not serving (asked of a Server that never served, so that
// the harness does not depend on the wording).
var notServingText = func() string {
	a := lime.InProcessAddr("verif-never-served")
	err := lime.NewServer(lime.NewServerConfig(), &lime.EnvelopeMux{}, lime.NewBoundListener(lime.NewInProcessTransportListener(a), a)).Close()
	if err == nil {
		return "\x00no error"
	}
	return err.Error()
}()

// notServingYet: Close was called before ListenAndServe got as far as serving.
func notServingYet(err error) bool { return err != nil && err.Error() == notServingText }
