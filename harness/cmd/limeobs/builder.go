package main

// Real ServerBuilders driven by call sequences (Model J, coq/Hs/Builder.v; shared by C03 and C10):
// KWorld - several builders side by side, every builder's configuration read back after every call, and the
// Authenticate function of every built Server probed with every kind of authentication object;
// KBuilt - a Server built by a builder serving scripted peers.

import (
	"context"
	"encoding/base64"
	"errors"
	"fmt"
	"strings"
	"sync"

	lime "github.com/takenet/lime-go"
	"verifharness/coqfmt"
)

type BOp struct {
	Op   string   `json:"op"` // comp enc guest transport plain key ext build
	List []string `json:"list,omitempty"`
	Fn   int      `json:"fn,omitempty"`
}

func (o BOp) Coq() string {
	switch o.Op {
	case "comp":
		return coqfmt.App("BComp", coqfmt.Strs(o.List))
	case "enc":
		return coqfmt.App("BEnc", coqfmt.Strs(o.List))
	case "guest":
		return "BGuest"
	case "transport":
		return "BTransport"
	case "plain":
		return coqfmt.App("BPlain", coqfmt.Nat(o.Fn))
	case "key":
		return coqfmt.App("BKey", coqfmt.Nat(o.Fn))
	case "ext":
		return coqfmt.App("BExt", coqfmt.Nat(o.Fn))
	}
	return "BBuild"
}

type WOp struct {
	New bool `json:"new,omitempty"`
	B   int  `json:"b"`
	Op  *BOp `json:"op,omitempty"`
}

func (o WOp) Coq() string {
	if o.New {
		return "WNew"
	}
	return coqfmt.App("WOp", coqfmt.Nat(o.B), o.Op.Coq())
}

// userFn is the one authenticator function the harness installs (Corr/Builder.v: userfn).
// results: 0 role, 1 round trip with data d, 2 error, 3 unknown
func userFn(kind, f, ident, secret, round int) (int, int) {
	switch {
	case secret == ident:
		return 0, 0
	case secret == ident+1:
		if round == 0 {
			return 1, 10*f + kind
		}
		return 0, 0
	case secret == ident+2:
		return 2, 0
	}
	return 3, 0
}

func userResult(kind, f, ident, secret, round int) (*lime.AuthenticationResult, error) {
	switch r, d := userFn(kind, f, ident, secret, round); r {
	case 0:
		return lime.MemberAuthenticationResult(), nil
	case 1:
		return &lime.AuthenticationResult{Role: lime.DomainRoleUnknown, RoundTrip: &lime.PlainAuthentication{Password: fmt.Sprintf("rt%d", d)}}, nil
	case 2:
		return nil, errors.New("scripted authenticator error")
	}
	return lime.UnknownAuthenticationResult(), nil
}

// callLog records which installed function was called with what; round() tells the functions the round.
type callLog struct {
	mu    sync.Mutex
	calls [][3]int // scheme (1 plain 2 key 3 external), function, secret
	round func() int
}

func secretToken(s string) int {
	var n int
	if _, err := fmt.Sscanf(s, "c%d", &n); err == nil {
		return n
	}
	return 9999
}

func (l *callLog) add(kind, f, secret int) {
	l.mu.Lock()
	l.calls = append(l.calls, [3]int{kind, f, secret})
	l.mu.Unlock()
}
func (l *callLog) rnd() int {
	if l.round == nil {
		return 0
	}
	return l.round()
}

var builderSeq int

// applyBOp makes the call on the real builder; a panic (empty option list) is recovered.
func applyBOp(b *lime.ServerBuilder, o *BOp, log *callLog) (srv *lime.Server) {
	defer func() { _ = recover() }()
	switch o.Op {
	case "comp":
		l := make([]lime.SessionCompression, len(o.List))
		for i, x := range o.List {
			l[i] = lime.SessionCompression(x)
		}
		b.CompressionOptions(l...)
	case "enc":
		l := make([]lime.SessionEncryption, len(o.List))
		for i, x := range o.List {
			l[i] = lime.SessionEncryption(x)
		}
		b.EncryptionOptions(l...)
	case "guest":
		b.EnableGuestAuthentication()
	case "transport":
		b.EnableTransportAuthentication()
	case "plain":
		f := o.Fn
		b.EnablePlainAuthentication(func(ctx context.Context, id lime.Identity, pw string) (*lime.AuthenticationResult, error) {
			s := secretToken(pw)
			log.add(1, f, s)
			return userResult(1, f, tokenOfName(id.Name), s, log.rnd())
		})
	case "key":
		f := o.Fn
		b.EnableKeyAuthentication(func(ctx context.Context, id lime.Identity, key string) (*lime.AuthenticationResult, error) {
			s := secretToken(key)
			log.add(2, f, s)
			return userResult(2, f, tokenOfName(id.Name), s, log.rnd())
		})
	case "ext":
		f := o.Fn
		b.EnableExternalAuthentication(func(ctx context.Context, id lime.Identity, token, issuer string) (*lime.AuthenticationResult, error) {
			s := secretToken(token)
			log.add(3, f, s)
			return userResult(3, f, tokenOfName(id.Name), s, log.rnd())
		})
	case "build":
		return b.Build()
	}
	return nil
}

func newRealBuilder() *lime.ServerBuilder {
	builderSeq++
	return lime.NewServerBuilder().ListenInProcess(lime.InProcessAddr(fmt.Sprintf("builder-%d", builderSeq)))
}

type BTriple struct {
	Comp    []string `json:"comp"`
	Enc     []string `json:"enc"`
	Schemes []string `json:"schemes"`
}

func tripleOf(c *lime.ServerConfig) BTriple {
	t := BTriple{Comp: []string{}, Enc: []string{}, Schemes: []string{}}
	for _, x := range c.CompOpts {
		t.Comp = append(t.Comp, string(x))
	}
	for _, x := range c.EncryptOpts {
		t.Enc = append(t.Enc, string(x))
	}
	for _, x := range c.SchemeOpts {
		t.Schemes = append(t.Schemes, string(x))
	}
	return t
}
func (t BTriple) Coq() string {
	return "(" + coqfmt.Strs(t.Comp) + ", " + coqfmt.Strs(t.Enc) + ", " + coqfmt.Strs(t.Schemes) + ")"
}

type AObj struct {
	Kind   string `json:"kind"` // nil guest transport plain key external
	Secret int    `json:"secret,omitempty"`
}

func (a AObj) Coq() string {
	sec := coqfmt.Some(coqfmt.Nat(a.Secret))
	if a.Secret >= 1000 {
		sec = coqfmt.None
	}
	switch a.Kind {
	case "guest":
		return "AGuest"
	case "transport":
		return "ATransport"
	case "plain":
		return coqfmt.App("APlain", sec)
	case "key":
		return coqfmt.App("AKey", sec)
	case "external":
		return coqfmt.App("AExternal", coqfmt.Nat(a.Secret), "0")
	}
	return "ANil"
}
func (a AObj) real() lime.Authentication {
	enc := func() string {
		if a.Secret >= 1000 {
			return fmt.Sprintf("%%%%%%%d", a.Secret)
		}
		return base64.StdEncoding.EncodeToString([]byte(fmt.Sprintf("c%d", a.Secret)))
	}
	switch a.Kind {
	case "guest":
		return &lime.GuestAuthentication{}
	case "transport":
		return &lime.TransportAuthentication{}
	case "plain":
		return &lime.PlainAuthentication{Password: enc()}
	case "key":
		return &lime.KeyAuthentication{Key: enc()}
	case "external":
		return &lime.ExternalAuthentication{Token: fmt.Sprintf("c%d", a.Secret), Issuer: "iss"}
	}
	return nil
}

type BProbe struct {
	Builder int     `json:"builder"`
	Server  int     `json:"server"` // which of that builder's Servers was asked (they share one configuration)
	Ident   int     `json:"ident"`
	Obj     AObj    `json:"obj"`
	Res     string  `json:"res"` // role unknown round:<d> err
	Called  *[3]int `json:"called,omitempty"`
}

func aresCoq(res string) string {
	switch {
	case res == "role":
		return "ARole"
	case res == "err":
		return "AErr"
	case strings.HasPrefix(res, "round:"):
		return "(ARound " + res[6:] + ")"
	}
	return "AUnknown"
}

func (p BProbe) Coq() string {
	called := coqfmt.None
	if p.Called != nil {
		called = coqfmt.Some(fmt.Sprintf("(%d, %d, %d)", p.Called[0], p.Called[1], p.Called[2]))
	}
	return coqfmt.Record("p_builder", coqfmt.Nat(p.Builder), "p_ident", coqfmt.Nat(p.Ident), "p_obj", p.Obj.Coq(),
		"p_res", aresCoq(p.Res), "p_called", called)
}

func classifyAuth(r *lime.AuthenticationResult, err error) string {
	switch {
	case err != nil:
		return "err"
	case r == nil:
		return "unknown"
	case r.Role != lime.DomainRoleUnknown && r.Role != "":
		return "role"
	case r.RoundTrip != nil:
		if p, ok := r.RoundTrip.(*lime.PlainAuthentication); ok {
			return "round:" + strings.TrimPrefix(p.Password, "rt")
		}
		return "round:9999"
	}
	return "unknown"
}

type worldCase struct {
	Kind   string      `json:"builder_case"` // "world"
	Ops    []WOp       `json:"ops"`
	Snaps  [][]BTriple `json:"snaps"`
	Probes []BProbe    `json:"probes"`
}

func (c *worldCase) coq() string {
	ops := make([]string, len(c.Ops))
	for i, o := range c.Ops {
		ops[i] = o.Coq()
	}
	snaps := make([]string, len(c.Snaps))
	for i, s := range c.Snaps {
		ts := make([]string, len(s))
		for j, t := range s {
			ts[j] = t.Coq()
		}
		snaps[i] = coqfmt.List(ts)
	}
	probes := make([]string, len(c.Probes))
	for i, p := range c.Probes {
		probes[i] = p.Coq()
	}
	return "(KB " + coqfmt.App("KWorld", coqfmt.List(ops), coqfmt.List(snaps), coqfmt.List(probes)) + ")"
}

var probeObjs = func() []func(ident int) AObj {
	mk := func(kind string, d int) func(int) AObj {
		return func(i int) AObj { return AObj{Kind: kind, Secret: i + d} }
	}
	fix := func(kind string, s int) func(int) AObj { return func(int) AObj { return AObj{Kind: kind, Secret: s} } }
	return []func(int) AObj{fix("nil", 0), fix("guest", 0), fix("transport", 0),
		mk("plain", 0), mk("plain", 1), mk("plain", 2), mk("plain", 7), fix("plain", 1000),
		mk("key", 0), mk("key", 1), mk("key", 3), fix("key", 1001), mk("external", 0), mk("external", 2), mk("external", 5)}
}()

// runWorld performs the calls on real builders, reads every builder's configuration after every call, and then
// probes the Authenticate function of every Server that was built.
func runWorld(ops []WOp) *worldCase {
	c := &worldCase{Kind: "world", Ops: ops}
	var builders []*lime.ServerBuilder
	servers := map[int][]*lime.Server{}
	log := &callLog{}
	for _, o := range ops {
		if o.New {
			builders = append(builders, newRealBuilder())
		} else if o.B < len(builders) {
			if srv := applyBOp(builders[o.B], o.Op, log); srv != nil {
				servers[o.B] = append(servers[o.B], srv)
			}
		}
		snap := make([]BTriple, len(builders))
		for i, b := range builders {
			snap[i] = tripleOf(b.VerifConfig())
		}
		c.Snaps = append(c.Snaps, snap)
	}
	ctx := context.Background()
	for bi := 0; bi < len(builders); bi++ {
		srvs := servers[bi]
		for si, srv := range srvs {
			if si != 0 && si != len(srvs)-1 {
				continue
			}
			for _, ident := range []int{1, 60} {
				for _, mk := range probeObjs {
					obj := mk(ident)
					log.mu.Lock()
					log.calls = nil
					log.mu.Unlock()
					id := lime.ParseNode(clientNode(ident)).Identity
					res := classifyAuth(srv.VerifConfig().Authenticate(ctx, id, obj.real()))
					p := BProbe{Builder: bi, Server: si, Ident: ident, Obj: obj, Res: res}
					log.mu.Lock()
					if len(log.calls) > 0 {
						cl := log.calls[0]
						p.Called = &cl
					}
					log.mu.Unlock()
					c.Probes = append(c.Probes, p)
				}
			}
		}
	}
	return c
}

var builderOpPool = []BOp{
	{Op: "comp", List: []string{"none"}}, {Op: "comp", List: []string{"gzip", "none"}}, {Op: "comp", List: []string{}},
	{Op: "enc", List: []string{"tls"}}, {Op: "enc", List: []string{"none"}}, {Op: "enc", List: []string{"tls", "none"}}, {Op: "enc", List: []string{}},
	{Op: "guest"}, {Op: "transport"}, {Op: "plain", Fn: 1}, {Op: "plain", Fn: 2}, {Op: "key", Fn: 3}, {Op: "key", Fn: 4},
	{Op: "ext", Fn: 5}, {Op: "ext", Fn: 6}, {Op: "build"}, {Op: "build"}, {Op: "guest"}, {Op: "enc", List: []string{"tls"}},
}

// genWorld draws a call sequence over up to three builders; every builder gets at least one Build.
func genWorld(env *Env) []WOp {
	nb := 1 + env.Rng.Intn(3)
	n := 4 + env.Rng.Intn(12)
	var ops []WOp
	created := 0
	for len(ops) < n {
		if created < nb && (created == 0 || env.Rng.Intn(4) == 0) {
			ops = append(ops, WOp{New: true})
			created++
			continue
		}
		o := builderOpPool[env.Rng.Intn(len(builderOpPool))]
		ops = append(ops, WOp{B: env.Rng.Intn(created), Op: &o})
	}
	for b := 0; b < created; b++ {
		if env.Rng.Intn(3) > 0 {
			ops = append(ops, WOp{B: b, Op: &BOp{Op: "build"}})
		}
	}
	// sometimes a call after the last Build: the Server shares the configuration with its builder
	if env.Rng.Intn(2) == 0 {
		o := builderOpPool[env.Rng.Intn(len(builderOpPool))]
		ops = append(ops, WOp{B: env.Rng.Intn(created), Op: &o})
	}
	return ops
}

// ---------------------------------------------------------------- Servers built by a builder, serving scripts

type builtCase struct {
	Kind   string `json:"builder_case"` // "built"
	Name   string `json:"name"`
	Ops    []BOp  `json:"ops"`
	Conn   string `json:"conn"` // mem | memtls
	TLSOk  bool   `json:"tls_ok"`
	Script []CIn  `json:"script"`
	Obs    *SObs  `json:"obs"`
}

func (c *builtCase) coq() string {
	ops := make([]string, len(c.Ops))
	for i, o := range c.Ops {
		ops[i] = o.Coq()
	}
	script := make([]string, len(c.Script))
	for i, x := range c.Script {
		script[i] = x.Coq()
	}
	kind := "(TTcp false)"
	if c.Conn == "memtls" {
		kind = "(TTcp true)"
	}
	return "(KB " + coqfmt.App("KBuilt", coqfmt.List(ops), kind, coqfmt.Bool(c.TLSOk), coqfmt.List(script), c.Obs.Coq()) + ")"
}

type builtSpec struct {
	name string
	ops  []BOp
	conn string
}

var builtSpecs = []builtSpec{
	{"plain", []BOp{{Op: "plain", Fn: 1}, {Op: "build"}}, "memtls"},
	{"guest", []BOp{{Op: "guest"}, {Op: "build"}}, "mem"},
	{"all-schemes", []BOp{{Op: "guest"}, {Op: "plain", Fn: 2}, {Op: "key", Fn: 3}, {Op: "ext", Fn: 4}, {Op: "build"}}, "memtls"},
	{"tls-only-plain", []BOp{{Op: "enc", List: []string{"tls"}}, {Op: "plain", Fn: 1}, {Op: "build"}}, "memtls"},
	{"tls-only-guest-gzip", []BOp{{Op: "enc", List: []string{"tls"}}, {Op: "comp", List: []string{"gzip"}}, {Op: "guest"}, {Op: "build"}}, "memtls"},
	{"plain-replaced-after-build", []BOp{{Op: "plain", Fn: 1}, {Op: "build"}, {Op: "plain", Fn: 5}, {Op: "key", Fn: 6}}, "mem"},
	{"built-twice", []BOp{{Op: "plain", Fn: 1}, {Op: "build"}, {Op: "key", Fn: 2}, {Op: "build"}}, "mem"},
	{"defaults-only", []BOp{{Op: "build"}}, "memtls"},
	{"none-only-guest-twice", []BOp{{Op: "enc", List: []string{"none"}}, {Op: "guest"}, {Op: "transport"}, {Op: "guest"}, {Op: "build"}}, "mem"},
	{"tls-first-all", []BOp{{Op: "enc", List: []string{"tls", "none"}}, {Op: "guest"}, {Op: "plain", Fn: 7}, {Op: "build"}}, "memtls"},
	// no negotiation stage: round trips and a peer that changes its identity between the rounds fit the quick depth
	{"none-only-plain-key", []BOp{{Op: "enc", List: []string{"none"}}, {Op: "plain", Fn: 1}, {Op: "key", Fn: 2}, {Op: "build"}}, "mem"},
}

func authIn(scheme string, from, secret int, withCred bool) CIn {
	var cred *int
	if withCred {
		cred = ip(secret)
	}
	return CIn{Kind: "ses", Ses: &CSes{ID: "SID", State: "authenticating", Scheme: scheme, Cred: cred, From: from}}
}

// the scripted peer's alphabet against built Servers: selections and every kind of credentials
var builtAlphabet = []CIn{
	ses("", "new", "", "", "", nil),
	ses("SID", "negotiating", "tls", "none", "", nil),
	ses("SID", "negotiating", "none", "none", "", nil),
	authIn("guest", 1, 0, true), authIn("guest", 60, 0, true),
	authIn("transport", 1, 0, true), authIn("transport", 60, 0, true),
	authIn("plain", 1, 1, true), authIn("plain", 1, 2, true), authIn("plain", 1, 3, true), authIn("plain", 1, 8, true),
	authIn("plain", 1, 1000, true), authIn("plain", 1, 0, false), authIn("plain", 60, 60, true),
	authIn("key", 1, 1, true), authIn("key", 1, 2, true), authIn("key", 1, 1001, true), authIn("key", 1, 0, false),
	authIn("external", 1, 1, true), authIn("external", 1, 3, true), authIn("external", 1, 0, false),
	authIn("guest", 60, 0, false),
	{Kind: "data"},
}

// newBuiltServer performs the calls on a real builder, builds, and serves with the configuration the builder
// holds at the end (the Server shares it with the builder).
func newBuiltServer(spec builtSpec, tlsOK bool) *scriptServer {
	b := newRealBuilder()
	log := &callLog{}
	var srv *lime.Server
	for i := range spec.ops {
		if s := applyBOp(b, &spec.ops[i], log); s != nil && srv == nil {
			srv = s
		}
	}
	var cfg *lime.ServerConfig
	if srv != nil {
		cfg = srv.VerifConfig()
	} else {
		cfg = b.VerifConfig()
	}
	conf := &SConf{Name: "built:" + spec.name, Kind: spec.conn, TLSOk: tlsOK}
	t := tripleOf(cfg)
	conf.Comp, conf.Enc, conf.Schemes = t.Comp, t.Enc, t.Schemes
	s := newScriptServerWith(conf, &SOracle{Name: "builder"}, cfg)
	log.round = func() int {
		s.mu.Lock()
		defer s.mu.Unlock()
		return s.round["cur"]
	}
	return s
}

// enumerateBuilt runs every script up to the depth bound against Servers built by builders.
func enumerateBuilt(env *Env, specs []builtSpec, depth int, each func(c *builtCase)) {
	for _, spec := range specs {
		for _, tlsOK := range []bool{true, false} {
			if !tlsOK && spec.conn != "memtls" {
				continue
			}
			srv := newBuiltServer(spec, tlsOK)
			level := [][]CIn{{}}
			for d := 1; d <= depth && len(level) > 0; d++ {
				var next [][]CIn
				for _, prefix := range level {
					for _, a := range builtAlphabet {
						if len(prefix) == 0 && a.Kind == "ses" && a.Ses.ID == "SID" {
							continue
						}
						if len(prefix) > 0 && a.Kind == "ses" && a.Ses.State == "new" {
							continue
						}
						script := append(append([]CIn(nil), prefix...), a)
						obs := srv.run(script)
						each(&builtCase{Kind: "built", Name: spec.name, Ops: spec.ops, Conn: spec.conn, TLSOk: tlsOK, Script: script, Obs: obs})
						env.Count(fmt.Sprintf("built:depth=%d", d))
						if !obs.Closed && !obs.Ended {
							next = append(next, script)
						}
					}
				}
				level = next
			}
			env.Count("built:" + spec.name)
			srv.Close()
		}
	}
}

// runBuilderCases adds the builder cases of a property (C03, C10) or replays one.
func runBuilderCases(env *Env, replayOnly bool) (handled bool) {
	var probe struct {
		Kind string `json:"builder_case"`
	}
	if ok, _ := env.ReplayDesc(&probe); ok {
		switch probe.Kind {
		case "world":
			var w worldCase
			_, _ = env.ReplayDesc(&w)
			c := runWorld(w.Ops)
			env.Add(c.coq(), c)
			return true
		case "built":
			var bc builtCase
			_, _ = env.ReplayDesc(&bc)
			for _, spec := range builtSpecs {
				if spec.name == bc.Name {
					srv := newBuiltServer(spec, bc.TLSOk)
					obs := srv.run(bc.Script)
					srv.Close()
					c := &builtCase{Kind: "built", Name: spec.name, Ops: spec.ops, Conn: spec.conn, TLSOk: bc.TLSOk, Script: bc.Script, Obs: obs}
					env.Add(c.coq(), c)
				}
			}
			return true
		}
		return false
	}
	if replayOnly {
		return false
	}
	for i := 0; i < env.Pick(60, 600); i++ {
		c := runWorld(genWorld(env))
		env.Add(c.coq(), c)
		env.Count("builder-world")
		env.Count(fmt.Sprintf("builder-world:probes=%d", len(c.Probes)/30*30))
		if len(c.Probes) > 0 {
			env.NonTrivial(c.coq())
		}
	}
	enumerateBuilt(env, builtSpecs, env.Pick(3, 4), func(c *builtCase) {
		env.Add(c.coq(), c)
		for _, x := range c.Obs.Calls {
			if x.Kind == "auth" {
				env.NonTrivial(c.coq())
				break
			}
		}
	})
	return false
}
