package main

// Shared by C01, C02, C11: an abstract mirror of the Coq codec types, the
// conversions to and from the real lime-go values, the Go -> Gallina printers
// and an order-preserving JSON tree.

import (
	"bytes"
	"encoding/json"
	"errors"
	"fmt"
	"io"
	"sort"
	"strings"

	lime "github.com/takenet/lime-go"
	"verifharness/coqfmt"
)

// ---------- JSON trees ----------

type J struct {
	K string `json:"k"` // null bool int float str arr obj
	B bool   `json:"b,omitempty"`
	N string `json:"n,omitempty"` // number literal (int or float)
	S string `json:"s,omitempty"`
	A []J    `json:"a,omitempty"`
	O []JKV  `json:"o,omitempty"`
}
type JKV struct {
	K string `json:"k"`
	V J      `json:"v"`
}

func JNull() J             { return J{K: "null"} }
func JStr(s string) J      { return J{K: "str", S: s} }
func JInt(n int64) J       { return J{K: "int", N: fmt.Sprint(n)} }
func JObj(kv ...JKV) J     { return J{K: "obj", O: kv} }
func JArr(items ...J) J    { return J{K: "arr", A: items} }
func KV(k string, v J) JKV { return JKV{k, v} }

func parseJ(b []byte) (J, error) {
	dec := json.NewDecoder(bytes.NewReader(b))
	dec.UseNumber()
	j, err := parseJValue(dec)
	if err != nil {
		return J{}, err
	}
	if _, err := dec.Token(); err != io.EOF {
		return J{}, errors.New("trailing data")
	}
	return j, nil
}

func parseJValue(dec *json.Decoder) (J, error) {
	tok, err := dec.Token()
	if err != nil {
		return J{}, err
	}
	switch t := tok.(type) {
	case nil:
		return JNull(), nil
	case bool:
		return J{K: "bool", B: t}, nil
	case json.Number:
		s := string(t)
		if strings.ContainsAny(s, ".eE") {
			return J{K: "float", N: s}, nil
		}
		return J{K: "int", N: s}, nil
	case string:
		return JStr(t), nil
	case json.Delim:
		switch t {
		case '[':
			items := []J{}
			for dec.More() {
				v, err := parseJValue(dec)
				if err != nil {
					return J{}, err
				}
				items = append(items, v)
			}
			if _, err := dec.Token(); err != nil {
				return J{}, err
			}
			return J{K: "arr", A: items}, nil
		case '{':
			kvs := []JKV{}
			for dec.More() {
				kt, err := dec.Token()
				if err != nil {
					return J{}, err
				}
				k, ok := kt.(string)
				if !ok {
					return J{}, errors.New("non-string key")
				}
				v, err := parseJValue(dec)
				if err != nil {
					return J{}, err
				}
				kvs = append(kvs, JKV{k, v})
			}
			if _, err := dec.Token(); err != nil {
				return J{}, err
			}
			return J{K: "obj", O: kvs}, nil
		}
	}
	return J{}, fmt.Errorf("unexpected token %v", tok)
}

func (j J) write(b *bytes.Buffer) {
	switch j.K {
	case "null":
		b.WriteString("null")
	case "bool":
		if j.B {
			b.WriteString("true")
		} else {
			b.WriteString("false")
		}
	case "int", "float":
		b.WriteString(j.N)
	case "str":
		s, _ := json.Marshal(j.S)
		b.Write(s)
	case "arr":
		b.WriteByte('[')
		for i, x := range j.A {
			if i > 0 {
				b.WriteByte(',')
			}
			x.write(b)
		}
		b.WriteByte(']')
	case "obj":
		b.WriteByte('{')
		for i, kv := range j.O {
			if i > 0 {
				b.WriteByte(',')
			}
			s, _ := json.Marshal(kv.K)
			b.Write(s)
			b.WriteByte(':')
			kv.V.write(b)
		}
		b.WriteByte('}')
	}
}

func (j J) Bytes() []byte {
	var b bytes.Buffer
	j.write(&b)
	return b.Bytes()
}

func (j J) Coq() string {
	switch j.K {
	case "null":
		return "JNull"
	case "bool":
		return coqfmt.App("JBool", coqfmt.Bool(j.B))
	case "int":
		n := j.N
		if strings.HasPrefix(n, "-") {
			return "(JInt (" + n + ")%Z)"
		}
		return "(JInt " + n + "%Z)"
	case "float":
		return coqfmt.App("JFloat", coqfmt.Str(j.N))
	case "str":
		return coqfmt.App("JStr", coqfmt.Str(j.S))
	case "arr":
		items := make([]string, len(j.A))
		for i, x := range j.A {
			items[i] = x.Coq()
		}
		return coqfmt.App("JArr", coqfmt.List(items))
	case "obj":
		return coqfmt.App("JObj", j.coqMembers())
	}
	return "JNull"
}

func (j J) coqMembers() string {
	items := make([]string, len(j.O))
	for i, kv := range j.O {
		items[i] = coqfmt.Tuple(coqfmt.Str(kv.K), kv.V.Coq())
	}
	return coqfmt.List(items)
}

func (j J) depth() int {
	d := 0
	for _, x := range j.A {
		if x.depth() > d {
			d = x.depth()
		}
	}
	for _, kv := range j.O {
		if kv.V.depth() > d {
			d = kv.V.depth()
		}
	}
	if j.K == "arr" || j.K == "obj" {
		return d + 1
	}
	return 0
}

// hasNUL reports a NUL byte anywhere (not representable in a Coq string literal).
func (j J) hasNUL() bool {
	if strings.ContainsRune(j.S, 0) || strings.ContainsRune(j.N, 0) {
		return true
	}
	for _, x := range j.A {
		if x.hasNUL() {
			return true
		}
	}
	for _, kv := range j.O {
		if strings.ContainsRune(kv.K, 0) || kv.V.hasNUL() {
			return true
		}
	}
	return false
}

// canonical re-parses the Go-marshalled form of a generic value: sorted unique keys,
// Go's number formatting.
func canonicalJ(v interface{}) (J, error) {
	b, err := json.Marshal(v)
	if err != nil {
		return J{}, err
	}
	return parseJ(b)
}

// ---------- abstract values ----------

type ANode struct{ Name, Domain, Instance string }
type AMT struct{ Type, Subtype, Suffix string }
type AReason struct {
	Code int64
	Desc string
}
type ADoc struct {
	Kind  string  `json:"kind"` // text json container collection ping
	Text  string  `json:"text,omitempty"`
	JSON  *J      `json:"json,omitempty"` // object
	MT    AMT     `json:"mt"`
	Value *ADoc   `json:"value,omitempty"`
	Total int64   `json:"total,omitempty"`
	Items *[]ADoc `json:"items,omitempty"`
}
type AAuth struct {
	Scheme string
	A, B   string
}
type AEnv struct {
	Kind       string      `json:"kind"` // msg not req resp ses
	ID         string      `json:"id"`
	From       ANode       `json:"from"`
	PP         ANode       `json:"pp"`
	To         ANode       `json:"to"`
	Meta       [][2]string `json:"meta,omitempty"`
	Type       *AMT        `json:"type,omitempty"`
	Doc        *ADoc       `json:"doc,omitempty"` // content or resource
	Event      string      `json:"event,omitempty"`
	Reason     *AReason    `json:"reason,omitempty"`
	Method     string      `json:"method,omitempty"`
	URI        *string     `json:"uri,omitempty"`
	Status     string      `json:"status,omitempty"`
	State      string      `json:"state,omitempty"`
	EncOpts    []string    `json:"encopts,omitempty"`
	Enc        string      `json:"enc,omitempty"`
	CompOpts   []string    `json:"compopts,omitempty"`
	Comp       string      `json:"comp,omitempty"`
	SchemeOpts []string    `json:"schemeopts,omitempty"`
	Scheme     string      `json:"scheme,omitempty"`
	Auth       *AAuth      `json:"auth,omitempty"`
}

func (n ANode) lime() lime.Node {
	return lime.Node{Identity: lime.Identity{Name: n.Name, Domain: n.Domain}, Instance: n.Instance}
}
func nodeOf(n lime.Node) ANode { return ANode{n.Name, n.Domain, n.Instance} }
func (m AMT) lime() lime.MediaType {
	return lime.MediaType{Type: m.Type, Subtype: m.Subtype, Suffix: m.Suffix}
}
func mtOf(m lime.MediaType) AMT { return AMT{m.Type, m.Subtype, m.Suffix} }

func (n ANode) Coq() string {
	return coqfmt.Record("n_name", coqfmt.Str(n.Name), "n_domain", coqfmt.Str(n.Domain), "n_instance", coqfmt.Str(n.Instance))
}
func (m AMT) Coq() string {
	return coqfmt.Record("mt_type", coqfmt.Str(m.Type), "mt_subtype", coqfmt.Str(m.Subtype), "mt_suffix", coqfmt.Str(m.Suffix))
}
func (r *AReason) Coq() string {
	if r == nil {
		return coqfmt.None
	}
	return coqfmt.Some(coqfmt.Record("r_code", coqfmt.Z(r.Code), "r_desc", coqfmt.Str(r.Desc)))
}
func optMT(m *AMT) string {
	if m == nil {
		return coqfmt.None
	}
	return coqfmt.Some(m.Coq())
}

func (d *ADoc) Coq() string {
	switch d.Kind {
	case "text":
		return coqfmt.App("DText", coqfmt.Str(d.Text))
	case "json":
		if d.JSON == nil {
			return "(DJson [])"
		}
		return coqfmt.App("DJson", d.JSON.coqMembers())
	case "container":
		return coqfmt.App("DContainer", d.MT.Coq(), d.Value.Coq())
	case "collection":
		items := coqfmt.None
		if d.Items != nil {
			l := make([]string, len(*d.Items))
			for i := range *d.Items {
				l[i] = (*d.Items)[i].Coq()
			}
			items = coqfmt.Some(coqfmt.List(l))
		}
		return coqfmt.App("DCollection", coqfmt.Z(d.Total), d.MT.Coq(), items)
	case "ping":
		return "DPing"
	}
	return "DPing"
}
func optDoc(d *ADoc) string {
	if d == nil {
		return coqfmt.None
	}
	return coqfmt.Some(d.Coq())
}

func (d *ADoc) lime() lime.Document {
	switch d.Kind {
	case "text":
		return lime.TextDocument(d.Text)
	case "json":
		m := lime.JsonDocument{}
		if d.JSON != nil {
			_ = json.Unmarshal(d.JSON.Bytes(), &m)
		}
		return &m
	case "container":
		return &lime.DocumentContainer{Type: d.MT.lime(), Value: d.Value.lime()}
	case "collection":
		c := &lime.DocumentCollection{Total: int(d.Total), ItemType: d.MT.lime()}
		if d.Items != nil {
			c.Items = make([]lime.Document, len(*d.Items))
			for i := range *d.Items {
				c.Items[i] = (*d.Items)[i].lime()
			}
		}
		return c
	case "ping":
		return &lime.Ping{}
	}
	return nil
}

var errUnsupported = errors.New("value outside the projection")

func docOf(d lime.Document) (*ADoc, error) {
	switch t := d.(type) {
	case lime.TextDocument:
		return &ADoc{Kind: "text", Text: string(t)}, nil
	case *lime.TextDocument:
		if t == nil {
			return nil, errUnsupported
		}
		return &ADoc{Kind: "text", Text: string(*t)}, nil
	case *lime.JsonDocument:
		if t == nil || *t == nil {
			return nil, errUnsupported
		}
		j, err := canonicalJ(t)
		if err != nil || j.K != "obj" {
			return nil, errUnsupported
		}
		return &ADoc{Kind: "json", JSON: &j}, nil
	case *lime.DocumentContainer:
		if t == nil || t.Value == nil {
			return nil, errUnsupported
		}
		v, err := docOf(t.Value)
		if err != nil {
			return nil, err
		}
		return &ADoc{Kind: "container", MT: mtOf(t.Type), Value: v}, nil
	case *lime.DocumentCollection:
		if t == nil {
			return nil, errUnsupported
		}
		c := &ADoc{Kind: "collection", MT: mtOf(t.ItemType), Total: int64(t.Total)}
		if t.Items != nil {
			items := make([]ADoc, len(t.Items))
			for i, x := range t.Items {
				if x == nil {
					return nil, errUnsupported
				}
				v, err := docOf(x)
				if err != nil {
					return nil, err
				}
				items[i] = *v
			}
			c.Items = &items
		}
		return c, nil
	case *lime.Ping:
		return &ADoc{Kind: "ping"}, nil
	}
	return nil, errUnsupported
}

func (d *ADoc) depth() int {
	if d == nil {
		return 0
	}
	switch d.Kind {
	case "container":
		return 1 + d.Value.depth()
	case "collection":
		m := 0
		if d.Items != nil {
			for i := range *d.Items {
				if x := (*d.Items)[i].depth(); x > m {
					m = x
				}
			}
		}
		return 1 + m
	}
	return 1
}

func metaOf(m map[string]string) [][2]string {
	keys := make([]string, 0, len(m))
	for k := range m {
		keys = append(keys, k)
	}
	sort.Strings(keys)
	out := make([][2]string, 0, len(m))
	for _, k := range keys {
		out = append(out, [2]string{k, m[k]})
	}
	return out
}

func (e *AEnv) base() lime.Envelope {
	env := lime.Envelope{ID: e.ID, From: e.From.lime(), PP: e.PP.lime(), To: e.To.lime()}
	if len(e.Meta) > 0 {
		env.Metadata = map[string]string{}
		for _, kv := range e.Meta {
			env.Metadata[kv[0]] = kv[1]
		}
	}
	return env
}

func (r *AReason) lime() *lime.Reason {
	if r == nil {
		return nil
	}
	return &lime.Reason{Code: int(r.Code), Description: r.Desc}
}
func reasonOf(r *lime.Reason) *AReason {
	if r == nil {
		return nil
	}
	return &AReason{int64(r.Code), r.Description}
}

// lime builds the real envelope value.
func (e *AEnv) lime() interface{} {
	switch e.Kind {
	case "msg":
		m := &lime.Message{Envelope: e.base()}
		if e.Type != nil {
			m.Type = e.Type.lime()
		}
		if e.Doc != nil {
			m.Content = e.Doc.lime()
		}
		return m
	case "not":
		return &lime.Notification{Envelope: e.base(), Event: lime.NotificationEvent(e.Event), Reason: e.Reason.lime()}
	case "req", "resp":
		c := lime.Command{Envelope: e.base(), Method: lime.CommandMethod(e.Method)}
		if e.Type != nil {
			t := e.Type.lime()
			c.Type = &t
		}
		if e.Doc != nil {
			c.Resource = e.Doc.lime()
		}
		if e.Kind == "req" {
			r := &lime.RequestCommand{Command: c}
			if e.URI != nil {
				u, err := lime.ParseLimeURI(*e.URI)
				if err == nil {
					r.URI = u
				}
			}
			return r
		}
		return &lime.ResponseCommand{Command: c, Status: lime.CommandStatus(e.Status), Reason: e.Reason.lime()}
	case "ses":
		s := &lime.Session{Envelope: e.base(), State: lime.SessionState(e.State),
			Encryption: lime.SessionEncryption(e.Enc), Compression: lime.SessionCompression(e.Comp),
			Scheme: lime.AuthenticationScheme(e.Scheme), Reason: e.Reason.lime()}
		for _, x := range e.EncOpts {
			s.EncryptionOptions = append(s.EncryptionOptions, lime.SessionEncryption(x))
		}
		for _, x := range e.CompOpts {
			s.CompressionOptions = append(s.CompressionOptions, lime.SessionCompression(x))
		}
		for _, x := range e.SchemeOpts {
			s.SchemeOptions = append(s.SchemeOptions, lime.AuthenticationScheme(x))
		}
		if e.Auth != nil {
			switch e.Auth.Scheme {
			case "guest":
				s.Authentication = &lime.GuestAuthentication{}
			case "transport":
				s.Authentication = &lime.TransportAuthentication{}
			case "plain":
				s.Authentication = &lime.PlainAuthentication{Password: e.Auth.A}
			case "key":
				s.Authentication = &lime.KeyAuthentication{Key: e.Auth.A}
			case "external":
				s.Authentication = &lime.ExternalAuthentication{Token: e.Auth.A, Issuer: e.Auth.B}
			}
		}
		return s
	}
	return nil
}

func baseOf(a *AEnv, env *lime.Envelope) {
	a.ID = env.ID
	a.From, a.PP, a.To = nodeOf(env.From), nodeOf(env.PP), nodeOf(env.To)
	a.Meta = metaOf(env.Metadata)
}

// envOf projects a real envelope value to the abstract form.
func envOf(v interface{}) (*AEnv, error) {
	a := &AEnv{}
	var err error
	switch t := v.(type) {
	case *lime.Message:
		a.Kind = "msg"
		baseOf(a, &t.Envelope)
		mt := mtOf(t.Type)
		a.Type = &mt
		if t.Content != nil {
			if a.Doc, err = docOf(t.Content); err != nil {
				return nil, err
			}
		}
	case *lime.Notification:
		a.Kind = "not"
		baseOf(a, &t.Envelope)
		a.Event = string(t.Event)
		a.Reason = reasonOf(t.Reason)
	case *lime.RequestCommand:
		a.Kind = "req"
		baseOf(a, &t.Envelope)
		if err = cmdOf(a, &t.Command); err != nil {
			return nil, err
		}
		if t.URI != nil {
			s := t.URI.String()
			a.URI = &s
		}
	case *lime.ResponseCommand:
		a.Kind = "resp"
		baseOf(a, &t.Envelope)
		if err = cmdOf(a, &t.Command); err != nil {
			return nil, err
		}
		a.Status = string(t.Status)
		a.Reason = reasonOf(t.Reason)
	case *lime.Session:
		a.Kind = "ses"
		baseOf(a, &t.Envelope)
		a.State = string(t.State)
		for _, x := range t.EncryptionOptions {
			a.EncOpts = append(a.EncOpts, string(x))
		}
		for _, x := range t.CompressionOptions {
			a.CompOpts = append(a.CompOpts, string(x))
		}
		for _, x := range t.SchemeOptions {
			a.SchemeOpts = append(a.SchemeOpts, string(x))
		}
		a.Enc, a.Comp, a.Scheme = string(t.Encryption), string(t.Compression), string(t.Scheme)
		a.Reason = reasonOf(t.Reason)
		switch x := t.Authentication.(type) {
		case nil:
		case *lime.GuestAuthentication:
			a.Auth = &AAuth{Scheme: "guest"}
		case *lime.TransportAuthentication:
			a.Auth = &AAuth{Scheme: "transport"}
		case *lime.PlainAuthentication:
			a.Auth = &AAuth{Scheme: "plain", A: x.Password}
		case *lime.KeyAuthentication:
			a.Auth = &AAuth{Scheme: "key", A: x.Key}
		case *lime.ExternalAuthentication:
			a.Auth = &AAuth{Scheme: "external", A: x.Token, B: x.Issuer}
		default:
			return nil, errUnsupported
		}
	default:
		return nil, errUnsupported
	}
	return a, nil
}

func cmdOf(a *AEnv, c *lime.Command) error {
	a.Method = string(c.Method)
	if c.Type != nil {
		mt := mtOf(*c.Type)
		a.Type = &mt
	}
	if c.Resource != nil {
		d, err := docOf(c.Resource)
		if err != nil {
			return err
		}
		a.Doc = d
	}
	return nil
}

func (e *AEnv) coqBase() string {
	meta := make([]string, len(e.Meta))
	for i, kv := range e.Meta {
		meta[i] = coqfmt.Tuple(coqfmt.Str(kv[0]), coqfmt.Str(kv[1]))
	}
	return coqfmt.Record("e_id", coqfmt.Str(e.ID), "e_from", e.From.Coq(), "e_pp", e.PP.Coq(), "e_to", e.To.Coq(),
		"e_meta", coqfmt.List(meta))
}

func (e *AEnv) coqCommand() string {
	return coqfmt.Record("c_env", e.coqBase(), "c_method", coqfmt.Str(e.Method), "c_type", optMT(e.Type), "c_resource", optDoc(e.Doc))
}

func (e *AEnv) coqMessage() string {
	mt := AMT{}
	if e.Type != nil {
		mt = *e.Type
	}
	return coqfmt.Record("m_env", e.coqBase(), "m_type", mt.Coq(), "m_content", optDoc(e.Doc))
}
func (e *AEnv) coqNotification() string {
	return coqfmt.Record("nt_env", e.coqBase(), "nt_event", coqfmt.Str(e.Event), "nt_reason", e.Reason.Coq())
}
func (e *AEnv) coqReq() string {
	return coqfmt.Record("rq_cmd", e.coqCommand(), "rq_uri", coqfmt.OptStr(e.URI))
}
func (e *AEnv) coqResp() string {
	return coqfmt.Record("rs_cmd", e.coqCommand(), "rs_status", coqfmt.Str(e.Status), "rs_reason", e.Reason.Coq())
}

// Coq prints the envelope as a term of type env.
func (e *AEnv) Coq() string {
	switch e.Kind {
	case "msg":
		return coqfmt.App("EMsg", e.coqMessage())
	case "not":
		return coqfmt.App("ENot", e.coqNotification())
	case "req":
		return coqfmt.App("EReq", e.coqReq())
	case "resp":
		return coqfmt.App("EResp", e.coqResp())
	case "ses":
		auth := coqfmt.None
		if e.Auth != nil {
			switch e.Auth.Scheme {
			case "guest":
				auth = coqfmt.Some("AGuest")
			case "transport":
				auth = coqfmt.Some("ATransport")
			case "plain":
				auth = coqfmt.Some(coqfmt.App("APlain", coqfmt.Str(e.Auth.A)))
			case "key":
				auth = coqfmt.Some(coqfmt.App("AKey", coqfmt.Str(e.Auth.A)))
			case "external":
				auth = coqfmt.Some(coqfmt.App("AExternal", coqfmt.Str(e.Auth.A), coqfmt.Str(e.Auth.B)))
			}
		}
		return coqfmt.App("ESes", coqfmt.Record("s_env", e.coqBase(), "s_state", coqfmt.Str(e.State),
			"s_encopts", coqfmt.Strs(e.EncOpts), "s_enc", coqfmt.Str(e.Enc),
			"s_compopts", coqfmt.Strs(e.CompOpts), "s_comp", coqfmt.Str(e.Comp),
			"s_schemeopts", coqfmt.Strs(e.SchemeOpts), "s_scheme", coqfmt.Str(e.Scheme),
			"s_auth", auth, "s_reason", e.Reason.Coq()))
	}
	return "ENot {| |}"
}

// ---------- results ----------

// Res is Ok env | Err | Panic, as observed.
type Res struct {
	Tag string `json:"tag"` // ok err panic unsupported
	Env *AEnv  `json:"env,omitempty"`
	Msg string `json:"msg,omitempty"`
}

func (r Res) Coq() string {
	switch r.Tag {
	case "ok":
		return coqfmt.App("Ok", r.Env.Coq())
	case "panic":
		return "Panic"
	}
	return "Err"
}

func resOf(v interface{}, err error) Res {
	if err != nil {
		return Res{Tag: "err", Msg: err.Error()}
	}
	a, perr := envOf(v)
	if perr != nil {
		return Res{Tag: "unsupported", Msg: perr.Error()}
	}
	return Res{Tag: "ok", Env: a}
}

// guard runs f and converts a panic into a Panic result.
func guard(f func() Res) (r Res) {
	defer func() {
		if p := recover(); p != nil {
			r = Res{Tag: "panic", Msg: fmt.Sprint(p)}
		}
	}()
	return f()
}

var kindOrder = []string{"msg", "not", "req", "resp", "ses"}

func newTyped(kind string) interface{} {
	switch kind {
	case "msg":
		return &lime.Message{}
	case "not":
		return &lime.Notification{}
	case "req":
		return &lime.RequestCommand{}
	case "resp":
		return &lime.ResponseCommand{}
	}
	return &lime.Session{}
}

// decodeTyped runs the typed decoder of the given kind.
func decodeTyped(kind string, b []byte) Res {
	return guard(func() Res {
		v := newTyped(kind)
		err := json.Unmarshal(b, v)
		return resOf(v, err)
	})
}

// uriTable records how ParseLimeURI treats each URI text occurring in a tree or envelope.
func uriEntry(s string) (string, *string) {
	u, err := lime.ParseLimeURI(s)
	if err != nil {
		return s, nil
	}
	p := u.String()
	return s, &p
}

func coqURITable(texts []string) string {
	seen := map[string]bool{}
	items := []string{}
	for _, s := range texts {
		if seen[s] {
			continue
		}
		seen[s] = true
		_, p := uriEntry(s)
		items = append(items, coqfmt.Tuple(coqfmt.Str(s), coqfmt.OptStr(p)))
		if p != nil && !seen[*p] {
			seen[*p] = true
			_, q := uriEntry(*p)
			items = append(items, coqfmt.Tuple(coqfmt.Str(*p), coqfmt.OptStr(q)))
		}
	}
	return coqfmt.List(items)
}
