package main

import (
	"context"
	"errors"
	"fmt"
	"github.com/gorilla/websocket"
	"net"
	"net/http"
	"strings"
	"sync/atomic"
	"time"

	lime "github.com/takenet/lime-go"
	"verifharness/coqfmt"
)

const hsHeader = "From Coq Require Import List String.\nImport ListNotations.\nOpen Scope string_scope.\nFrom Lime Require Import Base.Res Hs.Types Hs.Server Corr.HsServer "

const hsRule = "every client script up to the depth bound over a 24-letter alphabet (every session state, id absent/right/wrong, option choices offered/not offered/absent/unknown, schemes and credential classes, data envelope, undecodable input, EOF), extended breadth-first only while the connection is still served, x server configurations (option lists, TLS capability, scheme sets) x callback tables (role, unknown, round trips, callback errors, registration error), against a real Server over an injected in-memory TCP connection (TLS upgrades performed in place). "

func sentCount(c *SCase) int {
	n := 0
	for _, w := range c.Obs.Wire {
		if !w.Took {
			n++
		}
	}
	return n
}

func confsByName(names ...string) []*SConf {
	var out []*SConf
	for _, n := range names {
		for _, c := range serverConfs {
			if c.Name == n {
				out = append(out, c)
			}
		}
	}
	return out
}

// runServerProp is the common driver of the server-handshake properties.
func runServerProp(env *Env, prop string, o enumOpts, rule string, nontrivial func(c *SCase) bool) error {
	env.Header = hsHeader + "Corr." + prop + "."
	if prop == "C09" {
		env.Header = hsHeader + "Hs.ClientBuilder Hs.Builder Corr.Builder Corr.Interop Corr.C09."
	}
	env.ShardSize = 250
	env.Rule = hsRule + rule + " Distinct by (configuration, callbacks, script)."
	var rc SCase
	if ok, err := env.ReplayDesc(&rc); err != nil {
		return err
	} else if ok {
		srv := newScriptServer(rc.Conf, rc.Oracle)
		defer srv.Close()
		c := &SCase{Conf: rc.Conf, Oracle: rc.Oracle, Script: rc.Script, Obs: srv.run(rc.Script)}
		if wrapCase != nil {
			env.Add(wrapCase(c.Coq()), c)
		} else {
			env.Add(c.Coq(), c)
		}
		return nil
	}
	enumerateServerScripts(env, o, func(c *SCase) {
		if wrapCase != nil {
			env.Add(wrapCase(c.Coq()), c)
		} else {
			env.Add(c.Coq(), c)
		}
		if nontrivial(c) {
			env.NonTrivial(c.Coq())
		}
		env.Count(fmt.Sprintf("server-envelopes=%d", sentCount(c)))
		if c.Obs.Closed {
			env.Count("closed")
		}
		if c.Obs.Note != "" {
			env.Count("note=" + c.Obs.Note)
		}
	})
	return nil
}

func hasState(c *SCase, st string) bool {
	for _, w := range c.Obs.Wire {
		if !w.Took && w.Ses.State == st {
			return true
		}
	}
	return false
}

func init() {
	register("C07", func(env *Env) error {
		o := enumOpts{confs: serverConfs[:env.Pick(6, len(serverConfs))], oracles: serverOracles[:env.Pick(2, 3)], alphabet: serverAlphabet, depth: env.Pick(3, 4)}
		return runServerProp(env, "C07", o, "Non-trivial: the server sent at least two session envelopes.", func(c *SCase) bool { return sentCount(c) >= 2 })
	})
	register("C03", func(env *Env) error {
		wrapCase = func(t string) string { return "(KScript " + t + ")" }
		defer func() { wrapCase = nil }()
		env.Header = hsHeader + "Hs.ClientBuilder Hs.Builder Corr.Builder Corr.Interop Corr.C03."
		if runBuilderCases(env, true) {
			return nil
		}
		var ra abruptCase
		if ok, _ := env.ReplayDesc(&ra); ok && ra.Abrupt != "" {
			c := runAbrupt(ra.Kind, ra.Abrupt)
			env.Add(c.coq(), c)
			return nil
		}
		if replayInterop(env, "C03") {
			return nil
		}
		if env.Replay == "" {
			// a real client against a real server
			defer addInteropCases(env, func(c *interopCase) {
				env.Add(c.coq(), c)
				env.Count("both-real-roles:" + c.Conf.Kind + ":" + c.Out)
				if c.SrvEst && c.Out == "ret:established" {
					env.NonTrivial("interop/" + c.Conf.Name + "/" + c.Oracle.Name + "/" + c.CConf.Name + fmt.Sprint(c.Ident))
				}
			})
		}
		if env.Replay == "" {
			defer func() {
				env.Header = hsHeader + "Hs.ClientBuilder Hs.Builder Corr.Builder Corr.Interop Corr.C03."
				runBuilderCases(env, false)
				// a peer that sends one envelope and vanishes at once, on every transport: no session may come of it
				for _, kind := range []string{"inproc", "tcp", "ws"} {
					for _, first := range abruptFirsts {
						c := runAbrupt(kind, first)
						env.Add(c.coq(), c)
						env.Count("abrupt:" + kind)
						env.NonTrivial(kind + "/" + first)
					}
				}
			}()
		}
		o := enumOpts{confs: confsByName("plain-only", "none-or-tls", "tls-only", "tls-first", "no-schemes", "gzip-only")[:env.Pick(4, 6)], oracles: serverOracles, alphabet: serverAlphabet, depth: env.Pick(3, 4)}
		return runServerProp(env, "C03", o, "Non-trivial: the authentication callback was invoked at least once.", func(c *SCase) bool {
			for _, x := range c.Obs.Calls {
				if x.Kind == "auth" {
					return true
				}
			}
			return false
		})
	})
	register("C09", func(env *Env) error {
		wrapCase = func(t string) string { return "(KScript " + t + ")" }
		defer func() { wrapCase = nil }()
		var ro optionsCase
		if ok, _ := env.ReplayDesc(&ro); ok && ro.Options {
			env.Header = hsHeader + "Hs.ClientBuilder Hs.Builder Corr.Builder Corr.Interop Corr.C09."
			seq := make([]optCall, len(ro.Calls))
			for i, x := range ro.Calls {
				seq[i] = optCall{Enc: x.Enc, Arg: x.Arg}
			}
			c, err := runOptions(ro.Kind, ro.Role, seq)
			if err != nil {
				return err
			}
			env.Add(c.coq(), c)
			return nil
		}
		if env.Replay == "" {
			defer addOptionsCases(env)
		}
		if replayInterop(env, "C09") {
			return nil
		}
		if env.Replay == "" {
			// a real client against a real server
			defer addInteropCases(env, func(c *interopCase) {
				env.Add(c.coq(), c)
				env.Count("both-real-roles:" + c.Conf.Kind + ":" + c.Out)
				if c.SrvEst && c.Out == "ret:established" {
					env.NonTrivial("interop/" + c.Conf.Name + "/" + c.Oracle.Name + "/" + c.CConf.Name + fmt.Sprint(c.Ident))
				}
			})
		}
		var rp pipelinedCase
		if ok, _ := env.ReplayDesc(&rp); ok && rp.Pipelined {
			env.Header = hsHeader + "Hs.ClientBuilder Hs.Builder Corr.Builder Corr.Interop Corr.C09."
			for _, sc := range pipeScenarios {
				if sc.name == rp.Name {
					c := runPipelined(sc)
					env.Add(c.coq(), c)
				}
			}
			return nil
		}
		if env.Replay == "" {
			defer func() {
				for _, sc := range pipeScenarios {
					for i := 0; i < env.Pick(2, 6); i++ {
						c := runPipelined(sc)
						env.Add(c.coq(), c)
						env.Count("pipelined:" + sc.name)
						if len(c.Clear) > 0 {
							env.Count("pipelined-cleartext-before-a-completed-upgrade")
						}
						env.NonTrivial("pipelined-" + sc.name)
					}
				}
			}()
		}
		if env.Replay == "" {
			// both options switched at once, over a transport pair that can do that
			defer enumerateServerScripts(env, enumOpts{confs: []*SConf{multiConf}, oracles: serverOracles[:1], alphabet: multiAlphabet, depth: env.Pick(3, 4)}, func(c *SCase) {
				env.Add(wrapCase(c.Coq()), c)
				env.Count("multi-option-transport")
				if hasState(c, "negotiating") {
					env.NonTrivial(c.Coq())
				}
			})
		}
		o := enumOpts{confs: confsByName("none-or-tls", "tls-first", "gzip-configured", "tls-only", "tls-handshake-fails", "tls-only-no-config", "tls-twice", "plain-only", "gzip-only", "tls-only-gzip-only", "no-enc-options"), oracles: serverOracles[:env.Pick(1, 3)], alphabet: serverAlphabet, depth: env.Pick(3, 4)}
		return runServerProp(env, "C09", o, "Non-trivial: a negotiation stage took place.", func(c *SCase) bool { return hasState(c, "negotiating") })
	})
	register("C10", func(env *Env) error {
		wrapCase = func(t string) string { return "(KScript " + t + ")" }
		defer func() { wrapCase = nil }()
		env.Header = hsHeader + "Hs.Builder Corr.Builder Hs.Pipelined Corr.PipeChecks Corr.C10."
		if runBuilderCases(env, true) {
			return nil
		}
		var rpc pipelinedCase
		if ok, _ := env.ReplayDesc(&rpc); ok && rpc.Pipelined {
			for _, sc := range pipeScenarios {
				if sc.name == rpc.Name {
					c := runPipelined(sc)
					env.Add(c.coqAs("KPipe"), c)
				}
			}
			return nil
		}
		var rw wsListenerCase
		if ok, _ := env.ReplayDesc(&rw); ok && rw.WsListener {
			c, err := runWsListenerCase(rw.Shape)
			if err != nil {
				return err
			}
			env.Add("(KWsL "+c.coq()+")", c)
			return nil
		}
		if env.Replay == "" {
			defer func() {
				env.Header = hsHeader + "Hs.Builder Corr.Builder Hs.Pipelined Corr.PipeChecks Corr.C10."
				runBuilderCases(env, false)
				_ = addWsListenerCases(env)
				// credentials written in clear behind the selection of TLS
				for _, sc := range pipeScenarios {
					if sc.conf != "tls-only" && sc.conf != "tls-first" && sc.conf != "none-or-tls" {
						continue
					}
					c := runPipelined(sc)
					env.Add(c.coqAs("KPipe"), c)
					env.Count("pipelined:" + sc.name)
					env.NonTrivial("pipelined-" + sc.name)
				}
			}()
		}
		o := enumOpts{confs: confsByName("tls-only", "tls-twice", "tls-only-no-config", "tls-only-gzip-only", "tls-first", "tls-handshake-fails"), oracles: serverOracles[:env.Pick(2, 3)], alphabet: serverAlphabet, depth: env.Pick(3, 4)}
		return runServerProp(env, "C10", o, "Configurations here exclude 'none' (plus two controls that include it). Non-trivial: the server got past the first client envelope.", func(c *SCase) bool { return sentCount(c) >= 1 && len(c.Script) >= 2 })
	})
	register("C14", func(env *Env) error {
		c14confs := serverConfs
		if !env.Thorough() {
			c14confs = append(append([]*SConf(nil), serverConfs[:6]...), confsByName("tls-handshake-fails")...)
		}
		o := enumOpts{confs: c14confs, oracles: serverOracles[:env.Pick(2, 3)], alphabet: serverAlphabet, depth: env.Pick(3, 4)}
		wrapCase = func(t string) string { return "(KScript " + t + ")" }
		defer func() { wrapCase = nil }()
		var ra abruptCase
		if ok, _ := env.ReplayDesc(&ra); ok && ra.Abrupt != "" {
			env.Header = hsHeader + "Corr.C14."
			c := runAbrupt(ra.Kind, ra.Abrupt)
			env.Add(c.coq(), c)
			return nil
		}
		var rv vanishCase
		if ok, _ := env.ReplayDesc(&rv); ok && rv.Vanish != "" {
			env.Header = hsHeader + "Corr.C14."
			c := runVanish(rv.Kind, rv.Vanish)
			env.Add(c.coq(), c)
			return nil
		}
		if err := runServerProp(env, "C14", o, "Non-trivial: the handshake ended without a session (failed, aborted or callback error).", func(c *SCase) bool { return !hasState(c, "established") && (c.Obs.Closed || c.Obs.Ended) }); err != nil {
			return err
		}
		if env.Replay != "" {
			return nil
		}
		// a peer that sends one envelope that cannot start a session and vanishes at once, on every transport
		for _, kind := range []string{"inproc", "tcp", "ws", "wsclose"} {
			for _, first := range abruptFirsts {
				if kind == "wsclose" && first != "new:noid" && first != "finishing" && first != "authenticating:noid" {
					continue
				}
				c := runAbrupt(kind, first)
				env.Add(c.coq(), c)
				env.Count("abrupt:" + kind)
				env.NonTrivial(kind + "/" + first)
			}
		}
		// a peer that presents its credentials and vanishes while Authenticate is deciding
		for _, kind := range []string{"inproc", "tcp", "ws"} {
			for _, verdict := range vanishVerdicts {
				c := runVanish(kind, verdict)
				env.Add(c.coq(), c)
				env.Count("vanish-during-authenticate:" + kind + ":" + verdict)
				env.NonTrivial("vanish/" + kind + "/" + verdict)
			}
		}
		return nil
	})
}

// wrapCase, when set, wraps the printed script case in the property's own case constructor.
var wrapCase func(string) string

type abruptCase struct {
	Abrupt string `json:"abrupt"` // the state of the only envelope the peer sends
	Kind   string `json:"kind"`
	Est    int    `json:"est_cb"`
	Fin    int    `json:"fin_cb"`
	Ended  bool   `json:"ended"`
	// SawEnd: the peer saw the connection end; true where it does not wait for it.  Kind "wsclose" is a WebSocket peer
	// that reads the server's answer, sends a close frame (1000) and then waits for the server to close the connection.
	SawEnd bool `json:"peer_saw_end"`
}

// "<state>" carries a session id, "<state>:noid" none (as a first envelope should)
var abruptFirsts = []string{"finishing", "established", "negotiating", "authenticating", "failed", "finished",
	"finishing:noid", "established:noid", "negotiating:noid", "authenticating:noid", "failed:noid", "finished:noid", "new:noid"}

func (c *abruptCase) coq() string {
	kind := map[string]string{"inproc": "TInproc", "tcp": "(TTcp false)", "ws": "(TWs false)", "wsclose": "(TWs false)"}[c.Kind]
	id, state := "x1", c.Abrupt
	if strings.HasSuffix(state, ":noid") {
		id, state = "", strings.TrimSuffix(state, ":noid")
	}
	first := coqfmt.Record("cs_id", coqfmt.Str(id), "cs_state", coqState(state), "cs_enc", coqfmt.Str(""), "cs_comp", coqfmt.Str(""),
		"cs_scheme", coqfmt.Str(""), "cs_cred", coqfmt.None, "cs_from", coqfmt.Nat(0))
	return coqfmt.App("KAbrupt", kind, first, coqfmt.Nat(c.Est), coqfmt.Nat(c.Fin), coqfmt.Bool(c.Ended), coqfmt.Bool(c.SawEnd))
}

// runAbrupt serves one connection whose peer sends a single session envelope in the given state and closes
// at once, without waiting for anything.
func runAbrupt(kind, first string) *abruptCase {
	c := &abruptCase{Abrupt: first, Kind: kind, SawEnd: true}
	var est, fin int32
	cfg := lime.NewServerConfig()
	cfg.Node = serverNode
	cfg.SchemeOpts = []lime.AuthenticationScheme{lime.AuthenticationSchemeGuest}
	cfg.EncryptOpts = []lime.SessionEncryption{lime.SessionEncryptionNone}
	cfg.Authenticate = allowAll
	cfg.Established = func(string, *lime.ServerChannel) { atomic.AddInt32(&est, 1) }
	cfg.Finished = func(string) { atomic.AddInt32(&fin, 1) }
	var l lime.TransportListener
	var addr net.Addr
	switch kind {
	case "inproc":
		inprocMu.Lock()
		a := nextInprocAddr()
		inprocMu.Unlock()
		l, addr = lime.NewInProcessTransportListener(a), a
	case "tcp":
		a, _ := freeTCPAddr()
		l, addr = lime.NewTCPTransportListener(nil), a
	default: // ws, wsclose
		a, _ := freeTCPAddr()
		l, addr = lime.NewWebsocketTransportListener(nil), a
	}
	srv := lime.NewServer(cfg, &lime.EnvelopeMux{}, lime.NewBoundListener(l, addr))
	done := make(chan error, 1)
	go func() { done <- srv.ListenAndServe() }()
	markIdle(1)
	defer clearIdle()
	ctx, cancel := context.WithTimeout(context.Background(), 5*time.Second)
	defer cancel()
	id, state := "x1", first
	if strings.HasSuffix(first, ":noid") {
		id, state = "", strings.TrimSuffix(first, ":noid")
	}
	ses := &lime.Session{Envelope: lime.Envelope{ID: id}, State: lime.SessionState(state)}
	switch kind {
	case "wsclose":
		var wc *websocket.Conn
		waitUntil(3*time.Second, func() bool {
			var err error
			d := websocket.Dialer{}
			wc, _, err = d.DialContext(ctx, "ws://"+addr.String(), http.Header{"Sec-WebSocket-Protocol": []string{"lime"}})
			return err == nil
		})
		if wc != nil {
			if id == "" {
				_ = wc.WriteMessage(websocket.TextMessage, []byte(fmt.Sprintf(`{"state":"%s"}`, state)))
			} else {
				_ = wc.WriteMessage(websocket.TextMessage, []byte(fmt.Sprintf(`{"id":"x1","state":"%s"}`, state)))
			}
			_ = wc.SetReadDeadline(time.Now().Add(2 * time.Second))
			_, _, _ = wc.ReadMessage() // the server's answer (an authentication request, or a failed session)
			_ = wc.WriteControl(websocket.CloseMessage, websocket.FormatCloseMessage(websocket.CloseNormalClosure, ""), time.Now().Add(time.Second))
			// the server answers the close frame and closes the connection
			raw := wc.UnderlyingConn()
			_ = raw.SetReadDeadline(time.Now().Add(4 * time.Second))
			buf := make([]byte, 512)
			c.SawEnd = false
			for {
				_, err := raw.Read(buf)
				if err != nil {
					var ne net.Error
					c.SawEnd = !(errors.As(err, &ne) && ne.Timeout())
					break
				}
			}
			_ = wc.Close()
		}
	case "tcp":
		var conn net.Conn
		waitUntil(3*time.Second, func() bool {
			var err error
			conn, err = net.Dial("tcp", addr.String())
			return err == nil
		})
		if conn != nil {
			if id == "" {
				_, _ = conn.Write([]byte(fmt.Sprintf(`{"state":"%s"}`+"\n", state)))
			} else {
				_, _ = conn.Write([]byte(fmt.Sprintf(`{"id":"x1","state":"%s"}`+"\n", state)))
			}
			_ = conn.Close()
		}
	default:
		var t lime.Transport
		waitUntil(3*time.Second, func() bool {
			var err error
			if kind == "inproc" {
				t, err = lime.DialInProcess(addr.(lime.InProcessAddr), 4)
			} else {
				t, err = lime.DialWebsocket(ctx, "ws://"+addr.String(), nil, nil)
			}
			return err == nil
		})
		if t != nil {
			_ = t.Send(ctx, ses)
			_ = t.Close()
		}
	}
	// the serving goroutine was started, and then has to end (a TCP handshake notices within its poll interval)
	time.Sleep(5 * time.Millisecond)
	c.Ended = waitUntil(7*time.Second, func() bool { return servingGoroutines() == 0 })
	time.Sleep(2 * time.Millisecond)
	c.Est, c.Fin = int(atomic.LoadInt32(&est)), int(atomic.LoadInt32(&fin))
	for i := 0; i < 2000; i++ {
		if err := srv.Close(); !notServingYet(err) {
			break
		}
		time.Sleep(time.Millisecond)
	}
	select {
	case <-done:
	case <-time.After(8 * time.Second):
	}
	return c
}

// pipelinedCase: a scripted case some of whose items are glued to the item before (written in the same segment).
type pipelinedCase struct {
	Pipelined bool   `json:"pipelined"`
	Name      string `json:"scenario"`
	Case      *SCase `json:"scase"`
	Clear     []int  `json:"cleartext_identities"` // identities whose credentials went out only in clear before an upgrade that was completed
}

func (c *pipelinedCase) coq() string { return c.coqAs("KPipelined") }

func (c *pipelinedCase) coqAs(ctor string) string {
	glued := make([]string, len(c.Case.Script))
	for i, x := range c.Case.Script {
		glued[i] = coqfmt.Bool(x.Glued)
	}
	return coqfmt.App(ctor, c.Case.Coq(), coqfmt.List(glued), coqfmt.Nats(c.Clear))
}

type pipeScenario struct {
	name   string
	conf   string
	script []CIn
}

func glue(in CIn) CIn { in.Glued = true; return in }
func sesFrom(id, state, enc, comp, scheme string, cred *int, from int) CIn {
	c := ses(id, state, enc, comp, scheme, cred)
	c.Ses.From = from
	return c
}

// everyone-is-a-member: both identities authenticate with their own password
var pipeOracle = &SOracle{Name: "everyone-is-a-member", Auth: []AuthRow{{1, "plain", ip(1), 0, "role"}, {2, "plain", ip(2), 0, "role"}, {2, "plain", ip(2), 1, "role"}}, Reg: []RegRow{}}

var pipeScenarios = []pipeScenario{
	// the selection of TLS and, behind it in clear, credentials of identity 2; then identity 1 under TLS
	{"clear-credentials-behind-tls-selection", "tls-only", []CIn{ses("", "new", "", "", "", nil), ses("SID", "negotiating", "tls", "none", "", nil),
		glue(sesFrom("SID", "authenticating", "", "", "plain", ip(2), 2)), sesFrom("SID", "authenticating", "", "", "plain", ip(1), 1)}},
	// two envelopes behind the selection
	{"two-envelopes-behind-tls-selection", "tls-only", []CIn{ses("", "new", "", "", "", nil), ses("SID", "negotiating", "tls", "none", "", nil),
		glue(sesFrom("SID", "authenticating", "", "", "plain", ip(2), 2)), glue(sesFrom("SID", "authenticating", "", "", "plain", ip(2), 2)),
		sesFrom("SID", "authenticating", "", "", "plain", ip(1), 1)}},
	// the same identity again under TLS: then it is legitimately authenticated
	{"same-identity-again-under-tls", "none-or-tls", []CIn{ses("", "new", "", "", "", nil), ses("SID", "negotiating", "tls", "none", "", nil),
		glue(sesFrom("SID", "authenticating", "", "", "plain", ip(2), 2)), sesFrom("SID", "authenticating", "", "", "plain", ip(2), 2)}},
	// "none" is negotiated: nothing is switched, the glued credentials are served from the buffer
	{"credentials-behind-none-selection", "none-or-tls", []CIn{ses("", "new", "", "", "", nil), ses("SID", "negotiating", "none", "none", "", nil),
		glue(sesFrom("SID", "authenticating", "", "", "plain", ip(2), 2))}},
	// the peer does not complete the TLS handshake
	{"tls-handshake-fails", "tls-handshake-fails", []CIn{ses("", "new", "", "", "", nil), ses("SID", "negotiating", "tls", "none", "", nil),
		glue(sesFrom("SID", "authenticating", "", "", "plain", ip(2), 2))}},
	// a selection that was not offered, credentials behind it
	{"credentials-behind-refused-selection", "tls-only", []CIn{ses("", "new", "", "", "", nil), ses("SID", "negotiating", "none", "none", "", nil),
		glue(sesFrom("SID", "authenticating", "", "", "plain", ip(2), 2))}},
	// no negotiation stage: credentials glued to the very first envelope cannot know the session id
	{"credentials-behind-new", "plain-only", []CIn{ses("", "new", "", "", "", nil), glue(sesFrom("", "authenticating", "", "", "plain", ip(2), 2))}},
	// a data envelope behind the credentials: served from the buffer once the session is established
	{"data-behind-credentials", "plain-only", []CIn{ses("", "new", "", "", "", nil), sesFrom("SID", "authenticating", "", "", "plain", ip(1), 1), glue(CIn{Kind: "data"})}},
	// TLS selection, then under TLS credentials with a data envelope glued behind them
	{"data-behind-credentials-under-tls", "tls-first", []CIn{ses("", "new", "", "", "", nil), ses("SID", "negotiating", "tls", "none", "", nil),
		sesFrom("SID", "authenticating", "", "", "plain", ip(1), 1), glue(CIn{Kind: "data"})}},
}

// runPipelined plays one scenario against a real Server over an injected in-memory TCP connection.
func runPipelined(sc pipeScenario) *pipelinedCase {
	conf := confsByName(sc.conf)[0]
	srv := newScriptServer(conf, pipeOracle)
	defer srv.Close()
	obs := srv.run(sc.script)
	c := &pipelinedCase{Pipelined: true, Name: sc.name, Case: &SCase{Conf: conf, Oracle: pipeOracle, Script: sc.script, Obs: obs}, Clear: []int{}}
	// identities whose credentials were written, glued, before the client completed an upgrade and that were not
	// presented again afterwards: the wire log says under which encryption each later envelope was read
	upgradedAt := -1
	n := 0
	for _, w := range obs.Wire {
		if w.Took {
			n++
			continue
		}
		if w.Ses != nil && w.Ses.ReadUnder == "tls" && upgradedAt < 0 {
			upgradedAt = n // items written so far (indices < n) precede the first envelope read under TLS
		}
	}
	if upgradedAt >= 0 {
		again := map[int]bool{}
		for i := upgradedAt; i < len(sc.script); i++ {
			if sc.script[i].Kind == "ses" && sc.script[i].Ses.Cred != nil {
				again[sc.script[i].Ses.From] = true
			}
		}
		for i := 0; i < upgradedAt && i < len(sc.script); i++ {
			it := sc.script[i]
			if it.Glued && it.Kind == "ses" && it.Ses.Cred != nil && !again[it.Ses.From] {
				c.Clear = append(c.Clear, it.Ses.From)
			}
		}
	}
	return c
}
