package main

import (
	"bufio"
	"context"
	"crypto/tls"
	"encoding/base64"
	"encoding/json"
	"fmt"
	"net"
	"strings"
	"sync/atomic"
	"time"
	"verifharness/memconn"

	lime "github.com/takenet/lime-go"
	"verifharness/coqfmt"
)

const hsHeader = "From Coq Require Import List String.\nImport ListNotations.\nOpen Scope string_scope.\nFrom Lime Require Import Base.Res Hs.Types Hs.Server Corr.HsServer "

const hsRule = "every client script up to the depth bound over a 24-letter alphabet (every session state, id absent/right/wrong, option choices offered/not offered/absent/unknown, schemes and credential classes, data envelope, undecodable input, EOF), extended breadth-first only while the connection is still served, x server configurations (option lists, TLS capability, scheme sets) x callback tables (role, unknown, round trips, callback errors, registration error), against a real Server over an injected in-memory TCP connection (TLS upgrades performed in place). "

func sentCount(c *SCase) int {
	n := 0
	for _, w := range c.Obs.Wire {
		if !w.Took {
			n++
		}
	}
	return n
}

func confsByName(names ...string) []*SConf {
	var out []*SConf
	for _, n := range names {
		for _, c := range serverConfs {
			if c.Name == n {
				out = append(out, c)
			}
		}
	}
	return out
}

// runServerProp is the common driver of the server-handshake properties.
func runServerProp(env *Env, prop string, o enumOpts, rule string, nontrivial func(c *SCase) bool) error {
	env.Header = hsHeader + "Corr." + prop + "."
	env.ShardSize = 250
	env.Rule = hsRule + rule + " Distinct by (configuration, callbacks, script)."
	var rc SCase
	if ok, err := env.ReplayDesc(&rc); err != nil {
		return err
	} else if ok {
		srv := newScriptServer(rc.Conf, rc.Oracle)
		defer srv.Close()
		c := &SCase{Conf: rc.Conf, Oracle: rc.Oracle, Script: rc.Script, Obs: srv.run(rc.Script)}
		if wrapCase != nil {
			env.Add(wrapCase(c.Coq()), c)
		} else {
			env.Add(c.Coq(), c)
		}
		return nil
	}
	enumerateServerScripts(env, o, func(c *SCase) {
		if wrapCase != nil {
			env.Add(wrapCase(c.Coq()), c)
		} else {
			env.Add(c.Coq(), c)
		}
		if nontrivial(c) {
			env.NonTrivial(c.Coq())
		}
		env.Count(fmt.Sprintf("server-envelopes=%d", sentCount(c)))
		if c.Obs.Closed {
			env.Count("closed")
		}
		if c.Obs.Note != "" {
			env.Count("note=" + c.Obs.Note)
		}
	})
	return nil
}

func hasState(c *SCase, st string) bool {
	for _, w := range c.Obs.Wire {
		if !w.Took && w.Ses.State == st {
			return true
		}
	}
	return false
}

func init() {
	register("C07", func(env *Env) error {
		o := enumOpts{confs: serverConfs[:env.Pick(6, len(serverConfs))], oracles: serverOracles[:env.Pick(2, 3)], alphabet: serverAlphabet, depth: env.Pick(3, 4)}
		return runServerProp(env, "C07", o, "Non-trivial: the server sent at least two session envelopes.", func(c *SCase) bool { return sentCount(c) >= 2 })
	})
	register("C03", func(env *Env) error {
		o := enumOpts{confs: confsByName("plain-only", "none-or-tls", "tls-only", "tls-first", "no-schemes", "gzip-only")[:env.Pick(4, 6)], oracles: serverOracles, alphabet: serverAlphabet, depth: env.Pick(3, 4)}
		return runServerProp(env, "C03", o, "Non-trivial: the authentication callback was invoked at least once.", func(c *SCase) bool {
			for _, x := range c.Obs.Calls {
				if x.Kind == "auth" {
					return true
				}
			}
			return false
		})
	})
	register("C09", func(env *Env) error {
		wrapCase = func(t string) string { return "(KScript " + t + ")" }
		defer func() { wrapCase = nil }()
		var rp pipelinedCase
		if ok, _ := env.ReplayDesc(&rp); ok && rp.Pipelined {
			env.Header = hsHeader + "Corr.C09."
			c := runPipelined()
			env.Add(c.coq(), c)
			return nil
		}
		if env.Replay == "" {
			defer func() {
				for i := 0; i < 3; i++ {
					c := runPipelined()
					env.Add(c.coq(), c)
					env.Count("pipelined-cleartext-before-tls")
					env.NonTrivial(fmt.Sprintf("pipelined-%d", i))
				}
			}()
		}
		o := enumOpts{confs: confsByName("none-or-tls", "tls-first", "gzip-configured", "tls-only", "tls-handshake-fails", "tls-only-no-config", "tls-twice", "plain-only", "gzip-only", "tls-only-gzip-only", "no-enc-options"), oracles: serverOracles[:env.Pick(1, 3)], alphabet: serverAlphabet, depth: env.Pick(3, 4)}
		return runServerProp(env, "C09", o, "Non-trivial: a negotiation stage took place.", func(c *SCase) bool { return hasState(c, "negotiating") })
	})
	register("C10", func(env *Env) error {
		o := enumOpts{confs: confsByName("tls-only", "tls-twice", "tls-only-no-config", "tls-only-gzip-only", "tls-first", "tls-handshake-fails"), oracles: serverOracles[:env.Pick(2, 3)], alphabet: serverAlphabet, depth: env.Pick(3, 4)}
		return runServerProp(env, "C10", o, "Configurations here exclude 'none' (plus two controls that include it). Non-trivial: the server got past the first client envelope.", func(c *SCase) bool { return sentCount(c) >= 1 && len(c.Script) >= 2 })
	})
	register("C14", func(env *Env) error {
		o := enumOpts{confs: serverConfs[:env.Pick(6, len(serverConfs))], oracles: serverOracles[:env.Pick(2, 3)], alphabet: serverAlphabet, depth: env.Pick(3, 4)}
		wrapCase = func(t string) string { return "(KScript " + t + ")" }
		defer func() { wrapCase = nil }()
		var ra abruptCase
		if ok, _ := env.ReplayDesc(&ra); ok && ra.Abrupt != "" {
			env.Header = hsHeader + "Corr.C14."
			c := runAbrupt(ra.Kind, ra.Abrupt)
			env.Add(c.coq(), c)
			return nil
		}
		if err := runServerProp(env, "C14", o, "Non-trivial: the handshake ended without a session (failed, aborted or callback error).", func(c *SCase) bool { return !hasState(c, "established") && (c.Obs.Closed || c.Obs.Ended) }); err != nil {
			return err
		}
		if env.Replay != "" {
			return nil
		}
		// a peer that sends one envelope that cannot start a session and vanishes at once, on every transport
		for _, kind := range []string{"inproc", "tcp", "ws"} {
			for _, first := range abruptFirsts {
				c := runAbrupt(kind, first)
				env.Add(c.coq(), c)
				env.Count("abrupt:" + kind)
				env.NonTrivial(kind + "/" + first)
			}
		}
		return nil
	})
}

// wrapCase, when set, wraps the printed script case in the property's own case constructor.
var wrapCase func(string) string

type abruptCase struct {
	Abrupt string `json:"abrupt"` // the state of the only envelope the peer sends
	Kind   string `json:"kind"`
	Est    int    `json:"est_cb"`
	Fin    int    `json:"fin_cb"`
	Ended  bool   `json:"ended"`
}

// "<state>" carries a session id, "<state>:noid" none (as a first envelope should)
var abruptFirsts = []string{"finishing", "established", "negotiating", "authenticating", "failed", "finished",
	"finishing:noid", "established:noid", "negotiating:noid", "authenticating:noid", "failed:noid", "finished:noid", "new:noid"}

func (c *abruptCase) coq() string {
	return coqfmt.App("KAbrupt", coqfmt.Nat(c.Est), coqfmt.Nat(c.Fin), coqfmt.Bool(c.Ended))
}

// runAbrupt serves one connection whose peer sends a single session envelope in the given state and closes
// at once, without waiting for anything.
func runAbrupt(kind, first string) *abruptCase {
	c := &abruptCase{Abrupt: first, Kind: kind}
	var est, fin int32
	cfg := lime.NewServerConfig()
	cfg.Node = serverNode
	cfg.SchemeOpts = []lime.AuthenticationScheme{lime.AuthenticationSchemeGuest}
	cfg.EncryptOpts = []lime.SessionEncryption{lime.SessionEncryptionNone}
	cfg.Authenticate = allowAll
	cfg.Established = func(string, *lime.ServerChannel) { atomic.AddInt32(&est, 1) }
	cfg.Finished = func(string) { atomic.AddInt32(&fin, 1) }
	var l lime.TransportListener
	var addr net.Addr
	switch kind {
	case "inproc":
		inprocMu.Lock()
		a := nextInprocAddr()
		inprocMu.Unlock()
		l, addr = lime.NewInProcessTransportListener(a), a
	case "tcp":
		a, _ := freeTCPAddr()
		l, addr = lime.NewTCPTransportListener(nil), a
	default:
		a, _ := freeTCPAddr()
		l, addr = lime.NewWebsocketTransportListener(nil), a
	}
	srv := lime.NewServer(cfg, &lime.EnvelopeMux{}, lime.NewBoundListener(l, addr))
	done := make(chan error, 1)
	go func() { done <- srv.ListenAndServe() }()
	ctx, cancel := context.WithTimeout(context.Background(), 5*time.Second)
	defer cancel()
	id, state := "x1", first
	if strings.HasSuffix(first, ":noid") {
		id, state = "", strings.TrimSuffix(first, ":noid")
	}
	ses := &lime.Session{Envelope: lime.Envelope{ID: id}, State: lime.SessionState(state)}
	switch kind {
	case "tcp":
		var conn net.Conn
		waitUntil(3*time.Second, func() bool {
			var err error
			conn, err = net.Dial("tcp", addr.String())
			return err == nil
		})
		if conn != nil {
			if id == "" {
				_, _ = conn.Write([]byte(fmt.Sprintf(`{"state":"%s"}`+"\n", state)))
			} else {
				_, _ = conn.Write([]byte(fmt.Sprintf(`{"id":"x1","state":"%s"}`+"\n", state)))
			}
			_ = conn.Close()
		}
	default:
		var t lime.Transport
		waitUntil(3*time.Second, func() bool {
			var err error
			if kind == "inproc" {
				t, err = lime.DialInProcess(addr.(lime.InProcessAddr), 4)
			} else {
				t, err = lime.DialWebsocket(ctx, "ws://"+addr.String(), nil, nil)
			}
			return err == nil
		})
		if t != nil {
			_ = t.Send(ctx, ses)
			_ = t.Close()
		}
	}
	// the serving goroutine was started, and then has to end (a TCP handshake notices within its poll interval)
	time.Sleep(5 * time.Millisecond)
	c.Ended = waitUntil(7*time.Second, func() bool { return servingGoroutines() == 0 })
	time.Sleep(2 * time.Millisecond)
	c.Est, c.Fin = int(atomic.LoadInt32(&est)), int(atomic.LoadInt32(&fin))
	for i := 0; i < 2000; i++ {
		if err := srv.Close(); err == nil || err.Error() != "server not listening" {
			break
		}
		time.Sleep(time.Millisecond)
	}
	select {
	case <-done:
	case <-time.After(8 * time.Second):
	}
	return c
}

type pipelinedCase struct {
	Pipelined bool   `json:"pipelined"`
	Clear     int    `json:"cleartext_identity"`
	Auths     []int  `json:"authenticated"`
	Est       int    `json:"established_for"` // 0 = no session established
	Note      string `json:"note,omitempty"`
}

func (c *pipelinedCase) coq() string {
	est := coqfmt.None
	if c.Est != 0 {
		est = coqfmt.Some(coqfmt.Nat(c.Est))
	}
	return coqfmt.App("KPipelined", coqfmt.Nat(c.Clear), coqfmt.Nats(c.Auths), est)
}

// runPipelined: a TLS-only server; the peer writes its selection of TLS and, in the same write (so in clear),
// an authenticating envelope for identity 2; it then completes the TLS handshake and authenticates as
// identity 1 under TLS.
func runPipelined() *pipelinedCase {
	c := &pipelinedCase{Pipelined: true, Clear: 2}
	conf := confsByName("tls-only")[0]
	oracle := &SOracle{Name: "everyone-is-a-member", Auth: []AuthRow{{1, "plain", ip(1), 0, "role"}, {2, "plain", ip(2), 0, "role"}}, Reg: []RegRow{}}
	srv := newScriptServer(conf, oracle)
	defer srv.Close()
	cmem, smem := memconn.Pipe(0)
	defer cmem.Close()
	defer smem.Close()
	sc, cc := testTLS()
	st := lime.NewTCPTransportOverConn(smem, true, &lime.TCPConfig{TLSConfig: sc})
	srv.mu.Lock()
	srv.calls = nil
	srv.round = map[string]int{}
	srv.cur = st
	srv.mu.Unlock()
	srv.l.ch <- st
	_ = cmem.SetDeadline(time.Now().Add(5 * time.Second))
	r := bufio.NewReader(cmem)
	readSes := func(rd *bufio.Reader) map[string]interface{} {
		line, err := rd.ReadBytes('\n')
		if err != nil {
			return nil
		}
		var m map[string]interface{}
		_ = json.Unmarshal(line, &m)
		return m
	}
	_, _ = cmem.Write([]byte(`{"state":"new"}` + "\n"))
	offer := readSes(r)
	if offer == nil {
		c.Note = "no offer"
		return c
	}
	sid, _ := offer["id"].(string)
	auth := func(n int) string {
		return fmt.Sprintf(`{"state":"authenticating","id":"%s","from":"%s","scheme":"plain","authentication":{"password":"%s"}}`,
			sid, clientNode(n), base64.StdEncoding.EncodeToString([]byte(fmt.Sprintf("c%d", n))))
	}
	// one segment: the selection, and behind it the credentials of identity 2, in clear
	_, _ = cmem.Write([]byte(fmt.Sprintf(`{"state":"negotiating","id":"%s","encryption":"tls","compression":"none"}`, sid) + "\n" + auth(2) + "\n"))
	if conf := readSes(r); conf == nil {
		c.Note = "no confirmation"
		return c
	}
	buffered, _ := r.Peek(r.Buffered())
	tc := tls.Client(&prefixConn{Conn: cmem, pre: append([]byte(nil), buffered...)}, cc)
	if err := tc.Handshake(); err != nil {
		c.Note = "tls handshake: " + err.Error()
	} else {
		tr := bufio.NewReader(tc)
		if m := readSes(tr); m != nil && m["state"] == "authenticating" {
			_, _ = tc.Write([]byte(auth(1) + "\n"))
			if e := readSes(tr); e != nil && e["state"] == "established" {
				if to, ok := e["to"].(string); ok && len(to) > 1 {
					// the registered node is r<100+from>
					n := tokenOfName(strings.SplitN(to, "@", 2)[0])
					if n >= 100 {
						n -= 100
					}
					c.Est = n
				}
			}
		}
	}
	time.Sleep(2 * time.Millisecond)
	srv.mu.Lock()
	for _, call := range srv.calls {
		if call.Kind == "auth" {
			c.Auths = append(c.Auths, call.From)
		}
	}
	srv.mu.Unlock()
	return c
}
