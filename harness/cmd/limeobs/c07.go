package main

import "fmt"

const hsHeader = "From Coq Require Import List String.\nImport ListNotations.\nOpen Scope string_scope.\nFrom Lime Require Import Base.Res Hs.Types Hs.Server Corr.HsServer "

const hsRule = "every client script up to the depth bound over a 24-letter alphabet (every session state, id absent/right/wrong, option choices offered/not offered/absent/unknown, schemes and credential classes, data envelope, undecodable input, EOF), extended breadth-first only while the connection is still served, x server configurations (option lists, TLS capability, scheme sets) x callback tables (role, unknown, round trips, callback errors, registration error), against a real Server over an injected in-memory TCP connection (TLS upgrades performed in place). "

func sentCount(c *SCase) int {
	n := 0
	for _, w := range c.Obs.Wire {
		if !w.Took {
			n++
		}
	}
	return n
}

func confsByName(names ...string) []*SConf {
	var out []*SConf
	for _, n := range names {
		for _, c := range serverConfs {
			if c.Name == n {
				out = append(out, c)
			}
		}
	}
	return out
}

// runServerProp is the common driver of the server-handshake properties.
func runServerProp(env *Env, prop string, o enumOpts, rule string, nontrivial func(c *SCase) bool) error {
	env.Header = hsHeader + "Corr." + prop + "."
	env.ShardSize = 250
	env.Rule = hsRule + rule + " Distinct by (configuration, callbacks, script)."
	var rc SCase
	if ok, err := env.ReplayDesc(&rc); err != nil {
		return err
	} else if ok {
		srv := newScriptServer(rc.Conf, rc.Oracle)
		defer srv.Close()
		c := &SCase{Conf: rc.Conf, Oracle: rc.Oracle, Script: rc.Script, Obs: srv.run(rc.Script)}
		env.Add(c.Coq(), c)
		return nil
	}
	enumerateServerScripts(env, o, func(c *SCase) {
		env.Add(c.Coq(), c)
		if nontrivial(c) {
			env.NonTrivial(c.Coq())
		}
		env.Count(fmt.Sprintf("server-envelopes=%d", sentCount(c)))
		if c.Obs.Closed {
			env.Count("closed")
		}
		if c.Obs.Note != "" {
			env.Count("note=" + c.Obs.Note)
		}
	})
	return nil
}

func hasState(c *SCase, st string) bool {
	for _, w := range c.Obs.Wire {
		if !w.Took && w.Ses.State == st {
			return true
		}
	}
	return false
}

func init() {
	register("C07", func(env *Env) error {
		o := enumOpts{confs: serverConfs[:env.Pick(6, len(serverConfs))], oracles: serverOracles[:env.Pick(2, 3)], alphabet: serverAlphabet, depth: env.Pick(3, 4)}
		return runServerProp(env, "C07", o, "Non-trivial: the server sent at least two session envelopes.", func(c *SCase) bool { return sentCount(c) >= 2 })
	})
	register("C03", func(env *Env) error {
		o := enumOpts{confs: confsByName("plain-only", "none-or-tls", "tls-only", "tls-first", "no-schemes", "gzip-only")[:env.Pick(4, 6)], oracles: serverOracles, alphabet: serverAlphabet, depth: env.Pick(3, 4)}
		return runServerProp(env, "C03", o, "Non-trivial: the authentication callback was invoked at least once.", func(c *SCase) bool {
			for _, x := range c.Obs.Calls {
				if x.Kind == "auth" {
					return true
				}
			}
			return false
		})
	})
	register("C09", func(env *Env) error {
		o := enumOpts{confs: confsByName("none-or-tls", "tls-first", "gzip-configured", "tls-only", "tls-handshake-fails", "tls-only-no-config", "tls-twice", "plain-only", "gzip-only", "tls-only-gzip-only", "no-enc-options"), oracles: serverOracles[:env.Pick(1, 3)], alphabet: serverAlphabet, depth: env.Pick(3, 4)}
		return runServerProp(env, "C09", o, "Non-trivial: a negotiation stage took place.", func(c *SCase) bool { return hasState(c, "negotiating") })
	})
	register("C10", func(env *Env) error {
		o := enumOpts{confs: confsByName("tls-only", "tls-twice", "tls-only-no-config", "tls-only-gzip-only", "tls-first", "tls-handshake-fails"), oracles: serverOracles[:env.Pick(2, 3)], alphabet: serverAlphabet, depth: env.Pick(3, 4)}
		return runServerProp(env, "C10", o, "Configurations here exclude 'none' (plus two controls that include it). Non-trivial: the server got past the first client envelope.", func(c *SCase) bool { return sentCount(c) >= 1 && len(c.Script) >= 2 })
	})
	register("C14", func(env *Env) error {
		o := enumOpts{confs: serverConfs[:env.Pick(6, len(serverConfs))], oracles: serverOracles[:env.Pick(2, 3)], alphabet: serverAlphabet, depth: env.Pick(3, 4)}
		return runServerProp(env, "C14", o, "Non-trivial: the handshake ended without a session (failed, aborted or callback error).", func(c *SCase) bool { return !hasState(c, "established") && (c.Obs.Closed || c.Obs.Ended) })
	})
}
