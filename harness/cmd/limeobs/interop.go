package main

// Both real roles at once: a real ClientChannel.EstablishSession against a real Server, over an in-memory TCP
// connection (with real in-place TLS upgrades) or the in-process transport.  What both ends hold afterwards is
// compared with the joint run of Models B and C (coq/Hs/Interop.v, coq/Corr/Interop.v).

import (
	"context"
	"fmt"
	"time"

	lime "github.com/takenet/lime-go"
	"verifharness/coqfmt"
)

type interopCase struct {
	Interop bool     `json:"interop_case"`
	Conf    *SConf   `json:"conf"`
	Oracle  *SOracle `json:"oracle"`
	CConf   *CConf   `json:"client"`
	Built   string   `json:"built_server,omitempty"` // the server was made by a ServerBuilder: name of the recipe
	Ident   int      `json:"client_identity"`
	// observation
	Out       string `json:"client_out"` // ret:<state> err blocked panic
	ErrText   string `json:"client_err,omitempty"`
	SrvEst    bool   `json:"server_established_callback"`
	SidEq     bool   `json:"same_session_id"`
	SrvRemote int    `json:"server_remote_node"`
	CliLocal  int    `json:"client_local_node"`
	CliRemote int    `json:"client_remote_node"`
	SrvEnc    string `json:"server_encryption"`
	CliEnc    string `json:"client_encryption"`
}

func (c *interopCase) coq() string {
	out := "IErr"
	switch {
	case len(c.Out) > 4 && c.Out[:4] == "ret:":
		out = coqfmt.App("IRet", coqState(c.Out[4:]))
	case c.Out == "blocked":
		out = "IBlocked"
	case c.Out == "panic":
		out = "IPanic"
	}
	sconf := c.Conf.Coq()
	oracle := coqfmt.Record("o_auth", coqfmt.App("auth_of", c.Oracle.coqAuth()), "o_reg", coqfmt.App("reg_of", c.Oracle.coqReg()))
	if c.Built != "" {
		for _, spec := range builtSpecs {
			if spec.name == c.Built {
				ops := make([]string, len(spec.ops))
				for i, o := range spec.ops {
					ops[i] = o.Coq()
				}
				kind := coqKind(c.Conf.Kind)
				sconf = coqfmt.App("built_conf", coqfmt.List(ops), kind, coqfmt.Bool(true))
				oracle = coqfmt.App("built_oracle", coqfmt.List(ops))
			}
		}
	}
	return "(KInterop " + coqfmt.Record("i_sconf", sconf, "i_oracle", oracle,
		"i_cdesc", c.CConf.Coq(), "i_ident", coqfmt.Nat(c.Ident), "i_wire", coqfmt.Bool(c.Conf.Kind != "inproc"), "i_snode", coqfmt.Nat(tokenOfName(serverNode.Name)),
		"i_out", out, "i_srv_est", coqfmt.Bool(c.SrvEst), "i_sid_eq", coqfmt.Bool(c.SidEq),
		"i_srv_remote", coqfmt.Nat(c.SrvRemote), "i_cli_local", coqfmt.Nat(c.CliLocal), "i_cli_remote", coqfmt.Nat(c.CliRemote),
		"i_srv_enc", coqfmt.Str(c.SrvEnc), "i_cli_enc", coqfmt.Str(c.CliEnc)) + ")"
}

// runInterop plays one handshake between a real client channel and the scriptServer's real Server.
func (s *scriptServer) runInterop(cconf *CConf, ident int) *interopCase {
	c := &interopCase{Interop: true, Conf: s.conf, Oracle: s.oracle, CConf: cconf, Ident: ident}
	ct, st, pair, err := TransportPair(s.conf.Kind, 4)
	if err != nil {
		if pair != nil {
			pair.Close()
		}
		c.Out = "setup:" + err.Error()
		return c
	}
	cleanup := func() { pair.Close() }
	s.mu.Lock()
	s.calls = nil
	s.round = map[string]int{}
	s.cur = st
	s.estRemote = 0
	s.mu.Unlock()
	s.l.ch <- st

	cc := lime.NewClientChannel(ct, 4)
	type ret struct {
		ses *lime.Session
		err error
		pan interface{}
	}
	done := make(chan ret, 1)
	ctx, cancel := context.WithTimeout(context.Background(), 1500*time.Millisecond*slack)
	go func() {
		var r ret
		defer func() {
			if p := recover(); p != nil {
				r.pan = p
			}
			done <- r
		}()
		csel, esel, au := cconf.callbacks()
		r.ses, r.err = cc.EstablishSession(ctx, csel, esel, lime.ParseNode(clientNode(ident)).Identity, au, "i1")
	}()
	r := <-done
	deadline := ctx.Err() != nil
	cancel()
	switch {
	case r.pan != nil:
		c.Out = "panic"
		c.ErrText = fmt.Sprint(r.pan)
	case r.err != nil && deadline:
		c.Out = "blocked"
		c.ErrText = r.err.Error()
	case r.err != nil:
		c.Out = "err"
		c.ErrText = r.err.Error()
	default:
		c.Out = "ret:" + string(r.ses.State)
	}
	est := func() bool {
		s.mu.Lock()
		defer s.mu.Unlock()
		for _, x := range s.calls {
			if x.Kind == "est" {
				return true
			}
		}
		return false
	}
	if c.Out == "ret:established" {
		// the server's callback runs right after it wrote the envelope the client has just read
		waitUntil(500*time.Millisecond, est)
	} else {
		// give a server that is about to decide the time to do so
		waitUntil(20*time.Millisecond, func() bool { return est() })
	}
	c.SrvEst = est()
	s.mu.Lock()
	c.SrvRemote = s.estRemote
	sid := s.estSID
	s.mu.Unlock()
	c.SidEq = c.SrvEst && sid == cc.ID()
	c.CliLocal = tokOfNode(cc.LocalNode())
	c.CliRemote = tokOfNode(cc.RemoteNode())
	c.SrvEnc = string(st.Encryption())
	c.CliEnc = string(ct.Encryption())
	_ = cc.Close()
	_ = ct.Close()
	// the server-side transport belongs to the Server, which closes it itself: closing it from here as well would
	// race with that (Transport.Close is not meant to be called from two goroutines)
	pair.ST = nil
	cleanup() // (the listener the pair came from goes too)
	waitUntil(time.Second*slack, func() bool { return servingGoroutines() == 0 })
	return c
}

var interopClientConfs = func() []*CConf {
	var out []*CConf
	for _, comp := range []string{"none", "first"} {
		for _, enc := range []string{"none", "default", "first", "tls"} {
			for _, au := range []string{"guest", "plain1", "byround"} {
				out = append(out, &CConf{Name: comp + "/" + enc + "/" + au, CompSel: comp, EncSel: enc, Auth: au, TLSOk: true})
			}
		}
	}
	return out
}()

func interopServerConfs() []*SConf {
	var out []*SConf
	for _, c := range serverConfs {
		if !c.TLSOk {
			continue // both ends are real here: the TLS handshake succeeds
		}
		out = append(out, c)
		ip := *c
		ip.Name = c.Name + "-inproc"
		ip.Kind = "inproc"
		out = append(out, &ip)
	}
	// real sockets: WebSocket (never negotiates an encryption change) and TCP through the kernel
	for _, name := range []string{"plain-only", "none-or-tls", "tls-only", "tls-first"} {
		for _, kind := range []string{"ws", "wss", "tcptls"} {
			for _, c := range confsByName(name) {
				x := *c
				x.Name = c.Name + "-" + kind
				x.Kind = kind
				out = append(out, &x)
			}
		}
	}
	return out
}

// addInteropCases: every fitting and non-fitting pair of the harness's server and client configurations.
func addInteropCases(env *Env, each func(c *interopCase)) {
	confs := interopServerConfs()
	oracles := []*SOracle{serverOracles[0], serverOracles[2]} // accepted at once; accepted after two round trips
	if env.Thorough() {
		oracles = serverOracles
	}
	for ci, conf := range confs {
		for _, oracle := range oracles {
			srv := newScriptServer(conf, oracle)
			for k, cc0 := range interopClientConfs {
				if env.Tier == "quick" && (k+ci)%2 == 1 {
					continue
				}
				cc := *cc0
				cc.Kind = conf.Kind
				c := srv.runInterop(&cc, 1)
				each(c)
			}
			srv.Close()
		}
	}
	// servers made by a real ServerBuilder against clients made by a real ClientBuilder
	for _, spec := range builtSpecs {
		srv := newBuiltServer(spec, true)
		for k, ops := range interopBuiltClients {
			for _, ident := range []int{1, 50} {
				if env.Tier == "quick" && ident == 50 && k%2 == 1 {
					continue
				}
				cc := &CConf{Name: fmt.Sprintf("built-client-%d", k), Kind: spec.conn, TLSOk: true, Builder: ops}
				c := srv.runInterop(cc, ident)
				c.Built = spec.name
				each(c)
			}
		}
		srv.Close()
	}
}

// ClientBuilder call sequences; the servers' authenticators (builder.go: userFn) accept a secret equal to the
// identity token, ask for one round trip when it is one more, fail when it is two more, and reject anything else
var interopBuiltClients = [][]KOp{
	{{Op: "guest"}},
	{{Op: "plain", N: 1}},
	{{Op: "plain", N: 50}},
	{{Op: "plain", N: 2}},
	{{Op: "plain", N: 3}},
	{{Op: "plain", N: 9}},
	{{Op: "key", N: 1}},
	{{Op: "key", N: 51}},
	{{Op: "external", N: 1}},
	{{Op: "transport"}},
	{{Op: "enc", Arg: "tls"}, {Op: "plain", N: 1}},
	{{Op: "enc", Arg: "none"}, {Op: "plain", N: 1}},
	{{Op: "enc", Arg: "none"}, {Op: "comp", Arg: "none"}, {Op: "guest"}},
	{{Op: "comp", Arg: "gzip"}, {Op: "plain", N: 1}},
	{{Op: "plain", N: 9}, {Op: "enc", Arg: "none"}, {Op: "key", N: 50}, {Op: "enc", Arg: "tls"}},
}

// coqKind: Hs/Types.v tkind of a harness transport kind
func coqKind(kind string) string {
	switch kind {
	case "memtls", "tcptls":
		return "(TTcp true)"
	case "ws":
		return "(TWs false)"
	case "wss":
		return "(TWs true)"
	case "inproc":
		return "TInproc"
	case "multi":
		return "TMulti"
	}
	return "(TTcp false)"
}

// replayInterop re-runs the both-real-roles case of a replay file, if that is what the file holds.
func replayInterop(env *Env, prop string) bool {
	var ri interopCase
	if ok, _ := env.ReplayDesc(&ri); !ok || !ri.Interop {
		return false
	}
	env.Header = hsHeader + "Hs.ClientBuilder Hs.Builder Corr.Builder Corr.Interop Corr." + prop + "."
	var srv *scriptServer
	if ri.Built != "" {
		for _, spec := range builtSpecs {
			if spec.name == ri.Built {
				srv = newBuiltServer(spec, true)
			}
		}
	}
	if srv == nil {
		srv = newScriptServer(ri.Conf, ri.Oracle)
	}
	defer srv.Close()
	c := srv.runInterop(ri.CConf, ri.Ident)
	c.Built = ri.Built
	env.Add(c.coq(), c)
	return true
}
