package main

// C15: every context-taking blocking operation against a silent / non-reading
// peer, with a context that ends at a known time (deadline or cancellation), or
// with the awaited event happening at a known time; the return time is measured.

import (
	"bufio"
	"context"
	"crypto/tls"
	"errors"
	"fmt"
	"io"
	"net"
	"strings"
	"sync"
	"time"

	lime "github.com/takenet/lime-go"
	"verifharness/coqfmt"
	"verifharness/memconn"
)

type c15Case struct {
	Kind  string `json:"kind"` // mem tcp ws inproc
	Op    string `json:"op"`   // send receive accept channelsend process establish tls clientfinish serverfinish
	Ctx   string `json:"ctx"`  // deadline cancel
	CtxMs int    `json:"ctx_ms"`
	EvMs  int    `json:"ev_ms"` // -1 = the peer never does what is awaited
	// Full (send): the socket buffers are filled beforehand (through the connection under the transport), so that a small
	// envelope blocks at its first byte - also under a context that is already over when Send is called (CtxMs 0)
	Full bool `json:"full,omitempty"`
	// observed
	Phase    int    `json:"phase_ms"`
	Returned bool   `json:"returned"`
	Ms       int    `json:"ms"`
	CtxErr   bool   `json:"ctx_err"`
	ErrText  string `json:"err,omitempty"`
	Note     string `json:"note,omitempty"`
	// Class / Symptom only serve the matching of known_findings.json (the verdict is computed inside Coq)
	Class   string `json:"class,omitempty"`
	Symptom string `json:"symptom,omitempty"`
}

// classify tags the one recorded finding: a server FinishSession over TCP whose send was ended by the
// context still waits for its own receiver's current poll before it returns.
func (c *c15Case) classify() {
	if c.Op == "serverfinish" && (c.Kind == "mem" || c.Kind == "tcp") {
		c.Class = "server-finish-over-tcp"
		if c.Returned && c.CtxErr && c.Ms <= c.CtxMs+2*5000+450 {
			c.Symptom = "returns-after-its-own-receiver-poll"
		}
	}
}

func (c *c15Case) coq() string {
	kinds := map[string]string{"mem": "KTcp", "memtr": "KTcp", "tcp": "KTcp", "tcptls": "KTcp", "ws": "KWs", "inproc": "KInproc"}
	ops := map[string]string{"send": "OpSend", "receive": "OpReceive", "accept": "OpAccept", "channelsend": "OpChannelSend",
		"process": "OpProcessCommand", "establish": "OpEstablish", "tls": "OpTlsUpgrade", "clientfinish": "OpClientFinish",
		"serverfinish": "OpServerFinish"}
	ctx := coqfmt.App("CDeadline", coqfmt.Z(int64(c.CtxMs)))
	if c.Ctx == "cancel" {
		ctx = coqfmt.App("CCancel", coqfmt.Z(int64(c.CtxMs)))
	}
	ev := coqfmt.None
	if c.EvMs >= 0 {
		ev = coqfmt.Some(coqfmt.Z(int64(c.EvMs)))
	}
	return coqfmt.Record("k_kind", kinds[c.Kind], "k_op", ops[c.Op], "k_ctx", ctx, "k_ev", ev,
		"k_phase", coqfmt.Z(int64(c.Phase)), "k_tls", coqfmt.Bool(c.Kind == "tcptls"), "o_returned", coqfmt.Bool(c.Returned), "o_ms", coqfmt.Z(int64(c.Ms)),
		"o_ctxerr", coqfmt.Bool(c.CtxErr))
}

func bigMessage(n int) *lime.Message {
	m := &lime.Message{Envelope: lime.Envelope{ID: "big"}}
	m.SetContent(lime.TextDocument(strings.Repeat("x", n)))
	return m
}

// rawPair returns a client transport of the given kind whose peer end is handed to the caller:
// the peer neither reads nor writes unless the caller makes it.
type c15Peer struct {
	mem  *memconn.Conn
	raw  net.Conn
	tr   lime.Transport
	stop []func()
}

func (p *c15Peer) close() {
	for _, f := range p.stop {
		f()
	}
}

func c15Transports(kind string) (lime.Transport, *c15Peer, error) {
	p := &c15Peer{}
	ctx, cancel := context.WithTimeout(context.Background(), 5*time.Second)
	defer cancel()
	switch kind {
	case "mem", "memtr":
		c, s := memconn.Pipe(4096)
		p.mem = s
		p.stop = append(p.stop, func() { _ = c.Close(); _ = s.Close() })
		var cfg *lime.TCPConfig
		if kind == "memtr" {
			// with a trace writer configured (the reader and writer are wrapped once more)
			cfg = &lime.TCPConfig{TraceWriter: &discardTrace{w: io.Discard}}
		}
		return lime.NewTCPTransportOverConn(c, false, cfg), p, nil
	case "tcp":
		ln, err := net.Listen("tcp", "127.0.0.1:0")
		if err != nil {
			return nil, nil, err
		}
		acc := make(chan net.Conn, 1)
		go func() { c, _ := ln.Accept(); acc <- c }()
		// a real socket with small buffers, so that a peer that does not read blocks the writer soon
		rc, err := net.Dial("tcp", ln.Addr().String())
		if err != nil {
			return nil, nil, err
		}
		_ = rc.(*net.TCPConn).SetWriteBuffer(16 << 10)
		t := lime.NewTCPTransportOverConn(rc, false, nil)
		p.raw = <-acc
		_ = p.raw.(*net.TCPConn).SetReadBuffer(16 << 10)
		p.stop = append(p.stop, func() { _ = ln.Close(); _ = p.raw.Close(); _ = t.Close() })
		return t, p, nil
	case "tcptls":
		// as "tcp", upgraded to TLS in place before the measured operation; the peer completes the handshake and
		// then never reads
		ln, err := net.Listen("tcp", "127.0.0.1:0")
		if err != nil {
			return nil, nil, err
		}
		acc := make(chan net.Conn, 1)
		go func() { c, _ := ln.Accept(); acc <- c }()
		rc, err := net.Dial("tcp", ln.Addr().String())
		if err != nil {
			return nil, nil, err
		}
		_ = rc.(*net.TCPConn).SetWriteBuffer(16 << 10)
		sc, cc := testTLS()
		t := lime.NewTCPTransportOverConn(rc, false, &lime.TCPConfig{TLSConfig: cc})
		p.raw = <-acc
		_ = p.raw.(*net.TCPConn).SetReadBuffer(16 << 10)
		hs := make(chan error, 1)
		go func() { hs <- tls.Server(p.raw, sc).HandshakeContext(ctx) }()
		if err := t.SetEncryption(ctx, lime.SessionEncryptionTLS); err != nil {
			return nil, nil, err
		}
		if err := <-hs; err != nil {
			return nil, nil, err
		}
		p.stop = append(p.stop, func() { _ = ln.Close(); _ = p.raw.Close(); _ = t.Close() })
		return t, p, nil
	case "ws":
		l := lime.NewWebsocketTransportListener(nil)
		addr, err := freeTCPAddr()
		if err != nil {
			return nil, nil, err
		}
		if err := l.Listen(ctx, addr); err != nil {
			return nil, nil, err
		}
		var t lime.Transport
		for i := 0; i < 100; i++ {
			t, err = lime.DialWebsocket(ctx, "ws://"+addr.String(), nil, nil)
			if err == nil {
				break
			}
			time.Sleep(10 * time.Millisecond)
		}
		if err != nil {
			return nil, nil, err
		}
		st, err := l.Accept(ctx)
		if err != nil {
			return nil, nil, err
		}
		p.tr = st
		p.stop = append(p.stop, func() { _ = l.Close() })
		return t, p, nil
	default:
		inprocMu.Lock()
		addr := nextInprocAddr()
		inprocMu.Unlock()
		l := lime.NewInProcessTransportListener(addr)
		if err := l.Listen(ctx, addr); err != nil {
			return nil, nil, err
		}
		t, err := lime.DialInProcess(addr, 1)
		if err != nil {
			return nil, nil, err
		}
		st, err := l.Accept(ctx)
		if err != nil {
			return nil, nil, err
		}
		p.tr = st
		p.stop = append(p.stop, func() { _ = l.Close() })
		return t, p, nil
	}
}

// c15Ctx builds the context of the measured operation; t0 is the start of the operation.
func c15Ctx(c *c15Case) (context.Context, context.CancelFunc) {
	d := time.Duration(c.CtxMs) * time.Millisecond
	if c.Ctx == "deadline" {
		return context.WithTimeout(context.Background(), d)
	}
	ctx, cancel := context.WithCancel(context.Background())
	timer := time.AfterFunc(d, cancel)
	return ctx, func() { timer.Stop(); cancel() }
}

// measure runs op and waits for it (patience: 13 s).
func (c *c15Case) measure(op func(ctx context.Context) error) {
	ctx, cancel := c15Ctx(c)
	defer cancel()
	done := make(chan error, 1)
	t0 := time.Now()
	go func() { done <- op(ctx) }()
	select {
	case err := <-done:
		c.Returned = true
		c.Ms = int(time.Since(t0) / time.Millisecond)
		if err != nil {
			c.CtxErr = errors.Is(err, context.DeadlineExceeded) || errors.Is(err, context.Canceled) ||
				strings.Contains(err.Error(), "context deadline exceeded") || strings.Contains(err.Error(), "context canceled")
			c.ErrText = err.Error()
			if len(c.ErrText) > 160 {
				c.ErrText = c.ErrText[:160]
			}
		}
	case <-time.After(13 * time.Second):
		c.Returned = false
		c.Ms = 13000
	}
}

// established builds an established pair whose server side is a bare ServerChannel (nothing
// answers on its own) - the peer of the measured operation.
func c15Pair(kind string, buf int) (*Pair, error) {
	k := kind
	if kind == "mem" {
		k = "mem"
	}
	return EstablishedPair(k, buf)
}

func (c *c15Case) run() {
	switch c.Op {
	case "send", "receive":
		t, p, err := c15Transports(c.Kind)
		if err != nil {
			c.Note = err.Error()
			return
		}
		defer p.close()
		if c.Op == "send" {
			size := 64 << 10
			if c.Kind == "tcp" {
				size = 2 << 20 // beyond what the (shrunk) socket buffers of both ends can hold
			}
			if c.Kind == "ws" {
				size = 16 << 20 // the socket buffers are the system's defaults here
			}
			if c.Kind == "inproc" {
				// fill the peer's queue (capacity 1), then one more
				_ = t.Send(context.Background(), &lime.Session{State: lime.SessionStateNew})
				size = 16
			}
			if c.Kind == "tcptls" {
				size = 2 << 20
			}
			if c.Full {
				if raw := lime.VerifWebsocketConn(t); raw != nil {
					chunk := make([]byte, 64<<10)
					filled := 0
					for i := 0; i < 4096; i++ {
						_ = raw.SetWriteDeadline(time.Now().Add(150 * time.Millisecond))
						n, err := raw.Write(chunk)
						filled += n
						if err != nil {
							break
						}
					}
					_ = raw.SetWriteDeadline(time.Time{})
					c.Note = fmt.Sprintf("filled %d bytes", filled)
					size = 512 << 10
				} else {
					c.Note = "no connection to fill"
				}
			}
			m := bigMessage(size)
			c.measure(func(ctx context.Context) error { return t.Send(ctx, m) })
		} else {
			if c.EvMs >= 0 {
				// the peer sends an envelope at the given time
				go func() {
					time.Sleep(time.Duration(c.EvMs) * time.Millisecond)
					line := `{"state":"new"}` + "\n"
					switch {
					case p.mem != nil:
						_, _ = p.mem.Write([]byte(line))
					case p.raw != nil:
						_, _ = p.raw.Write([]byte(line))
					default:
						_ = p.tr.Send(context.Background(), &lime.Session{State: lime.SessionStateNew})
					}
				}()
			}
			c.measure(func(ctx context.Context) error { _, err := t.Receive(ctx); return err })
		}
	case "accept":
		var l lime.TransportListener
		var addr net.Addr
		switch c.Kind {
		case "tcp":
			a, _ := freeTCPAddr()
			l, addr = lime.NewTCPTransportListener(nil), a
		case "ws":
			a, _ := freeTCPAddr()
			l, addr = lime.NewWebsocketTransportListener(nil), a
		default:
			inprocMu.Lock()
			a := nextInprocAddr()
			inprocMu.Unlock()
			l, addr = lime.NewInProcessTransportListener(a), a
		}
		if err := l.Listen(context.Background(), addr); err != nil {
			c.Note = err.Error()
			return
		}
		defer l.Close()
		c.measure(func(ctx context.Context) error { _, err := l.Accept(ctx); return err })
	case "tls":
		t, p, err := c15Transports(c.Kind)
		if err != nil {
			c.Note = err.Error()
			return
		}
		defer p.close()
		_, cc := testTLS()
		var tt lime.Transport
		if c.Kind == "mem" {
			cm, sm := memconn.Pipe(0)
			defer cm.Close()
			defer sm.Close()
			go func() { // a peer that swallows the client hello and says nothing
				buf := make([]byte, 4096)
				for {
					if _, err := sm.Read(buf); err != nil {
						return
					}
				}
			}()
			tt = lime.NewTCPTransportOverConn(cm, false, &lime.TCPConfig{TLSConfig: cc})
		} else {
			_ = t
			ln, err := net.Listen("tcp", "127.0.0.1:0")
			if err != nil {
				c.Note = err.Error()
				return
			}
			defer ln.Close()
			go func() {
				s, err := ln.Accept()
				if err != nil {
					return
				}
				_, _ = bufio.NewReader(s).ReadByte()
				select {}
			}()
			tt, err = lime.DialTcp(context.Background(), ln.Addr(), &lime.TCPConfig{TLSConfig: cc})
			if err != nil {
				c.Note = err.Error()
				return
			}
		}
		c.measure(func(ctx context.Context) error { return tt.SetEncryption(ctx, lime.SessionEncryptionTLS) })
	case "establish":
		t, p, err := c15Transports(c.Kind)
		if err != nil {
			c.Note = err.Error()
			return
		}
		defer p.close()
		if p.mem != nil {
			go func() { // reads what the client writes, never answers
				buf := make([]byte, 4096)
				for {
					if _, err := p.mem.Read(buf); err != nil {
						return
					}
				}
			}()
		}
		cc := lime.NewClientChannel(t, 1)
		c.measure(func(ctx context.Context) error {
			_, err := cc.EstablishSession(ctx, lime.NoneCompressionSelector, lime.NoneEncryptionSelector,
				lime.Identity{Name: "cli", Domain: "verif.test"}, lime.GuestAuthenticator, "i1")
			return err
		})
	case "process", "clientfinish", "channelsend", "serverfinish":
		k := c.Kind
		if k == "mem" && (c.Op == "channelsend" || c.Op == "serverfinish") {
			k = "memb"
		}
		p, err := EstablishedPair(k, 1)
		if err != nil {
			c.Note = err.Error()
			return
		}
		established := time.Now()
		defer p.Close()
		switch c.Op {
		case "process":
			// the peer receives the request (its receiver runs) and never answers
			uri, _ := lime.ParseLimeURI("/c15")
			req := &lime.RequestCommand{Command: lime.Command{Envelope: lime.Envelope{ID: "q1"}, Method: lime.CommandMethodGet}, URI: uri}
			c.measure(func(ctx context.Context) error { _, err := p.Client.ProcessCommand(ctx, req); return err })
		case "clientfinish":
			// the bare server channel does not answer the finishing envelope
			c.measure(func(ctx context.Context) error { _, err := p.Client.FinishSession(ctx); return err })
		case "channelsend", "serverfinish":
			// the client consumes nothing: its receiver stops reading once its stream is full, and then the
			// connection's buffers fill up.  The connection is filled below the library (raw envelopes written
			// straight to the server's end of the connection), so that the transport under test is untouched
			size := 3000
			line := []byte(`{"id":"fill","type":"text/plain","content":"` + strings.Repeat("x", 1500) + `"}` + "\n")
			blocked := false
			switch {
			case p.MemS != nil:
				for i := 0; i < 200 && !blocked; i++ {
					_ = p.MemS.SetWriteDeadline(time.Now().Add(100 * time.Millisecond))
					_, err := p.MemS.Write(line)
					blocked = err != nil
				}
				_ = p.MemS.SetWriteDeadline(time.Time{})
			default:
				// in-process: the peer's queue has one slot
				for i := 0; i < 8 && !blocked; i++ {
					fctx, fc := context.WithTimeout(context.Background(), 100*time.Millisecond)
					err := p.Server.SendMessage(fctx, bigMessage(16))
					fc()
					blocked = err != nil
				}
			}
			if !blocked {
				c.Note = "could not fill the connection"
			}
			if c.Op == "channelsend" {
				c.measure(func(ctx context.Context) error { return p.Server.SendMessage(ctx, bigMessage(size)) })
			} else {
				if k == "memb" || k == "tcp" {
					since := time.Since(established) % (5 * time.Second)
					c.Phase = int((5*time.Second - since) / time.Millisecond)
				}
				c.measure(func(ctx context.Context) error { return p.Server.FinishSession(ctx) })
			}
		}
	}
}

func runC15(env *Env) error {
	env.Header = "From Coq Require Import ZArith List Bool.\nImport ListNotations.\nFrom Lime Require Import Base.Res Life.Timing Corr.C15.\n"
	env.ShardSize = 200
	env.Rule = "every context-taking operation (transport Send/Receive, listener Accept, channel send, ProcessCommand, client EstablishSession, TLS upgrade, client and server FinishSession) x transports (TCP over an in-memory connection and over loopback, TCP upgraded to TLS, TCP with a trace writer configured, WebSocket - also with socket buffers filled beforehand and a context already over on entry -, in-process) x peer silent / not reading with full buffers / answering at a known time x deadline or cancellation at 250-400 ms; the return time is measured. Non-trivial: the peer never does what is awaited (the context has to end the operation). Distinct by printed case."
	var rc c15Case
	if ok, err := env.ReplayDesc(&rc); err != nil {
		return err
	} else if ok {
		c := &c15Case{Kind: rc.Kind, Op: rc.Op, Ctx: rc.Ctx, CtxMs: rc.CtxMs, EvMs: rc.EvMs, Full: rc.Full}
		c.run()
		c.classify()
		env.Add(c.coq(), c)
		return nil
	}
	var cases []*c15Case
	add := func(kind, op string) {
		for _, cx := range []string{"deadline", "cancel"} {
			ms := 250 + 50*env.Rng.Intn(4)
			if kind == "ws" && op == "send" {
				ms += 600 // encoding the large envelope takes a while; the context must end while the write is blocked
			}
			cases = append(cases, &c15Case{Kind: kind, Op: op, Ctx: cx, CtxMs: ms, EvMs: -1})
		}
	}
	for _, k := range []string{"mem", "tcp", "ws", "inproc"} {
		add(k, "send")
		add(k, "receive")
		add(k, "process")
		add(k, "clientfinish")
		add(k, "establish")
	}
	for _, k := range []string{"tcp", "ws", "inproc"} {
		add(k, "accept")
	}
	add("mem", "tls")
	add("tcp", "tls")
	add("tcptls", "send")
	add("tcptls", "receive")
	add("memtr", "send")
	add("memtr", "receive")
	// WebSocket Send with the socket buffers already full: a context that is over on entry, a deadline, a cancellation
	cases = append(cases, &c15Case{Kind: "ws", Op: "send", Ctx: "deadline", CtxMs: 0, EvMs: -1, Full: true},
		&c15Case{Kind: "ws", Op: "send", Ctx: "deadline", CtxMs: 300, EvMs: -1, Full: true},
		&c15Case{Kind: "ws", Op: "send", Ctx: "cancel", CtxMs: 300, EvMs: -1, Full: true})
	for _, k := range []string{"mem", "inproc"} {
		add(k, "channelsend")
		add(k, "serverfinish")
	}
	// the awaited event happens before the context ends
	for _, k := range []string{"mem", "tcp", "ws", "inproc"} {
		cases = append(cases, &c15Case{Kind: k, Op: "receive", Ctx: "deadline", CtxMs: 600, EvMs: 150},
			&c15Case{Kind: k, Op: "receive", Ctx: "cancel", CtxMs: 600, EvMs: 200})
	}
	if env.Thorough() {
		// contexts that end after one or more poll intervals
		for _, ms := range []int{5300, 7400} {
			cases = append(cases, &c15Case{Kind: "mem", Op: "receive", Ctx: "deadline", CtxMs: ms, EvMs: -1},
				&c15Case{Kind: "mem", Op: "send", Ctx: "cancel", CtxMs: ms, EvMs: -1},
				&c15Case{Kind: "tcp", Op: "receive", Ctx: "cancel", CtxMs: ms, EvMs: -1})
		}
	}
	var wg sync.WaitGroup
	sem := make(chan struct{}, 24)
	heavy := func(c *c15Case) bool { return c.Kind == "ws" && c.Op == "send" }
	for _, c := range cases {
		if heavy(c) {
			continue
		}
		wg.Add(1)
		sem <- struct{}{}
		go func(c *c15Case) {
			defer wg.Done()
			defer func() { <-sem }()
			defer func() {
				if p := recover(); p != nil {
					c.Note = fmt.Sprintf("panic: %v", p)
				}
			}()
			c.run()
		}(c)
	}
	wg.Wait()
	// the cases that burn CPU (encoding megabytes) run afterwards, one at a time, so that they do not
	// disturb the measurement of the others
	for _, c := range cases {
		if heavy(c) {
			c.run()
		}
	}
	for _, c := range cases {
		c.classify()
		env.Add(c.coq(), c)
		env.Count("op=" + c.Op)
		env.Count("transport=" + c.Kind)
		env.Count("ctx=" + c.Ctx)
		if c.EvMs < 0 {
			env.NonTrivial(fmt.Sprintf("%s/%s/%s", c.Kind, c.Op, c.Ctx))
		}
	}
	return nil
}

func init() { register("C15", runC15) }
