package main

import (
	"fmt"
)

func ip(n int) *int { return &n }

func ses(id, state, enc, comp, scheme string, cred *int) CIn {
	return CIn{Kind: "ses", Ses: &CSes{ID: id, State: state, Enc: enc, Comp: comp, Scheme: scheme, Cred: cred, From: 1}}
}

// the client alphabet: every session state, id variant, option choice, scheme and
// credential class that the handshake distinguishes, plus non-session input, garbage and EOF
var serverAlphabet = []CIn{
	ses("", "new", "", "", "", nil),                        // 0 a fresh new session
	ses("wrong", "new", "", "", "", nil),                   // 1 new with an id
	ses("SID", "negotiating", "none", "none", "", nil),     // 2
	ses("SID", "negotiating", "tls", "none", "", nil),      // 3
	ses("SID", "negotiating", "none", "gzip", "", nil),     // 4 compression never offered
	ses("SID", "negotiating", "", "", "", nil),             // 5 options absent
	ses("wrong", "negotiating", "none", "none", "", nil),   // 6 wrong id
	ses("SID", "negotiating", "rot13", "none", "", nil),    // 7 unknown option
	ses("SID", "authenticating", "", "", "guest", ip(0)),   // 8
	ses("SID", "authenticating", "", "", "plain", ip(1)),   // 9
	ses("SID", "authenticating", "", "", "plain", ip(2)),   // 10
	ses("SID", "authenticating", "", "", "key", ip(1)),     // 11
	ses("SID", "authenticating", "", "", "plain", nil),     // 12 scheme without credentials
	ses("wrong", "authenticating", "", "", "plain", ip(1)), // 13
	ses("SID", "authenticating", "", "", "", nil),          // 14 no scheme
	ses("", "authenticating", "", "", "plain", ip(1)),      // 15 id absent
	ses("SID", "established", "", "", "", nil),             // 16
	ses("SID", "finishing", "", "", "", nil),               // 17
	ses("SID", "new", "", "", "", nil),                     // 18 new again
	ses("SID", "failed", "", "", "", nil),                  // 19
	ses("", "authenticating", "", "", "guest", ip(0)),      // 20 skips straight to authentication
	{Kind: "data"},              // 21
	{Kind: "bad"},               // 22
	{Kind: "eof"},               // 23
	{Kind: "data", Sub: "ping"}, // 24 a ping request command (servers often auto-reply these)
	{Kind: "data", Sub: "not"},
	// an authentication member that is an empty object: the peer presents the scheme but no secret (token 9999)
	ses("SID", "authenticating", "", "", "plain", ip(9999)), // 25
	// a data envelope that the decoder rejects (a message without a type): the transport reports an error
	{Kind: "bad", Sub: "msg-no-type"},
}

var serverConfs = []*SConf{
	{Name: "plain-only", Comp: []string{"none"}, Enc: []string{"none"}, Schemes: []string{"plain", "guest"}, Kind: "mem", TLSOk: true},
	{Name: "none-or-tls", Comp: []string{"none"}, Enc: []string{"none", "tls"}, Schemes: []string{"plain", "key", "guest"}, Kind: "memtls", TLSOk: true},
	{Name: "tls-only", Comp: []string{"none"}, Enc: []string{"tls"}, Schemes: []string{"plain"}, Kind: "memtls", TLSOk: true},
	{Name: "tls-only-no-config", Comp: []string{"none"}, Enc: []string{"tls"}, Schemes: []string{"plain"}, Kind: "mem", TLSOk: true},
	{Name: "tls-first", Comp: []string{"none"}, Enc: []string{"tls", "none"}, Schemes: []string{"guest", "plain"}, Kind: "memtls", TLSOk: true},
	{Name: "gzip-configured", Comp: []string{"none", "gzip"}, Enc: []string{"none", "tls"}, Schemes: []string{"plain"}, Kind: "mem", TLSOk: true},
	{Name: "gzip-only", Comp: []string{"gzip"}, Enc: []string{"none"}, Schemes: []string{"plain"}, Kind: "mem", TLSOk: true},
	{Name: "no-schemes", Comp: []string{"none"}, Enc: []string{"none"}, Schemes: []string{}, Kind: "mem", TLSOk: true},
	{Name: "tls-handshake-fails", Comp: []string{"none"}, Enc: []string{"none", "tls"}, Schemes: []string{"plain"}, Kind: "memtls", TLSOk: false},
	{Name: "no-enc-options", Comp: []string{"none"}, Enc: []string{}, Schemes: []string{"key"}, Kind: "mem", TLSOk: true},
	{Name: "tls-twice", Comp: []string{"none"}, Enc: []string{"tls", "tls"}, Schemes: []string{"plain"}, Kind: "memtls", TLSOk: true},
	{Name: "tls-only-gzip-only", Comp: []string{"gzip"}, Enc: []string{"tls"}, Schemes: []string{"plain"}, Kind: "memtls", TLSOk: true},
}

// a transport pair that can switch both compression and encryption (exists only in the verification build)
var multiConf = &SConf{Name: "multi-gzip-tls", Comp: []string{"none", "gzip"}, Enc: []string{"none", "tls"}, Schemes: []string{"plain", "guest"}, Kind: "multi", TLSOk: true}

var multiAlphabet = []CIn{
	ses("", "new", "", "", "", nil),
	ses("SID", "negotiating", "tls", "gzip", "", nil),
	ses("SID", "negotiating", "tls", "none", "", nil),
	ses("SID", "negotiating", "none", "gzip", "", nil),
	ses("SID", "negotiating", "none", "none", "", nil),
	ses("SID", "negotiating", "rot13", "gzip", "", nil),
	ses("SID", "authenticating", "", "", "plain", ip(1)),
	ses("SID", "authenticating", "", "", "guest", ip(0)),
	{Kind: "data"},
	{Kind: "eof"},
}

var serverOracles = []*SOracle{
	{Name: "plain1-ok", Auth: []AuthRow{
		{1, "plain", ip(1), 0, "role"}, {1, "plain", ip(2), 0, "round:7"}, {1, "plain", ip(1), 1, "role"},
		{1, "plain", ip(2), 1, "unknown"}, {1, "key", ip(1), 0, "err"}, {1, "guest", ip(0), 0, "unknown"},
		// behind a round trip: a scheme that some configurations do not offer would be accepted if it were looked at
		{1, "key", ip(1), 1, "role"}, {1, "guest", ip(0), 1, "role"}},
		Reg: []RegRow{{1, "node:5"}}},
	{Name: "guest-ok-register-fails", Auth: []AuthRow{
		{1, "guest", ip(0), 0, "role"}, {1, "plain", ip(1), 0, "unknown"}, {1, "plain", nil, 0, "role"}},
		Reg: []RegRow{{1, "err"}}},
	{Name: "two-round-trips", Auth: []AuthRow{
		{1, "plain", ip(1), 0, "round:3"}, {1, "plain", ip(1), 1, "round:4"}, {1, "plain", ip(1), 2, "role"},
		{1, "plain", ip(2), 1, "err"}, {1, "guest", ip(0), 0, "role"}, {1, "key", ip(1), 0, "role"}},
		Reg: []RegRow{}},
	{Name: "unset-role-and-both-fields", Auth: []AuthRow{
		{1, "plain", ip(1), 0, "eround:5"}, {1, "plain", ip(1), 1, "empty"}, {1, "plain", ip(2), 0, "empty"},
		{1, "plain", ip(2), 1, "role+rt:6"}, {1, "guest", ip(0), 0, "eround:2"}, {1, "guest", ip(0), 1, "role+rt:9"},
		{1, "key", ip(1), 0, "role+rt:4"}},
		Reg: []RegRow{{1, "node:7"}}},
}

type enumOpts struct {
	confs    []*SConf
	oracles  []*SOracle
	alphabet []CIn
	depth    int
	maxCases int
}

// enumerateServerScripts runs every script up to the depth bound (breadth first, a script is
// extended only while the connection is still being served) against real Servers.
func enumerateServerScripts(env *Env, o enumOpts, each func(c *SCase)) {
	for _, conf := range o.confs {
		for _, oracle := range o.oracles {
			srv := newScriptServer(conf, oracle)
			level := [][]CIn{{}}
			count := 0
			for d := 1; d <= o.depth && len(level) > 0; d++ {
				var next [][]CIn
				for _, prefix := range level {
					for ai, a := range o.alphabet {
						if len(prefix) == 0 && a.Kind == "ses" && a.Ses.ID == "SID" {
							continue // no session id has been seen yet
						}
						if o.maxCases > 0 && count >= o.maxCases {
							break
						}
						script := append(append([]CIn(nil), prefix...), a)
						obs := srv.run(script)
						count++
						c := &SCase{Conf: conf, Oracle: oracle, Script: script, Obs: obs}
						each(c)
						env.Count(fmt.Sprintf("depth=%d", d))
						env.Count(fmt.Sprintf("last-input=%d", ai))
						if !obs.Closed && !obs.Ended && a.Kind != "eof" {
							next = append(next, script)
						}
					}
				}
				level = next
			}
			env.Count("conf=" + conf.Name)
			srv.Close()
		}
	}
}
