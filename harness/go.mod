module verifharness

go 1.14

require (
	github.com/google/uuid v1.3.0
	github.com/gorilla/websocket v1.4.2
	github.com/takenet/lime-go v0.0.0
)

replace github.com/takenet/lime-go => /repo
