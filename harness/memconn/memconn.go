// Package memconn provides an in-memory, buffered, deadline-aware net.Conn
// pair with scriptable faults (fragmented reads, short writes with temporary
// timeouts, stalls, cuts) and a log of every Read and Write.
package memconn

import (
	"errors"
	"io"
	"net"
	"sync"
	"time"
)

type timeoutError struct{}

func (timeoutError) Error() string   { return "memconn: i/o timeout" }
func (timeoutError) Timeout() bool   { return true }
func (timeoutError) Temporary() bool { return true }

// ErrTimeout is the temporary timeout error returned on deadlines and scripted stalls.
var ErrTimeout net.Error = timeoutError{}

// ErrCut is returned once a scripted cut has happened.
var ErrCut = errors.New("memconn: connection cut")

type addr string

func (a addr) Network() string { return "mem" }
func (a addr) String() string  { return string(a) }

// half is one direction of the pipe.
type half struct {
	mu      sync.Mutex
	cond    *sync.Cond
	buf     []byte
	wclosed bool // writer side closed: reader gets EOF after draining
	rclosed bool // reader side closed: writes fail
	cap     int  // 0 = unbounded
	total   int  // bytes ever written
	waiting int  // readers blocked on an empty buffer
}

func newHalf(capacity int) *half {
	h := &half{cap: capacity}
	h.cond = sync.NewCond(&h.mu)
	return h
}

// ReadStep scripts one Read call of a PlanConn.
type ReadStep struct {
	Max   int  // deliver at most Max bytes (0 with Stall=false and Cut=false means "no limit")
	Stall bool // return a temporary timeout without data
	Hook  func() // called (outside the connection's locks) when the step is taken, before it takes effect
	Cut   bool // return a hard error from now on
	EOF   bool // return io.EOF from now on
}

// WriteStep scripts one Write call.
type WriteStep struct {
	Accept  int  // accept at most this many bytes (-1 = all)
	Timeout bool // then return a temporary timeout error
	Fail    bool // then return a hard error (and every later write too)
	Hook    func() // optional: called when the step is consumed, before the Write returns
}

// IOEvent is one logged Read or Write.
type IOEvent struct {
	Write bool
	Req   int // len(b)
	N     int
	Err   string
}

// Conn is one end of the pair.
type Conn struct {
	r, w *half
	name string
	peer *Conn

	dmu sync.Mutex
	rdl time.Time
	wdl time.Time

	pmu       sync.Mutex
	readPlan  []ReadStep
	writePlan []WriteStep
	cut       bool
	eof       bool
	wfail     bool
	Log       []IOEvent
	logging   bool
	inWrite   int32
	Overlap   bool // set when two Write calls overlapped in time
	closed    bool
	OnWrite   func(b []byte) // optional: sees the argument of every Write call
}

// Pipe returns a connected pair; capacity bounds each direction's buffer (0 = unbounded).
func Pipe(capacity int) (*Conn, *Conn) {
	ab := newHalf(capacity)
	ba := newHalf(capacity)
	a := &Conn{r: ba, w: ab, name: "a"}
	b := &Conn{r: ab, w: ba, name: "b"}
	a.peer, b.peer = b, a
	return a, b
}

// SetReadPlan installs the script consulted by successive Read calls; when it
// is exhausted reads behave normally.
func (c *Conn) SetReadPlan(p []ReadStep) {
	c.pmu.Lock()
	c.readPlan = append([]ReadStep(nil), p...)
	c.pmu.Unlock()
}

// SetWritePlan installs the script consulted by successive Write calls.
func (c *Conn) SetWritePlan(p []WriteStep) {
	c.pmu.Lock()
	c.writePlan = append([]WriteStep(nil), p...)
	c.pmu.Unlock()
}

// EnableLog switches the I/O log on.
func (c *Conn) EnableLog() {
	c.pmu.Lock()
	c.logging = true
	c.pmu.Unlock()
}

// TakeLog returns and clears the log.
func (c *Conn) TakeLog() []IOEvent {
	c.pmu.Lock()
	defer c.pmu.Unlock()
	l := c.Log
	c.Log = nil
	return l
}

func (c *Conn) logEvent(e IOEvent) {
	c.pmu.Lock()
	if c.logging {
		c.Log = append(c.Log, e)
	}
	c.pmu.Unlock()
}

func errStr(err error) string {
	if err == nil {
		return ""
	}
	return err.Error()
}

// Pending returns the number of bytes written by the peer and not yet read.
func (c *Conn) Pending() int {
	c.r.mu.Lock()
	defer c.r.mu.Unlock()
	return len(c.r.buf)
}

// ReaderWaiting reports whether a Read on this end is blocked on an empty buffer,
// i.e. the code behind this end is waiting for the peer's next bytes.
func (c *Conn) ReaderWaiting() bool {
	c.r.mu.Lock()
	defer c.r.mu.Unlock()
	return c.r.waiting > 0 && len(c.r.buf) == 0
}

// TotalWritten returns the number of bytes this end has put on the wire.
func (c *Conn) TotalWritten() int {
	c.w.mu.Lock()
	defer c.w.mu.Unlock()
	return c.w.total
}

func (c *Conn) Read(b []byte) (n int, err error) {
	defer func() { c.logEvent(IOEvent{Write: false, Req: len(b), N: n, Err: errStr(err)}) }()
	limit := len(b)
	c.pmu.Lock()
	if c.cut {
		c.pmu.Unlock()
		return 0, ErrCut
	}
	if c.eof {
		c.pmu.Unlock()
		return 0, io.EOF
	}
	var step *ReadStep
	if len(c.readPlan) > 0 {
		s := c.readPlan[0]
		c.readPlan = c.readPlan[1:]
		step = &s
	}
	if step != nil {
		if step.Cut {
			c.cut = true
			c.pmu.Unlock()
			return 0, ErrCut
		}
		if step.EOF {
			c.eof = true
			c.pmu.Unlock()
			return 0, io.EOF
		}
		if step.Stall {
			c.pmu.Unlock()
			if step.Hook != nil {
				step.Hook()
			}
			return 0, ErrTimeout
		}
		if step.Max > 0 && step.Max < limit {
			limit = step.Max
		}
	}
	c.pmu.Unlock()
	if limit == 0 {
		return 0, nil
	}

	h := c.r
	h.mu.Lock()
	defer h.mu.Unlock()
	for len(h.buf) == 0 {
		if h.rclosed {
			return 0, io.ErrClosedPipe
		}
		if h.wclosed {
			return 0, io.EOF
		}
		c.dmu.Lock()
		dl := c.rdl
		c.dmu.Unlock()
		if !dl.IsZero() {
			d := time.Until(dl)
			if d <= 0 {
				return 0, ErrTimeout
			}
			t := time.AfterFunc(d, func() { h.mu.Lock(); h.cond.Broadcast(); h.mu.Unlock() })
			h.waiting++
			h.cond.Wait()
			h.waiting--
			t.Stop()
		} else {
			h.waiting++
			h.cond.Wait()
			h.waiting--
		}
	}
	n = copy(b[:limit], h.buf)
	h.buf = h.buf[n:]
	h.cond.Broadcast()
	return n, nil
}

func (c *Conn) Write(b []byte) (n int, err error) {
	defer func() { c.logEvent(IOEvent{Write: true, Req: len(b), N: n, Err: errStr(err)}) }()
	c.pmu.Lock()
	c.inWrite++
	if c.inWrite > 1 {
		c.Overlap = true
	}
	if c.OnWrite != nil {
		c.OnWrite(b)
	}
	defer func() { c.pmu.Lock(); c.inWrite--; c.pmu.Unlock() }()
	if c.wfail {
		c.pmu.Unlock()
		return 0, ErrCut
	}
	accept := len(b)
	var after error
	if len(c.writePlan) > 0 {
		s := c.writePlan[0]
		c.writePlan = c.writePlan[1:]
		if s.Accept >= 0 && s.Accept < accept {
			accept = s.Accept
		}
		if s.Timeout {
			after = ErrTimeout
		}
		if s.Fail {
			after = ErrCut
			c.wfail = true
		}
		if s.Hook != nil {
			defer s.Hook()
		}
	}
	c.pmu.Unlock()

	h := c.w
	h.mu.Lock()
	defer h.mu.Unlock()
	for n < accept {
		if h.rclosed || h.wclosed {
			return n, io.ErrClosedPipe
		}
		room := accept - n
		if h.cap > 0 {
			free := h.cap - len(h.buf)
			if free <= 0 {
				c.dmu.Lock()
				dl := c.wdl
				c.dmu.Unlock()
				if !dl.IsZero() {
					d := time.Until(dl)
					if d <= 0 {
						return n, ErrTimeout
					}
					t := time.AfterFunc(d, func() { h.mu.Lock(); h.cond.Broadcast(); h.mu.Unlock() })
					h.cond.Wait()
					t.Stop()
				} else {
					h.cond.Wait()
				}
				continue
			}
			if room > free {
				room = free
			}
		}
		h.buf = append(h.buf, b[n:n+room]...)
		h.total += room
		n += room
		h.cond.Broadcast()
	}
	if h.rclosed || h.wclosed {
		if n == 0 {
			return 0, io.ErrClosedPipe
		}
	}
	return n, after
}

// Close closes both directions as seen from this end.
func (c *Conn) Close() error {
	c.pmu.Lock()
	if c.closed {
		c.pmu.Unlock()
		return io.ErrClosedPipe
	}
	c.closed = true
	c.pmu.Unlock()
	c.w.mu.Lock()
	c.w.wclosed = true
	c.w.cond.Broadcast()
	c.w.mu.Unlock()
	c.r.mu.Lock()
	c.r.rclosed = true
	c.r.cond.Broadcast()
	c.r.mu.Unlock()
	return nil
}

// CloseWrite half-closes: the peer reads EOF after draining, this end can still read.
func (c *Conn) CloseWrite() {
	c.w.mu.Lock()
	c.w.wclosed = true
	c.w.cond.Broadcast()
	c.w.mu.Unlock()
}

// Closed reports whether Close was called on this end.
func (c *Conn) Closed() bool {
	c.pmu.Lock()
	defer c.pmu.Unlock()
	return c.closed
}

func (c *Conn) LocalAddr() net.Addr  { return addr("mem-" + c.name) }
func (c *Conn) RemoteAddr() net.Addr { return addr("mem-" + c.peer.name) }

func (c *Conn) SetDeadline(t time.Time) error {
	_ = c.SetReadDeadline(t)
	return c.SetWriteDeadline(t)
}

func (c *Conn) SetReadDeadline(t time.Time) error {
	c.dmu.Lock()
	c.rdl = t
	c.dmu.Unlock()
	c.r.mu.Lock()
	c.r.cond.Broadcast()
	c.r.mu.Unlock()
	return nil
}

func (c *Conn) SetWriteDeadline(t time.Time) error {
	c.dmu.Lock()
	c.wdl = t
	c.dmu.Unlock()
	c.w.mu.Lock()
	c.w.cond.Broadcast()
	c.w.mu.Unlock()
	return nil
}

// Listener is an in-memory net.Listener-like source of connections for a
// lime TransportListener implemented by the harness.
type Listener struct {
	mu     sync.Mutex
	conns  chan *Conn
	closed chan struct{}
	once   sync.Once
	Opened []*Conn // server-side ends handed out
}

func NewListener() *Listener {
	return &Listener{conns: make(chan *Conn, 64), closed: make(chan struct{})}
}

// Dial creates a pair, queues the server end and returns the client end.
func (l *Listener) Dial(capacity int) (*Conn, error) {
	c, s := Pipe(capacity)
	select {
	case <-l.closed:
		return nil, errors.New("memconn: listener closed")
	case l.conns <- s:
		l.mu.Lock()
		l.Opened = append(l.Opened, s)
		l.mu.Unlock()
		return c, nil
	}
}

func (l *Listener) Conns() <-chan *Conn     { return l.conns }
func (l *Listener) Done() <-chan struct{}   { return l.closed }
func (l *Listener) Close()                  { l.once.Do(func() { close(l.closed) }) }
func (l *Listener) OpenedConns() []*Conn {
	l.mu.Lock()
	defer l.mu.Unlock()
	return append([]*Conn(nil), l.Opened...)
}
