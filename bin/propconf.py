"""Per-property configuration shared by bin/check and bin/mkmanifest."""

COMMON_TRUSTED = [
    "Coq 8.16.1 kernel (coqc; vm_compute is used to evaluate the generated cases and finite witnesses; no native_compute)",
    "no axioms: Print Assumptions reports 'Closed under the global context' for every property theorem",
    "hand-written Gallina model; tied to /repo by the correspondence check run on every invocation (Go harness in /verif/harness, Go->Gallina printers in harness/coqfmt, comparators in coq/Corr)",
    "Go toolchain, encoding/json, net, crypto/tls, gorilla/websocket, the Go scheduler and memory model are outside the model",
]

CODEC_TRUSTED = ["Model A (coq/Codec) re-states envelope.go, message.go, notification.go, command.go, session.go, document.go, mediatype.go, node.go, identity.go; it starts at JSON value trees: the bytes<->tree step and the struct-decoding rules of encoding/json (case-insensitive member lookup, null handling, omitempty, integer parsing) are re-stated, not verified",
                 "net/url is an oracle: each case carries how ParseLimeURI treated its URI texts; theorems assume only that a parsed URI's text parses to itself (uri_fix / uri_idem hypotheses, visible in the statements)"]

PROPS = {
    "C01": {
        "title": "Envelope JSON round-trip preserves kind and content",
        "design_ref": "DESIGN.md section 5, C01; section 4 Model A",
        "technique": "Coq proof (structural induction over nested documents, per-field round-trip lemmas) + differential correspondence against json.Marshal/Unmarshal, the TCP and WebSocket receive paths and the text-form parsers",
        "level_text": "Machine-checked proof (Coq 8.16.1, no axioms) that every well-formed envelope of the five kinds - all optional-field combinations, documents nested to any depth, any strings - encodes to a JSON tree that the typed decoder and the transports' kind discrimination decode back to the same envelope, and that String/Parse of nodes, identities and media types round-trip (every parser result is well-formed). Tied to the code on every run: generated envelopes are encoded and decoded by the real code (typed, TCP receive path over an injected connection, WebSocket receive path) and Go's encoding itself is compared as a tree with the model's; text forms are swept exhaustively over a 7-letter alphabet.",
        "level_note": "Trusted: Coq kernel; hand-written Model A; harness and printers. Assumed: encoding/json's text<->tree step, float formatting, net/url (oracle with a stated idempotence law). Not covered by the model: objects with two members matching one struct field; registered custom document types beyond the five built-in factories (chat package).",
        "trusted": CODEC_TRUSTED,
        "assumptions": ["generic JSON payloads and metadata are compared in encoding/json's canonical form (sorted keys)", "valid UTF-8 without NUL bytes"],
    },
    "C02": {
        "title": "Decoding untrusted bytes never crashes and is stable under re-encoding",
        "design_ref": "DESIGN.md section 5, C02; section 4 Model A",
        "technique": "Coq proof over all JSON value trees (no-panic by induction on fuel/tree, stability via 'decoders only return well-formed values' + the C01 round trip) + differential correspondence on structurally mutated trees and byte-level inputs",
        "level_text": "Machine-checked proof (Coq 8.16.1, no axioms) that for every JSON value tree every typed decoder and the transport receive path return an envelope or an error, never a panic (every nil dereference of the Go code is an explicit Panic branch of the model, shown unreachable), and that every accepted value re-encodes to a tree the same decoder accepts as the same value. The refutations of both halves for the tree as found are theorems too (their witnesses are in the regression corpus). Tied to the code on every run by feeding systematically mutated encodings (every single mutation at every nesting level, sampled doubles), truncations, concatenations and byte flips to the real typed decoders and the real TCP receive path, with panics recovered and recorded, and comparing results and re-decodes inside Coq.",
        "level_note": "Trusted: Coq kernel; Model A; harness. Assumed: encoding/json rejects invalid JSON text without panicking and its generic (map/interface) decode-encode is idempotent on canonical values; net/url oracle with the stated idempotence law. Outside the model's domain (checked on the implementation only, for no-panic and re-encode stability): objects with two members matching one field, non-canonical number literals in generic payloads, inputs that are not JSON.",
        "trusted": CODEC_TRUSTED,
        "assumptions": ["Go stack depth / encoding/json's nesting limit are not modelled (fuel stands for depth)"],
    },
    "C11": {
        "title": "Replies built from an envelope are correctly correlated and addressed",
        "design_ref": "DESIGN.md section 5, C11; section 4 Model A (Builders)",
        "technique": "Coq proof (field equations of the builders + validity, round trip by the C01 theorem) + exhaustive differential correspondence against the real builders, Sender and the ping auto-reply on real sessions",
        "level_text": "Machine-checked proof (Coq 8.16.1, no axioms) that for every request command / message - any id, every from/pp/to combination, any method, resource and reason - the responses and notifications built from it carry its id (and method), originate from its destination, are addressed to its sender (pp when present, else from), carry the stated status/reason/resource with the resource's media type, are valid envelopes and hence (C01 theorem) survive the wire; the refutation for the tree as found (inverted Sender, untyped ping reply) is a theorem as well. Tied to the code on every run: exhaustive sweep of from/pp/to x methods x builders x resource kinds against the real builders, wire round trip through the real TCP receive path, and ProcessCommand of a ping against real Server/Client sessions with AutoReplyPings over in-process, TCP and WebSocket.",
        "level_note": "Trusted: Coq kernel; Model A builders; harness. The ping route also exercises session establishment, the mux and ProcessCommand, which are modelled elsewhere (C20, C05).",
        "trusted": CODEC_TRUSTED,
        "assumptions": [],
    },
    "C20": {
        "title": "Each inbound envelope is dispatched to exactly the first matching handler",
        "design_ref": "DESIGN.md section 5, C20; section 4 Model F",
        "technique": "Coq proof by induction over handler tables and envelope sequences (Model F) + differential correspondence against EnvelopeMux/Server/Client",
        "level_text": "Machine-checked proof (Coq 8.16.1, no axioms) that for every handler table, arbitrary predicates and every envelope sequence the dispatch loop invokes exactly the earliest matching handler of the envelope's kind once, drops unmatched envelopes, stops at the first handler error and that the server then finishes the session. The model is tied to the code on every run by executing the real EnvelopeMux (directly, through a real Server and through a real Client) on systematic and PRNG-generated tables/sequences and comparing invocation logs inside Coq.",
        "level_note": "Trusted: Coq kernel; the hand-written model of handler.go/server.go's loop; the Go harness and its Go->Gallina printer. Not modelled: the order in which Go's select picks among simultaneously ready inbound streams of different kinds (the harness paces envelopes or uses single-kind bursts so the order is determined).",
        "trusted": ["Model F (coq/Mux/Dispatch.v) re-states handler.go's four handle* loops, listen, and server.go handleChannel's deferred finish"],
        "assumptions": ["cross-kind select order is not modelled; sequences are paced or single-kind"],
    },
}
