"""Per-property configuration shared by bin/check and bin/mkmanifest."""

COMMON_TRUSTED = [
    "Coq 8.16.1 kernel (coqc; vm_compute is used to evaluate the generated cases and finite witnesses; no native_compute)",
    "no axioms: Print Assumptions reports 'Closed under the global context' for every property theorem",
    "hand-written Gallina model; tied to /repo by the correspondence check run on every invocation (Go harness in /verif/harness, Go->Gallina printers in harness/coqfmt, comparators in coq/Corr)",
    "Go toolchain, encoding/json, net, crypto/tls, gorilla/websocket, the Go scheduler and memory model are outside the model",
]

PROPS = {
    "C20": {
        "title": "Each inbound envelope is dispatched to exactly the first matching handler",
        "design_ref": "DESIGN.md section 5, C20; section 4 Model F",
        "technique": "Coq proof by induction over handler tables and envelope sequences (Model F) + differential correspondence against EnvelopeMux/Server/Client",
        "level_text": "Machine-checked proof (Coq 8.16.1, no axioms) that for every handler table, arbitrary predicates and every envelope sequence the dispatch loop invokes exactly the earliest matching handler of the envelope's kind once, drops unmatched envelopes, stops at the first handler error and that the server then finishes the session. The model is tied to the code on every run by executing the real EnvelopeMux (directly, through a real Server and through a real Client) on systematic and PRNG-generated tables/sequences and comparing invocation logs inside Coq.",
        "level_note": "Trusted: Coq kernel; the hand-written model of handler.go/server.go's loop; the Go harness and its Go->Gallina printer. Not modelled: the order in which Go's select picks among simultaneously ready inbound streams of different kinds (the harness paces envelopes or uses single-kind bursts so the order is determined).",
        "trusted": ["Model F (coq/Mux/Dispatch.v) re-states handler.go's four handle* loops, listen, and server.go handleChannel's deferred finish"],
        "assumptions": ["cross-kind select order is not modelled; sequences are paced or single-kind"],
    },
}
