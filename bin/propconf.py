"""Per-property configuration shared by bin/check and bin/mkmanifest."""

COMMON_TRUSTED = [
    "Coq 8.16.1 kernel (coqc; vm_compute is used to evaluate the generated cases and finite witnesses; no native_compute)",
    "no axioms: Print Assumptions reports 'Closed under the global context' for every property theorem",
    "hand-written Gallina model; tied to /repo by the correspondence check run on every invocation (Go harness in /verif/harness, Go->Gallina printers in harness/coqfmt, comparators in coq/Corr)",
    "Go toolchain, encoding/json, net, crypto/tls, gorilla/websocket, the Go scheduler and memory model are outside the model",
]

CODEC_TRUSTED = ["Model A (coq/Codec) re-states envelope.go, message.go, notification.go, command.go, session.go, document.go, mediatype.go, node.go, identity.go; it starts at JSON value trees: the bytes<->tree step and the struct-decoding rules of encoding/json (case-insensitive member lookup, null handling, omitempty, integer parsing) are re-stated, not verified",
                 "net/url is an oracle: each case carries how ParseLimeURI treated its URI texts; theorems assume only that a parsed URI's text parses to itself (uri_fix / uri_idem hypotheses, visible in the statements)"]

HS_TRUSTED = ["Model B (coq/Hs/Server.v) re-states ServerChannel.EstablishSession, negotiateSession, authenticateSession, the send*Session helpers with their state guards, FailSession/FinishSession, channel.sendSession/receiveSession/setState and Server.handleChannel as one function from a client script to a trace of events; the property is an executable monitor (coq/Hs/Monitor.v) that knows configuration and callbacks but not the server's program",
              "transport capabilities (SupportedEncryption, SetEncryption rules of tcp/ws/in-process) are re-stated in coq/Hs/Types.v; crypto/tls itself is an oracle (handshake succeeds or not)"]
HS_NOTE = "Trusted: Coq kernel; hand-written Model B and monitor; the Go harness (scripted raw client, injected listener, callback recorder, goroutine census) and its printers. Not modelled: write faults during the handshake, the Go scheduler (scripts are played in lock-step: the harness waits until the server blocks reading before it writes the next input)."

def hs(title, prop_clause, extra=""):
    return {
        "title": title,
        "design_ref": "DESIGN.md section 5 (%s); section 4 Model B" % title,
        "technique": "Coq proof that Model B's trace is accepted by the property monitor for every configuration, callback behaviour and client script (Hoare-style induction over the script) + differential correspondence: exhaustive client scripts against the real Server",
        "level_text": "Machine-checked proof (Coq 8.16.1, no axioms) that for every server configuration, every behaviour of the authentication/registration callbacks and every client script of any length the trace of Model B is accepted by an executable monitor whose rules are the clauses of the server-handshake properties; " + prop_clause + " Tied to the code on every run: every client script up to a depth bound over a 24-letter alphabet is played by a scripted raw client against a real Server (injected in-memory TCP connections, real TLS upgrades), and the projected observation - wire envelopes with the encryption they were read under, callback invocations with the encryption in force, connection closed, serving goroutines gone - is compared with the model's inside Coq and checked against the property's decidable clause." + extra,
        "level_note": HS_NOTE,
        "trusted": HS_TRUSTED,
        "assumptions": ["sends succeed while the connection is up (write faults are C12's subject)"],
        "recheck": True,
    }

PROPS = {
    "C03": hs("No session is established without successful authentication", "for C03 the monitor admits an established envelope only after an Authenticate call for exactly the identity, scheme and credentials of the peer's most recent envelope, under an offered scheme, answered with a known role, followed by a Register call whose node is the one announced; the Established callback only after that."),
    "C04": {
        "title": "Established channels deliver every envelope exactly once, intact, in order",
        "design_ref": "DESIGN.md section 5, C04; section 4 Model D (Pipeline)",
        "technique": "Coq proof of a conservation invariant over all workloads, buffer sizes, sender counts and schedules (partial: interleaving semantics) + acceptor-checked stress over every transport with a write-overlap monitor",
        "level_text": "PARTIAL. Machine-checked proof (Coq 8.16.1, no axioms) about the pipeline model - atomic sends appended to a FIFO wire, one receiver moving the head into bounded per-kind buffers (any capacity, zero = hand-off), consumers - for every workload, number of senders, capacity and schedule: per kind, sent = delivered ++ buffered ++ in flight; hence deliveries are a prefix of what was sent in sending order (exactly once, in order, nothing fabricated), everything is delivered at quiescence, and no deadlock while consumers are willing. The atomic-send abstraction itself is monitored: the injected connection asserts that Write calls never overlap and each carries exactly one envelope. Tied to the code on every run by stress over in-process, TCP (injected and loopback), TCP+TLS, WebSocket and secure WebSocket with 1-8 sender goroutines per side, both directions, buffers 0/1/2/64 and consumer delays; the observation is checked inside Coq to be a behaviour the model allows.",
        "level_note": "Partial: the theorem is about explicit interleavings of atomic steps; it does not exhibit Go memory-model effects (data races on envelopes shared through the in-process transport), TLS/WebSocket framing (library code, seen only through the stress runs) or scheduler behaviour. Schedules in the stress runs are not controlled, so the comparison with the model is an acceptor, not an equality.",
        "trusted": ["Model D pipeline (coq/Chan/Pipeline.v) abstracts channel.sendToTransport (send mutex + one Write per envelope), receiveFromTransport and the inbound streams"],
        "assumptions": ["a send is atomic on the wire (monitored on the injected connection)"],
    },
    "C05": {
        "recheck": True,
        "title": "Command responses are matched to their requests",
        "design_ref": "DESIGN.md section 5, C05; section 4 Model D (CmdTable)",
        "technique": "Coq proof of an inductive invariant of the pending-command LTS over all request sets (colliding ids), response sequences and schedules + differential correspondence on quiescent and gated histories",
        "level_text": "Machine-checked proof (Coq 8.16.1, no axioms) about the labelled transition system of processCommand, its deferred cleanup and the response matcher at the granularity of their critical sections, for every set of calls (ids may collide), every response sequence and every schedule: a registered unanswered call keeps its table entry (no disturbance), a call completes only with a response bearing its id, the table is empty once all calls returned, and every response taken from the wire is in exactly one place (stream, matcher, one reply slot). The un-repaired code is refuted by a 10-label schedule (theorem), replayed against the real code with build-tag gates. Tied to the code on every run: quiescent histories (all permutations of responses for up to 3-4 in-flight calls, duplicates, unknown ids, cancellations, late responses, id reuse, both roles, in-process and TCP) and gated histories are executed on real channels; results, response stream and table size are compared with the model's run on the corresponding schedule and with a map-based specification inside Coq.",
        "level_note": "Trusted: Coq kernel; the LTS (critical sections are atomic: they are mutex-protected in the code); the harness, including its translation of harness actions into LTS schedules, and the gate hooks. Free-running stress is not part of the quick tier.",
        "trusted": ["Model D command table (coq/Chan/CmdTable.v)", "verif-tagged gate points submit:after-lookup and process:before-cleanup"],
        "assumptions": ["mutex-protected sections are atomic"],
    },
    "C06": hs("Data envelopes flow only while the session is established", "for C06 the send gate (ensureEstablished) is proved closed in every state but established for all five send operations and lifted over every handshake run, and the monitor's Dispatch and abort rules say that a data envelope reaches handlers only after the Established callback while a non-session input before establishment aborts the handshake (at most one failed envelope, then close).", " The send side is tied to the code by calling the five send operations on real Server/Client channels held by a scripted peer at every stage of handshake and teardown and counting what the peer sees."),
    "C07": hs("Server handshake follows the protocol order and fails closed", "for C07 the monitor enforces the stage automaton (offer, confirmation, authentication request, round trips only when the callback asked, established, one finished/failed), the single session id, and that a violating session envelope is answered with failed + reason followed by silence and close; the state-regression guard is never hit."),
    "C08": {
        "recheck": True,
        "title": "Client handshake tolerates any server and reports establishment truthfully",
        "design_ref": "DESIGN.md section 5, C08; section 4 Model C",
        "technique": "Coq proof over all selector/authenticator functions and all server scripts (induction over the script on Model C) + differential correspondence: exhaustive server scripts against the real ClientChannel.EstablishSession",
        "level_text": "Machine-checked proof (Coq 8.16.1, no axioms) about Model C - ClientChannel.EstablishSession, negotiateSession, authenticateSession, receiveSessionFromServer, the receiver goroutine's handling of session envelopes and setState's regression guard - for arbitrary selector and authenticator functions and every server script: no panic, established reported only when the server's last word was established (with exactly its id and nodes), ids echoed, credentials only in answer to an authentication request, connection closed after finished/failed. Tied to the code on every run: every server script up to a depth bound over a 21-letter alphabet is played by a scripted raw server against the real client handshake (in-memory TCP, real TLS upgrades, library default selectors included), panics recovered and recorded, and the observation compared with the model's inside Coq.",
        "level_note": "Trusted: Coq kernel; hand-written Model C; the harness and printers. Callbacks are assumed to return normally (as the property says). Not modelled: write faults, the Go scheduler (lock-step scripts).",
        "trusted": ["Model C (coq/Hs/Client.v) re-states client_channel.go and the client parts of channel.go"],
        "assumptions": ["selector and authenticator callbacks return normally"],
    },
    "C09": hs("Only offered transport options are negotiated and both ends apply them", "for C09 the monitor requires offers to be exactly configured-and-supported, confirmations to repeat a pair chosen from the offer, SetEncryption right after the confirmation, and every later envelope and callback under the confirmed encryption.", " The client half and the agreement of both ends are covered by Model C and the composition (see C08)."),
    "C10": hs("A server that does not offer cleartext never authenticates over cleartext", "for C10 the monitor requires, whenever 'none' is not configured and a configured option is supported, that every authentication request, Authenticate/Register call and established envelope happens under a configured encryption."),
    "C12": {
        "recheck": True,
        "title": "The TCP transport preserves the envelope stream under fragmentation and stalls",
        "design_ref": "DESIGN.md section 5, C12; section 4 Model E",
        "technique": "Coq proof by induction over arbitrary write oracles and read plans (Model E) + differential correspondence over an injected fault-scripting connection",
        "level_text": "Machine-checked proof (Coq 8.16.1, no axioms): writer - for every byte string and every behaviour of the connection's Write calls (any number of bytes taken, then success / temporary timeout / fatal error, context expiry) a Send puts a prefix of the encoding on the wire and all of it when it reports success, and consecutive sends concatenate; reader - for every stream, limit and read plan (any chunking, coalescing, stalls, cuts, EOF) each Receive returns exactly the next frame or a sticky error, never another frame. The duplication bug of the tree as found is a theorem about the un-repaired loop and a regression case. Tied to the code on every run: the real tcpTransport runs over an injected connection that scripts every short-write length with timeouts (repeated), fatal errors, expired contexts, every split point of short streams, stalls and cuts; wire bytes, Send results, Receive results and per-Receive byte counts are compared with the model inside Coq.",
        "level_note": "Trusted: Coq kernel; Model E; harness (memconn fault connection) and printers. Assumed: frames are self-delimiting JSON texts and json.Decoder's buffer is a contiguous window of the stream (encoding/json, trusted); a Read that returns data returns no error (true of net.TCPConn and tls.Conn). TLS record framing is not modelled.",
        "trusted": ["Model E (coq/Tcp/Writer.v, Reader.v) re-states ctxConn.Write/Read, the io.LimitedReader budget, its re-arming in tcpTransport.Receive, json.Decoder's sticky error and the eof flag"],
        "assumptions": ["no Send is attempted after a failed Send on the same transport"],
    },
    "C16": {
        "recheck": True,
        "title": "Inbound envelope size is bounded by the read limit",
        "design_ref": "DESIGN.md section 5, C16; section 4 Model E",
        "technique": "Coq proof (invariants over read plans: per-Receive budget, read-ahead <= limit, progress for frames within the limit) + differential correspondence with exact per-Receive byte counts",
        "level_text": "Machine-checked proof (Coq 8.16.1, no axioms) for every limit, stream of frame sizes and read plan: (a) no Receive takes more than the limit from the connection; (b) the read-ahead left after a successful Receive is at most one limit, hence a frame above twice the limit is never returned (the Receive fails, stickily); (c) a frame within the limit is never rejected, whatever preceded it and however the stream is fragmented or coalesced. Tied to the code on every run: limits 64/100/1000(/4096) x frame sizes around L, 2L, 2L+1, 2L+2, 10L at every position of a stream of small frames x coalescing patterns, through the real tcpTransport.Receive over an injected connection that counts the bytes every Receive takes; results and counts are compared with the model (fed with the logged read sizes as its plan) inside Coq.",
        "level_note": "Trusted: Coq kernel; Model E; harness and printers. The model receives the logged sizes of the connection's Read calls as its plan and re-derives budget, results and Connected() from them. Noted outside the statement: after a Receive that fails with a non-sticky decoding error the budget is not re-armed (unobservable through channels, which stop after any error).",
        "trusted": ["Model E (coq/Tcp/Reader.v)"],
        "assumptions": ["frames are separated by one newline, as json.Encoder writes them"],
    },
    "C14": hs("Every connection that fails to establish is released", "for C14 the monitor's final condition requires that whatever was failed, aborted (non-session input, undecodable input, EOF, callback error) or is no longer served is closed, and that Established/Finished fire only for established sessions."),
    "C01": {
        "title": "Envelope JSON round-trip preserves kind and content",
        "design_ref": "DESIGN.md section 5, C01; section 4 Model A",
        "technique": "Coq proof (structural induction over nested documents, per-field round-trip lemmas) + differential correspondence against json.Marshal/Unmarshal, the TCP and WebSocket receive paths and the text-form parsers",
        "level_text": "Machine-checked proof (Coq 8.16.1, no axioms) that every well-formed envelope of the five kinds - all optional-field combinations, documents nested to any depth, any strings - encodes to a JSON tree that the typed decoder and the transports' kind discrimination decode back to the same envelope, and that String/Parse of nodes, identities and media types round-trip (every parser result is well-formed). Tied to the code on every run: generated envelopes are encoded and decoded by the real code (typed, TCP receive path over an injected connection, WebSocket receive path) and Go's encoding itself is compared as a tree with the model's; text forms are swept exhaustively over a 7-letter alphabet.",
        "level_note": "Trusted: Coq kernel; hand-written Model A; harness and printers. Assumed: encoding/json's text<->tree step, float formatting, net/url (oracle with a stated idempotence law). Not covered by the model: objects with two members matching one struct field; registered custom document types beyond the five built-in factories (chat package).",
        "trusted": CODEC_TRUSTED,
        "assumptions": ["generic JSON payloads and metadata are compared in encoding/json's canonical form (sorted keys)", "valid UTF-8 without NUL bytes"],
    },
    "C02": {
        "title": "Decoding untrusted bytes never crashes and is stable under re-encoding",
        "design_ref": "DESIGN.md section 5, C02; section 4 Model A",
        "technique": "Coq proof over all JSON value trees (no-panic by induction on fuel/tree, stability via 'decoders only return well-formed values' + the C01 round trip) + differential correspondence on structurally mutated trees and byte-level inputs",
        "level_text": "Machine-checked proof (Coq 8.16.1, no axioms) that for every JSON value tree every typed decoder and the transport receive path return an envelope or an error, never a panic (every nil dereference of the Go code is an explicit Panic branch of the model, shown unreachable), and that every accepted value re-encodes to a tree the same decoder accepts as the same value. The refutations of both halves for the tree as found are theorems too (their witnesses are in the regression corpus). Tied to the code on every run by feeding systematically mutated encodings (every single mutation at every nesting level, sampled doubles), truncations, concatenations and byte flips to the real typed decoders and the real TCP receive path, with panics recovered and recorded, and comparing results and re-decodes inside Coq.",
        "level_note": "Trusted: Coq kernel; Model A; harness. Assumed: encoding/json rejects invalid JSON text without panicking and its generic (map/interface) decode-encode is idempotent on canonical values; net/url oracle with the stated idempotence law. Outside the model's domain (checked on the implementation only, for no-panic and re-encode stability): objects with two members matching one field, non-canonical number literals in generic payloads, inputs that are not JSON.",
        "trusted": CODEC_TRUSTED,
        "assumptions": ["Go stack depth / encoding/json's nesting limit are not modelled (fuel stands for depth)"],
    },
    "C11": {
        "recheck": True,
        "title": "Replies built from an envelope are correctly correlated and addressed",
        "design_ref": "DESIGN.md section 5, C11; section 4 Model A (Builders)",
        "technique": "Coq proof (field equations of the builders + validity, round trip by the C01 theorem) + exhaustive differential correspondence against the real builders, Sender and the ping auto-reply on real sessions",
        "level_text": "Machine-checked proof (Coq 8.16.1, no axioms) that for every request command / message - any id, every from/pp/to combination, any method, resource and reason - the responses and notifications built from it carry its id (and method), originate from its destination, are addressed to its sender (pp when present, else from), carry the stated status/reason/resource with the resource's media type, are valid envelopes and hence (C01 theorem) survive the wire; the refutation for the tree as found (inverted Sender, untyped ping reply) is a theorem as well. Tied to the code on every run: exhaustive sweep of from/pp/to x methods x builders x resource kinds against the real builders, wire round trip through the real TCP receive path, and ProcessCommand of a ping against real Server/Client sessions with AutoReplyPings over in-process, TCP and WebSocket.",
        "level_note": "Trusted: Coq kernel; Model A builders; harness. The ping route also exercises session establishment, the mux and ProcessCommand, which are modelled elsewhere (C20, C05).",
        "trusted": CODEC_TRUSTED,
        "assumptions": [],
    },
    "C20": {
        "recheck": True,
        "title": "Each inbound envelope is dispatched to exactly the first matching handler",
        "design_ref": "DESIGN.md section 5, C20; section 4 Model F",
        "technique": "Coq proof by induction over handler tables and envelope sequences (Model F) + differential correspondence against EnvelopeMux/Server/Client",
        "level_text": "Machine-checked proof (Coq 8.16.1, no axioms) that for every handler table, arbitrary predicates and every envelope sequence the dispatch loop invokes exactly the earliest matching handler of the envelope's kind once, drops unmatched envelopes, stops at the first handler error and that the server then finishes the session. The model is tied to the code on every run by executing the real EnvelopeMux (directly, through a real Server and through a real Client) on systematic and PRNG-generated tables/sequences and comparing invocation logs inside Coq.",
        "level_note": "Trusted: Coq kernel; the hand-written model of handler.go/server.go's loop; the Go harness and its Go->Gallina printer. Not modelled: the order in which Go's select picks among simultaneously ready inbound streams of different kinds (the harness paces envelopes or uses single-kind bursts so the order is determined).",
        "trusted": ["Model F (coq/Mux/Dispatch.v) re-states handler.go's four handle* loops, listen, and server.go handleChannel's deferred finish"],
        "assumptions": ["cross-kind select order is not modelled; sequences are paced or single-kind"],
    },
    "C17": {
        "title": "Concurrent sessions are isolated and handlers see their own session",
        "design_ref": "DESIGN.md section 5, C17; section 4 Models F and G (Mux/Sessions.v)",
        "technique": "Coq proof over all numbers of sessions, interleavings, id sources, Register callbacks and handler behaviours (per-session view theorem, non-interference, frame lemma, distinct ids) + differential correspondence: many real clients over mixed transports on one real Server",
        "level_text": "PARTIAL. Machine-checked proof (Coq 8.16.1, no axioms) about the product model - one server, any number of sessions, each with the id drawn for it, the server's node and the node the Register callback assigned, arbitrary interleavings of connects, arrivals and session ends, arbitrary handlers: every handler invocation for an envelope that arrived on session j is given session j's id, local and remote node; what is written through the Sender handed to the handler goes to session j's connection and only there; a session's view is a function of its own operations only (non-interference, frame lemma); ids are pairwise distinct given that the id source does not repeat (hypothesis on uuid, visible in the statement). Isolation holds in the model almost by construction (the mux keeps no per-session state); that the code has no hidden shared state is what the correspondence checks on every run: 2-8 (thorough: up to 32) real clients over in-process, TCP and WebSocket transports on one real Server whose Register callback permutes the addresses (sometimes giving two clients the same node), every handler recording ContextSessionID/LocalNode/RemoteNode and replying through its Sender with those values echoed, every client recording what it receives; the per-client views are compared inside Coq with the model's joint run and with the per-client specification, and the announced ids must be pairwise distinct.",
        "level_note": "Partial: the theorem is about explicit interleavings of whole dispatches; the Go scheduler, data races and the transports' framing are outside the model. Trusted: Coq kernel; Model F/G product (coq/Mux/Sessions.v); the harness (interning of strings into numbers, per-client programs) and printers.",
        "trusted": ["Model F/G product (coq/Mux/Sessions.v) re-states server.go consumeTransports/handleChannel (fresh id and channel per transport), context.go sessionContext and handler.go listen (context and Sender taken from the channel of arrival)"],
        "assumptions": ["uuid.NewString never repeats (hypothesis of C17_ids_distinct)", "clients are connected one after the other so that the i-th client is the i-th session"],
        "timeout": {"quick": 600, "thorough": 3000},
    },
}
