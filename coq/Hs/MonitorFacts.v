(* What acceptance by the monitor means, in terms of the trace itself:
   readable consequences used by the property files. *)
From Coq Require Import List Bool Arith String Lia.
Import ListNotations.
From Lime Require Import Hs.Types Hs.Server Hs.Monitor.
Open Scope string_scope.
Open Scope list_scope.

Section Facts.
  Variable conf : sconf.
  Variable o : oracle.
  Notation run := (mon_run conf o).
  Notation step := (mon_step conf o).

  Lemma run_split : forall pre e post m m',
    run m (pre ++ e :: post) = Some m' ->
    exists m1 m2, run m pre = Some m1 /\ step m1 e = Some m2 /\ run m2 post = Some m'.
  Proof.
    induction pre as [|x pre IH]; intros e post m m' H; cbn in H.
    - destruct (step m e) as [m2|] eqn:E; [|discriminate]. exists m, m2. auto.
    - destruct (step m x) as [mx|] eqn:E; [|discriminate].
      destruct (IH _ _ _ _ H) as (m1 & m2 & H1 & H2 & H3). exists m1, m2. cbn. rewrite E. auto.
  Qed.

  (* invariants over the history *)
  Lemma run_inv (I : list ev -> mst -> Prop) :
    (forall seen m e m', I seen m -> step m e = Some m' -> I (seen ++ [e]) m') ->
    forall t seen m m', I seen m -> run m t = Some m' -> I (seen ++ t) m'.
  Proof.
    intros Hstep. induction t as [|e t IH]; intros seen m m' HI H; cbn in H.
    - injection H as <-. rewrite app_nil_r. exact HI.
    - destruct (step m e) as [m1|] eqn:E; [|discriminate].
      replace (seen ++ e :: t) with ((seen ++ [e]) ++ t) by (rewrite <- app_assoc; reflexivity).
      eapply IH; eauto.
  Qed.

  Ltac inv_guard H :=
    unfold guard in H;
    match type of H with (if ?b then _ else _) = Some _ => destruct b eqn:?; [|discriminate] end.

  Ltac bools :=
    repeat match goal with
    | H : _ && _ = true |- _ => apply andb_prop in H; destruct H
    | H : negb _ = true |- _ => apply negb_true_iff in H
    | H : _ || _ = false |- _ => apply orb_false_iff in H; destruct H
    end.

  Ltac eqs :=
    repeat match goal with
    | H : Nat.eqb _ _ = true |- _ => apply Nat.eqb_eq in H
    | H : String.eqb _ _ = true |- _ => apply String.eqb_eq in H
    | H : negb _ = false |- _ => apply negb_false_iff in H
    end.

  (* ---- single-step inversions ---- *)
  Lemma step_authcall m f sch cred enc m' :
    step m (AuthCall f sch cred enc) = Some m' ->
    exists l ses, m_last m = Some l /\ is_auth l = true /\ m_in m = Some (CSes ses) /\
      f = cs_from ses /\ sch = presented_scheme ses /\ cred = cs_cred ses /\
      mem (cs_scheme ses) (sc_schemes conf) = true /\ enc = m_enc m /\ enc_ok conf enc = true /\
      m_est m = false /\ m_dead m = false /\ m_closed m = false /\
      m_authd m' = (match o_auth o f sch cred (m_round m) with ARole => Some f | _ => None end) /\
      m_reg m' = None /\ m_in m' = m_in m /\ m_est m' = false.
  Proof.
    unfold mon_step. destruct (m_last m) as [l|]; [|discriminate].
    destruct (m_in m) as [[ses| | |]|]; try discriminate.
    match goal with |- (if ?b then _ else _) = _ -> _ => destruct b eqn:E; [|discriminate] end.
    intros H; injection H as <-. bools.
    assert (Hc : cred = cs_cred ses).
    { match goal with H : opt_nat_eqb' cred (cs_cred ses) = true |- _ =>
        destruct cred, (cs_cred ses); cbn in H; try discriminate; auto; apply Nat.eqb_eq in H; congruence end. }
    eqs. exists l, ses. cbn. repeat split; auto.
  Qed.

  Lemma step_regcall m f enc m' :
    step m (RegCall f enc) = Some m' ->
    m_authd m = Some f /\ enc = m_enc m /\
    m_reg m' = (match o_reg o f with RNode n => Some n | RegErr => None end) /\ m_authd m' = None /\
    m_in m' = m_in m /\ m_est m' = m_est m.
  Proof.
    unfold mon_step. destruct (m_authd m) as [f'|]; [|discriminate].
    match goal with |- (if ?b then _ else _) = _ -> _ => destruct b eqn:E; [|discriminate] end.
    intros H; injection H as <-. bools. eqs. subst. cbn. repeat split; auto.
  Qed.

  Lemma step_sent_established m s enc m' :
    step m (Sent s enc) = Some m' -> ss_state s = SEstablished ->
    exists n, m_reg m = Some n /\ ss_to s = Some n /\ m_est m = false /\ enc_ok conf enc = true /\
              ss_id s = sc_sid conf /\ m_est m' = true.
  Proof.
    unfold mon_step. intros H Hs.
    destruct (m_closed m || m_dead m || negb (ss_id s =? sc_sid conf) || negb (enc =? m_enc m)) eqn:E0; [discriminate|].
    bools. eqs.
    destruct (m_viol m).
    { inv_guard H. bools. rewrite Hs in *. discriminate. }
    destruct (m_abort m).
    { inv_guard H. rewrite Hs in *. discriminate. }
    rewrite Hs in H. inv_guard H. injection H as <-. bools.
    destruct (m_reg m) as [n|]; [|discriminate]. destruct (ss_to s) as [n'|]; [|discriminate].
    eqs. subst. exists n'. cbn. repeat split; auto.
  Qed.

  Lemma step_sent_id m s enc m' : step m (Sent s enc) = Some m' -> ss_id s = sc_sid conf /\ m_dead m = false /\ m_closed m = false /\ enc = m_enc m.
  Proof.
    unfold mon_step.
    destruct (m_closed m || m_dead m || negb (ss_id s =? sc_sid conf) || negb (enc =? m_enc m)) eqn:E0; [discriminate|].
    intros _. bools. eqs. auto.
  Qed.

  (* ---- C03: provenance of the registered node ---- *)
  Definition prov (seen : list ev) (m : mst) : Prop :=
    (forall f, m_authd m = Some f ->
       exists sch cred enc round, In (AuthCall f sch cred enc) seen /\ o_auth o f sch cred round = ARole) /\
    (forall n, m_reg m = Some n ->
       exists f sch cred enc enc' round,
         In (AuthCall f sch cred enc) seen /\ o_auth o f sch cred round = ARole /\
         In (RegCall f enc') seen /\ o_reg o f = RNode n).

  Lemma in_app_l {A} (x : A) a b : In x a -> In x (a ++ b).
  Proof. intros; apply in_or_app; auto. Qed.

  Lemma prov_weaken seen e m m' :
    prov seen m -> m_authd m' = m_authd m -> m_reg m' = m_reg m -> prov (seen ++ [e]) m'.
  Proof.
    intros [Ha Hr] Ea Er. split.
    - intros f Hf. rewrite Ea in Hf. destruct (Ha f Hf) as (sch & cred & enc & round & Hin & Ho).
      exists sch, cred, enc, round. split; auto using in_app_l.
    - intros n Hn. rewrite Er in Hn. destruct (Hr n Hn) as (f & sch & cred & enc & enc' & round & H1 & H2 & H3 & H4).
      exists f, sch, cred, enc, enc', round. repeat split; auto using in_app_l.
  Qed.

  Lemma prov_step seen m e m' : prov seen m -> step m e = Some m' -> prov (seen ++ [e]) m'.
  Proof.
    intros HP H. destruct e.
    - (* Sent *)
      unfold mon_step in H.
      destruct (m_closed m || m_dead m || negb (ss_id s =? sc_sid conf) || negb (enc =? m_enc m)); [discriminate|].
      destruct (m_viol m); [inv_guard H; injection H as <-; eapply prov_weaken; eauto|].
      destruct (m_abort m); [inv_guard H; injection H as <-; eapply prov_weaken; eauto|].
      destruct (ss_state s); try discriminate.
      + destruct (is_offer s); inv_guard H; injection H as <-; eapply prov_weaken; eauto.
      + destruct (ss_round s); inv_guard H; injection H as <-.
        * split; cbn; intros ? Hx; discriminate.
        * eapply prov_weaken; eauto.
      + inv_guard H; injection H as <-. split; cbn; intros ? Hx; discriminate.
      + inv_guard H; injection H as <-; eapply prov_weaken; eauto.
      + inv_guard H; injection H as <-; eapply prov_weaken; eauto.
    - (* AuthCall *)
      destruct (step_authcall _ _ _ _ _ _ H) as (l & ses & _ & _ & _ & _ & _ & _ & _ & _ & _ & _ & _ & _ & Ha & Hr & _).
      split.
      + intros f Hf. rewrite Ha in Hf. destruct (o_auth o from scheme cred (m_round m)) eqn:Eo; try discriminate.
        injection Hf as <-. exists scheme, cred, enc, (m_round m). split; [apply in_or_app; right; left; reflexivity|exact Eo].
      + intros n Hn. rewrite Hr in Hn. discriminate.
    - (* RegCall *)
      destruct (step_regcall _ _ _ _ H) as (Hf & _ & Hr & Ha & _).
      split.
      + intros f Hx. rewrite Ha in Hx. discriminate.
      + intros n Hn. rewrite Hr in Hn. destruct (o_reg o from) eqn:Eo; try discriminate. injection Hn as <-.
        destruct HP as [HPa _]. destruct (HPa from Hf) as (sch & cred & enc0 & round & Hin & Ho).
        exists from, sch, cred, enc0, enc, round. repeat split; auto using in_app_l.
        apply in_or_app; right; left; reflexivity.
    - (* SetEnc *)
      unfold mon_step in H. destruct (m_last m); [|discriminate].
      destruct (is_confirm s && (ss_enc s =? e) && negb (m_closed m)); [|discriminate].
      destruct (Bool.eqb ok _); [|discriminate]. injection H as <-. eapply prov_weaken; eauto.
    - (* SetComp *)
      unfold mon_step in H. destruct (m_last m); [|discriminate]. inv_guard H. injection H as <-. eapply prov_weaken; eauto.
    - unfold mon_step in H. inv_guard H. injection H as <-. eapply prov_weaken; eauto.
    - unfold mon_step in H. inv_guard H. injection H as <-. eapply prov_weaken; eauto.
    - unfold mon_step in H. inv_guard H. injection H as <-. eapply prov_weaken; eauto.
    - unfold mon_step in H. inv_guard H. injection H as <-. eapply prov_weaken; eauto.
    - (* Took *)
      unfold mon_step in H. destruct (m_closed m || m_dead m || m_viol m || m_abort m); [discriminate|].
      destruct (m_est m); [injection H as <-; eapply prov_weaken; eauto|].
      destruct i; injection H as <-; eapply prov_weaken; eauto.
  Qed.

  Lemma prov_m0 : prov [] (m0 conf).
  Proof. split; cbn; intros ? H; discriminate. Qed.

  (* C03, in terms of the trace: an accepted trace announces a session only
     after an Authenticate call answered with a known role and a Register call
     for the same node, and announces exactly the node Register returned *)
  Theorem accepted_established_was_authenticated pre s enc post m' :
    run (m0 conf) (pre ++ Sent s enc :: post) = Some m' -> ss_state s = SEstablished ->
    exists f sch cred encA encR round n,
      In (AuthCall f sch cred encA) pre /\ o_auth o f sch cred round = ARole /\
      In (RegCall f encR) pre /\ o_reg o f = RNode n /\ ss_to s = Some n.
  Proof.
    intros H Hs. destruct (run_split _ _ _ _ _ H) as (m1 & m2 & H1 & H2 & _).
    pose proof (run_inv prov prov_step pre [] _ _ prov_m0 H1) as [_ Hr]. cbn in Hr.
    destruct (step_sent_established _ _ _ _ H2 Hs) as (n & Hn & Hto & _).
    destruct (Hr n Hn) as (f & sch & cred & encA & encR & round & A & B & C & D).
    exists f, sch, cred, encA, encR, round, n. auto.
  Qed.

  (* the most recent input *)
  Fixpoint last_in (t : list ev) (acc : option cin) : option cin :=
    match t with
    | [] => acc
    | Took i :: r => last_in r (Some i)
    | _ :: r => last_in r acc
    end.
  Lemma last_in_app a b acc : last_in (a ++ b) acc = last_in b (last_in a acc).
  Proof. revert acc. induction a as [|x a IH]; intros acc; cbn; auto. destruct x; apply IH. Qed.

  Lemma m_in_step seen m e m' : m_in m = last_in seen None -> step m e = Some m' -> m_in m' = last_in (seen ++ [e]) None.
  Proof.
    intros HI H. rewrite last_in_app. cbn.
    destruct e; cbn; try (rewrite <- HI).
    - unfold mon_step in H.
      destruct (m_closed m || m_dead m || negb (ss_id s =? sc_sid conf) || negb (enc =? m_enc m)); [discriminate|].
      destruct (m_viol m); [inv_guard H; injection H as <-; reflexivity|].
      destruct (m_abort m); [inv_guard H; injection H as <-; reflexivity|].
      destruct (ss_state s); try discriminate.
      + destruct (is_offer s); inv_guard H; injection H as <-; reflexivity.
      + destruct (ss_round s); inv_guard H; injection H as <-; reflexivity.
      + inv_guard H; injection H as <-; reflexivity.
      + inv_guard H; injection H as <-; reflexivity.
      + inv_guard H; injection H as <-; reflexivity.
    - destruct (step_authcall _ _ _ _ _ _ H) as (l & ses & ?). intuition congruence.
    - destruct (step_regcall _ _ _ _ H). intuition congruence.
    - unfold mon_step in H. destruct (m_last m); [|discriminate].
      destruct (is_confirm s && (ss_enc s =? e) && negb (m_closed m)); [|discriminate].
      destruct (Bool.eqb ok _); [|discriminate]. injection H as <-. reflexivity.
    - unfold mon_step in H. destruct (m_last m); [|discriminate]. inv_guard H. injection H as <-. reflexivity.
    - unfold mon_step in H. inv_guard H. injection H as <-. reflexivity.
    - unfold mon_step in H. inv_guard H. injection H as <-. reflexivity.
    - unfold mon_step in H. inv_guard H. injection H as <-. reflexivity.
    - unfold mon_step in H. inv_guard H. injection H as <-. reflexivity.
    - unfold mon_step in H. destruct (m_closed m || m_dead m || m_viol m || m_abort m); [discriminate|].
      destruct (m_est m); [injection H as <-; reflexivity|]. destruct i; injection H as <-; reflexivity.
  Qed.

  (* C03: credentials are checked only for what the peer presented last, under an offered
     scheme; C09/C10: under the encryption in force, which C10's precondition confines *)
  Theorem accepted_authcall_is_for_latest_input pre f sch cred enc post m' :
    run (m0 conf) (pre ++ AuthCall f sch cred enc :: post) = Some m' ->
    exists ses, last_in pre None = Some (CSes ses) /\ f = cs_from ses /\ sch = presented_scheme ses /\
                cred = cs_cred ses /\ mem (cs_scheme ses) (sc_schemes conf) = true /\ enc_ok conf enc = true.
  Proof.
    intros H. destruct (run_split _ _ _ _ _ H) as (m1 & m2 & H1 & H2 & _).
    assert (H0 : m_in (m0 conf) = last_in [] None) by reflexivity.
    pose proof (run_inv (fun seen m => m_in m = last_in seen None) m_in_step pre [] _ _ H0 H1) as Hin.
    cbn in Hin.
    destruct (step_authcall _ _ _ _ _ _ H2) as (l & ses & _ & _ & Hi & ? & ? & ? & ? & _ & ? & _).
    exists ses. rewrite <- Hin. repeat split; auto.
  Qed.

  (* C07 b / C10: every envelope carries the session id; requests for credentials and the
     established envelope respect C10's confinement *)
  Theorem accepted_sent pre s enc post m' :
    run (m0 conf) (pre ++ Sent s enc :: post) = Some m' ->
    ss_id s = sc_sid conf /\
    (ss_state s = SEstablished -> enc_ok conf enc = true).
  Proof.
    intros H. destruct (run_split _ _ _ _ _ H) as (m1 & m2 & _ & H2 & _).
    destruct (step_sent_id _ _ _ _ H2) as (Hid & _). split; auto.
    intros Hs. destruct (step_sent_established _ _ _ _ H2 Hs) as (n & _ & _ & _ & He & _). exact He.
  Qed.

  (* C10, unfolded: under its precondition enc_ok means "a configured encryption" *)
  Lemma enc_ok_c10 enc : c10_pre conf = true -> enc_ok conf enc = true -> mem enc (sc_enc conf) = true.
  Proof. unfold enc_ok. intros ->. auto. Qed.

  (* C07 d / C14: after failed or finished nothing more is sent, and the end state is closed *)
  Theorem accepted_final t ended m :
    run (m0 conf) t = Some m -> mon_final ended m = true ->
    m_viol m = false /\ (m_dead m = true -> m_closed m = true) /\ (m_abort m = true -> m_closed m = true) /\
    (ended = true -> m_closed m = true).
  Proof.
    unfold mon_final. intros _ H. bools. repeat split; auto.
    - intros Hd. rewrite Hd in *. auto.
    - intros Ha. rewrite Ha in *. auto.
    - intros He. rewrite He in *. auto.
  Qed.

  Theorem accepted_nothing_after_terminal pre s enc post m' :
    run (m0 conf) (pre ++ Sent s enc :: post) = Some m' -> terminal (ss_state s) = true ->
    forall e, In e post -> match e with Sent _ _ | Took _ | AuthCall _ _ _ _ => False | _ => True end.
  Proof.
    intros H Ht. destruct (run_split _ _ _ _ _ H) as (m1 & m2 & _ & H2 & H3).
    assert (Hd : m_dead m2 = true).
    { unfold mon_step in H2.
      destruct (m_closed m1 || m_dead m1 || negb (ss_id s =? sc_sid conf) || negb (enc =? m_enc m1)); [discriminate|].
      destruct (m_viol m1); [inv_guard H2; injection H2 as <-; reflexivity|].
      destruct (m_abort m1); [inv_guard H2; injection H2 as <-; reflexivity|].
      destruct (ss_state s); try discriminate; inv_guard H2; injection H2 as <-; reflexivity. }
    clear H H2. revert m2 Hd H3. induction post as [|x post IH]; intros m2 Hd H3 e Hin; [inversion Hin|].
    cbn in H3. destruct (step m2 x) as [m3|] eqn:E; [|discriminate].
    assert (Hx : match x with Sent _ _ | Took _ | AuthCall _ _ _ _ => False | _ => True end /\ m_dead m3 = true).
    { destruct x; unfold mon_step in E.
      - rewrite Hd, orb_true_r in E. discriminate.
      - destruct (m_last m2); [|discriminate]. destruct (m_in m2) as [[]|]; try discriminate.
        rewrite Hd in E. rewrite !orb_true_r, andb_false_r in E. cbn in E. discriminate.
      - destruct (m_authd m2); [|discriminate]. rewrite Hd, orb_true_r in E. cbn in E.
        rewrite !andb_false_r in E. discriminate.
      - destruct (m_last m2); [|discriminate].
        destruct (is_confirm s0 && (ss_enc s0 =? e0) && negb (m_closed m2)); [|discriminate].
        destruct (Bool.eqb ok _); [|discriminate]. injection E as <-. auto.
      - destruct (m_last m2); [|discriminate]. inv_guard E. injection E as <-. auto.
      - inv_guard E. injection E as <-. auto.
      - inv_guard E. bools. rewrite Hd in *. discriminate.
      - inv_guard E. injection E as <-. auto.
      - inv_guard E. injection E as <-. auto.
      - rewrite Hd in E. rewrite orb_true_r in E. cbn in E. discriminate. }
    destruct Hx as [Hx Hd3]. destruct Hin as [<-|Hin]; [exact Hx|]. eapply IH; eauto.
  Qed.
End Facts.
