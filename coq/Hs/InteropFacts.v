(* Facts about the composition of Models B and C (Hs/Interop.v): a client and a server whose configurations fit
   together establish one session and agree about it; over a JSON connection an authentication round trip does
   not get through. *)
From Coq Require Import List Bool Arith String Lia.
Import ListNotations.
From Lime Require Import Hs.Types Hs.Server Hs.Client Hs.Interop.
Open Scope string_scope.
Open Scope list_scope.

(* the envelopes of a joint run *)
Definition new_env : usent :=
  {| us_state := SNew; us_id := ""; us_enc := ""; us_comp := ""; us_scheme := ""; us_cred := None; us_from := 0 |}.
Definition neg_env (sid enc comp : string) : usent :=
  {| us_state := SNegotiating; us_id := sid; us_enc := enc; us_comp := comp; us_scheme := ""; us_cred := None; us_from := 0 |}.
Definition auth_env (sid sch : string) (cred id : nat) : usent :=
  {| us_state := SAuthenticating; us_id := sid; us_enc := ""; us_comp := ""; us_scheme := sch; us_cred := Some cred; us_from := id |}.

Definition v_env (snode : nat) (st : state) (sid : string) (to : nat) (eo co so : list string) (enc comp : string)
  (rt : option nat) : sin :=
  VSes {| vs_state := st; vs_id := sid; vs_from := snode; vs_to := to; vs_encopts := eo; vs_compopts := co;
          vs_schemeopts := so; vs_enc := enc; vs_comp := comp; vs_round := rt |}.
Definition v_auth_offer snode sid schemes := v_env snode SAuthenticating sid 0 [] [] schemes "" "" None.
Definition v_established snode sid n := v_env snode SEstablished sid n [] [] [] "" "" None.
Definition v_neg_offer snode sid eo co := v_env snode SNegotiating sid 0 eo co [] "" "" None.
Definition v_neg_confirm snode sid enc comp := v_env snode SNegotiating sid 0 [] [] [] enc comp None.

Definition mk_sconf comp enc schemes k t sid : sconf :=
  {| sc_comp := comp; sc_enc := enc; sc_schemes := schemes; sc_kind := k; sc_tls_ok := t; sc_sid := sid |}.
Definition mk_cconf csel esel auth id k t : cconf :=
  {| cc_comp_sel := csel; cc_enc_sel := esel; cc_auth := auth; cc_identity := id; cc_kind := k; cc_tls_ok := t |}.

Definition neg_comp_of (comp : list string) (k : tkind) := intersect comp (supported_comp k).
Definition neg_enc_of (enc : list string) (k : tkind) := intersect enc (supported_enc k).

(* ---------- no negotiation stage: the server goes straight to authentication ---------- *)
Section Direct.
Variables (wire : bool) (snode : nat).
Variables (comp enc : list string) (sch0 : string) (schs : list string) (k : tkind) (t : bool) (sid : string).
Variables (o : oracle) (csel esel : list string -> string) (auth : list string -> option nat -> string * nat) (id : nat).
Variables (sch : string) (cred n : nat).
Let sc := mk_sconf comp enc (sch0 :: schs) k t sid.
Let cc := mk_cconf csel esel auth id k t.
Hypothesis Hneed : needs_negotiation s_repaired sc (chan0 sc) (neg_comp_of comp k) (neg_enc_of enc k) = false.
Hypothesis Hauth : auth (sch0 :: schs) None = (sch, cred).
Hypothesis Hmem : mem sch (sch0 :: schs) = true.

Definition direct_cins : list cin := [to_cin new_env; to_cin (auth_env sid sch cred id)].

Section Accepted.
Hypothesis Ha : o_auth o id sch (Some cred) 0 = ARole.
Hypothesis Hr : o_reg o id = RNode n.

Lemma server_direct :
  let r := server_on sc o direct_cins in
  s_out wire snode (rr_trace r) = [v_auth_offer snode sid (sch0 :: schs); v_established snode sid n] /\
  existsb (fun e => match e with EstCb => true | _ => false end) (rr_trace r) = true /\
  ch_remote (rr_chan r) = Some n /\ ch_enc (rr_chan r) = initial_enc k.
Proof.
  unfold server_on, handle_channel, establish, direct_cins.
  cbn -[needs_negotiation intersect mem auth_loop]. fold sc.
  unfold neg_comp_of, neg_enc_of in Hneed. rewrite Hneed.
  cbn -[needs_negotiation intersect mem]. rewrite String.eqb_refl. cbn -[mem]. rewrite Hmem. cbn.
  rewrite Ha, Hr. cbn. unfold to_sin. cbn. rewrite !andb_false_r. repeat split; reflexivity.
Qed.

Lemma client_direct :
  let r := client_on cc [v_auth_offer snode sid (sch0 :: schs); v_established snode sid n] in
  c_out (ctrace r) = direct_cins /\ build_ok r = true /\
  uc_sid (snd (fst r)) = sid /\ uc_local (snd (fst r)) = n /\ uc_remote (snd (fst r)) = snode /\
  uc_enc (snd (fst r)) = initial_enc k.
Proof.
  unfold client_on, cestablish, direct_cins. cbn. rewrite Hauth. cbn. repeat split; reflexivity.
Qed.
End Accepted.

(* the server's Authenticate asks for a round trip: over a JSON connection the client cannot read the request *)
Section RoundTripOnTheWire.
Variable d : nat.
Hypothesis Ha : o_auth o id sch (Some cred) 0 = ARound d.

Lemma server_direct_round_trip :
  let r := server_on sc o direct_cins in
  s_out true snode (rr_trace r) = [v_auth_offer snode sid (sch0 :: schs); VBad] /\
  s_out false snode (rr_trace r) =
    [v_auth_offer snode sid (sch0 :: schs); v_env snode SAuthenticating sid 0 [] [] [] "" "" (Some d)] /\
  existsb (fun e => match e with EstCb => true | _ => false end) (rr_trace r) = false /\
  rr_outcome r = Blocked.
Proof.
  unfold server_on, handle_channel, establish, direct_cins.
  cbn -[needs_negotiation intersect mem auth_loop]. fold sc.
  unfold neg_comp_of, neg_enc_of in Hneed. rewrite Hneed.
  cbn -[needs_negotiation intersect mem]. rewrite String.eqb_refl. cbn -[mem]. rewrite Hmem. cbn.
  rewrite Ha. cbn. repeat split; reflexivity.
Qed.

Lemma client_direct_undecodable :
  let r := client_on cc [v_auth_offer snode sid (sch0 :: schs); VBad] in
  c_out (ctrace r) = direct_cins /\ build_ok r = false /\ snd r = CErr.
Proof.
  unfold client_on, cestablish, direct_cins. cbn. rewrite Hauth. cbn. repeat split; reflexivity.
Qed.
End RoundTripOnTheWire.
End Direct.

Lemma set_enc_fst k t cur e : fst (set_enc k t cur e) = true -> set_enc k t cur e = (true, e).
Proof.
  intros H. destruct (set_enc k t cur e) as [b e'] eqn:E. cbn in H. subst b.
  rewrite (set_enc_ok_is_requested _ _ _ _ _ E). reflexivity.
Qed.

(* ---------- with a negotiation stage ---------- *)
Section Negotiated.
Variables (wire : bool) (snode : nat).
Variables (comp enc : list string) (sch0 : string) (schs : list string) (k : tkind) (t : bool) (sid : string).
Variables (o : oracle) (csel esel : list string -> string) (auth : list string -> option nat -> string * nat) (id : nat).
Variables (sch : string) (cred n : nat).
Variables (c0 e0 : string) (cs es : list string).
Let sc := mk_sconf comp enc (sch0 :: schs) k t sid.
Let cc := mk_cconf csel esel auth id k t.
Hypothesis Hneed : needs_negotiation s_repaired sc (chan0 sc) (neg_comp_of comp k) (neg_enc_of enc k) = true.
Hypothesis HNC : neg_comp_of comp k = c0 :: cs.
Hypothesis HNE : neg_enc_of enc k = e0 :: es.
Let selc := csel (c0 :: cs).
Let sele := esel (e0 :: es).
(* the client's selectors choose among what was offered *)
Hypothesis Hc_ne : String.eqb selc "" = false.
Hypothesis He_ne : String.eqb sele "" = false.
Hypothesis Hc_mem : mem selc (c0 :: cs) = true.
Hypothesis He_mem : mem sele (e0 :: es) = true.
(* the transport can do what was chosen (at both ends: they are of the same kind) *)
Hypothesis Hcomp : String.eqb "none" selc = true \/ set_comp k "none" selc = true.
Hypothesis Henc : String.eqb (initial_enc k) sele = true \/ fst (set_enc k t (initial_enc k) sele) = true.
Hypothesis Hauth : auth (sch0 :: schs) None = (sch, cred).
Hypothesis Hmem : mem sch (sch0 :: schs) = true.
Hypothesis Ha : o_auth o id sch (Some cred) 0 = ARole.
Hypothesis Hr : o_reg o id = RNode n.

Definition negotiated_cins : list cin :=
  [to_cin new_env; to_cin (neg_env sid sele selc); to_cin (auth_env sid sch cred id)].
Definition negotiated_sins : list sin :=
  [v_neg_offer snode sid (e0 :: es) (c0 :: cs); v_neg_confirm snode sid sele selc;
   v_auth_offer snode sid (sch0 :: schs); v_established snode sid n].

Lemma server_negotiated :
  let r := server_on sc o negotiated_cins in
  s_out wire snode (rr_trace r) = negotiated_sins /\
  existsb (fun e => match e with EstCb => true | _ => false end) (rr_trace r) = true /\
  ch_remote (rr_chan r) = Some n /\ ch_enc (rr_chan r) = sele.
Proof.
  unfold server_on, handle_channel, establish, negotiated_cins.
  cbn -[needs_negotiation intersect mem auth_loop negotiate_session authenticate_session]. fold sc.
  unfold neg_comp_of, neg_enc_of in Hneed, HNC, HNE. rewrite Hneed, HNC, HNE.
  unfold negotiate_session.
  cbn -[mem auth_loop authenticate_session set_enc set_comp String.eqb]. fold selc sele.
  rewrite String.eqb_refl. cbn -[mem auth_loop authenticate_session set_enc set_comp String.eqb].
  rewrite Hc_ne, He_ne, Hc_mem, He_mem.
  cbn -[mem auth_loop authenticate_session set_enc set_comp String.eqb].
  assert (Hcs : (if String.eqb "none" selc then ([] : list ev, true)
                 else ([SetComp selc (set_comp k "none" selc)], set_comp k "none" selc)) =
                ((if String.eqb "none" selc then [] else [SetComp selc true]), true)).
  { destruct Hcomp as [H|H]; [rewrite H; reflexivity|]. rewrite H. destruct (String.eqb "none" selc); reflexivity. }
  rewrite Hcs. cbn -[mem auth_loop authenticate_session set_enc set_comp String.eqb].
  destruct (String.eqb (initial_enc k) sele) eqn:Ee.
  - apply String.eqb_eq in Ee.
    cbn -[mem set_enc set_comp String.eqb]. rewrite String.eqb_refl. cbn -[mem set_enc set_comp String.eqb].
    rewrite Hmem. cbn -[set_enc set_comp String.eqb]. rewrite Ha, Hr. cbn -[set_enc set_comp String.eqb].
    rewrite !flat_map_app. cbn -[String.eqb]. unfold to_sin. cbn -[String.eqb]. rewrite !andb_false_r.
    split; [|split; [|split]].
    + destruct (String.eqb "none" selc); reflexivity.
    + rewrite !existsb_app. cbn. rewrite !orb_true_r. reflexivity.
    + reflexivity.
    + exact Ee.
  - destruct Henc as [H|H]; [congruence|]. rewrite (set_enc_fst _ _ _ _ H).
    cbn -[mem set_enc set_comp String.eqb]. rewrite String.eqb_refl. cbn -[mem set_enc set_comp String.eqb].
    rewrite Hmem. cbn -[set_enc set_comp String.eqb]. rewrite Ha, Hr. cbn -[set_enc set_comp String.eqb].
    rewrite !flat_map_app. cbn -[String.eqb]. unfold to_sin. cbn -[String.eqb]. rewrite !andb_false_r.
    split; [|split; [|split]].
    + destruct (String.eqb "none" selc); reflexivity.
    + rewrite !existsb_app. cbn. rewrite !orb_true_r. reflexivity.
    + reflexivity.
    + reflexivity.
Qed.

Lemma client_negotiated :
  let r := client_on cc negotiated_sins in
  c_out (ctrace r) = negotiated_cins /\ build_ok r = true /\
  uc_sid (snd (fst r)) = sid /\ uc_local (snd (fst r)) = n /\ uc_remote (snd (fst r)) = snode /\
  uc_enc (snd (fst r)) = sele.
Proof.
  unfold client_on, cestablish, negotiated_sins.
  cbn -[set_enc set_comp String.eqb]. fold selc sele.
  rewrite Hc_ne, He_ne. cbn -[set_enc set_comp String.eqb].
  assert (Hcs : (if negb (String.eqb selc "none") then ([USetComp selc (set_comp k "none" selc)], set_comp k "none" selc)
                 else ([] : list cev, true)) =
                ((if negb (String.eqb selc "none") then [USetComp selc true] else []), true)).
  { destruct Hcomp as [H|H].
    - rewrite String.eqb_sym in H. rewrite H. reflexivity.
    - rewrite H. destruct (String.eqb selc "none"); reflexivity. }
  rewrite Hcs. cbn -[set_enc set_comp String.eqb].
  destruct (String.eqb sele (initial_enc k)) eqn:Ee.
  - apply String.eqb_eq in Ee. cbn -[set_enc set_comp String.eqb]. rewrite Hauth. cbn -[String.eqb].
    rewrite !flat_map_app. cbn -[String.eqb].
    repeat split; try reflexivity.
    + destruct (negb (String.eqb selc "none")); reflexivity.
    + symmetry; exact Ee.
  - destruct Henc as [H|H]; [rewrite String.eqb_sym in H; congruence|]. rewrite (set_enc_fst _ _ _ _ H).
    cbn -[set_enc set_comp String.eqb]. rewrite Hauth. cbn -[String.eqb].
    rewrite !flat_map_app. cbn -[String.eqb].
    repeat split; try reflexivity.
    destruct (negb (String.eqb selc "none")); reflexivity.
Qed.
End Negotiated.

(* ---------- the two cases together ---------- *)
(* a client configuration [cc] fits a server configuration [sc] with callbacks [o]: same kind of transport at both
   ends; where the server negotiates, the client's selectors pick offered options that the transport can switch
   to; the client's authenticator answers the offered schemes with one of them and credentials that the server's
   Authenticate accepts at once, and Register assigns node [n].  [enc] is the encryption that results. *)
Definition fits (sc : sconf) (o : oracle) (cc : cconf) (n : nat) (enc : string) : Prop :=
  let k := sc_kind sc in
  let NC := neg_comp_of (sc_comp sc) k in
  let NE := neg_enc_of (sc_enc sc) k in
  cc_kind cc = k /\ cc_tls_ok cc = sc_tls_ok sc /\ sc_schemes sc <> [] /\
  (exists sch cred, cc_auth cc (sc_schemes sc) None = (sch, cred) /\ mem sch (sc_schemes sc) = true /\
                    o_auth o (cc_identity cc) sch (Some cred) 0 = ARole /\ o_reg o (cc_identity cc) = RNode n) /\
  (if needs_negotiation s_repaired sc (chan0 sc) NC NE
   then NC <> [] /\ NE <> [] /\
        let selc := cc_comp_sel cc NC in
        let sele := cc_enc_sel cc NE in
        String.eqb selc "" = false /\ String.eqb sele "" = false /\ mem selc NC = true /\ mem sele NE = true /\
        (String.eqb "none" selc = true \/ set_comp k "none" selc = true) /\
        (String.eqb (initial_enc k) sele = true \/ fst (set_enc k (sc_tls_ok sc) (initial_enc k) sele) = true) /\
        enc = sele
   else enc = initial_enc k).

Theorem fitting_ends_establish_and_agree wire snode sc o cc n enc :
  fits sc o cc n enc ->
  exists cins, consistent wire snode sc o cc cins /\ agree snode (ends_of wire snode sc o cc cins) n enc.
Proof.
  destruct sc as [comp encs schemes k t sid]. destruct cc as [csel esel auth id k' t'].
  unfold fits. cbn [sc_kind sc_comp sc_enc sc_schemes sc_tls_ok cc_kind cc_tls_ok cc_auth cc_identity cc_comp_sel cc_enc_sel].
  intros (-> & -> & Hsch & (sch & cred & Hauth & Hmem & Ha & Hr) & Hneg).
  destruct schemes as [|sch0 schs]; [congruence|].
  destruct (needs_negotiation s_repaired _ _ _ _) eqn:Hneed.
  - destruct Hneg as (HNC & HNE & Hc_ne & He_ne & Hc_mem & He_mem & Hcomp & Henc & ->).
    destruct (neg_comp_of comp k) as [|c0 cs] eqn:ENC; [congruence|].
    destruct (neg_enc_of encs k) as [|e0 es] eqn:ENE; [congruence|].
    rewrite <- ENC, <- ENE in Hneed.
    pose proof (server_negotiated wire snode comp encs sch0 schs k t sid o csel esel id sch cred n c0 e0 cs es
                  Hneed ENC ENE Hc_ne He_ne Hc_mem He_mem Hcomp Henc Hmem Ha Hr) as (S1 & S2 & S3 & S4).
    pose proof (client_negotiated snode sch0 schs k t sid csel esel auth id sch cred n c0 e0 cs es
                  Hc_ne He_ne Hcomp Henc Hauth) as (C1 & C2 & C3 & C4 & C5 & C6).
    exists (negotiated_cins sid csel esel id sch cred c0 e0 cs es).
    unfold consistent, round, agree, ends_of. fold (mk_sconf comp encs (sch0 :: schs) k t sid).
    fold (mk_cconf csel esel auth id k t). match goal with |- context [s_out ?a ?b ?c] => assert (Hdbg : s_out a b c = negotiated_sins snode sch0 schs sid csel esel n c0 e0 cs es) by exact S1 end. rewrite Hdbg.
    cbn [e_server_established e_client_established e_server_sid e_client_sid e_server_remote e_client_local
         e_client_remote e_server_enc e_client_enc].
    repeat split; assumption.
  - subst enc.
    pose proof (server_direct wire snode comp encs sch0 schs k t sid o id sch cred n Hneed Hmem Ha Hr) as (S1 & S2 & S3 & S4).
    pose proof (client_direct snode sch0 schs k t sid csel esel auth id sch cred n Hauth) as (C1 & C2 & C3 & C4 & C5 & C6).
    exists (direct_cins sid id sch cred).
    unfold consistent, round, agree, ends_of. fold (mk_sconf comp encs (sch0 :: schs) k t sid).
    fold (mk_cconf csel esel auth id k t).
    match goal with |- context [s_out ?a ?b ?c] =>
      assert (Hdbg : s_out a b c = [v_auth_offer snode sid (sch0 :: schs); v_established snode sid n]) by exact S1 end.
    rewrite Hdbg.
    cbn [e_server_established e_client_established e_server_sid e_client_sid e_server_remote e_client_local
         e_client_remote e_server_enc e_client_enc].
    repeat split; assumption.
Qed.

(* Over TCP and WebSocket an authentication that needs a round trip never completes between a lime-go client and a
   lime-go server: in the joint run the client's handshake ends with an error when the server's round-trip request
   arrives, and the server is left waiting.  (No negotiation stage here; see the computed examples for one.) *)
Theorem round_trip_does_not_cross_the_wire snode comp encs sch0 schs k t sid o csel esel auth id sch cred d :
  let sc := mk_sconf comp encs (sch0 :: schs) k t sid in
  let cc := mk_cconf csel esel auth id k t in
  needs_negotiation s_repaired sc (chan0 sc) (neg_comp_of comp k) (neg_enc_of encs k) = false ->
  auth (sch0 :: schs) None = (sch, cred) -> mem sch (sch0 :: schs) = true ->
  o_auth o id sch (Some cred) 0 = ARound d ->
  exists cins, consistent true snode sc o cc cins /\
               e_client_established (ends_of true snode sc o cc cins) = false /\
               e_server_established (ends_of true snode sc o cc cins) = false.
Proof.
  intros sc cc Hneed Hauth Hmem Ha.
  pose proof (server_direct_round_trip snode comp encs sch0 schs k t sid o id sch cred Hneed Hmem d Ha) as (S1 & _ & S3 & _).
  pose proof (client_direct_undecodable snode sch0 schs k t sid csel esel auth id sch cred Hauth) as (C1 & C2 & _).
  exists (direct_cins sid id sch cred).
  unfold consistent, round, ends_of. fold sc cc.
  match goal with |- context [s_out ?a ?b ?c] =>
    assert (Hs : s_out a b c = [v_auth_offer snode sid (sch0 :: schs); VBad]) by exact S1 end.
  rewrite Hs. cbn [e_server_established e_client_established]. repeat split; assumption.
Qed.

(* ---------- any number of authentication round trips, envelopes handed over as objects (in-process) ---------- *)
Section Rounds.
Variables (snode : nat).
Variables (comp enc : list string) (sch0 : string) (schs : list string) (k : tkind) (t : bool) (sid : string).
Variables (o : oracle) (csel esel : list string -> string) (auth : list string -> option nat -> string * nat) (id : nat).
Variables (d : nat -> nat) (r n : nat).
Let sc := mk_sconf comp enc (sch0 :: schs) k t sid.
Let cc := mk_cconf csel esel auth id k t.
(* the client's answer in round i *)
Definition answer (i : nat) : string * nat :=
  match i with O => auth (sch0 :: schs) None | S j => auth [] (Some (d j)) end.
Definition answer_env (i : nat) : usent := auth_env sid (fst (answer i)) (snd (answer i)) id.
Definition v_round (i : nat) : sin := v_env snode SAuthenticating sid 0 [] [] [] "" "" (Some (d i)).

Hypothesis Hmem : forall i, i <= r -> mem (fst (answer i)) (sch0 :: schs) = true.
Hypothesis Hround : forall i, i < r -> o_auth o id (fst (answer i)) (Some (snd (answer i))) i = ARound (d i).
Hypothesis Hrole : o_auth o id (fst (answer r)) (Some (snd (answer r))) r = ARole.
Hypothesis Hreg : o_reg o id = RNode n.

Definition cses_of (u : usent) : cses :=
  {| cs_id := us_id u; cs_state := us_state u; cs_enc := us_enc u; cs_comp := us_comp u;
     cs_scheme := us_scheme u; cs_cred := us_cred u; cs_from := us_from u |}.

Lemma server_rounds : forall m i c, i + m = r ->
  ch_state c = SAuthenticating -> ch_conn c = true ->
  let '(evs, c', out, rest) :=
    auth_loop sc o c (cses_of (answer_env i)) i (map (fun j => to_cin (answer_env j)) (seq (S i) m)) in
  s_out false snode evs = map v_round (seq i m) ++ [v_established snode sid n] /\
  out = Returned false /\ rest = [] /\ ch_state c' = SEstablished /\ ch_remote c' = Some n /\ ch_enc c' = ch_enc c /\
  ch_conn c' = true.
Proof.
  induction m as [|m IH]; intros i c Hi Hst Hconn.
  - assert (i = r) by lia. subst i.
    destruct c as [st e cm cn rm]. cbn in Hst, Hconn. subst st cn.
    cbn -[mem]. rewrite String.eqb_refl. cbn -[mem]. rewrite (Hmem r (le_n r)). cbn.
    rewrite Hrole, Hreg. cbn. repeat split; reflexivity.
  - specialize (IH (S i) c).
    destruct c as [st e cm cn rm]. cbn in Hst, Hconn. subst st cn.
    cbn -[mem auth_loop].
    cbn -[mem]. rewrite String.eqb_refl. cbn -[mem auth_loop]. rewrite (Hmem i) by lia.
    cbn -[auth_loop]. rewrite (Hround i) by lia. cbn -[auth_loop].
    change {| cs_id := sid; cs_state := SAuthenticating; cs_enc := ""; cs_comp := "";
              cs_scheme := fst (auth [] (Some (d i))); cs_cred := Some (snd (auth [] (Some (d i)))); cs_from := id |}
      with (cses_of (answer_env (S i))).
    cbn [ch_enc] in IH.
    destruct (auth_loop sc o _ (cses_of (answer_env (S i))) (S i) _) as [[[evs c'] out] rest].
    destruct IH as (I1 & I2 & I3 & I4 & I5 & I6 & I7); [lia|reflexivity|reflexivity|].
    cbn [s_out flat_map app]. unfold to_sin at 1. cbn [ss_round andb].
    fold (s_out false snode evs). rewrite I1. repeat split; assumption.
Qed.

Definition c_auth (e : string) : cchan :=
  {| uc_state := SAuthenticating; uc_sid := sid; uc_local := 0; uc_remote := 0; uc_enc := e; uc_comp := "none";
     uc_conn := true; uc_rcv := false |}.
Definition established_vses : vses :=
  {| vs_state := SEstablished; vs_id := sid; vs_from := snode; vs_to := n; vs_encopts := []; vs_compopts := [];
     vs_schemeopts := []; vs_enc := ""; vs_comp := ""; vs_round := None |}.

Lemma client_rounds : forall m i fuel e ses, i + m = r -> m + 2 <= fuel ->
  vs_state ses = SAuthenticating -> auth (vs_schemeopts ses) (vs_round ses) = answer i ->
  let '(evs, c', out) :=
    cauth_loop fuel c_repaired cc (c_auth e) ses (vs_round ses) (map v_round (seq i m) ++ [v_established snode sid n]) in
  c_out evs = map (fun j => to_cin (answer_env j)) (seq i (S m)) /\ out = CRet established_vses /\
  uc_sid c' = sid /\ uc_local c' = n /\ uc_remote c' = snode /\ uc_enc c' = e /\ uc_state c' = SEstablished.
Proof.
  induction m as [|m IH]; intros i fuel e ses Hi Hfuel Hst Hans.
  - destruct fuel as [|[|fuel]]; [lia|lia|].
    cbn -[answer]. rewrite Hst. cbn -[answer]. rewrite Hans.
    unfold answer_env. destruct (answer i) as [s c]. cbn. repeat split; reflexivity.
  - destruct fuel as [|fuel]; [lia|].
    specialize (IH (S i) fuel e
      {| vs_state := SAuthenticating; vs_id := sid; vs_from := snode; vs_to := 0; vs_encopts := []; vs_compopts := [];
         vs_schemeopts := []; vs_enc := ""; vs_comp := ""; vs_round := Some (d i) |}).
    cbn [vs_round vs_state vs_schemeopts] in IH.
    cbn -[answer cauth_loop]. 
    cbn -[answer]. rewrite Hst. cbn -[answer cauth_loop]. rewrite Hans.
    unfold answer_env at 1. destruct (answer i) as [s c] eqn:Ea. cbn -[answer cauth_loop].
    change (upd (c_auth e) SAuthenticating sid 0 0 true false) with (c_auth e).
    destruct (cauth_loop fuel c_repaired cc (c_auth e) _ (Some (d i)) _) as [[evs c'] out].
    destruct IH as (I1 & I2 & I3 & I4 & I5 & I6 & I7); [lia|lia|reflexivity|reflexivity|].
    cbn -[answer]. fold (c_out evs). rewrite I1. repeat split; assumption.
Qed.

Hypothesis Hneed : needs_negotiation s_repaired sc (chan0 sc) (neg_comp_of comp k) (neg_enc_of enc k) = false.

Definition rounds_cins : list cin := to_cin new_env :: map (fun j => to_cin (answer_env j)) (seq 0 (S r)).
Definition rounds_sins : list sin :=
  v_auth_offer snode sid (sch0 :: schs) :: map v_round (seq 0 r) ++ [v_established snode sid n].

Lemma server_with_rounds :
  let res := server_on sc o rounds_cins in
  s_out false snode (rr_trace res) = rounds_sins /\
  existsb (fun e => match e with EstCb => true | _ => false end) (rr_trace res) = true /\
  ch_remote (rr_chan res) = Some n /\ ch_enc (rr_chan res) = initial_enc k.
Proof.
  unfold server_on, handle_channel, establish, rounds_cins.
  cbn -[needs_negotiation intersect mem auth_loop answer_env]. fold sc.
  unfold neg_comp_of, neg_enc_of in Hneed. rewrite Hneed.
  cbn -[needs_negotiation intersect mem auth_loop answer_env].
  pose proof (server_rounds r 0
    {| ch_state := SAuthenticating; ch_enc := initial_enc k; ch_comp := "none"; ch_conn := true; ch_remote := None |}
    eq_refl eq_refl eq_refl) as H.
  match type of H with context [auth_loop ?a ?b ?c ?d ?e ?f] => set (X := auth_loop a b c d e f) in H end.
  match goal with |- context [auth_loop ?a ?b ?c ?d ?e ?f] => change (auth_loop a b c d e f) with X end.
  destruct X as [[[evs c'] out] rest]. destruct H as (H1 & -> & -> & H4 & H5 & H6 & H7).
  cbn [ch_enc] in H6. rewrite H4, H7. cbn -[answer_env].
  destruct c' as [st' e' cm' cn' rm']. cbn in H4, H5, H6, H7. subst.
  cbn -[answer_env].
  match goal with |- context [flat_map ?f (evs ++ [EstCb])] =>
    change (flat_map f (evs ++ [EstCb])) with (s_out false snode (evs ++ [EstCb])) end.
  unfold s_out at 1. rewrite flat_map_app. fold (s_out false snode evs). rewrite H1. cbn -[answer_env].
  rewrite app_nil_r.
  repeat split; try reflexivity.
  rewrite existsb_app. cbn. rewrite orb_true_r. reflexivity.
Qed.

Lemma client_with_rounds :
  let res := client_on cc rounds_sins in
  c_out (ctrace res) = rounds_cins /\ build_ok res = true /\
  uc_sid (snd (fst res)) = sid /\ uc_local (snd (fst res)) = n /\ uc_remote (snd (fst res)) = snode /\
  uc_enc (snd (fst res)) = initial_enc k.
Proof.
  unfold client_on, cestablish, rounds_sins, rounds_cins.
  cbn -[cauth_loop answer_env seq].
  pose proof (client_rounds r 0 (S (List.length (map v_round (seq 0 r) ++ [v_established snode sid n]))) (initial_enc k)
    {| vs_state := SAuthenticating; vs_id := sid; vs_from := snode; vs_to := 0; vs_encopts := []; vs_compopts := [];
       vs_schemeopts := sch0 :: schs; vs_enc := ""; vs_comp := ""; vs_round := None |} eq_refl) as H.
  cbn [vs_round vs_state vs_schemeopts] in H.
  match type of H with context [cauth_loop ?a ?b ?c ?d ?e ?f ?g] => set (X := cauth_loop a b c d e f g) in H end.
  match goal with |- context [cauth_loop ?a ?b ?c ?d ?e ?f ?g] => change (cauth_loop a b c d e f g) with X end.
  destruct X as [[evs c'] out].
  destruct H as (H1 & -> & H3 & H4 & H5 & H6 & H7); [|reflexivity|reflexivity|].
  { rewrite app_length, map_length, seq_length. cbn. lia. }
  cbn -[answer_env seq]. fold (c_out evs). rewrite H1. repeat split; assumption.
Qed.
End Rounds.

(* Over the in-process transport an authentication of any number of round trips completes: the server's
   Authenticate asks for a round trip r times (with data d 0 .. d (r-1)), the client's authenticator answers each
   (answer i), the (r+1)-th answer is accepted: both ends establish the same session. *)
Theorem round_trips_complete_in_process snode comp encs sch0 schs k t sid o csel esel auth id d r n :
  let sc := mk_sconf comp encs (sch0 :: schs) k t sid in
  let cc := mk_cconf csel esel auth id k t in
  (forall i, i <= r -> mem (fst (answer sch0 schs auth d i)) (sch0 :: schs) = true) ->
  (forall i, i < r -> o_auth o id (fst (answer sch0 schs auth d i)) (Some (snd (answer sch0 schs auth d i))) i = ARound (d i)) ->
  o_auth o id (fst (answer sch0 schs auth d r)) (Some (snd (answer sch0 schs auth d r))) r = ARole ->
  o_reg o id = RNode n ->
  needs_negotiation s_repaired sc (chan0 sc) (neg_comp_of comp k) (neg_enc_of encs k) = false ->
  exists cins, consistent false snode sc o cc cins /\ agree snode (ends_of false snode sc o cc cins) n (initial_enc k).
Proof.
  intros sc cc Hmem Hround Hrole Hreg Hneed.
  pose proof (server_with_rounds snode comp encs sch0 schs k t sid o auth id d r n Hmem Hround Hrole Hreg Hneed)
    as (S1 & S2 & S3 & S4).
  pose proof (client_with_rounds snode sch0 schs k t sid csel esel auth id d r n) as (C1 & C2 & C3 & C4 & C5 & C6).
  exists (rounds_cins sch0 schs sid auth id d r).
  unfold consistent, round, agree, ends_of. fold sc cc.
  match goal with |- context [s_out ?a ?b ?c] =>
    assert (Hs : s_out a b c = rounds_sins snode sch0 schs sid d r n) by exact S1 end.
  rewrite Hs.
  cbn [e_server_established e_client_established e_server_sid e_client_sid e_server_remote e_client_local
       e_client_remote e_server_enc e_client_enc].
  repeat split; assumption.
Qed.
