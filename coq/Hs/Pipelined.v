(* Pipelined peers on a TCP connection (tcp_transport.go: Receive's json.Decoder and SetEncryption's setConn).
   Model B receives its inputs one at a time.  A peer may also write several envelopes in one segment, without
   waiting for the answers ("glued" to the one before).  The transport's decoder reads the whole segment into
   its buffer when it is asked for the first of them and serves the later ones from that buffer - unless
   SetEncryption switched the connection in between: setConn replaces the decoder, so whatever was buffered in
   clear is discarded and never acted upon.  [effective] turns a script with glued items into the script the
   session logic gets to see. *)
From Coq Require Import List Bool Arith String.
Import ListNotations.
From Lime Require Import Hs.Types Hs.Server Hs.Monitor Hs.ServerFacts.
Open Scope string_scope.
Open Scope list_scope.

Fixpoint after_last_took (t : list ev) (acc : list ev) : list ev :=
  match t with
  | [] => acc
  | Took _ :: r => after_last_took r []
  | e :: r => after_last_took r (acc ++ [e])
  end.
Definition switched_after_last (conf : sconf) (o : oracle) (ins : list cin) : bool :=
  existsb (fun e => match e with SetEnc _ true => true | _ => false end)
          (after_last_took (rr_trace (handle_channel s_repaired conf o ins)) []).
Fixpoint effective (conf : sconf) (o : oracle) (acc : list cin) (g : list (bool * cin)) : list cin :=
  match g with
  | [] => acc
  | (glued, i) :: r =>
      if glued && switched_after_last conf o acc then effective conf o acc r
      else effective conf o (acc ++ [i]) r
  end.


(* a glued item behind an input after which the server switched is dropped, whatever it is *)
Lemma glued_behind_switch_dropped conf o acc i r :
  switched_after_last conf o acc = true -> effective conf o acc ((true, i) :: r) = effective conf o acc r.
Proof. intros H. cbn [effective]. rewrite H. reflexivity. Qed.

(* everything else is kept, in order *)
Lemma not_glued_kept conf o acc i r : effective conf o acc ((false, i) :: r) = effective conf o (acc ++ [i]) r.
Proof. reflexivity. Qed.
Lemma no_switch_kept conf o acc i r b :
  switched_after_last conf o acc = false -> effective conf o acc ((b, i) :: r) = effective conf o (acc ++ [i]) r.
Proof. intros H. cbn [effective]. rewrite H, andb_false_r. reflexivity. Qed.

(* whatever the peer glues together, the server's run over what it gets to see obeys every rule of the monitor *)
Lemma pipelined_accepts conf o g :
  let r := handle_channel s_repaired conf o (effective conf o [] g) in
  accepts conf o (rr_trace r) (rr_handler_ended r) = true /\ rr_outcome r <> Panicked.
Proof. apply server_accepts. Qed.
