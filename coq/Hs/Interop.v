(* Models B and C composed: a lime-go client (Model C, Hs/Client.v) talking to a lime-go server (Model B,
   Hs/Server.v) over one connection.

   Each model is a function from the peer's script to a trace.  The two are connected the way the connection
   connects them: every session envelope the server writes becomes the client's next input, every session
   envelope the client writes becomes the server's next input, a side that closes the connection makes the other
   read the end of the stream.  A joint run is a pair of scripts that is consistent: the client's script is what
   the server writes when fed the server's script, and the other way round.  [play] computes it the way it comes
   about in time: starting from silence, each round lets both sides react to what the other has written so far.

   [wire]: over TCP and WebSocket envelopes cross the connection as JSON text.  The server's round-trip envelope
   (sendAuthenticatingRoundTripSession) carries "authentication" without "scheme"; lime-go's own decoder
   (session.go, Session.UnmarshalJSON) rejects such text, so the client reads it as an undecodable input.  Over
   the in-process transport envelopes are handed over as objects and the round trip arrives.  Definitions only. *)
From Coq Require Import List Bool Arith String.
Import ListNotations.
From Lime Require Import Hs.Types Hs.Server Hs.Client.
Open Scope string_scope.
Open Scope list_scope.

Section Interop.
Variable wire : bool.
Variable snode : nat.    (* the server's own node, as a token *)

Definition to_sin (s : sses) : sin :=
  if wire && (match ss_round s with Some _ => true | None => false end) then VBad
  else VSes {| vs_state := ss_state s; vs_id := ss_id s; vs_from := snode;
               vs_to := match ss_to s with Some n => n | None => 0 end;
               vs_encopts := ss_encopts s; vs_compopts := ss_compopts s; vs_schemeopts := ss_schemeopts s;
               vs_enc := ss_enc s; vs_comp := ss_comp s; vs_round := ss_round s |}.

Definition to_cin (u : usent) : cin :=
  CSes {| cs_id := us_id u; cs_state := us_state u; cs_enc := us_enc u; cs_comp := us_comp u;
          cs_scheme := us_scheme u; cs_cred := us_cred u; cs_from := us_from u |}.

(* what one side puts on the connection, in order *)
Definition s_out (t : list ev) : list sin :=
  flat_map (fun e => match e with Sent s _ => [to_sin s] | Closed => [VEof] | _ => [] end) t.
Definition c_out (t : list cev) : list cin :=
  flat_map (fun e => match e with USent u _ => [to_cin u] | UClosed => [CEof] | _ => [] end) t.

Variable sc : sconf.
Variable o : oracle.
Variable cc : cconf.

Definition server_on (cins : list cin) : run_result := handle_channel s_repaired sc o cins.
Definition client_on (sins : list sin) : Client.result := cestablish c_repaired cc sins.
Definition ctrace (r : Client.result) : list cev := fst (fst r).

(* one round: the server reacts to what the client has written, the client to what the server then has written *)
Definition round (cins : list cin) : list cin := c_out (ctrace (client_on (s_out (rr_trace (server_on cins))))).
Fixpoint play (n : nat) (cins : list cin) : list cin :=
  match n with O => cins | S n' => play n' (round cins) end.

(* a joint run: the client's writes are exactly the script the server was fed *)
Definition consistent (cins : list cin) : Prop := round cins = cins.

(* what both ends hold at the end of the joint run over [cins] *)
Record ends := {
  e_server_established : bool;   (* the server's Established callback ran *)
  e_client_established : bool;   (* Client.buildChannel gets a channel *)
  e_server_sid : string; e_client_sid : string;
  e_server_remote : option nat;  (* the node the server registered for the peer *)
  e_client_local : nat;          (* the node the client believes it is *)
  e_client_remote : nat;
  e_server_enc : string; e_client_enc : string
}.
Definition ends_of (cins : list cin) : ends :=
  let sr := server_on cins in
  let cr := client_on (s_out (rr_trace sr)) in
  let c := snd (fst cr) in
  {| e_server_established := existsb (fun e => match e with EstCb => true | _ => false end) (rr_trace sr);
     e_client_established := build_ok cr;
     e_server_sid := sc_sid sc; e_client_sid := uc_sid c;
     e_server_remote := ch_remote (rr_chan sr); e_client_local := uc_local c; e_client_remote := uc_remote c;
     e_server_enc := ch_enc (rr_chan sr); e_client_enc := uc_enc c |}.

(* both ends agree on the session they are in *)
Definition agree (e : ends) (n : nat) (enc : string) : Prop :=
  e_server_established e = true /\ e_client_established e = true /\
  e_client_sid e = e_server_sid e /\
  e_server_remote e = Some n /\ e_client_local e = n /\ e_client_remote e = snode /\
  e_server_enc e = enc /\ e_client_enc e = enc.
End Interop.
