(* Soundness of the composed handshake (Hs/Interop.v) for arbitrary configurations: what a client that reports
   an established session can rely on about the server it talked to.  Uses the per-side theorems: the client's
   specification (ClientFacts.client_ok) and the server's monitor (ServerFacts.server_accepts). *)
From Coq Require Import List Bool Arith String Lia.
Import ListNotations.
From Lime Require Import Hs.Types Hs.Server Hs.Client Hs.ClientSpec Hs.ClientFacts Hs.Interop.
From Lime Require Import Hs.Monitor Hs.ServerFacts Hs.MonitorFacts.
Open Scope string_scope.
Open Scope list_scope.

(* every input the client's trace says it took is an item of the script it was given *)
Definition from_script (e : list cev) (ins : list sin) : Prop := forall i, In (UTook i) e -> In i ins.
Definition rest_of (r ins : list sin) : Prop := forall j, In j r -> In j ins.

Ltac took1 H :=
  inversion H; subst; split;
  [intros k [Hk|[]]; inversion Hk; left; reflexivity|intros j Hj; right; exact Hj].
Ltac generic H c i :=
  destruct (negb (uc_conn c)); [inversion H; subst; split; [intros ? []|intros j Hj; exact Hj]|];
  destruct i; took1 H.

Lemma ureceive_from : forall fx ins c x c' r e,
  ureceive fx c ins = (x, c', r, e) -> from_script e ins /\ rest_of r ins.
Proof.
  unfold from_script, rest_of. intros fx ins. induction ins as [|i ins IH]; intros c x c' r e H.
  - cbn in H. destruct (uc_state c); try (destruct (negb (uc_conn c))); inversion H; subst; split; intros ? Hx; destruct Hx.
  - cbn -[Nat.ltb] in H. destruct (uc_state c) eqn:Es;
      [generic H c i|generic H c i|generic H c i| |generic H c i| |generic H c i].
    + (* established *)
      destruct i as [s| | |].
      * match type of H with (if ?b then _ else _) = _ => destruct b end; [destruct (fc_regress fx)|]; took1 H.
      * destruct (ureceive fx c ins) as [[[x1 c1] r1] e1] eqn:E. inversion H; subst.
        destruct (IH _ _ _ _ _ E) as [F R]. split.
        -- intros k [Hk|Hk]; [inversion Hk; left; reflexivity|right; apply F; exact Hk].
        -- intros j Hj. right. apply R; exact Hj.
      * took1 H.
      * took1 H.
    + inversion H; subst. split; [intros ? []|intros j Hj; exact Hj].
Qed.

Lemma from_script_app a b ins : from_script a ins -> from_script b ins -> from_script (a ++ b) ins.
Proof. intros Ha Hb i Hi. apply in_app_or in Hi. destruct Hi; [apply Ha|apply Hb]; assumption. Qed.
Lemma from_script_rest e r ins : from_script e r -> rest_of r ins -> from_script e ins.
Proof. intros He Hr i Hi. apply Hr, He, Hi. Qed.
Lemma rest_trans a b c : rest_of a b -> rest_of b c -> rest_of a c.
Proof. intros H1 H2 j Hj. apply H2, H1, Hj. Qed.
Lemma from_script_closed e ins : from_script e ins -> from_script (e ++ [UClosed]) ins.
Proof. intros He i Hi. apply in_app_or in Hi. destruct Hi as [Hi|[Hi|[]]]; [apply He; exact Hi|discriminate]. Qed.

Lemma receive_from : forall fx c ins x c' r e,
  receive_from_server fx c ins = (x, c', r, e) -> from_script e ins /\ rest_of r ins.
Proof.
  intros fx c ins x c' r e H. unfold receive_from_server in H.
  destruct (ureceive fx c ins) as [[[x1 c1] r1] e1] eqn:E. destruct (ureceive_from _ _ _ _ _ _ _ E) as [F R].
  destruct x1 as [s| | |]; try (inversion H; subst; split; assumption).
  destruct (Nat.ltb (step_of (vs_state s)) (step_of (uc_state c1))).
  - destruct (fc_regress fx); inversion H; subst; split; assumption.
  - destruct (terminal (vs_state s)).
    + match type of H with (if ?b then _ else _) = _ => destruct b end; inversion H; subst; split;
        try assumption. apply from_script_closed; assumption.
    + inversion H; subst; split; assumption.
Qed.

Lemma usend_from c u evs ok ins : usend c u = (evs, ok) -> from_script evs ins.
Proof.
  unfold usend. intros H i Hi.
  destruct (negb (uc_conn c)); [inversion H; subst; destruct Hi|].
  destruct (terminal (uc_state c)); inversion H; subst; [destruct Hi|].
  destruct Hi as [Hi|[]]; discriminate.
Qed.

Lemma cauth_from : forall fuel fx conf c ses rt ins evs c' out,
  cauth_loop fuel fx conf c ses rt ins = (evs, c', out) -> from_script evs ins.
Proof.
  induction fuel as [|fuel IH]; intros fx conf c ses rt ins evs c' out H; cbn in H.
  - inversion H; subst. intros ? [].
  - destruct (negb (state_eqb (vs_state ses) SAuthenticating)); [inversion H; subst; intros ? []|].
    destruct (negb (uc_conn c && state_eqb (uc_state c) SAuthenticating)); [inversion H; subst; intros ? []|].
    destruct (cc_auth conf (vs_schemeopts ses) rt) as [scheme cred].
    match type of H with context [usend c ?u] => destruct (usend c u) as [e0 ok] eqn:S end.
    pose proof (usend_from _ _ _ _ ins S) as F0.
    destruct (negb ok); [inversion H; subst; exact F0|].
    destruct (receive_from_server fx c ins) as [[[x c1] r1] e1] eqn:R.
    destruct (receive_from _ _ _ _ _ _ _ R) as [F1 R1].
    destruct x as [s'| | |]; try (inversion H; subst; apply from_script_app; assumption).
    destruct (cauth_loop fuel fx conf c1 s' (vs_round s') r1) as [[e2 c2] o2] eqn:L.
    inversion H; subst. apply from_script_app; [exact F0|apply from_script_app; [exact F1|]].
    eapply from_script_rest; [eapply IH; exact L|exact R1].
Qed.

Lemma from_nil ins : from_script [] ins.
Proof. intros ? []. Qed.
Lemma from_setcomp x ok ins : from_script [USetComp x ok] ins.
Proof. intros i [H|[]]; discriminate. Qed.
Lemma from_setenc x ok ins : from_script [USetEnc x ok] ins.
Proof. intros i [H|[]]; discriminate. Qed.

Lemma cestablish_from : forall fx conf ins t c out,
  cestablish fx conf ins = (t, c, out) -> from_script t ins.
Proof.
  intros fx conf ins t c out H. unfold cestablish in H.
  match type of H with context [usend ?c0 ?u] => destruct (usend c0 u) as [e0 ok0] eqn:S0 end.
  pose proof (usend_from _ _ _ _ ins S0) as F0.
  destruct (negb ok0); [inversion H; subst; exact F0|].
  destruct (receive_from_server fx (cchan0 conf) ins) as [[[x1 c1] ins1] e1] eqn:R1.
  destruct (receive_from _ _ _ _ _ _ _ R1) as [F1 Q1].
  destruct x1 as [ses| | |]; try (inversion H; subst; apply from_script_app; assumption).
  assert (Fpre : from_script (e0 ++ e1) ins) by (apply from_script_app; assumption).
  destruct (state_eqb (vs_state ses) SNegotiating).
  2:{ destruct (cauth_loop (S (List.length ins1)) fx conf c1 ses None ins1) as [[ea ca] oa] eqn:L.
      inversion H; subst. apply from_script_app; [exact Fpre|].
      eapply from_script_rest; [eapply cauth_from; exact L|exact Q1]. }
  destruct (negb (uc_conn c1 && state_eqb (uc_state c1) SNegotiating)); [inversion H; subst; exact Fpre|].
  match type of H with context [usend c1 ?u] => destruct (usend c1 u) as [e2 ok2] eqn:S2 end.
  pose proof (usend_from _ _ _ _ ins S2) as F2.
  destruct (negb ok2); [inversion H; subst; apply from_script_app; assumption|].
  destruct (receive_from_server fx c1 ins1) as [[[x2 c2] ins2] e3] eqn:R2.
  destruct (receive_from _ _ _ _ _ _ _ R2) as [F3' Q2].
  assert (F3 : from_script e3 ins) by (eapply from_script_rest; eassumption).
  assert (Q2' : rest_of ins2 ins) by (eapply rest_trans; eassumption).
  destruct x2 as [ses2| | |];
    try (inversion H; subst; apply from_script_app; [exact Fpre|apply from_script_app; assumption]).
  set (A := (if state_eqb (vs_state ses2) SNegotiating then _ else ([], c2, true))) in H.
  assert (FA : from_script (fst (fst A)) ins); [|destruct A as [[e4 c3] okA]; cbn [fst] in FA].
  { subst A. destruct (state_eqb (vs_state ses2) SNegotiating); [|apply from_nil].
    destruct (negb (String.eqb (vs_comp ses2) "") && negb (String.eqb (vs_comp ses2) (uc_comp c2))); cbn [fst snd].
    - destruct (set_comp (cc_kind conf) (uc_comp c2) (vs_comp ses2)); cbn [negb fst].
      + destruct (negb (String.eqb (vs_enc ses2) "") && negb (String.eqb (vs_enc ses2) (uc_enc c2))).
        * destruct (set_enc (cc_kind conf) (cc_tls_ok conf) (uc_enc c2) (vs_enc ses2)) as [oke enc'].
          cbn [fst]. apply from_script_app; [apply from_setcomp|apply from_setenc].
        * cbn [fst]. apply from_setcomp.
      + apply from_setcomp.
    - cbn [negb].
      destruct (negb (String.eqb (vs_enc ses2) "") && negb (String.eqb (vs_enc ses2) (uc_enc c2))).
      + destruct (set_enc (cc_kind conf) (cc_tls_ok conf) (uc_enc c2) (vs_enc ses2)) as [oke enc'].
        cbn [fst]. apply from_setenc.
      + cbn [fst]. apply from_nil. }
  assert (Fpre2 : from_script ((e0 ++ e1) ++ e2 ++ e3) ins)
    by (apply from_script_app; [exact Fpre|apply from_script_app; assumption]).
  destruct (negb okA); [inversion H; subst; apply from_script_app; assumption|].
  destruct (receive_from_server fx c3 ins2) as [[[x3 c4] ins3] e5] eqn:R3.
  destruct (receive_from _ _ _ _ _ _ _ R3) as [F5' Q3].
  assert (F5 : from_script e5 ins) by (eapply from_script_rest; eassumption).
  destruct x3 as [ses3| | |];
    try (inversion H; subst; apply from_script_app; [exact Fpre2|apply from_script_app; assumption]).
  destruct (cauth_loop (S (List.length ins3)) fx conf c4 ses3 None ins3) as [[ea ca] oa] eqn:L.
  inversion H; subst. apply from_script_app; [|eapply from_script_rest; [eapply cauth_from; exact L|]].
  - apply from_script_app; [exact Fpre2|apply from_script_app; assumption].
  - eapply rest_trans; eassumption.
Qed.


Lemma last_ses_in : forall t acc s, last_ses t acc = Some s -> In (UTook (VSes s)) t \/ acc = Some s.
Proof.
  induction t as [|e t IH]; intros acc s H; cbn in H; [right; exact H|].
  destruct e as [u enc|i|x ok|x ok|]; try (destruct (IH _ _ H) as [Hi|Hi]; [left; right; exact Hi|right; exact Hi]).
  destruct i as [v| | |]; try (destruct (IH _ _ H) as [Hi|Hi]; [left; right; exact Hi|right; exact Hi]).
  destruct (IH _ _ H) as [Hi|Hi]; [left; right; exact Hi|]. injection Hi as <-. left; left; reflexivity.
Qed.

Lemma s_out_in wire snode : forall tr v, In (VSes v) (s_out wire snode tr) ->
  exists ss enc, In (Sent ss enc) tr /\ to_sin wire snode ss = VSes v.
Proof.
  intros tr v H. unfold s_out in H. apply in_flat_map in H. destruct H as (e & He & Hv).
  destruct e; try (destruct Hv; fail).
  - destruct Hv as [Hv|[]]. exists s, enc. split; assumption.
  - destruct Hv as [Hv|[]]; discriminate.
Qed.

Lemma to_sin_ses wire snode ss v : to_sin wire snode ss = VSes v ->
  vs_state v = ss_state ss /\ vs_id v = ss_id ss /\ vs_to v = match ss_to ss with Some n => n | None => 0 end.
Proof.
  unfold to_sin. destruct (wire && _); [discriminate|]. intros H. injection H as <-. cbn. auto.
Qed.

(* Whatever the two configurations are and whatever the client wrote: if the client, fed what the server wrote,
   reports an established session, then the server sent an established envelope with its session id, after an
   Authenticate call answered with a known role and a Register call for the same identity, and the node the
   client holds as its own is the one Register returned. *)
Theorem client_established_only_with_an_authenticated_server wire snode sc o cc cins :
  let sr := server_on sc o cins in
  let cr := client_on cc (s_out wire snode (rr_trace sr)) in
  build_ok cr = true ->
  exists pre ss enc post f sch cred encA encR round n,
    rr_trace sr = pre ++ Sent ss enc :: post /\ ss_state ss = SEstablished /\ ss_id ss = sc_sid sc /\
    In (AuthCall f sch cred encA) pre /\ o_auth o f sch cred round = ARole /\
    In (RegCall f encR) pre /\ o_reg o f = RNode n /\
    uc_local (snd (fst cr)) = n /\ uc_sid (snd (fst cr)) = sc_sid sc.
Proof.
  intros sr cr Hb.
  pose proof (client_ok cc (s_out wire snode (rr_trace sr))) as Hspec.
  unfold cr, client_on in *.
  destruct (cestablish c_repaired cc (s_out wire snode (rr_trace sr))) as [[t c] out] eqn:E.
  pose proof (cestablish_from _ _ _ _ _ _ E) as Hfrom.
  cbn [fst snd]. cbn in Hb. destruct out as [s| | |]; try discriminate.
  cbn in Hspec. apply andb_prop in Hspec. destruct Hspec as [_ Hspec].
  destruct (last_ses t None) as [s'|] eqn:L; [|discriminate].
  rewrite Hb in Hspec. cbn [terminal] in Hspec.
  assert (Hst : vs_state s = SEstablished) by (destruct (vs_state s); try discriminate; reflexivity).
  rewrite Hst in Hspec. cbn in Hspec.
  repeat match goal with H : _ && _ = true |- _ => apply andb_prop in H; destruct H end.
  repeat match goal with
  | H : Nat.eqb _ _ = true |- _ => apply Nat.eqb_eq in H
  | H : String.eqb _ _ = true |- _ => apply String.eqb_eq in H
  end.
  destruct (last_ses_in _ _ _ L) as [Hin|Hin]; [|discriminate].
  apply Hfrom in Hin. apply s_out_in in Hin. destruct Hin as (ss & enc & Hsent & Hto).
  apply to_sin_ses in Hto. destruct Hto as (T1 & T2 & T3).
  apply in_split in Hsent. destruct Hsent as (pre & post & Htr).
  assert (Hs' : vs_state s' = SEstablished) by (destruct (vs_state s'); try discriminate; reflexivity).
  assert (Hss : ss_state ss = SEstablished) by congruence.
  destruct (server_accepts sc o cins) as [Ha _]. cbn zeta in Ha. unfold accepts in Ha.
  fold (server_on sc o cins) in Ha. fold sr in Ha. rewrite Htr in Ha.
  destruct (mon_run sc o (m0 sc) (pre ++ Sent ss enc :: post)) as [m'|] eqn:R; [|discriminate].
  destruct (accepted_established_was_authenticated sc o pre ss enc post m' R Hss)
    as (f & sch & cred & encA & encR & round & n & A & B & C & D & F).
  destruct (run_split sc o _ _ _ _ _ R) as (m1 & m2 & _ & Hstep2 & _).
  destruct (step_sent_established sc o _ _ _ _ Hstep2 Hss) as (n' & _ & _ & _ & _ & Hid & _).
  exists pre, ss, enc, post, f, sch, cred, encA, encR, round, n.
  repeat split; try assumption.
  - rewrite F in T3. congruence.
  - congruence.
Qed.

(* ================= who the server authenticates ================= *)


(* every input the server's trace says it took is an item of the script it was given *)
Definition sfrom (e : list ev) (ins : list cin) : Prop := forall i, In (Took i) e -> In i ins.
Definition srest (r ins : list cin) : Prop := forall j, In j r -> In j ins.

Lemma sfrom_nil ins : sfrom [] ins. Proof. intros ? []. Qed.
Lemma sfrom_app a b ins : sfrom a ins -> sfrom b ins -> sfrom (a ++ b) ins.
Proof. intros Ha Hb i Hi. apply in_app_or in Hi. destruct Hi; [apply Ha|apply Hb]; assumption. Qed.
Lemma sfrom_rest e r ins : sfrom e r -> srest r ins -> sfrom e ins.
Proof. intros He Hr i Hi. apply Hr, He, Hi. Qed.
Lemma srest_refl a : srest a a. Proof. intros j Hj; exact Hj. Qed.
Lemma srest_trans a b c : srest a b -> srest b c -> srest a c.
Proof. intros H1 H2 j Hj. apply H2, H1, Hj. Qed.
Lemma srest_tl x a : srest a (x :: a). Proof. intros j Hj; right; exact Hj. Qed.
Lemma sfrom_no_took e ins : (forall i, ~ In (Took i) e) -> sfrom e ins.
Proof. intros H i Hi. destruct (H i Hi). Qed.

Lemma receive_sfrom c ins x c' r e : receive c ins = (x, c', r, e) -> sfrom e ins /\ srest r ins.
Proof.
  unfold receive. destruct (negb (ch_conn c)); [intros H; inversion H; subst; split; [apply sfrom_nil|apply srest_refl]|].
  destruct ins as [|i ins]; [intros H; inversion H; subst; split; [apply sfrom_nil|apply srest_refl]|].
  destruct i; intros H; inversion H; subst; (split; [intros k [Hk|[]]; inversion Hk; left; reflexivity|apply srest_tl]).
Qed.

Lemma send_sfrom c s evs ok ins : send_session c s = (evs, ok) -> sfrom evs ins.
Proof.
  unfold send_session. destruct (negb (ch_conn c)); [intros H; inversion H; apply sfrom_nil|].
  destruct (terminal (ch_state c)); intros H; inversion H; subst; [apply sfrom_nil|].
  intros i [Hi|[]]; discriminate.
Qed.

Lemma fail_sfrom conf c evs c' out ins : fail_session conf c = (evs, c', out) -> sfrom evs ins.
Proof.
  unfold fail_session. destruct (negb (ch_conn c)); [intros H; inversion H; apply sfrom_nil|].
  match goal with |- context [send_session c ?s] => destruct (send_session c s) as [e ok] eqn:S end.
  pose proof (send_sfrom _ _ _ _ ins S) as F.
  destruct (set_state c SFailed); [destruct ok|]; intros H; inversion H; subst; try exact F.
  apply sfrom_app; [exact F|]. intros i [Hi|[]]; discriminate.
Qed.

Lemma sfrom_cons_call e x ins : (forall i, x <> Took i) -> sfrom e ins -> sfrom (x :: e) ins.
Proof. intros Hx He i [Hi|Hi]; [destruct (Hx i Hi)|apply He; exact Hi]. Qed.

Ltac notook := let i := fresh in let H := fresh in intros i H; discriminate H.
Ltac calls := repeat (apply sfrom_cons_call; [notook|]).
Ltac fin H := inversion H; subst; split; [calls; try apply sfrom_nil|try apply srest_refl].

Lemma auth_loop_sfrom conf o : forall ins c ses round evs c' out ins',
  auth_loop conf o c ses round ins = (evs, c', out, ins') -> sfrom evs ins /\ srest ins' ins.
Proof.
  induction ins as [|i rest IH]; intros c ses round evs c' out ins' H; rewrite auth_loop_eq in H.
  all: destruct (negb (state_eqb (cs_state ses) SAuthenticating));
    [destruct (fail_session conf c) as [[e1 c1] o1] eqn:F; fin H; eapply fail_sfrom; exact F|].
  all: destruct (negb (String.eqb (cs_id ses) (sc_sid conf)));
    [destruct (fail_session conf c) as [[e1 c1] o1] eqn:F; fin H; eapply fail_sfrom; exact F|].
  all: destruct (negb (mem (cs_scheme ses) (sc_schemes conf)));
    [destruct (fail_session conf c) as [[e1 c1] o1] eqn:F; fin H; eapply fail_sfrom; exact F|].
  all: cbv zeta in H; cbn [app] in H.
  all: destruct (o_auth o (cs_from ses) (presented_scheme ses) (cs_cred ses) round) as [| |data|].
  all: try (destruct (o_reg o (cs_from ses)) as [n|]; [|fin H];
            destruct (negb (ch_conn c)); [fin H|];
            destruct (set_state c SEstablished) as [c1|]; [|fin H];
            match type of H with context [send_session ?cc ?s] => destruct (send_session cc s) as [e1 ok] eqn:Sd end;
            fin H; eapply send_sfrom; exact Sd).
  all: try (destruct (fail_session conf c) as [[e1 c1] o1] eqn:F; fin H; eapply fail_sfrom; exact F).
  all: try (fin H; fail).
  - destruct (negb (ch_conn c && state_eqb (ch_state c) SAuthenticating)); [fin H|].
    match type of H with context [send_session c ?s] => destruct (send_session c s) as [e1 ok] eqn:Sd end.
    destruct (negb ok); fin H; eapply send_sfrom; exact Sd.
  - destruct (negb (ch_conn c && state_eqb (ch_state c) SAuthenticating)); [fin H|].
    match type of H with context [send_session c ?s] => destruct (send_session c s) as [e1 ok] eqn:Sd end.
    pose proof (send_sfrom _ _ _ _ (i :: rest) Sd) as F1.
    destruct (negb ok); [fin H; exact F1|].
    destruct (receive c (i :: rest)) as [[[x c2] r2] tk] eqn:R.
    destruct (receive_sfrom _ _ _ _ _ _ R) as [FR RR].
    destruct x as [ses'| |].
    + destruct (auth_loop conf o c2 ses' (S round) rest) as [[[e2 c3] o3] i3] eqn:L.
      destruct (IH _ _ _ _ _ _ _ L) as [F2 R2].
      inversion H; subst. split.
      * calls. apply sfrom_app; [exact F1|]. apply sfrom_app; [exact FR|].
        eapply sfrom_rest; [exact F2|apply srest_tl].
      * eapply srest_trans; [exact R2|apply srest_tl].
    + inversion H; subst. split; [|exact RR]. calls. apply sfrom_app; assumption.
    + inversion H; subst. split; [|exact RR]. calls. apply sfrom_app; assumption.
Qed.

Lemma authenticate_sfrom conf o c ins evs c' out ins' :
  authenticate_session conf o c ins = (evs, c', out, ins') -> sfrom evs ins /\ srest ins' ins.
Proof.
  unfold authenticate_session. destruct (sc_schemes conf); [intros H; fin H|].
  destruct (negb (ch_conn c)); [intros H; fin H|].
  destruct (negb (state_eqb (ch_state c) SNew || state_eqb (ch_state c) SNegotiating)); [intros H; fin H|].
  destruct (set_state c SAuthenticating) as [c1|]; [|intros H; fin H].
  match goal with |- context [send_session c1 ?s] => destruct (send_session c1 s) as [e1 ok] eqn:Sd end.
  pose proof (send_sfrom _ _ _ _ ins Sd) as F1.
  destruct (negb ok); [intros H; fin H; exact F1|].
  destruct (receive c1 ins) as [[[x c2] r2] tk] eqn:R.
  destruct (receive_sfrom _ _ _ _ _ _ R) as [FR RR].
  destruct x as [ses| |].
  - destruct (auth_loop conf o c2 ses 0 r2) as [[[e2 c3] o3] i3] eqn:L.
    destruct (auth_loop_sfrom _ _ _ _ _ _ _ _ _ _ L) as [F2 R2].
    intros H; inversion H; subst. split.
    + apply sfrom_app; [exact F1|]. apply sfrom_app; [exact FR|]. eapply sfrom_rest; eassumption.
    + eapply srest_trans; eassumption.
  - intros H; inversion H; subst. split; [apply sfrom_app; assumption|exact RR].
  - intros H; inversion H; subst. split; [apply sfrom_app; assumption|exact RR].
Qed.

Lemma negotiate_sfrom conf c co eo ins evs c' out ins' :
  negotiate_session conf c co eo ins = (evs, c', out, ins') -> sfrom evs ins /\ srest ins' ins.
Proof.
  unfold negotiate_session.
  destruct co as [|c0 cs]; [intros H; fin H|]. destruct eo as [|e0 es]; [intros H; fin H|].
  destruct (negb (ch_conn c && state_eqb (ch_state c) SNew)); [intros H; fin H|].
  destruct (set_state c SNegotiating) as [c1|]; [|intros H; fin H].
  match goal with |- context [send_session c1 ?s] => destruct (send_session c1 s) as [e1 ok] eqn:Sd end.
  pose proof (send_sfrom _ _ _ _ ins Sd) as F1.
  destruct (negb ok); [intros H; fin H; exact F1|].
  destruct (receive c1 ins) as [[[x c2] r2] tk] eqn:R.
  destruct (receive_sfrom _ _ _ _ _ _ R) as [FR RR].
  assert (F01 : sfrom (e1 ++ tk) ins) by (apply sfrom_app; assumption).
  destruct x as [ses| |]; [|intros H; inversion H; subst; split; assumption|intros H; inversion H; subst; split; assumption].
  destruct (negb (String.eqb (cs_id ses) (sc_sid conf))).
  { destruct (fail_session conf c2) as [[e2 c3] o3] eqn:F. intros H; inversion H; subst. split; [|exact RR].
    apply sfrom_app; [exact F01|eapply fail_sfrom; exact F]. }
  match goal with |- context [if ?b then _ else _] => destruct b end.
  2:{ destruct (fail_session conf c2) as [[e2 c3] o3] eqn:F. intros H; inversion H; subst. split; [|exact RR].
      apply sfrom_app; [exact F01|eapply fail_sfrom; exact F]. }
  match goal with |- context [send_session c2 ?s] => destruct (send_session c2 s) as [e2 ok2] eqn:Sd2 end.
  pose proof (send_sfrom _ _ _ _ ins Sd2) as F2.
  destruct (negb ok2); [intros H; inversion H; subst; split; [apply sfrom_app; assumption|exact RR]|].
  set (cstep := if String.eqb (ch_comp c2) (cs_comp ses) then _ else _).
  assert (FC : sfrom (fst cstep) ins).
  { subst cstep. destruct (String.eqb (ch_comp c2) (cs_comp ses)); cbn [fst]; [apply sfrom_nil|].
    intros i [Hi|[]]; discriminate. }
  destruct (negb (snd cstep)).
  { intros H; inversion H; subst. split; [|exact RR]. apply sfrom_app; [exact F01|apply sfrom_app; assumption]. }
  destruct (String.eqb (ch_enc c2) (cs_enc ses)).
  { intros H; inversion H; subst. split; [|exact RR]. apply sfrom_app; [exact F01|apply sfrom_app; assumption]. }
  destruct (set_enc (sc_kind conf) (sc_tls_ok conf) (ch_enc c2) (cs_enc ses)) as [oke enc'].
  intros H; inversion H; subst. split; [|exact RR].
  apply sfrom_app; [exact F01|]. apply sfrom_app; [exact F2|]. apply sfrom_app; [exact FC|].
  intros i [Hi|[]]; discriminate.
Qed.

Lemma establish_sfrom fx conf o ins evs c' out ins' :
  establish fx conf o ins = (evs, c', out, ins') -> sfrom evs ins /\ srest ins' ins.
Proof.
  unfold establish.
  destruct (receive (chan0 conf) ins) as [[[x c1] ins1] tk] eqn:R.
  destruct (receive_sfrom _ _ _ _ _ _ R) as [FR RR].
  destruct x as [ses| |]; [|intros H; inversion H; subst; split; assumption|intros H; inversion H; subst; split; assumption].
  (* everything below produces (e, c2, out, rest) with sfrom e ins1 and srest rest ins1 *)
  cbv zeta. set (X := if negb (String.eqb (cs_id ses) "") then _ else _).
  assert (HX : forall e c2 o2 i2, X = (e, c2, o2, i2) -> sfrom e ins1 /\ srest i2 ins1);
    [subst X|destruct X as [[[e c2] o2] i2]; destruct (HX _ _ _ _ eq_refl) as [FX RX];
      intros H; inversion H; subst; split;
      [apply sfrom_app; [exact FR|eapply sfrom_rest; eassumption]|eapply srest_trans; eassumption]].
  intros e c2 o2 i2.
  destruct (negb (String.eqb (cs_id ses) "")).
  { destruct (fail_session conf c1) as [[e1 c3] o3] eqn:F. intros H; inversion H; subst.
    split; [eapply fail_sfrom; exact F|apply srest_refl]. }
  (* the final step keeps both facts *)
  assert (Hfinal : forall (r : list ev * chan * outcome * list cin) e0 c0 o0 i0 e9 c9 o9 i9,
            r = (e0, c0, o0, i0) -> sfrom e0 ins1 -> srest i0 ins1 ->
            (let '(evs, c2, out, ins') := r in
             match out with
             | Returned false =>
                 if negb (state_eqb (ch_state c2) SEstablished) && negb (state_eqb (ch_state c2) SFailed) && ch_conn c2
                 then let '(e2, c3, out2) := fail_session conf c2 in (evs ++ e2, c3, out2, ins')
                 else (evs, c2, Returned false, ins')
             | _ => r
             end) = (e9, c9, o9, i9) -> sfrom e9 ins1 /\ srest i9 ins1).
  { intros r e0 c0 o0 i0 e9 c9 o9 i9 -> F0 R0.
    destruct o0 as [[|]| |]; try (intros H; inversion H; subst; split; assumption).
    destruct (negb (state_eqb (ch_state c0) SEstablished) && negb (state_eqb (ch_state c0) SFailed) && ch_conn c0).
    - destruct (fail_session conf c0) as [[e2 c3] o3] eqn:F. intros H; inversion H; subst.
      split; [apply sfrom_app; [exact F0|eapply fail_sfrom; exact F]|exact R0].
    - intros H; inversion H; subst; split; assumption. }
  destruct (state_eqb (cs_state ses) SNew).
  2:{ intros H. eapply (Hfinal _ [] c1 (Returned false) ins1); [reflexivity|apply sfrom_nil|apply srest_refl|exact H]. }
  set (NC := intersect (sc_comp conf) (supported_comp (sc_kind conf))).
  set (NE := intersect (sc_enc conf) (supported_enc (sc_kind conf))).
  set (AN := if needs_negotiation fx conf c1 NC NE then _ else _).
  assert (HAN : forall e1 c3 o3 i3, AN = (e1, c3, o3, i3) -> sfrom e1 ins1 /\ srest i3 ins1).
  { subst AN. destruct (needs_negotiation fx conf c1 NC NE).
    - intros e1 c3 o3 i3 H. eapply negotiate_sfrom; exact H.
    - intros e1 c3 o3 i3 H. inversion H; subst. split; [apply sfrom_nil|apply srest_refl]. }
  destruct AN as [[[e1 c3] o3] i3]. destruct (HAN _ _ _ _ eq_refl) as [F1 R1].
  destruct o3 as [[|]| |]; try (intros H; inversion H; subst; split; assumption).
  destruct (state_eqb (ch_state c3) SFailed).
  { intros H. cbn [negb] in H. rewrite andb_false_r in H. cbn [andb] in H. inversion H; subst. split; assumption. }
  destruct (authenticate_session conf o c3 i3) as [[[e2 c4] o4] i4] eqn:A.
  destruct (authenticate_sfrom _ _ _ _ _ _ _ _ A) as [F2 R2].
  intros H. eapply (Hfinal _ (e1 ++ e2) c4 o4 i4); [reflexivity| | |exact H].
  - apply sfrom_app; [exact F1|eapply sfrom_rest; eassumption].
  - eapply srest_trans; eassumption.
Qed.

Lemma finish_sfrom conf c e c' ins : finish_session conf c = (e, c') -> sfrom e ins.
Proof.
  unfold finish_session. destruct (negb (ch_conn c && state_eqb (ch_state c) SEstablished)); intros H; inversion H; subst.
  - apply sfrom_nil.
  - intros i [Hi|[Hi|[]]]; discriminate.
Qed.

Lemma serve_sfrom fx conf : forall ins c e c' b, serve_established fx conf c ins = (e, c', b) -> sfrom e ins.
Proof.
  induction ins as [|i ins IH]; intros c e c' b H; cbn in H.
  - inversion H; subst. apply sfrom_nil.
  - destruct i as [s| | |].
    + destruct (finish_session conf c) as [e1 c1] eqn:F. inversion H; subst.
      intros k [Hk|Hk]; [inversion Hk; left; reflexivity|].
      apply in_app_or in Hk. destruct Hk as [Hk|[Hk|[]]]; [|discriminate].
      exfalso. revert Hk. unfold finish_session in F.
      destruct (negb (ch_conn c && state_eqb (ch_state c) SEstablished)); inversion F; subst; cbn; intuition discriminate.
    + destruct (serve_established fx conf c ins) as [[e1 c1] b1] eqn:S1. inversion H; subst.
      intros k [Hk|[Hk|Hk]]; [inversion Hk; left; reflexivity|discriminate|right; eapply IH; eassumption].
    + destruct (finish_session conf c) as [e1 c1] eqn:F. inversion H; subst.
      intros k [Hk|Hk]; [inversion Hk; left; reflexivity|].
      apply in_app_or in Hk. destruct Hk as [Hk|[Hk|[]]]; [|discriminate].
      exfalso. revert Hk. unfold finish_session in F.
      destruct (negb (ch_conn c && state_eqb (ch_state c) SEstablished)); inversion F; subst; cbn; intuition discriminate.
    + inversion H; subst. intros k [Hk|Hk]; [inversion Hk; left; reflexivity|].
      apply in_app_or in Hk. destruct Hk as [Hk|[Hk|[]]]; [|discriminate].
      destruct (fs_handle fx); [destruct Hk as [Hk|[]]; discriminate|destruct Hk].
Qed.

(* every input the server took is an item of its script *)
Theorem server_takes_from_its_script fx conf o ins i :
  In (Took i) (rr_trace (handle_channel fx conf o ins)) -> In i ins.
Proof.
  unfold handle_channel.
  destruct (establish fx conf o ins) as [[[evs c] out] rest] eqn:E.
  destruct (establish_sfrom _ _ _ _ _ _ _ _ E) as [F R].
  destruct out as [[|]| |]; cbn [rr_trace].
  - destruct (fs_handle fx); cbn [rr_trace]; [|apply F].
    intros H. apply in_app_or in H. destruct H as [H|[H|[]]]; [apply F; exact H|discriminate].
  - destruct (state_eqb (ch_state c) SEstablished).
    + destruct (serve_established fx conf c rest) as [[e2 c2] ended] eqn:S1. cbn [rr_trace].
      intros H. apply in_app_or in H. destruct H as [H|H]; [apply F; exact H|].
      destruct H as [H|H]; [discriminate|]. apply R. eapply serve_sfrom; eassumption.
    + destruct (fs_handle fx); cbn [rr_trace]; [apply F|].
      intros H. apply in_app_or in H. destruct H as [H|[H|[H|[]]]]; [apply F; exact H|discriminate|discriminate].
  - apply F.
  - apply F.
Qed.

(* ---- the client's side ---- *)


(* credentials on the wire are the client's own: the configured identity, and a scheme and secret that the
   configured authenticator returned *)
Definition own (cc : cconf) (u : usent) : Prop :=
  match us_cred u with
  | None => True
  | Some c => us_from u = cc_identity cc /\ exists opts rt, cc_auth cc opts rt = (us_scheme u, c)
  end.
Definition all_own (cc : cconf) (e : list cev) : Prop := forall u enc, In (USent u enc) e -> own cc u.

Lemma all_own_nil cc : all_own cc []. Proof. intros ? ? []. Qed.
Lemma all_own_app cc a b : all_own cc a -> all_own cc b -> all_own cc (a ++ b).
Proof. intros Ha Hb u enc Hi. apply in_app_or in Hi. destruct Hi; [eapply Ha|eapply Hb]; eassumption. Qed.
Lemma all_own_nosent cc e : (forall u enc, ~ In (USent u enc) e) -> all_own cc e.
Proof. intros H u enc Hi. destruct (H u enc Hi). Qed.

Lemma ureceive_nosent : forall fx ins c x c' r e, ureceive fx c ins = (x, c', r, e) -> forall u enc, ~ In (USent u enc) e.
Proof.
  intros fx ins. induction ins as [|i ins IH]; intros c x c' r e H u enc Hi.
  - cbn in H. destruct (uc_state c); try (destruct (negb (uc_conn c))); inversion H; subst; destruct Hi.
  - cbn -[Nat.ltb] in H. destruct (uc_state c) eqn:Es.
    4:{ destruct i as [s| | |].
        - match type of H with (if ?b then _ else _) = _ => destruct b end; [destruct (fc_regress fx)|];
            inversion H; subst; destruct Hi as [Hi|[]]; discriminate.
        - destruct (ureceive fx c ins) as [[[x1 c1] r1] e1] eqn:E. inversion H; subst.
          destruct Hi as [Hi|Hi]; [discriminate|]. eapply IH; eassumption.
        - inversion H; subst; destruct Hi as [Hi|[]]; discriminate.
        - inversion H; subst; destruct Hi as [Hi|[]]; discriminate. }
    5:{ inversion H; subst; destruct Hi. }
    all: destruct (negb (uc_conn c)); [inversion H; subst; destruct Hi|];
         destruct i; inversion H; subst; destruct Hi as [Hi|[]]; discriminate.
Qed.

Lemma receive_nosent fx c ins x c' r e : receive_from_server fx c ins = (x, c', r, e) -> forall u enc, ~ In (USent u enc) e.
Proof.
  intros H u enc Hi. unfold receive_from_server in H.
  destruct (ureceive fx c ins) as [[[x1 c1] r1] e1] eqn:E. pose proof (ureceive_nosent _ _ _ _ _ _ _ E u enc) as N.
  destruct x1 as [s| | |]; try (inversion H; subst; exact (N Hi)).
  destruct (Nat.ltb (step_of (vs_state s)) (step_of (uc_state c1))).
  - destruct (fc_regress fx); inversion H; subst; exact (N Hi).
  - destruct (terminal (vs_state s)).
    + match type of H with (if ?b then _ else _) = _ => destruct b end; inversion H; subst; try exact (N Hi).
      apply in_app_or in Hi. destruct Hi as [Hi|[Hi|[]]]; [exact (N Hi)|discriminate].
    + inversion H; subst; exact (N Hi).
Qed.

Lemma usend_own cc c u evs ok : usend c u = (evs, ok) -> own cc u -> all_own cc evs.
Proof.
  unfold usend. intros H Ho.
  destruct (negb (uc_conn c)); [inversion H; apply all_own_nil|].
  destruct (terminal (uc_state c)); inversion H; subst; [apply all_own_nil|].
  intros u' enc [Hi|[]]. inversion Hi; subst. exact Ho.
Qed.

Lemma cauth_own : forall fuel fx conf c ses rt ins evs c' out,
  cauth_loop fuel fx conf c ses rt ins = (evs, c', out) -> all_own conf evs.
Proof.
  induction fuel as [|fuel IH]; intros fx conf c ses rt ins evs c' out H; cbn in H.
  - inversion H; subst. apply all_own_nil.
  - destruct (negb (state_eqb (vs_state ses) SAuthenticating)); [inversion H; subst; apply all_own_nil|].
    destruct (negb (uc_conn c && state_eqb (uc_state c) SAuthenticating)); [inversion H; subst; apply all_own_nil|].
    destruct (cc_auth conf (vs_schemeopts ses) rt) as [scheme cred] eqn:A.
    match type of H with context [usend c ?u] => destruct (usend c u) as [e0 ok] eqn:Sd end.
    assert (F0 : all_own conf e0).
    { eapply usend_own; [exact Sd|]. unfold own. cbn. split; [reflexivity|]. exists (vs_schemeopts ses), rt. exact A. }
    destruct (negb ok); [inversion H; subst; exact F0|].
    destruct (receive_from_server fx c ins) as [[[x c1] r1] e1] eqn:R.
    pose proof (all_own_nosent conf _ (receive_nosent _ _ _ _ _ _ _ R)) as F1.
    destruct x as [s'| | |]; try (inversion H; subst; apply all_own_app; assumption).
    destruct (cauth_loop fuel fx conf c1 s' (vs_round s') r1) as [[e2 c2] o2] eqn:L.
    inversion H; subst. apply all_own_app; [exact F0|apply all_own_app; [exact F1|eapply IH; exact L]].
Qed.

Lemma own_nocred cc u : us_cred u = None -> own cc u.
Proof. unfold own. intros ->. exact I. Qed.

Theorem client_presents_its_own_credentials fx conf ins t c out :
  cestablish fx conf ins = (t, c, out) -> all_own conf t.
Proof.
  intros H. unfold cestablish in H.
  match type of H with context [usend ?c0 ?u] => destruct (usend c0 u) as [e0 ok0] eqn:S0 end.
  assert (F0 : all_own conf e0) by (eapply usend_own; [exact S0|apply own_nocred; reflexivity]).
  destruct (negb ok0); [inversion H; subst; exact F0|].
  destruct (receive_from_server fx (cchan0 conf) ins) as [[[x1 c1] ins1] e1] eqn:R1.
  pose proof (all_own_nosent conf _ (receive_nosent _ _ _ _ _ _ _ R1)) as F1.
  destruct x1 as [ses| | |]; try (inversion H; subst; apply all_own_app; assumption).
  assert (Fpre : all_own conf (e0 ++ e1)) by (apply all_own_app; assumption).
  destruct (state_eqb (vs_state ses) SNegotiating).
  2:{ destruct (cauth_loop (S (List.length ins1)) fx conf c1 ses None ins1) as [[ea ca] oa] eqn:L.
      inversion H; subst. apply all_own_app; [exact Fpre|eapply cauth_own; exact L]. }
  destruct (negb (uc_conn c1 && state_eqb (uc_state c1) SNegotiating)); [inversion H; subst; exact Fpre|].
  match type of H with context [usend c1 ?u] => destruct (usend c1 u) as [e2 ok2] eqn:S2 end.
  assert (F2 : all_own conf e2) by (eapply usend_own; [exact S2|apply own_nocred; reflexivity]).
  destruct (negb ok2); [inversion H; subst; apply all_own_app; assumption|].
  destruct (receive_from_server fx c1 ins1) as [[[x2 c2] ins2] e3] eqn:R2.
  pose proof (all_own_nosent conf _ (receive_nosent _ _ _ _ _ _ _ R2)) as F3.
  destruct x2 as [ses2| | |];
    try (inversion H; subst; apply all_own_app; [exact Fpre|apply all_own_app; assumption]).
  set (A := (if state_eqb (vs_state ses2) SNegotiating then _ else ([], c2, true))) in H.
  assert (FA : all_own conf (fst (fst A))); [|destruct A as [[e4 c3] okA]; cbn [fst] in FA].
  { apply all_own_nosent. intros u enc. subst A. destruct (state_eqb (vs_state ses2) SNegotiating); [|intros []].
    destruct (negb (String.eqb (vs_comp ses2) "") && negb (String.eqb (vs_comp ses2) (uc_comp c2))); cbn [fst snd].
    - destruct (set_comp (cc_kind conf) (uc_comp c2) (vs_comp ses2)); cbn [negb fst].
      + destruct (negb (String.eqb (vs_enc ses2) "") && negb (String.eqb (vs_enc ses2) (uc_enc c2))).
        * destruct (set_enc (cc_kind conf) (cc_tls_ok conf) (uc_enc c2) (vs_enc ses2)) as [oke enc'].
          cbn. intuition discriminate.
        * cbn. intuition discriminate.
      + cbn. intuition discriminate.
    - cbn [negb].
      destruct (negb (String.eqb (vs_enc ses2) "") && negb (String.eqb (vs_enc ses2) (uc_enc c2))).
      + destruct (set_enc (cc_kind conf) (cc_tls_ok conf) (uc_enc c2) (vs_enc ses2)) as [oke enc'].
        cbn. intuition discriminate.
      + cbn. intuition. }
  assert (Fpre2 : all_own conf ((e0 ++ e1) ++ e2 ++ e3))
    by (apply all_own_app; [exact Fpre|apply all_own_app; assumption]).
  destruct (negb okA); [inversion H; subst; apply all_own_app; assumption|].
  destruct (receive_from_server fx c3 ins2) as [[[x3 c4] ins3] e5] eqn:R3.
  pose proof (all_own_nosent conf _ (receive_nosent _ _ _ _ _ _ _ R3)) as F5.
  destruct x3 as [ses3| | |];
    try (inversion H; subst; apply all_own_app; [exact Fpre2|apply all_own_app; assumption]).
  destruct (cauth_loop (S (List.length ins3)) fx conf c4 ses3 None ins3) as [[ea ca] oa] eqn:L.
  inversion H; subst. apply all_own_app; [|eapply cauth_own; exact L].
  apply all_own_app; [exact Fpre2|apply all_own_app; assumption].
Qed.

(* ---- together ---- *)
Lemma last_in_took : forall t acc i, last_in t acc = Some i -> In (Took i) t \/ acc = Some i.
Proof.
  induction t as [|e t IH]; intros acc i H; cbn in H; [right; exact H|].
  destruct e; try (destruct (IH _ _ H) as [Hi|Hi]; [left; right; exact Hi|right; exact Hi]).
  destruct (IH _ _ H) as [Hi|Hi]; [left; right; exact Hi|]. injection Hi as <-. left; left; reflexivity.
Qed.

Lemma c_out_in : forall t i, In i (c_out t) ->
  (exists u enc, In (USent u enc) t /\ to_cin u = i) \/ i = CEof.
Proof.
  intros t i H. unfold c_out in H. apply in_flat_map in H. destruct H as (e & He & Hi).
  destruct e; try (destruct Hi; fail).
  - destruct Hi as [Hi|[]]. left. exists s, enc. split; assumption.
  - destruct Hi as [Hi|[]]. right. symmetry; exact Hi.
Qed.

(* In a joint run - the client's writes are the server's script - every Authenticate call that is handed
   credentials is about the client's configured identity, and its scheme and secret are what the client's
   configured authenticator returned: nothing else is ever authenticated. *)
Theorem server_authenticates_what_the_client_presented wire snode sc o cc cins :
  consistent wire snode sc o cc cins ->
  forall pre f sch c enc post,
  rr_trace (server_on sc o cins) = pre ++ AuthCall f sch (Some c) enc :: post ->
  f = cc_identity cc /\ exists opts rt, cc_auth cc opts rt = (sch, c).
Proof.
  intros Hcons pre f sch c enc post Ht.
  destruct (server_accepts sc o cins) as [Ha _]. cbn zeta in Ha. unfold accepts in Ha.
  fold (server_on sc o cins) in Ha. rewrite Ht in Ha.
  destruct (mon_run sc o (m0 sc) (pre ++ AuthCall f sch (Some c) enc :: post)) as [m'|] eqn:E; [|discriminate].
  destruct (accepted_authcall_is_for_latest_input sc o _ _ _ _ _ _ _ E) as (ses & H1 & H2 & H3 & H4 & _).
  destruct (last_in_took _ _ _ H1) as [Hin|Hin]; [|discriminate].
  assert (Hin' : In (Took (CSes ses)) (rr_trace (server_on sc o cins))).
  { rewrite Ht. apply in_or_app. left. exact Hin. }
  apply server_takes_from_its_script in Hin'.
  unfold consistent, round in Hcons. rewrite <- Hcons in Hin'.
  destruct (c_out_in _ _ Hin') as [(u & uenc & Hu & Hto)|Heof]; [|discriminate].
  unfold client_on, ctrace in Hu.
  destruct (cestablish c_repaired cc _) as [[t cch] out] eqn:EC. cbn [fst] in Hu.
  pose proof (client_presents_its_own_credentials _ _ _ _ _ _ EC u uenc Hu) as Hown.
  unfold to_cin in Hto. injection Hto as <-. cbn in H2, H3, H4. unfold own in Hown.
  unfold presented_scheme in H3. cbn in H3. rewrite <- H4 in *. subst f sch. exact Hown.
Qed.
