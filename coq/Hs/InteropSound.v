(* Soundness of the composed handshake (Hs/Interop.v) for arbitrary configurations: what a client that reports
   an established session can rely on about the server it talked to.  Uses the per-side theorems: the client's
   specification (ClientFacts.client_ok) and the server's monitor (ServerFacts.server_accepts). *)
From Coq Require Import List Bool Arith String Lia.
Import ListNotations.
From Lime Require Import Hs.Types Hs.Server Hs.Client Hs.ClientSpec Hs.ClientFacts Hs.Interop.
From Lime Require Import Hs.Monitor Hs.ServerFacts Hs.MonitorFacts.
Open Scope string_scope.
Open Scope list_scope.

(* every input the client's trace says it took is an item of the script it was given *)
Definition from_script (e : list cev) (ins : list sin) : Prop := forall i, In (UTook i) e -> In i ins.
Definition rest_of (r ins : list sin) : Prop := forall j, In j r -> In j ins.

Ltac took1 H :=
  inversion H; subst; split;
  [intros k [Hk|[]]; inversion Hk; left; reflexivity|intros j Hj; right; exact Hj].
Ltac generic H c i :=
  destruct (negb (uc_conn c)); [inversion H; subst; split; [intros ? []|intros j Hj; exact Hj]|];
  destruct i; took1 H.

Lemma ureceive_from : forall fx ins c x c' r e,
  ureceive fx c ins = (x, c', r, e) -> from_script e ins /\ rest_of r ins.
Proof.
  unfold from_script, rest_of. intros fx ins. induction ins as [|i ins IH]; intros c x c' r e H.
  - cbn in H. destruct (uc_state c); try (destruct (negb (uc_conn c))); inversion H; subst; split; intros ? Hx; destruct Hx.
  - cbn -[Nat.ltb] in H. destruct (uc_state c) eqn:Es;
      [generic H c i|generic H c i|generic H c i| |generic H c i| |generic H c i].
    + (* established *)
      destruct i as [s| | |].
      * match type of H with (if ?b then _ else _) = _ => destruct b end; [destruct (fc_regress fx)|]; took1 H.
      * destruct (ureceive fx c ins) as [[[x1 c1] r1] e1] eqn:E. inversion H; subst.
        destruct (IH _ _ _ _ _ E) as [F R]. split.
        -- intros k [Hk|Hk]; [inversion Hk; left; reflexivity|right; apply F; exact Hk].
        -- intros j Hj. right. apply R; exact Hj.
      * took1 H.
      * took1 H.
    + inversion H; subst. split; [intros ? []|intros j Hj; exact Hj].
Qed.

Lemma from_script_app a b ins : from_script a ins -> from_script b ins -> from_script (a ++ b) ins.
Proof. intros Ha Hb i Hi. apply in_app_or in Hi. destruct Hi; [apply Ha|apply Hb]; assumption. Qed.
Lemma from_script_rest e r ins : from_script e r -> rest_of r ins -> from_script e ins.
Proof. intros He Hr i Hi. apply Hr, He, Hi. Qed.
Lemma rest_trans a b c : rest_of a b -> rest_of b c -> rest_of a c.
Proof. intros H1 H2 j Hj. apply H2, H1, Hj. Qed.
Lemma from_script_closed e ins : from_script e ins -> from_script (e ++ [UClosed]) ins.
Proof. intros He i Hi. apply in_app_or in Hi. destruct Hi as [Hi|[Hi|[]]]; [apply He; exact Hi|discriminate]. Qed.

Lemma receive_from : forall fx c ins x c' r e,
  receive_from_server fx c ins = (x, c', r, e) -> from_script e ins /\ rest_of r ins.
Proof.
  intros fx c ins x c' r e H. unfold receive_from_server in H.
  destruct (ureceive fx c ins) as [[[x1 c1] r1] e1] eqn:E. destruct (ureceive_from _ _ _ _ _ _ _ E) as [F R].
  destruct x1 as [s| | |]; try (inversion H; subst; split; assumption).
  destruct (Nat.ltb (step_of (vs_state s)) (step_of (uc_state c1))).
  - destruct (fc_regress fx); inversion H; subst; split; assumption.
  - destruct (terminal (vs_state s)).
    + match type of H with (if ?b then _ else _) = _ => destruct b end; inversion H; subst; split;
        try assumption. apply from_script_closed; assumption.
    + inversion H; subst; split; assumption.
Qed.

Lemma usend_from c u evs ok ins : usend c u = (evs, ok) -> from_script evs ins.
Proof.
  unfold usend. intros H i Hi.
  destruct (negb (uc_conn c)); [inversion H; subst; destruct Hi|].
  destruct (terminal (uc_state c)); inversion H; subst; [destruct Hi|].
  destruct Hi as [Hi|[]]; discriminate.
Qed.

Lemma cauth_from : forall fuel fx conf c ses rt ins evs c' out,
  cauth_loop fuel fx conf c ses rt ins = (evs, c', out) -> from_script evs ins.
Proof.
  induction fuel as [|fuel IH]; intros fx conf c ses rt ins evs c' out H; cbn in H.
  - inversion H; subst. intros ? [].
  - destruct (negb (state_eqb (vs_state ses) SAuthenticating)); [inversion H; subst; intros ? []|].
    destruct (negb (uc_conn c && state_eqb (uc_state c) SAuthenticating)); [inversion H; subst; intros ? []|].
    destruct (cc_auth conf (vs_schemeopts ses) rt) as [scheme cred].
    match type of H with context [usend c ?u] => destruct (usend c u) as [e0 ok] eqn:S end.
    pose proof (usend_from _ _ _ _ ins S) as F0.
    destruct (negb ok); [inversion H; subst; exact F0|].
    destruct (receive_from_server fx c ins) as [[[x c1] r1] e1] eqn:R.
    destruct (receive_from _ _ _ _ _ _ _ R) as [F1 R1].
    destruct x as [s'| | |]; try (inversion H; subst; apply from_script_app; assumption).
    destruct (cauth_loop fuel fx conf c1 s' (vs_round s') r1) as [[e2 c2] o2] eqn:L.
    inversion H; subst. apply from_script_app; [exact F0|apply from_script_app; [exact F1|]].
    eapply from_script_rest; [eapply IH; exact L|exact R1].
Qed.

Lemma from_nil ins : from_script [] ins.
Proof. intros ? []. Qed.
Lemma from_setcomp x ok ins : from_script [USetComp x ok] ins.
Proof. intros i [H|[]]; discriminate. Qed.
Lemma from_setenc x ok ins : from_script [USetEnc x ok] ins.
Proof. intros i [H|[]]; discriminate. Qed.

Lemma cestablish_from : forall fx conf ins t c out,
  cestablish fx conf ins = (t, c, out) -> from_script t ins.
Proof.
  intros fx conf ins t c out H. unfold cestablish in H.
  match type of H with context [usend ?c0 ?u] => destruct (usend c0 u) as [e0 ok0] eqn:S0 end.
  pose proof (usend_from _ _ _ _ ins S0) as F0.
  destruct (negb ok0); [inversion H; subst; exact F0|].
  destruct (receive_from_server fx (cchan0 conf) ins) as [[[x1 c1] ins1] e1] eqn:R1.
  destruct (receive_from _ _ _ _ _ _ _ R1) as [F1 Q1].
  destruct x1 as [ses| | |]; try (inversion H; subst; apply from_script_app; assumption).
  assert (Fpre : from_script (e0 ++ e1) ins) by (apply from_script_app; assumption).
  destruct (state_eqb (vs_state ses) SNegotiating).
  2:{ destruct (cauth_loop (S (List.length ins1)) fx conf c1 ses None ins1) as [[ea ca] oa] eqn:L.
      inversion H; subst. apply from_script_app; [exact Fpre|].
      eapply from_script_rest; [eapply cauth_from; exact L|exact Q1]. }
  destruct (negb (uc_conn c1 && state_eqb (uc_state c1) SNegotiating)); [inversion H; subst; exact Fpre|].
  match type of H with context [usend c1 ?u] => destruct (usend c1 u) as [e2 ok2] eqn:S2 end.
  pose proof (usend_from _ _ _ _ ins S2) as F2.
  destruct (negb ok2); [inversion H; subst; apply from_script_app; assumption|].
  destruct (receive_from_server fx c1 ins1) as [[[x2 c2] ins2] e3] eqn:R2.
  destruct (receive_from _ _ _ _ _ _ _ R2) as [F3' Q2].
  assert (F3 : from_script e3 ins) by (eapply from_script_rest; eassumption).
  assert (Q2' : rest_of ins2 ins) by (eapply rest_trans; eassumption).
  destruct x2 as [ses2| | |];
    try (inversion H; subst; apply from_script_app; [exact Fpre|apply from_script_app; assumption]).
  set (A := (if state_eqb (vs_state ses2) SNegotiating then _ else ([], c2, true))) in H.
  assert (FA : from_script (fst (fst A)) ins); [|destruct A as [[e4 c3] okA]; cbn [fst] in FA].
  { subst A. destruct (state_eqb (vs_state ses2) SNegotiating); [|apply from_nil].
    destruct (negb (String.eqb (vs_comp ses2) "") && negb (String.eqb (vs_comp ses2) (uc_comp c2))); cbn [fst snd].
    - destruct (set_comp (cc_kind conf) (uc_comp c2) (vs_comp ses2)); cbn [negb fst].
      + destruct (negb (String.eqb (vs_enc ses2) "") && negb (String.eqb (vs_enc ses2) (uc_enc c2))).
        * destruct (set_enc (cc_kind conf) (cc_tls_ok conf) (uc_enc c2) (vs_enc ses2)) as [oke enc'].
          cbn [fst]. apply from_script_app; [apply from_setcomp|apply from_setenc].
        * cbn [fst]. apply from_setcomp.
      + apply from_setcomp.
    - cbn [negb].
      destruct (negb (String.eqb (vs_enc ses2) "") && negb (String.eqb (vs_enc ses2) (uc_enc c2))).
      + destruct (set_enc (cc_kind conf) (cc_tls_ok conf) (uc_enc c2) (vs_enc ses2)) as [oke enc'].
        cbn [fst]. apply from_setenc.
      + cbn [fst]. apply from_nil. }
  assert (Fpre2 : from_script ((e0 ++ e1) ++ e2 ++ e3) ins)
    by (apply from_script_app; [exact Fpre|apply from_script_app; assumption]).
  destruct (negb okA); [inversion H; subst; apply from_script_app; assumption|].
  destruct (receive_from_server fx c3 ins2) as [[[x3 c4] ins3] e5] eqn:R3.
  destruct (receive_from _ _ _ _ _ _ _ R3) as [F5' Q3].
  assert (F5 : from_script e5 ins) by (eapply from_script_rest; eassumption).
  destruct x3 as [ses3| | |];
    try (inversion H; subst; apply from_script_app; [exact Fpre2|apply from_script_app; assumption]).
  destruct (cauth_loop (S (List.length ins3)) fx conf c4 ses3 None ins3) as [[ea ca] oa] eqn:L.
  inversion H; subst. apply from_script_app; [|eapply from_script_rest; [eapply cauth_from; exact L|]].
  - apply from_script_app; [exact Fpre2|apply from_script_app; assumption].
  - eapply rest_trans; eassumption.
Qed.


Lemma last_ses_in : forall t acc s, last_ses t acc = Some s -> In (UTook (VSes s)) t \/ acc = Some s.
Proof.
  induction t as [|e t IH]; intros acc s H; cbn in H; [right; exact H|].
  destruct e as [u enc|i|x ok|x ok|]; try (destruct (IH _ _ H) as [Hi|Hi]; [left; right; exact Hi|right; exact Hi]).
  destruct i as [v| | |]; try (destruct (IH _ _ H) as [Hi|Hi]; [left; right; exact Hi|right; exact Hi]).
  destruct (IH _ _ H) as [Hi|Hi]; [left; right; exact Hi|]. injection Hi as <-. left; left; reflexivity.
Qed.

Lemma s_out_in wire snode : forall tr v, In (VSes v) (s_out wire snode tr) ->
  exists ss enc, In (Sent ss enc) tr /\ to_sin wire snode ss = VSes v.
Proof.
  intros tr v H. unfold s_out in H. apply in_flat_map in H. destruct H as (e & He & Hv).
  destruct e; try (destruct Hv; fail).
  - destruct Hv as [Hv|[]]. exists s, enc. split; assumption.
  - destruct Hv as [Hv|[]]; discriminate.
Qed.

Lemma to_sin_ses wire snode ss v : to_sin wire snode ss = VSes v ->
  vs_state v = ss_state ss /\ vs_id v = ss_id ss /\ vs_to v = match ss_to ss with Some n => n | None => 0 end.
Proof.
  unfold to_sin. destruct (wire && _); [discriminate|]. intros H. injection H as <-. cbn. auto.
Qed.

(* Whatever the two configurations are and whatever the client wrote: if the client, fed what the server wrote,
   reports an established session, then the server sent an established envelope with its session id, after an
   Authenticate call answered with a known role and a Register call for the same identity, and the node the
   client holds as its own is the one Register returned. *)
Theorem client_established_only_with_an_authenticated_server wire snode sc o cc cins :
  let sr := server_on sc o cins in
  let cr := client_on cc (s_out wire snode (rr_trace sr)) in
  build_ok cr = true ->
  exists pre ss enc post f sch cred encA encR round n,
    rr_trace sr = pre ++ Sent ss enc :: post /\ ss_state ss = SEstablished /\ ss_id ss = sc_sid sc /\
    In (AuthCall f sch cred encA) pre /\ o_auth o f sch cred round = ARole /\
    In (RegCall f encR) pre /\ o_reg o f = RNode n /\
    uc_local (snd (fst cr)) = n /\ uc_sid (snd (fst cr)) = sc_sid sc.
Proof.
  intros sr cr Hb.
  pose proof (client_ok cc (s_out wire snode (rr_trace sr))) as Hspec.
  unfold cr, client_on in *.
  destruct (cestablish c_repaired cc (s_out wire snode (rr_trace sr))) as [[t c] out] eqn:E.
  pose proof (cestablish_from _ _ _ _ _ _ E) as Hfrom.
  cbn [fst snd]. cbn in Hb. destruct out as [s| | |]; try discriminate.
  cbn in Hspec. apply andb_prop in Hspec. destruct Hspec as [_ Hspec].
  destruct (last_ses t None) as [s'|] eqn:L; [|discriminate].
  rewrite Hb in Hspec. cbn [terminal] in Hspec.
  assert (Hst : vs_state s = SEstablished) by (destruct (vs_state s); try discriminate; reflexivity).
  rewrite Hst in Hspec. cbn in Hspec.
  repeat match goal with H : _ && _ = true |- _ => apply andb_prop in H; destruct H end.
  repeat match goal with
  | H : Nat.eqb _ _ = true |- _ => apply Nat.eqb_eq in H
  | H : String.eqb _ _ = true |- _ => apply String.eqb_eq in H
  end.
  destruct (last_ses_in _ _ _ L) as [Hin|Hin]; [|discriminate].
  apply Hfrom in Hin. apply s_out_in in Hin. destruct Hin as (ss & enc & Hsent & Hto).
  apply to_sin_ses in Hto. destruct Hto as (T1 & T2 & T3).
  apply in_split in Hsent. destruct Hsent as (pre & post & Htr).
  assert (Hs' : vs_state s' = SEstablished) by (destruct (vs_state s'); try discriminate; reflexivity).
  assert (Hss : ss_state ss = SEstablished) by congruence.
  destruct (server_accepts sc o cins) as [Ha _]. cbn zeta in Ha. unfold accepts in Ha.
  fold (server_on sc o cins) in Ha. fold sr in Ha. rewrite Htr in Ha.
  destruct (mon_run sc o (m0 sc) (pre ++ Sent ss enc :: post)) as [m'|] eqn:R; [|discriminate].
  destruct (accepted_established_was_authenticated sc o pre ss enc post m' R Hss)
    as (f & sch & cred & encA & encR & round & n & A & B & C & D & F).
  destruct (run_split sc o _ _ _ _ _ R) as (m1 & m2 & _ & Hstep2 & _).
  destruct (step_sent_established sc o _ _ _ _ Hstep2 Hss) as (n' & _ & _ & _ & _ & Hid & _).
  exists pre, ss, enc, post, f, sch, cred, encA, encR, round, n.
  repeat split; try assumption.
  - rewrite F in T3. congruence.
  - congruence.
Qed.
