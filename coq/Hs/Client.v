(* Model C — the client side of the handshake: ClientChannel.EstablishSession,
   startNewSession, negotiateSession, authenticateSession,
   receiveSessionFromServer, FinishSession (client_channel.go), the channel's
   setState with its regression guard and the receiver goroutine's handling of
   a session envelope (channel.go), and Client.buildChannel's re-check
   (client.go), as one function from a server script to a trace. *)
From Coq Require Import List Bool Arith String.
Import ListNotations.
From Lime Require Import Hs.Types.
Open Scope string_scope.
Open Scope list_scope.

(* what a server can put on the wire *)
Record vses := {
  vs_state : state; vs_id : string; vs_from : nat; vs_to : nat;        (* node tokens; 0 = absent *)
  vs_encopts : list string; vs_compopts : list string; vs_schemeopts : list string;
  vs_enc : string; vs_comp : string; vs_round : option nat
}.
Inductive sin := VSes (s : vses) | VData | VBad | VEof.

(* the client's configuration: arbitrary selector and authenticator functions *)
Record cconf := {
  cc_comp_sel : list string -> string;
  cc_enc_sel : list string -> string;
  cc_auth : list string -> option nat -> string * nat;   (* scheme options, round-trip data |-> scheme, credentials *)
  cc_identity : nat; cc_kind : tkind; cc_tls_ok : bool
}.

(* a session envelope sent by the client *)
Record usent := {
  us_state : state; us_id : string; us_enc : string; us_comp : string;
  us_scheme : string; us_cred : option nat; us_from : nat
}.

Inductive cev :=
| USent (s : usent) (enc : string)      (* enc = encryption in force when written *)
| UTook (i : sin)                       (* the client consumed the server's next input *)
| USetEnc (e : string) (ok : bool)
| USetComp (c : string) (ok : bool)
| UClosed.                              (* the client closes the connection *)

Record cchan := {
  uc_state : state; uc_sid : string; uc_local : nat; uc_remote : nat;
  uc_enc : string; uc_comp : string; uc_conn : bool;
  uc_rcv : bool                          (* the receiver goroutine was started (established was seen) *)
}.
Definition cchan0 (conf : cconf) : cchan :=
  {| uc_state := SNew; uc_sid := ""; uc_local := 0; uc_remote := 0; uc_enc := initial_enc (cc_kind conf);
     uc_comp := "none"; uc_conn := true; uc_rcv := false |}.

Definition upd (c : cchan) (st : state) (sid : string) (loc rem : nat) (conn rcv : bool) : cchan :=
  {| uc_state := st; uc_sid := sid; uc_local := loc; uc_remote := rem; uc_enc := uc_enc c; uc_comp := uc_comp c;
     uc_conn := conn; uc_rcv := rcv |}.
Definition upd_enc (c : cchan) (e : string) : cchan :=
  {| uc_state := uc_state c; uc_sid := uc_sid c; uc_local := uc_local c; uc_remote := uc_remote c; uc_enc := e;
     uc_comp := uc_comp c; uc_conn := uc_conn c; uc_rcv := uc_rcv c |}.

(* how the establishment ends *)
Inductive cout :=
| CRet (s : vses)     (* returned this session envelope, no error *)
| CErr                (* returned an error *)
| CBlocked            (* waiting for the server *)
| CPanic.             (* a goroutine of the client panicked *)

(* D6: a regressing state from the server is an error instead of a panic *)
Record cfix := { fc_regress : bool }.
Definition c_as_found := {| fc_regress := false |}.
Definition c_repaired := {| fc_regress := true |}.

(* channel.sendSession *)
Definition usend (c : cchan) (s : usent) : list cev * bool :=
  if negb (uc_conn c) then ([], false)
  else if terminal (uc_state c) then ([], false)
  else ([USent s (uc_enc c)], true).

Inductive urcv := URSes (s : vses) | URFail | URWait | URPanic.

(* channel.receiveSession: before establishment straight from the transport; once
   established, from the receiver goroutine, which buffers data envelopes, ends
   on the first session envelope (storing its state: the regression guard is
   in that goroutine too) and ends on any error *)
Fixpoint ureceive (fx : cfix) (c : cchan) (ins : list sin) : urcv * cchan * list sin * list cev :=
  match uc_state c with
  | SFinished => (URFail, c, ins, [])
  | SEstablished =>
      match ins with
      | [] => (URWait, c, [], [])
      | VData :: r => let '(x, c', r', e) := ureceive fx c r in (x, c', r', UTook VData :: e)
      | VSes s :: r =>
          if Nat.ltb (step_of (vs_state s)) (step_of SEstablished)
          then if fc_regress fx then (URSes s, c, r, [UTook (VSes s)])     (* the receiver leaves the state alone *)
               else (URPanic, c, r, [UTook (VSes s)])
          else (URSes s, upd c (vs_state s) (uc_sid c) (uc_local c) (uc_remote c) (uc_conn c) (uc_rcv c), r, [UTook (VSes s)])
      | VBad :: r => (URFail, c, r, [UTook VBad])
      | VEof :: r => (URFail, upd c (uc_state c) (uc_sid c) (uc_local c) (uc_remote c) false (uc_rcv c), r, [UTook VEof])
      end
  | _ =>
      if negb (uc_conn c) then (URFail, c, ins, [])
      else match ins with
           | [] => (URWait, c, [], [])
           | VSes s :: r => (URSes s, c, r, [UTook (VSes s)])
           | VData :: r => (URFail, c, r, [UTook VData])
           | VBad :: r => (URFail, c, r, [UTook VBad])
           | VEof :: r => (URFail, upd c (uc_state c) (uc_sid c) (uc_local c) (uc_remote c) false (uc_rcv c), r, [UTook VEof])
           end
  end.

Inductive rres := RGot (s : vses) | RFailed | RWaiting | RPanicked.

(* receiveSessionFromServer *)
Definition receive_from_server (fx : cfix) (c : cchan) (ins : list sin) : rres * cchan * list sin * list cev :=
  match ureceive fx c ins with
  | (URFail, c', r, e) => (RFailed, c', r, e)
  | (URWait, c', r, e) => (RWaiting, c', r, e)
  | (URPanic, c', r, e) => (RPanicked, c', r, e)
  | (URSes s, c', r, e) =>
      if Nat.ltb (step_of (vs_state s)) (step_of (uc_state c')) then
        if fc_regress fx then (RFailed, c', r, e) else (RPanicked, c', r, e)
      else
        let est := state_eqb (vs_state s) SEstablished in
        let c1 := upd c' (vs_state s) (vs_id s)
                      (if est then vs_to s else uc_local c') (if est then vs_from s else uc_remote c')
                      (uc_conn c') (uc_rcv c' || est) in
        if terminal (vs_state s) then
          (* the transport is closed; a failing Close is an error *)
          if uc_conn c1 then (RGot s, upd c1 (uc_state c1) (uc_sid c1) (uc_local c1) (uc_remote c1) false (uc_rcv c1), r, e ++ [UClosed])
          else (RFailed, c1, r, e)
        else (RGot s, c1, r, e)
  end.

Definition mk_usent (c : cchan) (st : state) : usent :=
  {| us_state := st; us_id := uc_sid c; us_enc := ""; us_comp := ""; us_scheme := ""; us_cred := None; us_from := 0 |}.

Definition result := (list cev * cchan * cout)%type.

(* the authentication loop: every iteration consumes a server envelope *)
Fixpoint cauth_loop (fuel : nat) (fx : cfix) (conf : cconf) (c : cchan) (ses : vses) (rt : option nat) (ins : list sin) : result :=
  match fuel with
  | O => ([], c, CErr)       (* unreachable: the fuel is the script length + 1 and every iteration consumes an input *)
  | S fuel' =>
  if negb (state_eqb (vs_state ses) SAuthenticating) then ([], c, CRet ses)
  else
    (* authenticateSession *)
    if negb (uc_conn c && state_eqb (uc_state c) SAuthenticating) then ([], c, CErr)
    else
      let (scheme, cred) := cc_auth conf (vs_schemeopts ses) rt in
      let s := {| us_state := SAuthenticating; us_id := uc_sid c; us_enc := ""; us_comp := "";
                  us_scheme := scheme; us_cred := Some cred; us_from := cc_identity conf |} in
      let (evs, ok) := usend c s in
      if negb ok then (evs, c, CErr)
      else match receive_from_server fx c ins with
           | (RGot ses', c', r', e) =>
               let '(evs', c'', out) := cauth_loop fuel' fx conf c' ses' (vs_round ses') r' in
               (evs ++ e ++ evs', c'', out)
           | (RFailed, c', _, e) => (evs ++ e, c', CErr)
           | (RWaiting, c', _, e) => (evs ++ e, c', CBlocked)
           | (RPanicked, c', _, e) => (evs ++ e, c', CPanic)
           end
  end.

(* EstablishSession *)
Definition cestablish (fx : cfix) (conf : cconf) (ins : list sin) : result :=
  let c := cchan0 conf in
  (* startNewSession *)
  let (e0, ok0) := usend c (mk_usent c SNew) in
  if negb ok0 then (e0, c, CErr)
  else match receive_from_server fx c ins with
  | (RFailed, c1, _, e) => (e0 ++ e, c1, CErr)
  | (RWaiting, c1, _, e) => (e0 ++ e, c1, CBlocked)
  | (RPanicked, c1, _, e) => (e0 ++ e, c1, CPanic)
  | (RGot ses, c1, ins1, e1) =>
      let pre := e0 ++ e1 in
      let auth (evs : list cev) (c : cchan) (ses : vses) (ins : list sin) : result :=
        let '(e, c', out) := cauth_loop (S (List.length ins)) fx conf c ses None ins in (evs ++ e, c', out) in
      if state_eqb (vs_state ses) SNegotiating then
        (* negotiateSession *)
        if negb (uc_conn c1 && state_eqb (uc_state c1) SNegotiating) then (pre, c1, CErr)
        else
          let s := {| us_state := SNegotiating; us_id := uc_sid c1; us_enc := cc_enc_sel conf (vs_encopts ses);
                      us_comp := cc_comp_sel conf (vs_compopts ses); us_scheme := ""; us_cred := None; us_from := 0 |} in
          let (e2, ok2) := usend c1 s in
          if negb ok2 then (pre ++ e2, c1, CErr)
          else match receive_from_server fx c1 ins1 with
          | (RFailed, c2, _, e) => (pre ++ e2 ++ e, c2, CErr)
          | (RWaiting, c2, _, e) => (pre ++ e2 ++ e, c2, CBlocked)
          | (RPanicked, c2, _, e) => (pre ++ e2 ++ e, c2, CPanic)
          | (RGot ses2, c2, ins2, e3) =>
              let pre2 := pre ++ e2 ++ e3 in
              (* apply the confirmed options *)
              let apply : list cev * cchan * bool :=
                if state_eqb (vs_state ses2) SNegotiating then
                  let comp_step :=
                    if negb (String.eqb (vs_comp ses2) "") && negb (String.eqb (vs_comp ses2) (uc_comp c2))
                    then let okc := set_comp (cc_kind conf) (uc_comp c2) (vs_comp ses2) in ([USetComp (vs_comp ses2) okc], okc)
                    else ([], true) in
                  if negb (snd comp_step) then (fst comp_step, c2, false)
                  else if negb (String.eqb (vs_enc ses2) "") && negb (String.eqb (vs_enc ses2) (uc_enc c2))
                  then let (oke, enc') := set_enc (cc_kind conf) (cc_tls_ok conf) (uc_enc c2) (vs_enc ses2) in
                       (fst comp_step ++ [USetEnc (vs_enc ses2) oke], upd_enc c2 enc', oke)
                  else (fst comp_step, c2, true)
                else ([], c2, true) in
              let '(e4, c3, okA) := apply in
              if negb okA then (pre2 ++ e4, c3, CErr)
              else
                (* "Await for authentication options": an unconditional receive *)
                match receive_from_server fx c3 ins2 with
                | (RFailed, c4, _, e) => (pre2 ++ e4 ++ e, c4, CErr)
                | (RWaiting, c4, _, e) => (pre2 ++ e4 ++ e, c4, CBlocked)
                | (RPanicked, c4, _, e) => (pre2 ++ e4 ++ e, c4, CPanic)
                | (RGot ses3, c4, ins3, e5) => auth (pre2 ++ e4 ++ e5) c4 ses3 ins3
                end
          end
      else auth pre c1 ses ins1
  end.

(* Client.buildChannel: a channel only when the handshake's last word is established *)
Definition build_ok (r : result) : bool :=
  match r with
  | (_, _, CRet s) => state_eqb (vs_state s) SEstablished
  | _ => false
  end.
