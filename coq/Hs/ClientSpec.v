(* C08 as an executable predicate over the client's trace and result. *)
From Coq Require Import List Bool Arith String.
Import ListNotations.
From Lime Require Import Hs.Types Hs.Client.
Open Scope string_scope.
Open Scope list_scope.

(* walk the trace: [last] = the latest server session envelope taken, [fresh] = no client envelope since *)
Fixpoint walk (t : list cev) (first : bool) (last : option vses) (fresh : bool) : bool :=
  match t with
  | [] => true
  | UTook (VSes s) :: r => walk r first (Some s) true
  | UTook _ :: r => walk r first last fresh
  | USent u _ :: r =>
      (* (c) after the first envelope every envelope echoes the id of the server's latest session envelope *)
      (if first then true else match last with Some s => String.eqb (us_id u) (vs_id s) | None => false end) &&
      (* (d) credentials only as the direct answer to an authentication request *)
      (match us_cred u with
       | Some _ => match last with Some s => fresh && state_eqb (vs_state s) SAuthenticating | None => false end
       | None => true
       end) &&
      walk r false last false
  | _ :: r => walk r first last fresh
  end.

Fixpoint last_ses (t : list cev) (acc : option vses) : option vses :=
  match t with
  | [] => acc
  | UTook (VSes s) :: r => last_ses r (Some s)
  | _ :: r => last_ses r acc
  end.

Definition closed_in (t : list cev) : bool := existsb (fun e => match e with UClosed => true | _ => false end) t.

Definition c08_spec (r : result) : bool :=
  let '(t, c, out) := r in
  (* (a) no panic *)
  match out with CPanic => false | _ => true end &&
  walk t true None false &&
  match out with
  | CRet s =>
      (* what is returned is the server's last word *)
      match last_ses t None with
      | Some s' =>
          state_eqb (vs_state s') (vs_state s) && String.eqb (vs_id s') (vs_id s) &&
          Nat.eqb (vs_from s') (vs_from s) && Nat.eqb (vs_to s') (vs_to s) &&
          (* (b) established: the channel carries exactly that envelope's id and nodes *)
          (if state_eqb (vs_state s) SEstablished
           then state_eqb (uc_state c) SEstablished && String.eqb (uc_sid c) (vs_id s) &&
                Nat.eqb (uc_local c) (vs_to s) && Nat.eqb (uc_remote c) (vs_from s)
           else true) &&
          (* (e) finished / failed: the connection was closed *)
          (if terminal (vs_state s) then closed_in t && negb (uc_conn c) else true)
      | None => false
      end
  | _ => true
  end.
