(* Model J - how a server's handshake configuration comes about: ServerBuilder (server.go: NewServerConfig,
   NewServerBuilder, CompressionOptions, EncryptionOptions, Enable*Authentication, Build) and the per-scheme
   dispatch that Build installs as the Authenticate callback (server.go: buildAuthenticate).

   A builder owns one configuration record; the Server it builds runs with that very record (Build hands the
   pointer on), and Build stores into it the dispatch function closed over the three authenticators installed
   so far.  Several builders exist side by side and never share anything. *)
From Coq Require Import List Bool Arith String.
Import ListNotations.
From Lime Require Import Hs.Types Hs.Server.
Open Scope string_scope.
Open Scope list_scope.

Record builder := {
  b_comp : list string; b_enc : list string; b_schemes : list string;
  b_plain : option nat; b_key : option nat; b_ext : option nat;   (* the authenticator functions installed (by name) *)
  b_built : option (option nat * option nat * option nat)        (* what the latest Build captured; None = never built *)
}.

(* NewServerConfig *)
Definition new_builder : builder :=
  {| b_comp := ["none"]; b_enc := ["none"; "tls"]; b_schemes := ["transport"];
     b_plain := None; b_key := None; b_ext := None; b_built := None |}.

Inductive bop :=
| BComp (l : list string) | BEnc (l : list string)
| BGuest | BTransport | BPlain (f : nat) | BKey (f : nat) | BExt (f : nat)
| BBuild.

(* if !contains(opts, s) { opts = append(opts, s) } *)
Definition enable (s : string) (l : list string) : list string := if mem s l then l else l ++ [s].

Definition with_schemes (b : builder) (l : list string) : builder :=
  {| b_comp := b_comp b; b_enc := b_enc b; b_schemes := l; b_plain := b_plain b; b_key := b_key b; b_ext := b_ext b;
     b_built := b_built b |}.

(* one builder call; None = the call panics (an empty option list) and changes nothing *)
Definition bstep (b : builder) (o : bop) : option builder :=
  match o with
  | BComp [] | BEnc [] => None
  | BComp l => Some {| b_comp := l; b_enc := b_enc b; b_schemes := b_schemes b; b_plain := b_plain b; b_key := b_key b;
                       b_ext := b_ext b; b_built := b_built b |}
  | BEnc l => Some {| b_comp := b_comp b; b_enc := l; b_schemes := b_schemes b; b_plain := b_plain b; b_key := b_key b;
                      b_ext := b_ext b; b_built := b_built b |}
  | BGuest => Some (with_schemes b (enable "guest" (b_schemes b)))
  | BTransport => Some (with_schemes b (enable "transport" (b_schemes b)))
  | BPlain f => Some {| b_comp := b_comp b; b_enc := b_enc b; b_schemes := enable "plain" (b_schemes b); b_plain := Some f;
                        b_key := b_key b; b_ext := b_ext b; b_built := b_built b |}
  | BKey f => Some {| b_comp := b_comp b; b_enc := b_enc b; b_schemes := enable "key" (b_schemes b); b_plain := b_plain b;
                      b_key := Some f; b_ext := b_ext b; b_built := b_built b |}
  | BExt f => Some {| b_comp := b_comp b; b_enc := b_enc b; b_schemes := enable "external" (b_schemes b); b_plain := b_plain b;
                      b_key := b_key b; b_ext := Some f; b_built := b_built b |}
  | BBuild => Some {| b_comp := b_comp b; b_enc := b_enc b; b_schemes := b_schemes b; b_plain := b_plain b; b_key := b_key b;
                      b_ext := b_ext b; b_built := Some (b_plain b, b_key b, b_ext b) |}
  end.
Definition bapply (b : builder) (o : bop) : builder := match bstep b o with Some b' => b' | None => b end.
Definition brun (ops : list bop) : builder := fold_left bapply ops new_builder.

(* ---- several builders side by side ---- *)
Inductive wop := WNew | WOp (i : nat) (o : bop).
Fixpoint upd {A} (l : list A) (i : nat) (f : A -> A) : list A :=
  match l, i with
  | [], _ => []
  | x :: r, O => f x :: r
  | x :: r, S j => x :: upd r j f
  end.
Definition wstep (w : list builder) (o : wop) : list builder :=
  match o with
  | WNew => w ++ [new_builder]
  | WOp i o => upd w i (fun b => bapply b o)
  end.
Definition wrun (ops : list wop) : list builder := fold_left wstep ops [].

(* ---- the dispatch installed by Build ---- *)
(* the authentication object handed to Authenticate: its Go type is decided by the scheme on the wire
   (session.go: authFactories); nil when the envelope carried no authentication member *)
Inductive aobj :=
| ANil | AGuest | ATransport
| APlain (password : option nat)     (* None: the password is not valid base64 *)
| AKey (key : option nat)
| AExternal (token issuer : nat).

(* the user's authenticator functions, by name: arbitrary *)
Record authfns := {
  f_plain : nat -> nat -> nat -> nat -> ares;          (* function, identity, password, round *)
  f_key : nat -> nat -> nat -> nat -> ares;
  f_ext : nat -> nat -> nat -> nat -> nat -> ares      (* function, identity, token, issuer, round *)
}.

(* buildAuthenticate(plainAuth, keyAuth, externalAuth) *)
Definition dispatch (fs : authfns) (cap : option nat * option nat * option nat) (name_is_uuid : bool)
           (ident : nat) (a : aobj) (round : nat) : ares :=
  match cap with
  | (pl, ky, ex) =>
      match a with
      | AGuest => if name_is_uuid then ARole else AUnknown
      | ATransport => AErr                                    (* "transport auth not implemented yet" *)
      | APlain pw => match pl with
                     | None => AErr                           (* "plain authenticator is nil" *)
                     | Some f => match pw with None => AErr | Some p => f_plain fs f ident p round end
                     end
      | AKey k => match ky with
                  | None => AErr
                  | Some f => match k with None => AErr | Some p => f_key fs f ident p round end
                  end
      | AExternal t i => match ex with None => AErr | Some f => f_ext fs f ident t i round end
      | ANil => AErr                                          (* "unknown authentication scheme" *)
      end
  end.

(* ---- the Server a builder builds, in Model B's terms ---- *)
(* conventions of the scripted peers: an identity token of 50 or more stands for a name that is a UUID;
   credential tokens of 1000 or more stand for text that is not base64; the external scheme's issuer is 0 *)
Definition is_uuid (ident : nat) : bool := Nat.leb 50 ident.
Definition valid_b64 (c : nat) : option nat := if Nat.ltb c 1000 then Some c else None.
Definition aobj_of (scheme : string) (cred : option nat) : aobj :=
  match cred with
  | None => ANil
  | Some c =>
      if String.eqb scheme "guest" then AGuest
      else if String.eqb scheme "transport" then ATransport
      else if String.eqb scheme "plain" then APlain (valid_b64 c)
      else if String.eqb scheme "key" then AKey (valid_b64 c)
      else if String.eqb scheme "external" then AExternal c 0
      else ANil
  end.
Definition builder_oracle (fs : authfns) (b : builder) (reg : nat -> rres) : oracle :=
  {| o_auth := fun from scheme cred round =>
                 match b_built b with
                 | None => ARole                               (* NewServerConfig's default: everyone is a member *)
                 | Some cap => dispatch fs cap (is_uuid from) from (aobj_of scheme cred) round
                 end;
     o_reg := reg |}.
Definition builder_conf (b : builder) (k : tkind) (tls_ok : bool) : sconf :=
  {| sc_comp := b_comp b; sc_enc := b_enc b; sc_schemes := b_schemes b; sc_kind := k; sc_tls_ok := tls_ok; sc_sid := "SID" |}.
