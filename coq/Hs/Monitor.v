(* The server-handshake properties (C03, C06 receive side, C07, C09, C10, C14)
   as one executable monitor over traces of events.  Every rule is a clause
   of one of the properties; the monitor knows the configuration and the
   callbacks but nothing about how the server is programmed. *)
From Coq Require Import List Bool Arith String.
Import ListNotations.
From Lime Require Import Hs.Types Hs.Server.
Open Scope string_scope.
Open Scope list_scope.

Record mst := {
  m_last : option sses;     (* the last session envelope the server sent *)
  m_in : option cin;        (* the peer's most recent input *)
  m_viol : bool;            (* that input violated the session exchange and is not answered yet *)
  m_abort : bool;           (* a non-session input or EOF arrived before establishment *)
  m_dead : bool;            (* failed or finished has been sent *)
  m_closed : bool;          (* the server closed the connection *)
  m_est : bool;             (* established has been sent *)
  m_round : nat;            (* Authenticate calls so far *)
  m_authd : option nat;     (* Some f: the last Authenticate call returned a known role for the identity of node f *)
  m_rt : option nat;        (* Some d: the last Authenticate call asked for a round trip with data d *)
  m_reg : option nat;       (* Some n: Register returned node n, not yet announced *)
  m_enc : string;           (* the encryption that must be in force *)
  m_estcb : bool; m_fincb : bool
}.

Definition m0 (conf : sconf) : mst :=
  {| m_last := None; m_in := None; m_viol := false; m_abort := false; m_dead := false; m_closed := false;
     m_est := false; m_round := 0; m_authd := None; m_rt := None; m_reg := None;
     m_enc := initial_enc (sc_kind conf); m_estcb := false; m_fincb := false |}.

Definition is_offer (s : sses) : bool :=
  state_eqb (ss_state s) SNegotiating && negb (match ss_encopts s with [] => true | _ => false end).
Definition is_confirm (s : sses) : bool :=
  state_eqb (ss_state s) SNegotiating && (match ss_encopts s with [] => true | _ => false end).
Definition is_auth (s : sses) : bool := state_eqb (ss_state s) SAuthenticating.

(* C07: does session input [ses] violate the exchange, given the server's last envelope? *)
Definition violates (conf : sconf) (last : option sses) (ses : cses) : bool :=
  match last with
  | None => negb (state_eqb (cs_state ses) SNew && String.eqb (cs_id ses) "")
  | Some s =>
      if is_offer s then
        negb (state_eqb (cs_state ses) SNegotiating && String.eqb (cs_id ses) (sc_sid conf) &&
              negb (String.eqb (cs_enc ses) "") && negb (String.eqb (cs_comp ses) "") &&
              mem (cs_enc ses) (ss_encopts s) && mem (cs_comp ses) (ss_compopts s))
      else if is_auth s then
        negb (state_eqb (cs_state ses) SAuthenticating && String.eqb (cs_id ses) (sc_sid conf) &&
              mem (cs_scheme ses) (sc_schemes conf))
      else false
  end.

(* C10's precondition: cleartext is not offered and the connection can provide a configured option *)
Definition c10_pre (conf : sconf) : bool :=
  negb (mem "none" (sc_enc conf)) &&
  negb (match intersect (sc_enc conf) (supported_enc (sc_kind conf)) with [] => true | _ => false end).
Definition enc_ok (conf : sconf) (enc : string) : bool := if c10_pre conf then mem enc (sc_enc conf) else true.

Definition set (m : mst) (last : option sses) (inp : option cin) (viol abort dead closed est : bool) : mst :=
  {| m_last := last; m_in := inp; m_viol := viol; m_abort := abort; m_dead := dead; m_closed := closed; m_est := est;
     m_round := m_round m; m_authd := m_authd m; m_rt := m_rt m; m_reg := m_reg m; m_enc := m_enc m;
     m_estcb := m_estcb m; m_fincb := m_fincb m |}.

Definition guard (b : bool) (m : mst) : option mst := if b then Some m else None.
Definition opt_nat_eqb' (a b : option nat) : bool :=
  match a, b with Some x, Some y => Nat.eqb x y | None, None => true | _, _ => false end.
Fixpoint strs_eqb (a b : list string) : bool :=
  match a, b with
  | [], [] => true
  | x :: a', y :: b' => String.eqb x y && strs_eqb a' b'
  | _, _ => false
  end.

Definition neg_enc (conf : sconf) := intersect (sc_enc conf) (supported_enc (sc_kind conf)).
Definition neg_comp (conf : sconf) := intersect (sc_comp conf) (supported_comp (sc_kind conf)).

Definition mon_step (conf : sconf) (o : oracle) (m : mst) (e : ev) : option mst :=
  match e with
  | Took i =>
      (* nothing is read after the connection was closed, after failed/finished was sent,
         or while a violation or an abort is unanswered *)
      if m_closed m || m_dead m || m_viol m || m_abort m then None
      else if m_est m then Some (set m (m_last m) (Some i) false false false false true)
      else match i with
           | CSes ses => Some (set m (m_last m) (Some i) (violates conf (m_last m) ses) false false false false)
           | _ => Some (set m (m_last m) (Some i) false true false false false)
           end
  | Sent s enc =>
      (* C07 b: the single session id; nothing after failed/finished or after the close;
         C09: written under the encryption that must be in force *)
      if m_closed m || m_dead m || negb (String.eqb (ss_id s) (sc_sid conf)) || negb (String.eqb enc (m_enc m)) then None
      else if m_viol m then
        (* C07 d: a violation is answered with failed + reason *)
        guard (state_eqb (ss_state s) SFailed && ss_reason s) (set m (Some s) (m_in m) false false true false (m_est m))
      else if m_abort m then
        guard (state_eqb (ss_state s) SFailed) (set m (Some s) (m_in m) false true true false (m_est m))
      else
        match ss_state s with
        | SFailed => guard (ss_reason s && negb (m_est m)) (set m (Some s) (m_in m) false false true false (m_est m))
        | SNegotiating =>
            if is_offer s then
              (* C09: the offer is exactly configured-and-supported; only as the answer to a fresh new session *)
              guard (match m_last m, m_in m with None, Some (CSes _) => true | _, _ => false end &&
                     strs_eqb (ss_encopts s) (neg_enc conf) &&
                     strs_eqb (ss_compopts s) (neg_comp conf))
                    (set m (Some s) (m_in m) false false false false false)
            else
              (* C09: the confirmation repeats a pair chosen from the offer *)
              guard (match m_last m, m_in m with
                     | Some l, Some (CSes ses) =>
                         is_offer l && String.eqb (ss_enc s) (cs_enc ses) && String.eqb (ss_comp s) (cs_comp ses) &&
                         mem (ss_enc s) (ss_encopts l) && mem (ss_comp s) (ss_compopts l)
                     | _, _ => false
                     end)
                    (set m (Some s) (m_in m) false false false false false)
        | SAuthenticating =>
            match ss_round s with
            | None =>
                (* the authentication request: after the confirmation was applied, or straight away;
                   C10: never under an encryption the server did not configure *)
                guard (match m_last m with
                       | None => match m_in m with Some (CSes _) => true | _ => false end
                       | Some l => is_confirm l && String.eqb (ss_enc l) (m_enc m)
                       end &&
                       strs_eqb (ss_schemeopts s) (sc_schemes conf) && enc_ok conf enc)
                      (set m (Some s) (m_in m) false false false false false)
            | Some d =>
                (* a round trip only when the callback asked for it *)
                guard (match m_last m with Some l => is_auth l | None => false end &&
                       match m_rt m with Some d' => Nat.eqb d d' | None => false end)
                      {| m_last := Some s; m_in := m_in m; m_viol := false; m_abort := false; m_dead := false;
                         m_closed := false; m_est := false; m_round := m_round m; m_authd := None; m_rt := None;
                         m_reg := None; m_enc := m_enc m; m_estcb := false; m_fincb := false |}
            end
        | SEstablished =>
            (* C03: only the node the registration callback supplied, after a successful authentication *)
            guard (match m_last m with Some l => is_auth l | None => false end &&
                   match m_reg m, ss_to s with Some n, Some n' => Nat.eqb n n' | _, _ => false end &&
                   negb (m_est m) && enc_ok conf enc)
                  {| m_last := Some s; m_in := m_in m; m_viol := false; m_abort := false; m_dead := false;
                     m_closed := false; m_est := true; m_round := m_round m; m_authd := None; m_rt := None;
                     m_reg := None; m_enc := m_enc m; m_estcb := false; m_fincb := false |}
        | SFinished => guard (m_est m) (set m (Some s) (m_in m) false false true false true)
        | _ => None
        end
  | AuthCall f sch cred enc =>
      (* C03: credentials are checked only for what the peer just presented, under an offered scheme;
         C09/C10: under the negotiated encryption *)
      match m_last m, m_in m with
      | Some l, Some (CSes ses) =>
          if is_auth l && negb (m_viol m || m_abort m || m_dead m || m_closed m || m_est m) &&
             Nat.eqb f (cs_from ses) && String.eqb sch (presented_scheme ses) && opt_nat_eqb' cred (cs_cred ses) &&
             mem (cs_scheme ses) (sc_schemes conf) && String.eqb enc (m_enc m) && enc_ok conf enc
          then
            let r := o_auth o f sch cred (m_round m) in
            Some {| m_last := m_last m; m_in := m_in m; m_viol := false; m_abort := false; m_dead := false;
                    m_closed := false; m_est := false; m_round := S (m_round m);
                    m_authd := match r with ARole => Some f | _ => None end;
                    m_rt := match r with ARound d => Some d | _ => None end;
                    m_reg := None; m_enc := m_enc m; m_estcb := false; m_fincb := false |}
          else None
      | _, _ => None
      end
  | RegCall f enc =>
      match m_authd m with
      | Some f' =>
          if Nat.eqb f f' && String.eqb enc (m_enc m) && negb (m_closed m || m_dead m) then
            Some {| m_last := m_last m; m_in := m_in m; m_viol := m_viol m; m_abort := m_abort m; m_dead := m_dead m;
                    m_closed := m_closed m; m_est := m_est m; m_round := m_round m; m_authd := None; m_rt := None;
                    m_reg := match o_reg o f with RNode n => Some n | RegErr => None end;
                    m_enc := m_enc m; m_estcb := m_estcb m; m_fincb := m_fincb m |}
          else None
      | None => None
      end
  | SetEnc e ok =>
      (* C09: the switch happens right after the confirmation of that option *)
      match m_last m with
      | Some l =>
          if is_confirm l && String.eqb (ss_enc l) e && negb (m_closed m) then
            let r := set_enc (sc_kind conf) (sc_tls_ok conf) (m_enc m) e in
            if Bool.eqb ok (fst r) then
              Some {| m_last := m_last m; m_in := m_in m; m_viol := m_viol m; m_abort := m_abort m; m_dead := m_dead m;
                      m_closed := m_closed m; m_est := m_est m; m_round := m_round m; m_authd := m_authd m;
                      m_rt := m_rt m; m_reg := m_reg m; m_enc := snd r; m_estcb := m_estcb m; m_fincb := m_fincb m |}
            else None
          else None
      | None => None
      end
  | SetComp c ok =>
      match m_last m with
      | Some l => guard (is_confirm l && String.eqb (ss_comp l) c) m
      | None => None
      end
  | Closed => guard (negb (m_closed m)) (set m (m_last m) (m_in m) (m_viol m) (m_abort m) (m_dead m) true (m_est m))
  | EstCb =>
      (* C14/C18: only for a session that reached established, once *)
      guard (m_est m && negb (m_estcb m) && negb (m_dead m))
        {| m_last := m_last m; m_in := m_in m; m_viol := m_viol m; m_abort := m_abort m; m_dead := m_dead m;
           m_closed := m_closed m; m_est := m_est m; m_round := m_round m; m_authd := m_authd m; m_rt := m_rt m;
           m_reg := m_reg m; m_enc := m_enc m; m_estcb := true; m_fincb := m_fincb m |}
  | FinCb =>
      guard (m_estcb m && negb (m_fincb m))
        {| m_last := m_last m; m_in := m_in m; m_viol := m_viol m; m_abort := m_abort m; m_dead := m_dead m;
           m_closed := m_closed m; m_est := m_est m; m_round := m_round m; m_authd := m_authd m; m_rt := m_rt m;
           m_reg := m_reg m; m_enc := m_enc m; m_estcb := m_estcb m; m_fincb := true |}
  | Dispatch =>
      (* C06: a data envelope reaches the handlers only on an established session *)
      guard (m_estcb m && negb (m_fincb m) && match m_in m with Some CData => true | _ => false end) m
  end.

(* run the monitor over a trace *)
Fixpoint mon_run (conf : sconf) (o : oracle) (m : mst) (t : list ev) : option mst :=
  match t with
  | [] => Some m
  | e :: t' => match mon_step conf o m e with Some m' => mon_run conf o m' t' | None => None end
  end.

(* what must hold when the trace ends: every violation was answered; what was
   failed, finished or aborted is closed; a connection nobody serves any more is
   closed (C14); Finished implies closed *)
Definition mon_final (ended : bool) (m : mst) : bool :=
  negb (m_viol m) &&
  (if m_dead m then m_closed m else true) &&
  (if m_abort m then m_closed m else true) &&
  (if ended then m_closed m else true) &&
  (if m_estcb m then true else negb (m_fincb m)).

Definition accepts (conf : sconf) (o : oracle) (t : list ev) (ended : bool) : bool :=
  match mon_run conf o (m0 conf) t with
  | Some m => mon_final ended m
  | None => false
  end.
