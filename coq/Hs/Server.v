(* Model B — the server side of the handshake: ServerChannel.EstablishSession,
   negotiateSession, authenticateSession, the send*Session helpers with their
   state guards, FailSession / FinishSession (server_channel.go), channel
   sendSession / receiveSession (channel.go) and Server.handleChannel
   (server.go), as one function from a client script to a trace of events. *)
From Coq Require Import List Bool Arith String.
Import ListNotations.
From Lime Require Import Hs.Types.
Open Scope string_scope.
Open Scope list_scope.

(* what the connecting peer can put on the wire *)
Record cses := {
  cs_id : string; cs_state : state; cs_enc : string; cs_comp : string;
  cs_scheme : string; cs_cred : option nat;   (* authentication data, as a token; None = absent *)
  cs_from : nat                               (* the from node, as a token *)
}.
Inductive cin :=
| CSes (s : cses)   (* a session envelope *)
| CData             (* a message, notification or command *)
| CBad              (* bytes that do not decode to an envelope *)
| CEof.             (* the peer closes the connection *)

Record sconf := {
  sc_comp : list string; sc_enc : list string; sc_schemes : list string;
  sc_kind : tkind; sc_tls_ok : bool;          (* does the peer complete an in-place TLS handshake *)
  sc_sid : string
}.

Inductive ares := ARole | AUnknown | ARound (data : nat) | AErr.

(* What the Authenticate callback actually returns is a record with two independent fields: the
   role (0 = left unset, 1 = "unknown", 2 = a domain role) and optional round-trip data.
   authenticateSession's decision: a set, known role means success whatever else is there;
   otherwise round-trip data asks for another round; otherwise the authentication failed. *)
Definition classify (role : nat) (rt : option nat) : ares :=
  match role with
  | S (S _) => ARole
  | _ => match rt with Some d => ARound d | None => AUnknown end
  end.
Inductive rres := RNode (n : nat) | RegErr.
(* the configured callbacks: arbitrary functions *)
Record oracle := {
  o_auth : nat -> string -> option nat -> nat -> ares;   (* from, scheme, credentials, round *)
  o_reg : nat -> rres
}.

(* a session envelope sent by the server *)
Record sses := {
  ss_state : state; ss_id : string; ss_to : option nat;
  ss_encopts : list string; ss_compopts : list string; ss_schemeopts : list string;
  ss_enc : string; ss_comp : string; ss_round : option nat; ss_reason : bool
}.
Definition mk_ses (id : string) (st : state) : sses :=
  {| ss_state := st; ss_id := id; ss_to := None; ss_encopts := []; ss_compopts := []; ss_schemeopts := [];
     ss_enc := ""; ss_comp := ""; ss_round := None; ss_reason := false |}.

Inductive ev :=
| Sent (s : sses) (enc : string)                                   (* enc = encryption in force when written *)
| AuthCall (from : nat) (scheme : string) (cred : option nat) (enc : string)
| RegCall (from : nat) (enc : string)
| SetEnc (e : string) (ok : bool)
| SetComp (c : string) (ok : bool)
| Closed                                                           (* the server closes the connection *)
| EstCb | FinCb                                                    (* Established / Finished callbacks *)
| Dispatch                                                         (* a data envelope reaches the mux *)
| Took (i : cin).                                                  (* the server consumed the peer's next input i *)

(* the channel *)
Record chan := { ch_state : state; ch_enc : string; ch_comp : string; ch_conn : bool; ch_remote : option nat }.
Definition with_state (c : chan) (s : state) : chan :=
  {| ch_state := s; ch_enc := ch_enc c; ch_comp := ch_comp c; ch_conn := ch_conn c; ch_remote := ch_remote c |}.
Definition with_conn (c : chan) (b : bool) : chan :=
  {| ch_state := ch_state c; ch_enc := ch_enc c; ch_comp := ch_comp c; ch_conn := b; ch_remote := ch_remote c |}.
Definition with_enc (c : chan) (e : string) : chan :=
  {| ch_state := ch_state c; ch_enc := e; ch_comp := ch_comp c; ch_conn := ch_conn c; ch_remote := ch_remote c |}.
Definition with_remote (c : chan) (n : nat) : chan :=
  {| ch_state := ch_state c; ch_enc := ch_enc c; ch_comp := ch_comp c; ch_conn := ch_conn c; ch_remote := Some n |}.

Definition chan0 (conf : sconf) : chan :=
  {| ch_state := SNew; ch_enc := initial_enc (sc_kind conf); ch_comp := "none"; ch_conn := true; ch_remote := None |}.

(* how EstablishSession ends *)
Inductive outcome :=
| Returned (err : bool)   (* returned nil / an error *)
| Blocked                 (* waiting for the peer's next envelope *)
| Panicked.               (* the state-regression guard of setState fired *)

Definition result := (list ev * chan * outcome)%type.

(* channel.setState: panics when the state would move backwards *)
Definition set_state (c : chan) (s : state) : option chan :=
  if Nat.ltb (step_of s) (step_of (ch_state c)) then None else Some (with_state c s).

(* channel.sendSession *)
Definition send_session (c : chan) (s : sses) : list ev * bool :=
  if negb (ch_conn c) then ([], false)
  else if terminal (ch_state c) then ([], false)
  else ([Sent s (ch_enc c)], true).

(* channel.receiveSession during the handshake *)
Inductive rcv := RSes (s : cses) | RFail | RWait.
Definition receive (c : chan) (ins : list cin) : rcv * chan * list cin * list ev :=
  if negb (ch_conn c) then (RFail, c, ins, [])
  else match ins with
       | [] => (RWait, c, [], [])
       | CSes s :: r => (RSes s, c, r, [Took (CSes s)])
       | CData :: r => (RFail, c, r, [Took CData])
       | CBad :: r => (RFail, c, r, [Took CBad])
       | CEof :: r => (RFail, with_conn c false, r, [Took CEof])
       end.

(* FailSession *)
Definition fail_session (conf : sconf) (c : chan) : list ev * chan * outcome :=
  if negb (ch_conn c) then ([], c, Returned true)
  else
    let s := {| ss_state := SFailed; ss_id := sc_sid conf; ss_to := ch_remote c; ss_encopts := []; ss_compopts := [];
                ss_schemeopts := []; ss_enc := ""; ss_comp := ""; ss_round := None; ss_reason := true |} in
    let (evs, ok) := send_session c s in
    match set_state c SFailed with
    | None => (evs, c, Panicked)
    | Some c' => if ok then (evs ++ [Closed], with_conn c' false, Returned false)
                 else (evs, c', Returned true)
    end.

(* FinishSession *)
Definition finish_session (conf : sconf) (c : chan) : list ev * chan :=
  if negb (ch_conn c && state_eqb (ch_state c) SEstablished) then ([], c)
  else
    let s := {| ss_state := SFinished; ss_id := sc_sid conf; ss_to := ch_remote c; ss_encopts := []; ss_compopts := [];
                ss_schemeopts := []; ss_enc := ""; ss_comp := ""; ss_round := None; ss_reason := false |} in
    ([Sent s (ch_enc c); Closed], with_conn (with_state c SFinished) false).

(* which fixes are in (DESIGN.md section 6): D7 negotiation condition, D8 handleChannel *)
Record sfix := { fs_neg : bool; fs_handle : bool }.
Definition s_as_found := {| fs_neg := false; fs_handle := false |}.
Definition s_repaired := {| fs_neg := true; fs_handle := true |}.

(* what the Authenticate callback is handed: the authentication data (whose type
   is its scheme; the wire decoder guarantees it is the declared one) or nil *)
Definition presented_scheme (s : cses) : string :=
  match cs_cred s with Some _ => cs_scheme s | None => "" end.

(* the authentication loop; recursion on the remaining script: every iteration
   that continues has consumed an envelope *)
Fixpoint auth_loop (conf : sconf) (o : oracle) (c : chan) (ses : cses) (round : nat) (ins : list cin)
  : list ev * chan * outcome * list cin :=
  if negb (state_eqb (cs_state ses) SAuthenticating) then (fail_session conf c, ins)
  else if negb (String.eqb (cs_id ses) (sc_sid conf)) then (fail_session conf c, ins)
  else if negb (mem (cs_scheme ses) (sc_schemes conf)) then (fail_session conf c, ins)
  else
    let call := AuthCall (cs_from ses) (presented_scheme ses) (cs_cred ses) (ch_enc c) in
    match o_auth o (cs_from ses) (presented_scheme ses) (cs_cred ses) round with
    | AErr => ([call], c, Returned true, ins)
    | ARole =>
        let reg := RegCall (cs_from ses) (ch_enc c) in
        match o_reg o (cs_from ses) with
        | RegErr => ([call; reg], c, Returned true, ins)
        | RNode n =>
            (* sendEstablishedSession *)
            if negb (ch_conn c) then ([call; reg], c, Returned true, ins)
            else match set_state c SEstablished with
                 | None => ([call; reg], c, Panicked, ins)
                 | Some c1 =>
                     let c2 := with_remote c1 n in
                     let s := {| ss_state := SEstablished; ss_id := sc_sid conf; ss_to := Some n; ss_encopts := [];
                                 ss_compopts := []; ss_schemeopts := []; ss_enc := ""; ss_comp := "";
                                 ss_round := None; ss_reason := false |} in
                     let (evs, ok) := send_session c2 s in
                     ([call; reg] ++ evs, c2, Returned (negb ok), ins)
                 end
        end
    | ARound data =>
        (* sendAuthenticatingRoundTripSession *)
        if negb (ch_conn c && state_eqb (ch_state c) SAuthenticating) then ([call], c, Returned true, ins)
        else
          let s := {| ss_state := SAuthenticating; ss_id := sc_sid conf; ss_to := None; ss_encopts := [];
                      ss_compopts := []; ss_schemeopts := []; ss_enc := ""; ss_comp := "";
                      ss_round := Some data; ss_reason := false |} in
          let (evs, ok) := send_session c s in
          if negb ok then ([call] ++ evs, c, Returned true, ins)
          else match ins with
               | [] => ([call] ++ evs, c, Blocked, [])
               | i :: rest =>
                   match receive c (i :: rest) with
                   | (RSes ses', c', _, tk) =>
                       let '(evs', c'', out, ins') := auth_loop conf o c' ses' (S round) rest in
                       ([call] ++ evs ++ tk ++ evs', c'', out, ins')
                   | (RFail, c', ins', tk) => ([call] ++ evs ++ tk, c', Returned true, ins')
                   | (RWait, c', ins', tk) => ([call] ++ evs ++ tk, c', Blocked, ins')
                   end
               end
    | AUnknown =>
        let '(evs, c', out) := fail_session conf c in ([call] ++ evs, c', out, ins)
    end.

(* authenticateSession *)
Definition authenticate_session (conf : sconf) (o : oracle) (c : chan) (ins : list cin)
  : list ev * chan * outcome * list cin :=
  match sc_schemes conf with
  | [] => ([], c, Returned true, ins)
  | _ =>
      if negb (ch_conn c) then ([], c, Returned true, ins)
      else if negb (state_eqb (ch_state c) SNew || state_eqb (ch_state c) SNegotiating) then ([], c, Returned true, ins)
      else match set_state c SAuthenticating with
           | None => ([], c, Panicked, ins)
           | Some c1 =>
               let s := {| ss_state := SAuthenticating; ss_id := sc_sid conf; ss_to := None; ss_encopts := [];
                           ss_compopts := []; ss_schemeopts := sc_schemes conf; ss_enc := ""; ss_comp := "";
                           ss_round := None; ss_reason := false |} in
               let (evs, ok) := send_session c1 s in
               if negb ok then (evs, c1, Returned true, ins)
               else match receive c1 ins with
                    | (RSes ses, c2, ins', tk) =>
                        let '(evs', c3, out, ins'') := auth_loop conf o c2 ses 0 ins' in
                        (evs ++ tk ++ evs', c3, out, ins'')
                    | (RFail, c2, ins', tk) => (evs ++ tk, c2, Returned true, ins')
                    | (RWait, c2, ins', tk) => (evs ++ tk, c2, Blocked, ins')
                    end
           end
  end.

(* negotiateSession *)
Definition negotiate_session (conf : sconf) (c : chan) (comp_opts enc_opts : list string) (ins : list cin)
  : list ev * chan * outcome * list cin :=
  match comp_opts, enc_opts with
  | [], _ | _, [] => ([], c, Returned true, ins)              (* no available options *)
  | _, _ =>
      if negb (ch_conn c && state_eqb (ch_state c) SNew) then ([], c, Returned true, ins)
      else match set_state c SNegotiating with
           | None => ([], c, Panicked, ins)
           | Some c1 =>
               let s := {| ss_state := SNegotiating; ss_id := sc_sid conf; ss_to := None; ss_encopts := enc_opts;
                           ss_compopts := comp_opts; ss_schemeopts := []; ss_enc := ""; ss_comp := "";
                           ss_round := None; ss_reason := false |} in
               let (evs, ok) := send_session c1 s in
               if negb ok then (evs, c1, Returned true, ins)
               else match receive c1 ins with
                    | (RFail, c2, ins', tk) => (evs ++ tk, c2, Returned true, ins')
                    | (RWait, c2, ins', tk) => (evs ++ tk, c2, Blocked, ins')
                    | (RSes ses, c2, ins', tk) =>
                        let evs := evs ++ tk in
                        if negb (String.eqb (cs_id ses) (sc_sid conf)) then
                          let '(e2, c3, out) := fail_session conf c2 in (evs ++ e2, c3, out, ins')
                        else if state_eqb (cs_state ses) SNegotiating && negb (String.eqb (cs_comp ses) "") &&
                                negb (String.eqb (cs_enc ses) "") && mem (cs_comp ses) comp_opts &&
                                mem (cs_enc ses) enc_opts then
                          (* sendNegotiatingConfirmationSession *)
                          let s2 := {| ss_state := SNegotiating; ss_id := sc_sid conf; ss_to := None; ss_encopts := [];
                                       ss_compopts := []; ss_schemeopts := []; ss_enc := cs_enc ses;
                                       ss_comp := cs_comp ses; ss_round := None; ss_reason := false |} in
                          let (e2, ok2) := send_session c2 s2 in
                          if negb ok2 then (evs ++ e2, c2, Returned true, ins')
                          else
                            (* SetCompression when different *)
                            let comp_step :=
                              if String.eqb (ch_comp c2) (cs_comp ses) then ([], true)
                              else let okc := set_comp (sc_kind conf) (ch_comp c2) (cs_comp ses) in
                                   ([SetComp (cs_comp ses) okc], okc) in
                            if negb (snd comp_step) then (evs ++ e2 ++ fst comp_step, c2, Returned true, ins')
                            else if String.eqb (ch_enc c2) (cs_enc ses) then
                              (evs ++ e2 ++ fst comp_step, c2, Returned false, ins')
                            else
                              let (oke, enc') := set_enc (sc_kind conf) (sc_tls_ok conf) (ch_enc c2) (cs_enc ses) in
                              (evs ++ e2 ++ fst comp_step ++ [SetEnc (cs_enc ses) oke],
                               with_enc c2 enc', Returned (negb oke), ins')
                        else
                          let '(e2, c3, out) := fail_session conf c2 in (evs ++ e2, c3, out, ins')
                    end
           end
  end.

(* is a negotiation stage needed *)
Definition needs_negotiation (fx : sfix) (conf : sconf) (c : chan) (neg_comp neg_enc : list string) : bool :=
  Nat.ltb 1 (List.length neg_comp) || Nat.ltb 1 (List.length neg_enc) ||
  (fs_neg fx && negb (match neg_enc with [] => true | _ => false end) && negb (mem (ch_enc c) neg_enc)).

(* EstablishSession *)
Definition establish (fx : sfix) (conf : sconf) (o : oracle) (ins : list cin)
  : list ev * chan * outcome * list cin :=
  let c := chan0 conf in
  match receive c ins with
  | (RFail, c1, ins', tk) => (tk, c1, Returned true, ins')
  | (RWait, c1, ins', tk) => (tk, c1, Blocked, ins')
  | (RSes ses, c1, ins1, tk) =>
      let prepend (r : list ev * chan * outcome * list cin) : list ev * chan * outcome * list cin :=
        let '(evs, c2, out, ins') := r in (tk ++ evs, c2, out, ins') in
      prepend (
      if negb (String.eqb (cs_id ses) "") then
        let '(e, c2, out) := fail_session conf c1 in (e, c2, out, ins1)
      else
        let final (r : list ev * chan * outcome * list cin) : list ev * chan * outcome * list cin :=
          let '(evs, c2, out, ins') := r in
          match out with
          | Returned false =>
              if negb (state_eqb (ch_state c2) SEstablished) && negb (state_eqb (ch_state c2) SFailed) && ch_conn c2
              then let '(e2, c3, out2) := fail_session conf c2 in (evs ++ e2, c3, out2, ins')
              else (evs, c2, Returned false, ins')
          | _ => r
          end in
        if state_eqb (cs_state ses) SNew then
          let neg_comp := intersect (sc_comp conf) (supported_comp (sc_kind conf)) in
          let neg_enc := intersect (sc_enc conf) (supported_enc (sc_kind conf)) in
          let after_neg : list ev * chan * outcome * list cin :=
            if needs_negotiation fx conf c1 neg_comp neg_enc
            then negotiate_session conf c1 neg_comp neg_enc ins1
            else ([], c1, Returned false, ins1) in
          let '(e1, c2, out1, ins2) := after_neg in
          match out1 with
          | Returned false =>
              if state_eqb (ch_state c2) SFailed then final (e1, c2, Returned false, ins2)
              else
                let '(e2, c3, out2, ins3) := authenticate_session conf o c2 ins2 in
                final (e1 ++ e2, c3, out2, ins3)
          | _ => (e1, c2, out1, ins2)
          end
        else final ([], c1, Returned false, ins1))
  end.

(* Server.handleChannel around it, and the session's life after establishment
   as far as the handshake properties need it: data envelopes are dispatched;
   a session envelope or undecodable input ends the receiver, the listener
   returns and the deferred function finishes the session; EOF just ends it. *)
Fixpoint serve_established (fx : sfix) (conf : sconf) (c : chan) (ins : list cin) : list ev * chan * bool (* handler ended *) :=
  match ins with
  | [] => ([], c, false)
  | CData :: r => let '(e, c', b) := serve_established fx conf c r in (Took CData :: Dispatch :: e, c', b)
  | (CSes _ as i) :: _ | (CBad as i) :: _ =>
      let (e, c') := finish_session conf c in (Took i :: e ++ [FinCb], c', true)
  | CEof :: _ => (Took CEof :: (if fs_handle fx then [Closed] else []) ++ [FinCb], with_conn c false, true)
  end.

Record run_result := {
  rr_trace : list ev; rr_chan : chan; rr_outcome : outcome;
  rr_handler_ended : bool                      (* the goroutine serving the connection has returned *)
}.

Definition handle_channel (fx : sfix) (conf : sconf) (o : oracle) (ins : list cin) : run_result :=
  let '(evs, c, out, rest) := establish fx conf o ins in
  match out with
  | Blocked => {| rr_trace := evs; rr_chan := c; rr_outcome := out; rr_handler_ended := false |}
  | Panicked => {| rr_trace := evs; rr_chan := c; rr_outcome := out; rr_handler_ended := true |}
  | Returned true =>
      if fs_handle fx then
        (* repaired: the connection is released *)
        {| rr_trace := evs ++ [Closed]; rr_chan := with_conn c false;
           rr_outcome := out; rr_handler_ended := true |}
      else {| rr_trace := evs; rr_chan := c; rr_outcome := out; rr_handler_ended := true |}
  | Returned false =>
      if state_eqb (ch_state c) SEstablished then
        let '(e2, c2, ended) := serve_established fx conf c rest in
        {| rr_trace := evs ++ [EstCb] ++ e2; rr_chan := c2; rr_outcome := out; rr_handler_ended := ended |}
      else if fs_handle fx then
        {| rr_trace := evs; rr_chan := c; rr_outcome := out; rr_handler_ended := true |}
      else
        (* as found: nil after FailSession is taken for success *)
        {| rr_trace := evs ++ [EstCb; FinCb]; rr_chan := c; rr_outcome := out; rr_handler_ended := true |}
  end.
