(* The repaired server model (Hs/Server.v, s_repaired) is accepted by the
   handshake monitor (Hs/Monitor.v) on every configuration, every pair of
   callbacks and every client script, and never reaches the state-regression
   panic.  Hoare style: one lemma per function of the model. *)
From Coq Require Import List Bool Arith String.
Import ListNotations.
From Lime Require Import Hs.Types Hs.Server Hs.Monitor.
Open Scope string_scope.
Open Scope list_scope.

(* ---------- small facts ---------- *)

Lemma strs_eqb_refl l : strs_eqb l l = true.
Proof. induction l as [|x l IH]; cbn; [reflexivity|]. rewrite String.eqb_refl, IH. reflexivity. Qed.

Lemma opt_nat_eqb_refl a : opt_nat_eqb' a a = true.
Proof. destruct a; cbn; [apply Nat.eqb_refl|reflexivity]. Qed.

Lemma mem_intersect x a b : mem x (intersect a b) = true -> mem x a = true /\ mem x b = true.
Proof.
  unfold intersect, mem. induction a as [|y a IH]; cbn; [discriminate|].
  destruct (existsb (String.eqb y) b) eqn:E; cbn.
  - destruct (String.eqb x y) eqn:Exy; cbn.
    + apply String.eqb_eq in Exy. subst y. intros _. split; [reflexivity|exact E].
    + exact IH.
  - intros H. destruct (IH H) as [H1 H2]. rewrite H1, H2. rewrite orb_true_r. split; reflexivity.
Qed.

Lemma enc_ok_mem conf e : mem e (neg_enc conf) = true -> enc_ok conf e = true.
Proof.
  intros H. apply mem_intersect in H as [H _]. unfold enc_ok. rewrite H. destruct (c10_pre conf); reflexivity.
Qed.

Lemma set_enc_ok k t cur e enc' :
  mem e (supported_enc k) = true -> set_enc k t cur e = (true, enc') -> enc' = e.
Proof. intros _. apply set_enc_ok_is_requested. Qed.

Lemma no_neg_enc_ok conf c :
  needs_negotiation s_repaired conf c (neg_comp conf) (neg_enc conf) = false -> enc_ok conf (ch_enc c) = true.
Proof.
  unfold needs_negotiation. cbn [fs_neg s_repaired andb]. intros H.
  apply orb_false_elim in H as [_ H].
  destruct (neg_enc conf) as [|e0 el] eqn:E.
  - unfold enc_ok, c10_pre. fold (neg_enc conf). rewrite E. rewrite andb_false_r. reflexivity.
  - cbn [negb andb] in H. apply negb_false_iff in H. apply enc_ok_mem. rewrite E. exact H.
Qed.

(* ---------- running the monitor ---------- *)

Lemma mon_run_app conf o : forall a b m,
  mon_run conf o m (a ++ b) =
  match mon_run conf o m a with Some m' => mon_run conf o m' b | None => None end.
Proof.
  induction a as [|e a IH]; intros b m; cbn [app mon_run]; [reflexivity|].
  destruct (mon_step conf o m e); [apply IH|reflexivity].
Qed.

Lemma run_step conf o m e t m1 (P : mst -> Prop) :
  mon_step conf o m e = Some m1 ->
  (exists m', mon_run conf o m1 t = Some m' /\ P m') ->
  exists m', mon_run conf o m (e :: t) = Some m' /\ P m'.
Proof. intros H1 H2. cbn [mon_run]. rewrite H1. exact H2. Qed.

Lemma run_nil conf o m (P : mst -> Prop) : P m -> exists m', mon_run conf o m [] = Some m' /\ P m'.
Proof. intros H. exists m. split; [reflexivity|exact H]. Qed.

Lemma run_app conf o m a b (P Q : mst -> Prop) :
  (exists m1, mon_run conf o m a = Some m1 /\ P m1) ->
  (forall m1, P m1 -> exists m', mon_run conf o m1 b = Some m' /\ Q m') ->
  exists m', mon_run conf o m (a ++ b) = Some m' /\ Q m'.
Proof.
  intros (m1 & H1 & HP) H2. rewrite mon_run_app, H1. apply H2. exact HP.
Qed.

(* ---------- the invariant and the post-conditions ---------- *)

(* channel and monitor agree, nothing final has happened, the handshake is under way *)
Definition Live (c : chan) (m : mst) : Prop :=
  m_enc m = ch_enc c /\ m_closed m = false /\ m_dead m = false /\ m_est m = false /\
  m_abort m = false /\ m_estcb m = false /\ m_fincb m = false /\ ch_conn c = true.

Definition PostEst (c : chan) (m : mst) : Prop :=
  ch_state c = SEstablished /\ ch_conn c = true /\ m_enc m = ch_enc c /\ m_est m = true /\
  m_closed m = false /\ m_dead m = false /\ m_viol m = false /\ m_abort m = false /\
  m_estcb m = false /\ m_fincb m = false.

Definition PostFailed (c : chan) (m : mst) : Prop :=
  ch_state c = SFailed /\ m_dead m = true /\ m_closed m = true /\ m_viol m = false /\
  m_estcb m = false /\ m_fincb m = false.

Definition PostErr (m : mst) : Prop :=
  m_viol m = false /\ m_closed m = false /\ m_estcb m = false /\ m_fincb m = false.

Definition PostBlocked (m : mst) : Prop :=
  m_viol m = false /\ m_dead m = false /\ m_abort m = false /\ m_estcb m = false /\ m_fincb m = false.

Definition Post (c : chan) (out : outcome) (m : mst) : Prop :=
  match out with
  | Returned false => PostEst c m \/ PostFailed c m
  | Returned true => PostErr m
  | Blocked => PostBlocked m
  | Panicked => False
  end.

(* negotiateSession returned nil with the channel still negotiating *)
Definition NegDone (conf : sconf) (c : chan) (m : mst) : Prop :=
  ch_state c = SNegotiating /\ Live c m /\ m_viol m = false /\ m_round m = 0 /\
  enc_ok conf (ch_enc c) = true /\ (exists ses, m_in m = Some (CSes ses)) /\
  exists l, m_last m = Some l /\ ss_state l = SNegotiating /\ ss_encopts l = [] /\ ss_enc l = m_enc m.

Definition PostNeg (conf : sconf) (c : chan) (out : outcome) (m : mst) : Prop :=
  match out with
  | Returned false => PostFailed c m \/ NegDone conf c m
  | _ => Post c out m
  end.

(* ---------- tactics ---------- *)

Ltac msimp :=
  cbn [m_last m_in m_viol m_abort m_dead m_closed m_est m_round m_authd m_rt m_reg m_enc m_estcb m_fincb
       ss_state ss_id ss_to ss_encopts ss_compopts ss_schemeopts ss_enc ss_comp ss_round ss_reason
       ch_state ch_enc ch_comp ch_conn ch_remote
       with_state with_conn with_enc with_remote
       andb orb negb guard set fst snd app
       state_eqb step_of Nat.eqb Nat.ltb Nat.leb terminal Bool.eqb].

Tactic Notation "msimp" "in" hyp(H) :=
  cbn [m_last m_in m_viol m_abort m_dead m_closed m_est m_round m_authd m_rt m_reg m_enc m_estcb m_fincb
       ss_state ss_id ss_to ss_encopts ss_compopts ss_schemeopts ss_enc ss_comp ss_round ss_reason
       ch_state ch_enc ch_comp ch_conn ch_remote
       with_state with_conn with_enc with_remote
       andb orb negb guard set fst snd app
       state_eqb step_of Nat.eqb Nat.ltb Nat.leb terminal Bool.eqb] in H.

Ltac mrw := rewrite ?String.eqb_refl, ?Nat.eqb_refl, ?strs_eqb_refl, ?opt_nat_eqb_refl.

(* one monitor step; [tac] finishes the evaluation of the guard *)
Ltac mstep_with tac :=
  eapply run_step; [ unfold mon_step; msimp; mrw; msimp; tac; msimp; reflexivity | msimp ].
Ltac mstep := mstep_with idtac.

Ltac live_destruct HL c m :=
  destruct c as [st enc comp conn rem];
  destruct m as [last inp viol abort dead closed est rnd authd rt reg menc estcb fincb];
  unfold Live in HL; msimp in HL;
  destruct HL as (?&?&?&?&?&?&?&?); subst.

Ltac post := msimp; repeat split; try reflexivity; try assumption.

(* ---------- FailSession ---------- *)

Lemma fail_session_ok conf o c m :
  Live c m -> terminal (ch_state c) = false ->
  forall evs c' out, fail_session conf c = (evs, c', out) ->
  exists m', mon_run conf o m evs = Some m' /\ out = Returned false /\ PostFailed c' m'.
Proof.
  intros HL HT evs c' out H.
  live_destruct HL c m. msimp in HT.
  unfold fail_session, send_session, set_state in H. msimp in H. rewrite HT in H.
  assert (A : Nat.leb (S (step_of SFailed)) (step_of st) = false) by (destruct st; reflexivity).
  msimp in A. rewrite A in H. msimp in H.
  inversion H; subst; clear H.
  destruct viol.
  - mstep. mstep. apply run_nil. split; [reflexivity|]. unfold PostFailed. post.
  - mstep. mstep. apply run_nil. split; [reflexivity|]. unfold PostFailed. post.
Qed.

(* ---------- the authentication loop ---------- *)

Lemma violates_auth_false conf l ses :
  ss_state l = SAuthenticating ->
  state_eqb (cs_state ses) SAuthenticating = true ->
  String.eqb (cs_id ses) (sc_sid conf) = true ->
  mem (cs_scheme ses) (sc_schemes conf) = true ->
  violates conf (Some l) ses = false.
Proof.
  intros Hl E1 E2 E3. unfold violates, is_offer, is_auth. rewrite Hl, E1, E2, E3. reflexivity.
Qed.

Lemma is_auth_true l : ss_state l = SAuthenticating -> is_auth l = true.
Proof. intros H. unfold is_auth. rewrite H. reflexivity. Qed.

(* the unfolding equation of the fixpoint *)
Lemma auth_loop_eq conf o c ses round ins :
  auth_loop conf o c ses round ins =
  if negb (state_eqb (cs_state ses) SAuthenticating) then (fail_session conf c, ins)
  else if negb (String.eqb (cs_id ses) (sc_sid conf)) then (fail_session conf c, ins)
  else if negb (mem (cs_scheme ses) (sc_schemes conf)) then (fail_session conf c, ins)
  else
    let call := AuthCall (cs_from ses) (presented_scheme ses) (cs_cred ses) (ch_enc c) in
    match o_auth o (cs_from ses) (presented_scheme ses) (cs_cred ses) round with
    | AErr => ([call], c, Returned true, ins)
    | ARole =>
        let reg := RegCall (cs_from ses) (ch_enc c) in
        match o_reg o (cs_from ses) with
        | RegErr => ([call; reg], c, Returned true, ins)
        | RNode n =>
            if negb (ch_conn c) then ([call; reg], c, Returned true, ins)
            else match set_state c SEstablished with
                 | None => ([call; reg], c, Panicked, ins)
                 | Some c1 =>
                     let c2 := with_remote c1 n in
                     let s := {| ss_state := SEstablished; ss_id := sc_sid conf; ss_to := Some n; ss_encopts := [];
                                 ss_compopts := []; ss_schemeopts := []; ss_enc := ""; ss_comp := "";
                                 ss_round := None; ss_reason := false |} in
                     let (evs, ok) := send_session c2 s in
                     ([call; reg] ++ evs, c2, Returned (negb ok), ins)
                 end
        end
    | ARound data =>
        if negb (ch_conn c && state_eqb (ch_state c) SAuthenticating) then ([call], c, Returned true, ins)
        else
          let s := {| ss_state := SAuthenticating; ss_id := sc_sid conf; ss_to := None; ss_encopts := [];
                      ss_compopts := []; ss_schemeopts := []; ss_enc := ""; ss_comp := "";
                      ss_round := Some data; ss_reason := false |} in
          let (evs, ok) := send_session c s in
          if negb ok then ([call] ++ evs, c, Returned true, ins)
          else match ins with
               | [] => ([call] ++ evs, c, Blocked, [])
               | i :: rest =>
                   match receive c (i :: rest) with
                   | (RSes ses', c', _, tk) =>
                       let '(evs', c'', out, ins') := auth_loop conf o c' ses' (S round) rest in
                       ([call] ++ evs ++ tk ++ evs', c'', out, ins')
                   | (RFail, c', ins', tk) => ([call] ++ evs ++ tk, c', Returned true, ins')
                   | (RWait, c', ins', tk) => ([call] ++ evs ++ tk, c', Blocked, ins')
                   end
               end
    | AUnknown =>
        let '(evs, c', out) := fail_session conf c in ([call] ++ evs, c', out, ins)
    end.
Proof. destruct ins; reflexivity. Qed.

Definition auth_spec (conf : sconf) (o : oracle) (ins : list cin) : Prop :=
  forall c ses round m l,
  Live c m -> ch_state c = SAuthenticating ->
  m_last m = Some l -> ss_state l = SAuthenticating -> m_in m = Some (CSes ses) ->
  m_viol m = violates conf (Some l) ses -> m_round m = round ->
  enc_ok conf (ch_enc c) = true ->
  forall evs c' out ins', auth_loop conf o c ses round ins = (evs, c', out, ins') ->
  exists m', mon_run conf o m evs = Some m' /\ Post c' out m'.

Lemma auth_step conf o ins :
  (forall i rest, ins = i :: rest -> auth_spec conf o rest) -> auth_spec conf o ins.
Proof.
  intros IH c ses round m l HL Hst Hlast Hl Hin Hviol Hround Hok evs c' out ins' H.
  rewrite auth_loop_eq in H.
  assert (HT : terminal (ch_state c) = false) by (rewrite Hst; reflexivity).
  destruct (state_eqb (cs_state ses) SAuthenticating) eqn:E1; cbn [negb] in H.
  2: { injection H as H ?; subst.
       destruct (fail_session_ok conf o c m HL HT _ _ _ H) as (m' & R & -> & P).
       exists m'. split; [exact R|right; exact P]. }
  destruct (String.eqb (cs_id ses) (sc_sid conf)) eqn:E2; cbn [negb] in H.
  2: { injection H as H ?; subst.
       destruct (fail_session_ok conf o c m HL HT _ _ _ H) as (m' & R & -> & P).
       exists m'. split; [exact R|right; exact P]. }
  destruct (mem (cs_scheme ses) (sc_schemes conf)) eqn:E3; cbn [negb] in H.
  2: { injection H as H ?; subst.
       destruct (fail_session_ok conf o c m HL HT _ _ _ H) as (m' & R & -> & P).
       exists m'. split; [exact R|right; exact P]. }
  rewrite (violates_auth_false conf l ses Hl E1 E2 E3) in Hviol.
  pose proof (is_auth_true l Hl) as Hauth.
  clear HT. subst round.
  live_destruct HL c m. msimp in Hst. msimp in Hlast. msimp in Hin. msimp in Hviol. msimp in Hok. subst.
  cbv zeta in H. msimp in H.
  destruct (o_auth o (cs_from ses) (presented_scheme ses) (cs_cred ses) rnd) eqn:EA.
  - (* ARole *)
    destruct (o_reg o (cs_from ses)) as [n|] eqn:ER.
    + unfold set_state, send_session in H. msimp in H. inversion H; subst; clear H.
      mstep_with ltac:(rewrite Hauth, E3, Hok).
      rewrite EA. mstep_with ltac:(rewrite ER).
      mstep_with ltac:(rewrite Hauth, Hok).
      apply run_nil. left. unfold PostEst. post.
    + inversion H; subst; clear H.
      mstep_with ltac:(rewrite Hauth, E3, Hok).
      rewrite EA. mstep_with ltac:(rewrite ER).
      apply run_nil. unfold Post, PostErr. post.
  - (* AUnknown *)
    destruct (fail_session conf {| ch_state := SAuthenticating; ch_enc := enc; ch_comp := comp; ch_conn := true; ch_remote := rem |})
      as [[e2 c2] out2] eqn:F.
    inversion H; subst; clear H.
    mstep_with ltac:(rewrite Hauth, E3, Hok).
    match type of F with fail_session _ ?c1 = _ =>
    match goal with |- exists m', mon_run _ _ ?m1 _ = _ /\ _ =>
      destruct (fail_session_ok conf o c1 m1 ltac:(unfold Live; post) eq_refl _ _ _ F) as (m' & R & -> & P) end end.
    exists m'. split; [exact R|right; exact P].
  - (* ARound *)
    unfold send_session in H. msimp in H.
    destruct ins as [|i rest].
    + inversion H; subst; clear H.
      mstep_with ltac:(rewrite Hauth, E3, Hok).
      rewrite EA. mstep_with ltac:(rewrite Hauth).
      apply run_nil. unfold Post, PostBlocked. post.
    + unfold receive in H. msimp in H.
      destruct i as [ses'| | |].
      * destruct (auth_loop conf o {| ch_state := SAuthenticating; ch_enc := enc; ch_comp := comp; ch_conn := true; ch_remote := rem |}
                    ses' (S rnd) rest) as [[[evs' c''] out'] ins''] eqn:R.
        inversion H; subst; clear H.
        mstep_with ltac:(rewrite Hauth, E3, Hok).
        rewrite EA. mstep_with ltac:(rewrite Hauth).
        mstep.
        eapply (IH _ _ eq_refl); [ | | | | | | | | exact R]; try reflexivity.
        -- unfold Live; post.
        -- exact Hok.
      * inversion H; subst; clear H.
        mstep_with ltac:(rewrite Hauth, E3, Hok).
        rewrite EA. mstep_with ltac:(rewrite Hauth).
        mstep. apply run_nil. unfold Post, PostErr. post.
      * inversion H; subst; clear H.
        mstep_with ltac:(rewrite Hauth, E3, Hok).
        rewrite EA. mstep_with ltac:(rewrite Hauth).
        mstep. apply run_nil. unfold Post, PostErr. post.
      * inversion H; subst; clear H.
        mstep_with ltac:(rewrite Hauth, E3, Hok).
        rewrite EA. mstep_with ltac:(rewrite Hauth).
        mstep. apply run_nil. unfold Post, PostErr. post.
  - (* AErr *)
    inversion H; subst; clear H.
    mstep_with ltac:(rewrite Hauth, E3, Hok).
    apply run_nil. unfold Post, PostErr. post.
Qed.

Lemma auth_loop_ok conf o ins : auth_spec conf o ins.
Proof.
  induction ins as [|i rest IH]; apply auth_step.
  - intros i rest E. discriminate.
  - intros i' rest' E. injection E as _ <-. exact IH.
Qed.

(* ---------- authenticateSession ---------- *)

(* the monitor's condition on the moment of the authentication request *)
Definition auth_ready (m : mst) : bool :=
  match m_last m with
  | None => match m_in m with Some (CSes _) => true | _ => false end
  | Some l => is_confirm l && String.eqb (ss_enc l) (m_enc m)
  end.

Lemma authenticate_ok conf o c m ins :
  Live c m -> (ch_state c = SNew \/ ch_state c = SNegotiating) ->
  m_viol m = false -> m_round m = 0 -> enc_ok conf (ch_enc c) = true ->
  auth_ready m = true ->
  forall evs c' out ins', authenticate_session conf o c ins = (evs, c', out, ins') ->
  exists m', mon_run conf o m evs = Some m' /\ Post c' out m'.
Proof.
  intros HL Hst Hviol Hround Hok Hready evs c' out ins' H.
  unfold authenticate_session in H.
  destruct (sc_schemes conf) as [|s0 sl] eqn:ES.
  - inversion H; subst; clear H. apply run_nil. unfold Post, PostErr.
    destruct HL as (?&?&?&?&?&?&?&?). post.
  - live_destruct HL c m. msimp in Hst. msimp in Hviol. msimp in Hround. msimp in Hok.
    unfold auth_ready in Hready. msimp in Hready. subst.
    assert (A1 : state_eqb st SNew || state_eqb st SNegotiating = true) by (destruct Hst; subst; reflexivity).
    assert (A2 : Nat.leb (S (step_of SAuthenticating)) (step_of st) = false) by (destruct Hst; subst; reflexivity).
    msimp in A1. msimp in A2.
    unfold set_state, send_session in H. msimp in H. rewrite A1, A2 in H. msimp in H.
    unfold receive in H. msimp in H.
    destruct ins as [|[ses| | |] r].
    + inversion H; subst; clear H.
      mstep_with ltac:(rewrite Hready, <- ES, strs_eqb_refl, Hok).
      apply run_nil. unfold Post, PostBlocked. post.
    + match type of H with context [auth_loop conf o ?c1 ses 0 r] =>
        destruct (auth_loop conf o c1 ses 0 r) as [[[evs' c3] out'] ins''] eqn:R end.
      inversion H; subst; clear H.
      mstep_with ltac:(rewrite Hready, <- ES, strs_eqb_refl, Hok).
      mstep.
      eapply (auth_loop_ok conf o r); [ | | | | | | | | exact R]; try reflexivity.
      * unfold Live; post.
      * exact Hok.
    + inversion H; subst; clear H.
      mstep_with ltac:(rewrite Hready, <- ES, strs_eqb_refl, Hok).
      mstep. apply run_nil. unfold Post, PostErr. post.
    + inversion H; subst; clear H.
      mstep_with ltac:(rewrite Hready, <- ES, strs_eqb_refl, Hok).
      mstep. apply run_nil. unfold Post, PostErr. post.
    + inversion H; subst; clear H.
      mstep_with ltac:(rewrite Hready, <- ES, strs_eqb_refl, Hok).
      mstep. apply run_nil. unfold Post, PostErr. post.
Qed.

(* ---------- negotiateSession ---------- *)

Lemma violates_offer_false conf s ses :
  is_offer s = true ->
  state_eqb (cs_state ses) SNegotiating = true ->
  String.eqb (cs_id ses) (sc_sid conf) = true ->
  negb (String.eqb (cs_enc ses) "") = true ->
  negb (String.eqb (cs_comp ses) "") = true ->
  mem (cs_enc ses) (ss_encopts s) = true ->
  mem (cs_comp ses) (ss_compopts s) = true ->
  violates conf (Some s) ses = false.
Proof.
  intros H0 H1 H2 H3 H4 H5 H6. unfold violates. rewrite H0, H1, H2, H3, H4, H5, H6. reflexivity.
Qed.

Lemma run_app_same conf o m a b (P : mst -> Prop) :
  mon_run conf o m a = Some m ->
  (exists m', mon_run conf o m b = Some m' /\ P m') ->
  exists m', mon_run conf o m (a ++ b) = Some m' /\ P m'.
Proof. intros H1 H2. rewrite mon_run_app, H1. exact H2. Qed.

Lemma negotiate_ok conf o c m ins ses0 co eo :
  co = neg_comp conf -> eo = neg_enc conf ->
  Live c m -> ch_state c = SNew -> m_viol m = false -> m_round m = 0 ->
  m_last m = None -> m_in m = Some (CSes ses0) ->
  forall evs c' out ins', negotiate_session conf c co eo ins = (evs, c', out, ins') ->
  exists m', mon_run conf o m evs = Some m' /\ PostNeg conf c' out m'.
Proof.
  intros Hco Heo HL Hst Hviol Hround Hlast Hin evs c' out ins' H.
  unfold negotiate_session in H.
  destruct co as [|c0 cl].
  { inversion H; subst; clear H. apply run_nil. unfold PostNeg, Post, PostErr.
    destruct HL as (?&?&?&?&?&?&?&?). post. }
  destruct eo as [|e0 el].
  { inversion H; subst; clear H. apply run_nil. unfold PostNeg, Post, PostErr.
    destruct HL as (?&?&?&?&?&?&?&?). post. }
  live_destruct HL c m. msimp in Hst. msimp in Hviol. msimp in Hround. msimp in Hlast. msimp in Hin. subst.
  unfold set_state, send_session in H. msimp in H.
  unfold receive in H. msimp in H.
  destruct ins as [|[ses| | |] r]; msimp in H.
  - inversion H; subst; clear H.
    mstep_with ltac:(unfold is_offer; msimp; rewrite <- Hco, <- Heo, !strs_eqb_refl).
    apply run_nil. unfold PostNeg, Post, PostBlocked. post.
  - unfold send_session in H. msimp in H.
    destruct (String.eqb (cs_id ses) (sc_sid conf)) eqn:E2; cbn [negb] in H.
    2: { match type of H with context [fail_session conf ?c1] =>
           destruct (fail_session conf c1) as [[e2 c3] out2] eqn:F end.
         inversion H; subst; clear H.
         mstep_with ltac:(unfold is_offer; msimp; rewrite <- Hco, <- Heo, !strs_eqb_refl).
         mstep.
         match type of F with fail_session _ ?c1 = _ =>
         match goal with |- exists m', mon_run _ _ ?m1 _ = _ /\ _ =>
           destruct (fail_session_ok conf o c1 m1 ltac:(unfold Live; post) eq_refl _ _ _ F) as (m' & R & -> & P) end end.
         exists m'. split; [exact R|left; exact P]. }
    match type of H with (if ?b then _ else _) = _ => destruct b eqn:EC end.
    2: { match type of H with context [fail_session conf ?c1] =>
           destruct (fail_session conf c1) as [[e2 c3] out2] eqn:F end.
         inversion H; subst; clear H.
         mstep_with ltac:(unfold is_offer; msimp; rewrite <- Hco, <- Heo, !strs_eqb_refl).
         mstep.
         match type of F with fail_session _ ?c1 = _ =>
         match goal with |- exists m', mon_run _ _ ?m1 _ = _ /\ _ =>
           destruct (fail_session_ok conf o c1 m1 ltac:(unfold Live; post) eq_refl _ _ _ F) as (m' & R & -> & P) end end.
         exists m'. split; [exact R|left; exact P]. }
    apply andb_true_iff in EC as [EC E6]. apply andb_true_iff in EC as [EC E5].
    apply andb_true_iff in EC as [EC E4]. apply andb_true_iff in EC as [E1 E3].
    match type of H with context [Sent ?s enc :: Took _ :: _] =>
      assert (Hv : violates conf (Some s) ses = false)
        by (apply violates_offer_false; try assumption; reflexivity) end.
    remember (if String.eqb comp (cs_comp ses) then ([], true)
              else ([SetComp (cs_comp ses) (set_comp (sc_kind conf) comp (cs_comp ses))],
                    set_comp (sc_kind conf) comp (cs_comp ses))) as cstep eqn:Hcs.
    destruct cstep as [cev cok]. msimp in H.
    assert (Hcev : forall m1, (exists l, m_last m1 = Some l /\ ss_state l = SNegotiating /\ ss_encopts l = [] /\
                                  ss_comp l = cs_comp ses) ->
                   mon_run conf o m1 cev = Some m1).
    { intros m1 (l & L1 & L2 & L3 & L4).
      destruct (String.eqb comp (cs_comp ses)); inversion Hcs; subst; [reflexivity|].
      cbn [mon_run]. unfold mon_step. rewrite L1. unfold is_confirm. rewrite L2, L3, L4, String.eqb_refl. reflexivity. }
    assert (Hmem : mem (cs_enc ses) (neg_enc conf) = true) by (rewrite <- Heo; exact E6).
    destruct cok; msimp in H.
    2: { inversion H; subst; clear H.
         mstep_with ltac:(unfold is_offer; msimp; rewrite <- Hco, <- Heo, !strs_eqb_refl).
         mstep. rewrite Hv.
         mstep_with ltac:(unfold is_offer; msimp; mrw; rewrite E6, E5).
         rewrite <- (app_nil_r cev). apply run_app_same.
         { apply Hcev. eexists. msimp. repeat split. }
         apply run_nil. unfold PostNeg, Post, PostErr. post. }
    destruct (String.eqb enc (cs_enc ses)) eqn:EE.
    + apply String.eqb_eq in EE. inversion H; subst; clear H.
      mstep_with ltac:(unfold is_offer; msimp; rewrite <- Hco, <- Heo, !strs_eqb_refl).
      mstep. rewrite Hv.
      mstep_with ltac:(unfold is_offer; msimp; mrw; rewrite E6, E5).
      rewrite <- (app_nil_r cev). apply run_app_same.
      { apply Hcev. eexists. msimp. repeat split. }
      apply run_nil. unfold PostNeg. right. unfold NegDone. msimp.
      split; [reflexivity|]. split; [unfold Live; post|]. split; [reflexivity|]. split; [reflexivity|].
      split; [apply enc_ok_mem; exact Hmem|]. split; [eexists; reflexivity|].
      eexists. split; [reflexivity|]. msimp. repeat split.
    + destruct (set_enc (sc_kind conf) (sc_tls_ok conf) enc (cs_enc ses)) as [oke enc'] eqn:SE.
      inversion H; subst; clear H.
      mstep_with ltac:(unfold is_offer; msimp; rewrite <- Hco, <- Heo, !strs_eqb_refl).
      mstep. rewrite Hv.
      mstep_with ltac:(unfold is_offer; msimp; mrw; rewrite E6, E5).
      apply run_app_same.
      { apply Hcev. eexists. msimp. repeat split. }
      mstep_with ltac:(unfold is_confirm; msimp; mrw; msimp; rewrite SE; msimp; rewrite Bool.eqb_reflx).
      apply run_nil. unfold PostNeg. destruct oke; cbn [negb].
      * right.
        assert (enc' = cs_enc ses).
        { apply (set_enc_ok _ _ _ _ _ (proj2 (mem_intersect _ _ _ Hmem)) SE). }
        subst enc'.
        unfold NegDone. msimp.
        split; [reflexivity|]. split; [unfold Live; post|]. split; [reflexivity|]. split; [reflexivity|].
        split; [apply enc_ok_mem; exact Hmem|]. split; [eexists; reflexivity|].
        eexists. split; [reflexivity|]. msimp. repeat split.
      * unfold Post, PostErr. post.
  - inversion H; subst; clear H.
    mstep_with ltac:(unfold is_offer; msimp; rewrite <- Hco, <- Heo, !strs_eqb_refl).
    mstep. apply run_nil. unfold PostNeg, Post, PostErr. post.
  - inversion H; subst; clear H.
    mstep_with ltac:(unfold is_offer; msimp; rewrite <- Hco, <- Heo, !strs_eqb_refl).
    mstep. apply run_nil. unfold PostNeg, Post, PostErr. post.
  - inversion H; subst; clear H.
    mstep_with ltac:(unfold is_offer; msimp; rewrite <- Hco, <- Heo, !strs_eqb_refl).
    mstep. apply run_nil. unfold PostNeg, Post, PostErr. post.
Qed.

(* ---------- EstablishSession ---------- *)

Lemma run_app2 conf o m a b m1 m2 :
  mon_run conf o m a = Some m1 -> mon_run conf o m1 b = Some m2 -> mon_run conf o m (a ++ b) = Some m2.
Proof. intros H1 H2. rewrite mon_run_app, H1. exact H2. Qed.

Lemma establish_ok conf o ins evs c' out ins' :
  establish s_repaired conf o ins = (evs, c', out, ins') ->
  exists m', mon_run conf o (m0 conf) evs = Some m' /\ Post c' out m'.
Proof.
  intros H. unfold establish, chan0, receive in H. msimp in H. unfold m0.
  destruct ins as [|[ses| | |] r]; msimp in H.
  - inversion H; subst; clear H. apply run_nil. unfold Post, PostBlocked. post.
  - match type of H with context [if negb (String.eqb (cs_id ses) "") then ?A else ?B] =>
      remember (if negb (String.eqb (cs_id ses) "") then A else B) as X eqn:HX end.
    destruct X as [[[e cc] oo] ii]. symmetry in HX.
    inversion H; subst; clear H.
    mstep.
    destruct (String.eqb (cs_id ses) "") eqn:Eid; cbn [negb] in HX.
    2: { match type of HX with context [fail_session conf ?c1] =>
           destruct (fail_session conf c1) as [[e2 c3] out2] eqn:F end.
         inversion HX; subst; clear HX.
         match type of F with fail_session _ ?c1 = _ =>
         match goal with |- exists m', mon_run _ _ ?m1 _ = _ /\ _ =>
           destruct (fail_session_ok conf o c1 m1 ltac:(unfold Live; post) eq_refl _ _ _ F) as (m' & R & -> & P) end end.
         exists m'. split; [exact R|right; exact P]. }
    destruct (state_eqb (cs_state ses) SNew) eqn:Est.
    2: { match type of HX with context [fail_session conf ?c1] =>
           destruct (fail_session conf c1) as [[e2 c3] out2] eqn:F end.
         inversion HX; subst; clear HX.
         match type of F with fail_session _ ?c1 = _ =>
         match goal with |- exists m', mon_run _ _ ?m1 _ = _ /\ _ =>
           destruct (fail_session_ok conf o c1 m1 ltac:(unfold Live; post) eq_refl _ _ _ F) as (m' & R & -> & P) end end.
         exists m'. split; [exact R|right; exact P]. }
    assert (Hv : violates conf None ses = false) by (unfold violates; rewrite Est, Eid; reflexivity).
    rewrite Hv.
    fold (neg_comp conf) (neg_enc conf) in HX.
    match goal with |- exists m', mon_run _ _ ?m _ = _ /\ _ => set (m1 := m) end.
    match type of HX with context [needs_negotiation _ _ ?c _ _] => set (c1 := c) in * end.
    assert (HL1 : Live c1 m1) by (unfold Live, c1, m1; post).
    destruct (needs_negotiation s_repaired conf c1 (neg_comp conf) (neg_enc conf)) eqn:N.
    + destruct (negotiate_session conf c1 (neg_comp conf) (neg_enc conf) r) as [[[e1 c2] out1] ins2] eqn:Ng.
      destruct (negotiate_ok conf o c1 m1 r ses _ _ eq_refl eq_refl HL1 eq_refl eq_refl eq_refl eq_refl eq_refl
                  _ _ _ _ Ng) as (m2 & R2 & P2).
      destruct out1 as [[|]| |].
      * inversion HX; subst; clear HX. exists m2. split; [exact R2|exact P2].
      * destruct P2 as [PF|ND].
        -- pose proof (proj1 PF) as HS. rewrite HS in HX. msimp in HX.
           inversion HX; subst; clear HX. exists m2. split; [exact R2|right; exact PF].
        -- destruct ND as (HS & HL2 & Hv2 & Hr2 & Hok2 & (ses2 & Hin2) & (l & Hl1 & Hl2 & Hl3 & Hl4)).
           rewrite HS in HX. msimp in HX.
           destruct (authenticate_session conf o c2 ins2) as [[[e2 c3] out2] ins3] eqn:Au.
           assert (Hready : auth_ready m2 = true).
           { unfold auth_ready, is_confirm. rewrite Hl1, Hl2, Hl3, Hl4, String.eqb_refl. reflexivity. }
           destruct (authenticate_ok conf o c2 m2 ins2 HL2 (or_intror HS) Hv2 Hr2 Hok2 Hready _ _ _ _ Au)
             as (m3 & R3 & P3).
           destruct out2 as [[|]| |].
           ++ inversion HX; subst; clear HX. exists m3. split; [exact (run_app2 _ _ _ _ _ _ _ R2 R3)|exact P3].
           ++ destruct P3 as [PE|PF].
              ** pose proof (proj1 PE) as HS3. rewrite HS3 in HX. msimp in HX.
                 inversion HX; subst; clear HX.
                 exists m3. split; [exact (run_app2 _ _ _ _ _ _ _ R2 R3)|left; exact PE].
              ** pose proof (proj1 PF) as HS3. rewrite HS3 in HX. msimp in HX.
                 inversion HX; subst; clear HX.
                 exists m3. split; [exact (run_app2 _ _ _ _ _ _ _ R2 R3)|right; exact PF].
           ++ inversion HX; subst; clear HX. exists m3. split; [exact (run_app2 _ _ _ _ _ _ _ R2 R3)|exact P3].
           ++ destruct P3.
      * inversion HX; subst; clear HX. exists m2. split; [exact R2|exact P2].
      * destruct P2.
    + pose proof (no_neg_enc_ok conf c1 N) as Hok1.
      unfold c1 in HX at 1. msimp in HX. fold c1 in HX.
      destruct (authenticate_session conf o c1 r) as [[[e2 c3] out2] ins3] eqn:Au.
      destruct (authenticate_ok conf o c1 m1 r HL1 (or_introl eq_refl) eq_refl eq_refl Hok1 eq_refl _ _ _ _ Au)
        as (m3 & R3 & P3).
      destruct out2 as [[|]| |].
      * inversion HX; subst; clear HX. exists m3. split; [exact R3|exact P3].
      * destruct P3 as [PE|PF].
        -- pose proof (proj1 PE) as HS3. rewrite HS3 in HX. msimp in HX.
           inversion HX; subst; clear HX.
           exists m3. split; [exact R3|left; exact PE].
        -- pose proof (proj1 PF) as HS3. rewrite HS3 in HX. msimp in HX.
           inversion HX; subst; clear HX.
           exists m3. split; [exact R3|right; exact PF].
      * inversion HX; subst; clear HX. exists m3. split; [exact R3|exact P3].
      * destruct P3.
  - inversion H; subst; clear H. mstep. apply run_nil. unfold Post, PostErr. post.
  - inversion H; subst; clear H. mstep. apply run_nil. unfold Post, PostErr. post.
  - inversion H; subst; clear H. mstep. apply run_nil. unfold Post, PostErr. post.
Qed.

(* ---------- the established session ---------- *)

Definition Serving (c : chan) (m : mst) : Prop :=
  ch_state c = SEstablished /\ ch_conn c = true /\ m_enc m = ch_enc c /\ m_est m = true /\
  m_closed m = false /\ m_dead m = false /\ m_viol m = false /\ m_abort m = false /\
  m_estcb m = true /\ m_fincb m = false.

Lemma serve_ok conf o : forall ins c m,
  Serving c m ->
  forall e c' b, serve_established s_repaired conf c ins = (e, c', b) ->
  exists m', mon_run conf o m e = Some m' /\ mon_final b m' = true.
Proof.
  induction ins as [|i r IH]; intros c m HS e c' b H.
  - cbn [serve_established] in H. inversion H; subst; clear H. apply run_nil.
    destruct HS as (?&?&?&?&?&?&?&?&?&?). unfold mon_final.
    repeat match goal with Hx : _ = _ |- _ => rewrite Hx; clear Hx end. reflexivity.
  - destruct c as [st enc comp conn rem].
    destruct m as [last inp viol abort dead closed est rnd authd rt reg menc estcb fincb].
    unfold Serving in HS. msimp in HS. destruct HS as (?&?&?&?&?&?&?&?&?&?). subst.
    destruct i as [ses| | |]; cbn [serve_established] in H.
    + unfold finish_session in H. msimp in H. inversion H; subst; clear H.
      mstep. mstep. mstep. mstep. apply run_nil. reflexivity.
    + match type of H with context [serve_established _ _ ?c1 r] =>
        destruct (serve_established s_repaired conf c1 r) as [[e1 c1'] b1] eqn:R end.
      inversion H; subst; clear H.
      mstep. mstep.
      eapply IH; [|exact R]. unfold Serving. post.
    + unfold finish_session in H. msimp in H. inversion H; subst; clear H.
      mstep. mstep. mstep. mstep. apply run_nil. reflexivity.
    + cbn [fs_handle s_repaired] in H. msimp in H. inversion H; subst; clear H.
      mstep. mstep. mstep. apply run_nil. reflexivity.
Qed.

(* ---------- Server.handleChannel ---------- *)

Theorem server_accepts : forall (conf : sconf) (o : oracle) (ins : list cin),
  let r := handle_channel s_repaired conf o ins in
  accepts conf o (rr_trace r) (rr_handler_ended r) = true /\ rr_outcome r <> Panicked.
Proof.
  intros conf o ins r. subst r. unfold handle_channel, accepts.
  destruct (establish s_repaired conf o ins) as [[[evs c] out] rest] eqn:E.
  destruct (establish_ok conf o ins _ _ _ _ E) as (m1 & R1 & P1).
  destruct out as [[|]| |].
  - (* an error: the connection is released *)
    cbn [fs_handle s_repaired rr_trace rr_handler_ended rr_outcome].
    split; [|discriminate].
    rewrite mon_run_app, R1. destruct P1 as (Hv & Hc & He & Hf).
    cbn [mon_run]. unfold mon_step. rewrite Hc. cbn [negb guard].
    unfold mon_final, set. msimp. rewrite Hv, He, Hf. cbn [negb andb].
    destruct (m_dead m1), (m_abort m1); reflexivity.
  - destruct P1 as [PE|PF].
    + destruct PE as (HS & Hconn & Henc & Hest & Hcl & Hd & Hv & Hab & Hecb & Hfcb).
      rewrite HS. msimp.
      destruct (serve_established s_repaired conf c rest) as [[e2 c2] ended] eqn:S.
      cbn [rr_trace rr_handler_ended rr_outcome].
      split; [|discriminate].
      rewrite mon_run_app, R1. cbn [app mon_run]. unfold mon_step at 1.
      rewrite Hest, Hecb, Hd. cbn [negb andb guard].
      match goal with |- match mon_run _ _ ?m2 _ with _ => _ end = _ =>
        destruct (serve_ok conf o rest c m2 ltac:(unfold Serving; post) _ _ _ S) as (m3 & R3 & F3) end.
      rewrite R3. exact F3.
    + destruct PF as (HS & Hd & Hc & Hv & He & Hf).
      rewrite HS. msimp. cbn [fs_handle s_repaired rr_trace rr_handler_ended rr_outcome].
      split; [|discriminate].
      rewrite R1. unfold mon_final. rewrite Hv, Hd, Hc, He, Hf. cbn [negb andb].
      destruct (m_abort m1); reflexivity.
  - cbn [rr_trace rr_handler_ended rr_outcome]. split; [|discriminate].
    rewrite R1. destruct P1 as (Hv & Hd & Ha & He & Hf).
    unfold mon_final. rewrite Hv, Hd, Ha, He, Hf. reflexivity.
  - destruct P1.
Qed.

Print Assumptions server_accepts.
