(* The composed handshake (Hs/Interop.v) for configurations that come from the builders (Models J and K): what the
   calls a user writes lead to, at both ends. *)
From Coq Require Import List Bool Arith String Lia.
Import ListNotations.
From Lime Require Import Hs.Types Hs.Server Hs.Client Hs.Builder Hs.ClientBuilder Hs.Interop Hs.InteropFacts.
Open Scope string_scope.
Open Scope list_scope.

(* the configuration a built client runs with, presenting identity [id] *)
Definition built_client (ops : list kop) (k : tkind) (tls_ok : bool) (id : nat) : cconf :=
  let d := conf_of (built_desc ops k tls_ok) in
  {| cc_comp_sel := cc_comp_sel d; cc_enc_sel := cc_enc_sel d; cc_auth := cc_auth d; cc_identity := id;
     cc_kind := cc_kind d; cc_tls_ok := cc_tls_ok d |}.
Definition built_server_conf (ops : list bop) (k : tkind) (tls_ok : bool) : sconf := builder_conf (brun ops) k tls_ok.
Definition built_server_oracle (fs : authfns) (ops : list bop) (reg : nat -> Server.rres) : oracle :=
  builder_oracle fs (brun ops) reg.

Section Recipes.
Variables (wire : bool) (snode : nat) (fs : authfns) (reg : nat -> Server.rres) (id n : nat).
Hypothesis Hreg : reg id = RNode n.

(* NewServerBuilder().EnableGuestAuthentication()...Build() and NewClientBuilder().GuestAuthentication(), over TCP
   with TLS configured at both ends: the defaults offer none and tls, the client's default selector takes tls, the
   guest rule accepts a UUID name - one session, under tls at both ends *)
Theorem guest_pair_establishes_under_tls :
  is_uuid id = true ->
  let sc := built_server_conf [BGuest; BBuild] (TTcp true) true in
  let o := built_server_oracle fs [BGuest; BBuild] reg in
  let cc := built_client [KGuest] (TTcp true) true id in
  exists cins, consistent wire snode sc o cc cins /\ agree snode (ends_of wire snode sc o cc cins) n "tls".
Proof.
  intros Hid sc o cc. apply fitting_ends_establish_and_agree.
  unfold fits. cbn -[is_uuid]. rewrite Hreg. repeat split; try reflexivity; try discriminate.
  - exists "guest", 0. cbn -[is_uuid]. rewrite Hid. repeat split; reflexivity.
  - left; reflexivity.
  - right; reflexivity.
Qed.

(* EnablePlainAuthentication(f) / PlainAuthentication(password): established, under tls, exactly when f accepts *)
Theorem plain_pair_establishes_under_tls f pw :
  pw < 1000 -> f_plain fs f id pw 0 = ARole ->
  let sc := built_server_conf [BPlain f; BBuild] (TTcp true) true in
  let o := built_server_oracle fs [BPlain f; BBuild] reg in
  let cc := built_client [KPlain pw] (TTcp true) true id in
  exists cins, consistent wire snode sc o cc cins /\ agree snode (ends_of wire snode sc o cc cins) n "tls".
Proof.
  intros Hpw Hf sc o cc. apply fitting_ends_establish_and_agree.
  apply Nat.ltb_lt in Hpw.
  unfold fits. cbn -[Nat.ltb valid_b64]. rewrite Hreg.
  repeat split; try reflexivity; try discriminate.
  - exists "plain", pw. cbn -[Nat.ltb valid_b64]. unfold valid_b64. rewrite Hpw, Hf. repeat split; reflexivity.
  - left; reflexivity.
  - right; reflexivity.
Qed.

(* EncryptionOptions(tls) at the server, Encryption(none) at the client: the client's choice is not among the offer,
   the server fails the session; no end is established and the client never wrote its password *)
Theorem tls_only_server_refuses_a_cleartext_client f pw :
  let sc := built_server_conf [BEnc ["tls"]; BPlain f; BBuild] (TTcp true) true in
  let o := built_server_oracle fs [BEnc ["tls"]; BPlain f; BBuild] reg in
  let cc := built_client [KEnc "none"; KPlain pw] (TTcp true) true id in
  let cins := play wire snode sc o cc 4 [] in
  consistent wire snode sc o cc cins /\
  e_server_established (ends_of wire snode sc o cc cins) = false /\
  e_client_established (ends_of wire snode sc o cc cins) = false /\
  forallb (fun i => match i with CSes s => negb (state_eqb (cs_state s) SAuthenticating) | _ => true end) cins = true.
Proof.
  cbv zeta. unfold consistent, ends_of, round. destruct wire; cbn; repeat split; reflexivity.
Qed.
End Recipes.
