(* C09, client half, as an executable predicate over Model C's trace: every envelope the
   client writes goes out under the encryption its SetEncryption calls have put in force; once
   the server has confirmed an encryption other than the one in force, the client switches to
   it - and a successful switch leaves exactly the confirmed option in force - before it writes anything
   else; after a failed switch it writes nothing more. *)
From Coq Require Import List Bool Arith String.
Import ListNotations.
From Lime Require Import Hs.Types Hs.Client.
Open Scope string_scope.
Open Scope list_scope.

Record est := {
  w_cur : string;              (* encryption in force *)
  w_dead : bool;               (* a SetEncryption failed: nothing may be written any more *)
  w_chosen : bool;             (* the client has sent its choice (a negotiating envelope) *)
  w_pending : option string;   (* confirmed by the server, not yet applied *)
  w_ok : bool
}.

Definition estep (k : tkind) (tls_ok : bool) (s : est) (e : cev) : est :=
  match e with
  | USent u enc =>
      {| w_cur := w_cur s; w_dead := w_dead s;
         w_chosen := w_chosen s || state_eqb (us_state u) SNegotiating;
         w_pending := w_pending s;
         w_ok := w_ok s && negb (w_dead s) && String.eqb enc (w_cur s) &&
                 match w_pending s with None => true | Some _ => false end |}
  | UTook (VSes v) =>
      if w_chosen s && state_eqb (vs_state v) SNegotiating &&
         negb (String.eqb (vs_enc v) "") && negb (String.eqb (vs_enc v) (w_cur s))
      then {| w_cur := w_cur s; w_dead := w_dead s; w_chosen := w_chosen s; w_pending := Some (vs_enc v); w_ok := w_ok s |}
      else s
  | USetEnc e' ok =>
      {| w_cur := if ok then snd (set_enc k tls_ok (w_cur s) e') else w_cur s; w_dead := w_dead s || negb ok; w_chosen := w_chosen s;
         w_pending := None;
         w_ok := w_ok s && match w_pending s with Some p => String.eqb p e' | None => false end &&
                 (* a successful switch leaves exactly the confirmed option in force *)
                 (if ok then String.eqb (snd (set_enc k tls_ok (w_cur s) e')) e' else true) |}
  | _ => s
  end.

Definition einit (k : tkind) : est :=
  {| w_cur := initial_enc k; w_dead := false; w_chosen := false; w_pending := None; w_ok := true |}.

Definition enc_discipline (k : tkind) (tls_ok : bool) (t : list cev) : bool := w_ok (fold_left (estep k tls_ok) t (einit k)).
