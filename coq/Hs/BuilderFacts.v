(* Proofs about Model J (Hs/Builder.v) and its composition with Model B. *)
From Coq Require Import List Bool Arith String Lia.
Import ListNotations.
From Lime Require Import Hs.Types Hs.Server Hs.Monitor Hs.ServerFacts Hs.MonitorFacts Hs.Builder.
Open Scope string_scope.
Open Scope list_scope.

(* ---------- the option lists ---------- *)
Lemma mem_app s a b : mem s (a ++ b) = mem s a || mem s b.
Proof. unfold mem. apply existsb_app. Qed.
Lemma mem_single s t : mem s [t] = String.eqb s t.
Proof. unfold mem. cbn. apply orb_false_r. Qed.

Lemma mem_enable s t l : mem s (enable t l) = mem s l || String.eqb s t.
Proof.
  unfold enable. destruct (mem t l) eqn:E.
  - destruct (String.eqb_spec s t) as [->|N]; [rewrite E; reflexivity|rewrite orb_false_r; reflexivity].
  - rewrite mem_app, mem_single. reflexivity.
Qed.

Lemma mem_true_in s l : mem s l = true <-> In s l.
Proof.
  unfold mem. rewrite existsb_exists. split.
  - intros (x & Hi & He). apply String.eqb_eq in He. subst. exact Hi.
  - intros Hi. exists s. split; [exact Hi|apply String.eqb_refl].
Qed.

Lemma nodup_snoc (t : string) l : NoDup l -> ~ In t l -> NoDup (l ++ [t]).
Proof.
  induction l as [|x r IH]; intros H N; cbn; [constructor; [intros []|constructor]|].
  inversion H as [|? ? Hx Hr]; subst. constructor.
  - intros Hi. apply in_app_or in Hi. destruct Hi as [Hi|[Hi|[]]]; [contradiction|]. subst. apply N. left. reflexivity.
  - apply IH; [exact Hr|]. intros Hi. apply N. right. exact Hi.
Qed.
Lemma nodup_enable t l : NoDup l -> NoDup (enable t l).
Proof.
  intros H. unfold enable. destruct (mem t l) eqn:E; [exact H|].
  apply nodup_snoc; auto. intros Hi. apply mem_true_in in Hi. congruence.
Qed.

(* the offered schemes never repeat one *)
Lemma bapply_nodup b o : NoDup (b_schemes b) -> NoDup (b_schemes (bapply b o)).
Proof.
  intros H. unfold bapply. destruct o as [l|l| | |f|f|f|]; cbn; try (destruct l; cbn; assumption);
    try (apply nodup_enable; assumption); assumption.
Qed.
Lemma fold_nodup ops b : NoDup (b_schemes b) -> NoDup (b_schemes (fold_left bapply ops b)).
Proof. revert b; induction ops as [|o r IH]; intros b H; cbn; auto. apply IH, bapply_nodup, H. Qed.
Lemma schemes_nodup ops : NoDup (b_schemes (brun ops)).
Proof. apply fold_nodup. cbn. constructor; [intros []|constructor]. Qed.

(* which op enables which scheme *)
Definition enables (o : bop) : option string :=
  match o with
  | BGuest => Some "guest" | BTransport => Some "transport" | BPlain _ => Some "plain" | BKey _ => Some "key"
  | BExt _ => Some "external" | _ => None
  end.
Definition enabled_by (s : string) (o : bop) : bool :=
  match enables o with Some t => String.eqb s t | None => false end.

Lemma bapply_schemes s b o : mem s (b_schemes (bapply b o)) = mem s (b_schemes b) || enabled_by s o.
Proof.
  unfold bapply, enabled_by. destruct o as [l|l| | |f|f|f|]; cbn;
    try (destruct l; cbn; rewrite orb_false_r; reflexivity); try apply mem_enable; rewrite orb_false_r; reflexivity.
Qed.
Lemma fold_schemes s ops b :
  mem s (b_schemes (fold_left bapply ops b)) = mem s (b_schemes b) || existsb (enabled_by s) ops.
Proof.
  revert b; induction ops as [|o r IH]; intros b; cbn; [rewrite orb_false_r; reflexivity|].
  rewrite IH, bapply_schemes, orb_assoc. reflexivity.
Qed.
(* a scheme is offered exactly when it is the default one or one of the calls enabled it *)
Lemma scheme_offered_iff s ops :
  mem s (b_schemes (brun ops)) = String.eqb s "transport" || existsb (enabled_by s) ops.
Proof. unfold brun. rewrite fold_schemes. cbn. rewrite orb_false_r. reflexivity. Qed.

(* the encryption options are those of the last (non-empty) EncryptionOptions call, else the defaults *)
Fixpoint last_enc (ops : list bop) (acc : list string) : list string :=
  match ops with
  | [] => acc
  | BEnc (x :: l) :: r => last_enc r (x :: l)
  | _ :: r => last_enc r acc
  end.
Lemma fold_enc ops b : b_enc (fold_left bapply ops b) = last_enc ops (b_enc b).
Proof.
  revert b; induction ops as [|o r IH]; intros b; cbn [fold_left last_enc]; auto.
  rewrite IH. destruct o as [l|l| | |f|f|f|]; try reflexivity; destruct l; reflexivity.
Qed.
Lemma enc_is_last_call ops : b_enc (brun ops) = last_enc ops ["none"; "tls"].
Proof. apply fold_enc. Qed.
Lemma last_enc_nonempty ops acc : acc <> [] -> last_enc ops acc <> [].
Proof.
  revert acc; induction ops as [|o r IH]; intros acc H; cbn; auto.
  destruct o as [l|l| | |f|f|f|]; auto. destruct l; auto. apply IH. discriminate.
Qed.

(* ---------- builders do not share anything ---------- *)
Lemma nth_upd_other {A} (l : list A) i j f : i <> j -> nth_error (upd l i f) j = nth_error l j.
Proof.
  revert i j; induction l as [|x r IH]; intros [|i] [|j] H; cbn; auto; try congruence.
Qed.
Lemma nth_upd_same {A} (l : list A) i f x : nth_error l i = Some x -> nth_error (upd l i f) i = Some (f x).
Proof. revert i; induction l as [|y r IH]; intros [|i] H; cbn in *; try discriminate; [congruence|auto]. Qed.

Lemma calls_on_one_builder_leave_the_others w i o j : i <> j -> nth_error (wstep w (WOp i o)) j = nth_error w j.
Proof. intros H. cbn. apply nth_upd_other, H. Qed.
Lemma a_new_builder_leaves_the_others w j b : nth_error w j = Some b -> nth_error (wstep w WNew) j = Some b.
Proof. intros H. cbn. rewrite nth_error_app1; [exact H|]. apply nth_error_Some. congruence. Qed.

(* the j-th builder of a world is what its own calls make of a fresh one *)
Fixpoint own (ops : list wop) (j : nat) (n : nat) : option (list bop) :=
  (* n = builders created so far; result: the calls made on builder j, None if it was never created *)
  match ops with
  | [] => if Nat.ltb j n then Some [] else None
  | WNew :: r => own r j (S n)
  | WOp i o :: r =>
      if Nat.eqb i j && Nat.ltb j n then option_map (cons o) (own r j n) else own r j n
  end.

Lemma upd_length {A} (l : list A) i f : List.length (upd l i f) = List.length l.
Proof. revert i; induction l as [|x r IH]; intros [|i]; cbn; auto. Qed.
Lemma upd_out {A} (l : list A) i f : List.length l <= i -> upd l i f = l.
Proof. revert i; induction l as [|x r IH]; intros [|i] H; cbn in *; auto; [lia|f_equal; apply IH; lia]. Qed.

Lemma wrun_own_gen ops : forall w j,
  nth_error (fold_left wstep ops w) j =
  match own ops j (List.length w) with
  | Some l => Some (fold_left bapply l (match nth_error w j with Some b => b | None => new_builder end))
  | None => None
  end.
Proof.
  induction ops as [|o r IH]; intros w j; cbn [fold_left own].
  - destruct (Nat.ltb_spec j (List.length w)) as [L|L].
    + destruct (nth_error w j) eqn:E; [reflexivity|]. apply nth_error_None in E. lia.
    + apply nth_error_None. exact L.
  - destruct o as [|i o].
    + rewrite IH. cbn [wstep]. rewrite app_length. cbn [List.length]. replace (List.length w + 1) with (S (List.length w)) by lia.
      destruct (own r j (S (List.length w))) as [l|]; [|reflexivity]. f_equal. f_equal.
      destruct (Nat.ltb_spec j (List.length w)) as [L|L].
      * rewrite nth_error_app1 by exact L. reflexivity.
      * rewrite nth_error_app2 by exact L. destruct (j - List.length w) as [|k] eqn:K; cbn.
        -- assert (E : nth_error w j = None) by (apply nth_error_None; exact L). rewrite E. reflexivity.
        -- assert (E : nth_error w j = None) by (apply nth_error_None; exact L). rewrite E.
           destruct k; reflexivity.
    + rewrite IH. cbn [wstep]. rewrite upd_length.
      destruct (Nat.eqb_spec i j) as [->|N]; cbn [andb].
      * destruct (Nat.ltb_spec j (List.length w)) as [L|L].
        -- destruct (own r j (List.length w)) as [l|]; cbn [option_map]; [|reflexivity].
           destruct (nth_error w j) as [b|] eqn:E; [|apply nth_error_None in E; lia].
           rewrite (nth_upd_same _ _ _ _ E). reflexivity.
        -- rewrite upd_out by exact L. reflexivity.
      * rewrite nth_upd_other by exact N. reflexivity.
Qed.

(* whatever is done with the other builders, in whatever order: builder j is what its own calls make of it *)
Lemma wrun_own ops j :
  nth_error (wrun ops) j = option_map brun (own ops j 0).
Proof.
  unfold wrun. rewrite wrun_own_gen. cbn [List.length]. destruct (own ops j 0); cbn; [|reflexivity].
  destruct j; reflexivity.
Qed.

(* ---------- the dispatch ---------- *)
Lemma guest_requires_uuid fs cap u ident round : dispatch fs cap u ident AGuest round = ARole -> u = true.
Proof. destruct cap as [[pl ky] ex]. cbn. destruct u; [reflexivity|discriminate]. Qed.
Lemma transport_never_succeeds fs cap u ident round : dispatch fs cap u ident ATransport round = AErr.
Proof. destruct cap as [[pl ky] ex]. reflexivity. Qed.
Lemma no_authentication_never_succeeds fs cap u ident round : dispatch fs cap u ident ANil round = AErr.
Proof. destruct cap as [[pl ky] ex]. reflexivity. Qed.
Lemma unset_plain_never_succeeds fs ky ex u ident pw round : dispatch fs (None, ky, ex) u ident (APlain pw) round = AErr.
Proof. reflexivity. Qed.
Lemma unset_key_never_succeeds fs pl ex u ident k round : dispatch fs (pl, None, ex) u ident (AKey k) round = AErr.
Proof. reflexivity. Qed.
Lemma unset_external_never_succeeds fs pl ky u ident t i round : dispatch fs (pl, ky, None) u ident (AExternal t i) round = AErr.
Proof. reflexivity. Qed.
Lemma undecodable_never_succeeds fs cap u ident round :
  dispatch fs cap u ident (APlain None) round = AErr /\ dispatch fs cap u ident (AKey None) round = AErr.
Proof. destruct cap as [[[f|] [g|]] ex]; split; reflexivity. Qed.

(* a known role comes from exactly one place: the guest rule, or the installed authenticator of the scheme of
   the object that was presented, asked about the presented identity and the presented (decoded) secret *)
Lemma role_comes_from fs pl ky ex u ident a round :
  dispatch fs (pl, ky, ex) u ident a round = ARole ->
  match a with
  | AGuest => u = true
  | APlain pw => exists f p, pl = Some f /\ pw = Some p /\ f_plain fs f ident p round = ARole
  | AKey k => exists f p, ky = Some f /\ k = Some p /\ f_key fs f ident p round = ARole
  | AExternal t i => exists f, ex = Some f /\ f_ext fs f ident t i round = ARole
  | ATransport | ANil => False
  end.
Proof.
  destruct a as [| | |pw|k|t i]; cbn; intros H; try discriminate.
  - destruct u; [reflexivity|discriminate].
  - destruct pl as [f|]; [|discriminate]. destruct pw as [p|]; [|discriminate]. exists f, p. auto.
  - destruct ky as [f|]; [|discriminate]. destruct k as [p|]; [|discriminate]. exists f, p. auto.
  - destruct ex as [f|]; [|discriminate]. exists f. auto.
Qed.

(* ---------- composition with Model B ---------- *)
(* A Server built by a builder, serving any peer: the run obeys every rule of the monitor ... *)
Lemma built_server_accepts fs ops reg k tls_ok ins :
  let b := brun ops in
  let r := handle_channel s_repaired (builder_conf b k tls_ok) (builder_oracle fs b reg) ins in
  accepts (builder_conf b k tls_ok) (builder_oracle fs b reg) (rr_trace r) (rr_handler_ended r) = true /\
  rr_outcome r <> Panicked.
Proof. intros b r. apply server_accepts. Qed.

(* ... and when it was built (Build was called), an established envelope was preceded by an Authenticate call
   whose object was accepted by the guest rule or by the installed authenticator of its scheme *)
Lemma built_server_establishes_only_via_an_authenticator fs ops reg k tls_ok ins pre s enc post cap :
  let b := brun ops in
  b_built b = Some cap ->
  rr_trace (handle_channel s_repaired (builder_conf b k tls_ok) (builder_oracle fs b reg) ins) = pre ++ Sent s enc :: post ->
  ss_state s = SEstablished ->
  exists f sch cred encA round,
    In (AuthCall f sch cred encA) pre /\
    dispatch fs cap (is_uuid f) f (aobj_of sch cred) round = ARole.
Proof.
  intros b Hb Ht Hs.
  destruct (server_accepts (builder_conf b k tls_ok) (builder_oracle fs b reg) ins) as [Ha _]. cbn zeta in Ha.
  unfold accepts in Ha. rewrite Ht in Ha.
  destruct (mon_run (builder_conf b k tls_ok) (builder_oracle fs b reg) (m0 (builder_conf b k tls_ok))
                    (pre ++ Sent s enc :: post)) as [m'|] eqn:E; [|discriminate].
  destruct (accepted_established_was_authenticated _ _ _ _ _ _ _ E Hs) as (f & sch & cred & encA & encR & round & n & H1 & H2 & _).
  exists f, sch, cred, encA, round. split; [exact H1|]. cbn in H2. rewrite Hb in H2. exact H2.
Qed.
