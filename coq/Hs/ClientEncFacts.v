(* Proof that Model C obeys the client-side encryption discipline of C09 for every
   configuration (arbitrary selectors and authenticator) and every server script. *)
From Coq Require Import List Bool Arith String Lia.
Import ListNotations.
From Lime Require Import Hs.Types Hs.Client Hs.ClientEnc.
Open Scope string_scope.
Open Scope list_scope.

Section Enc.
  Variable k : tkind.
  Variable tls_ok : bool.
  Notation step := (estep k tls_ok).
  Notation run := (fold_left (estep k tls_ok)).

  Definition datas (n : nat) : list cev := repeat (UTook VData) n.

  Lemma run_datas n st : run (datas n) st = st.
  Proof. induction n; cbn; auto. Qed.

  Lemma run_app a b st : run (a ++ b) st = run b (run a st).
  Proof. apply fold_left_app. Qed.

  (* channel.receiveSession: only "took" events; on success, data envelopes then the session envelope *)
  Lemma ureceive_shape : forall ins c x c' r e,
    ureceive c_repaired c ins = (x, c', r, e) ->
    uc_enc c' = uc_enc c /\
    match x with
    | URSes s => exists n, e = datas n ++ [UTook (VSes s)]
    | URPanic => False
    | _ => exists n, e = datas n \/ exists i, e = datas n ++ [UTook i]
    end.
  Proof.
    induction ins as [|i ins IH]; intros c x c' r e H.
    - cbn [ureceive] in H.
      destruct (uc_state c); try destruct (negb (uc_conn c)); inversion H; subst; split; auto;
        exists 0; left; reflexivity.
    - cbn [ureceive fc_regress c_repaired] in H.
      assert (Hother : forall (X : urcv * cchan * list sin * list cev),
                (if negb (uc_conn c) then (URFail, c, i :: ins, [])
                 else match i with
                      | VSes s => (URSes s, c, ins, [UTook (VSes s)])
                      | VData => (URFail, c, ins, [UTook VData])
                      | VBad => (URFail, c, ins, [UTook VBad])
                      | VEof => (URFail, upd c (uc_state c) (uc_sid c) (uc_local c) (uc_remote c) false (uc_rcv c), ins, [UTook VEof])
                      end) = (x, c', r, e) ->
                uc_enc c' = uc_enc c /\
                match x with
                | URSes s => exists n, e = datas n ++ [UTook (VSes s)]
                | URPanic => False
                | _ => exists n, e = datas n \/ exists i, e = datas n ++ [UTook i]
                end).
      { intros _ H'. destruct (negb (uc_conn c)).
        - inversion H'; subst. split; auto. exists 0. left. reflexivity.
        - destruct i; inversion H'; subst; split; auto;
            try (exists 0; reflexivity); exists 0; right; eexists; reflexivity. }
      destruct (uc_state c) eqn:St; try (apply (Hother (x, c', r, e)); exact H).
      + (* established: the receiver goroutine buffers data envelopes *)
        destruct i as [s| | |].
        * destruct (Nat.ltb (step_of (vs_state s)) (step_of SEstablished)); inversion H; subst; split; auto;
            exists 0; reflexivity.
        * destruct (ureceive c_repaired c ins) as [[[x0 c0] r0] e0] eqn:E.
          apply IH in E. destruct E as [Ee Es]. inversion H; subst. split; [exact Ee|].
          destruct x as [s| | |].
          -- destruct Es as [n ->]. exists (S n). reflexivity.
          -- destruct Es as [n [-> | [j ->]]]; exists (S n); [left|right; exists j]; reflexivity.
          -- destruct Es as [n [-> | [j ->]]]; exists (S n); [left|right; exists j]; reflexivity.
          -- destruct Es.
        * inversion H; subst. split; auto. exists 0. right. eexists. reflexivity.
        * inversion H; subst. split; auto. exists 0. right. eexists. reflexivity.
      + (* finished *) inversion H; subst. split; auto. exists 0. left. reflexivity.
  Qed.

  Lemma took_ok st i : w_ok (step st (UTook i)) = w_ok st /\ w_cur (step st (UTook i)) = w_cur st /\
                       w_dead (step st (UTook i)) = w_dead st /\ w_chosen (step st (UTook i)) = w_chosen st.
  Proof.
    destruct i as [v| | |]; cbn [estep]; auto.
    destruct (_ && _ && _ && _); cbn; auto.
  Qed.

  (* what a receive does to the walk when it yields session envelope s *)
  Definition after_took (st : est) (s : vses) : est := step st (UTook (VSes s)).

  Lemma receive_shape : forall c ins x c' r e st,
    receive_from_server c_repaired c ins = (x, c', r, e) ->
    uc_enc c' = uc_enc c /\
    match x with
    | RGot s => run e st = after_took st s
    | RPanicked => False
    | _ => w_ok (run e st) = w_ok st
    end.
  Proof.
    intros c ins x c' r e st H. unfold receive_from_server in H.
    destruct (ureceive c_repaired c ins) as [[[x0 c0] r0] e0] eqn:E.
    apply ureceive_shape in E. destruct E as [Ee Es].
    assert (Hfail : forall e1, (exists n, e1 = datas n \/ exists i, e1 = datas n ++ [UTook i]) -> w_ok (run e1 st) = w_ok st).
    { intros e1 [n [-> | [i ->]]]; [rewrite run_datas; reflexivity|].
      rewrite run_app, run_datas. cbn [fold_left]. apply took_ok. }
    destruct x0 as [s| | |].
    - destruct Es as [n ->].
      assert (Hs : run (datas n ++ [UTook (VSes s)]) st = after_took st s)
        by (rewrite run_app, run_datas; reflexivity).
      destruct (Nat.ltb (step_of (vs_state s)) (step_of (uc_state c0))).
      + cbn [fc_regress c_repaired] in H. inversion H; subst. split; [exact Ee|].
        rewrite Hs. unfold after_took. apply took_ok.
      + cbn [upd uc_conn uc_state uc_sid uc_local uc_remote uc_rcv uc_enc] in H.
        destruct (terminal (vs_state s)).
        * destruct (uc_conn c0); inversion H; subst; cbn [upd uc_enc]; split; auto.
          -- rewrite run_app, Hs. reflexivity.
          -- rewrite Hs. unfold after_took. apply took_ok.
        * inversion H; subst. cbn [upd uc_enc]. split; auto.
    - inversion H; subst. split; auto.
    - inversion H; subst. split; auto.
    - destruct Es.
  Qed.

  (* the invariant of the walk against the channel *)
  Definition good (st : est) (c : cchan) : Prop :=
    w_cur st = uc_enc c /\ w_dead st = false /\ w_ok st = true.

  Lemma usend_shape c u evs ok :
    usend c u = (evs, ok) -> (evs = [] /\ ok = false) \/ (evs = [USent u (uc_enc c)] /\ ok = true).
  Proof.
    unfold usend. destruct (negb (uc_conn c)); [intros H; inversion H; auto|].
    destruct (terminal (uc_state c)); intros H; inversion H; auto.
  Qed.

  Lemma good_sent st c u :
    good st c -> w_pending st = None -> good (step st (USent u (uc_enc c))) c /\ w_pending (step st (USent u (uc_enc c))) = None.
  Proof.
    intros [H1 [H2 H3]] Hp. unfold good. cbn [estep w_cur w_dead w_ok w_pending].
    rewrite H1, H2, H3, Hp, String.eqb_refl. auto.
  Qed.

  Lemma good_took st c c' s :
    good st c -> uc_enc c' = uc_enc c -> good (after_took st s) c' /\
    (state_eqb (vs_state s) SNegotiating = false -> w_pending (after_took st s) = w_pending st).
  Proof.
    intros [H1 [H2 H3]] He. unfold after_took, good. cbn [estep].
    destruct (w_chosen st && state_eqb (vs_state s) SNegotiating && _ && _) eqn:Cnd; cbn; rewrite ?He; repeat split; auto.
    intros Hn. rewrite Hn, andb_false_r in Cnd. discriminate.
  Qed.

  (* the authentication loop: credentials go out only with nothing pending, under the encryption in force *)
  Lemma cauth_enc : forall fuel conf c ses rt ins st evs c' out,
    good st c -> (state_eqb (vs_state ses) SAuthenticating = true -> w_pending st = None) ->
    cauth_loop fuel c_repaired conf c ses rt ins = (evs, c', out) ->
    w_ok (run evs st) = true.
  Proof.
    induction fuel as [|fuel IH]; intros conf c ses rt ins st evs c' out G Hp H.
    - cbn in H. inversion H; subst. apply G.
    - cbn [cauth_loop] in H.
      destruct (state_eqb (vs_state ses) SAuthenticating) eqn:Ha; cbn [negb] in H; [|inversion H; subst; apply G].
      destruct (uc_conn c && state_eqb (uc_state c) SAuthenticating); cbn [negb] in H; [|inversion H; subst; apply G].
      destruct (cc_auth conf (vs_schemeopts ses) rt) as [scheme cred].
      match type of H with context [usend c ?u] => set (uu := u) in * end.
      destruct (usend c uu) as [e1 ok] eqn:Hs. destruct (usend_shape _ _ _ _ Hs) as [[-> ->]|[-> ->]];
        destruct (good_sent st c uu G (Hp eq_refl)) as [G1 P1]; cbn [negb] in H.
      + inversion H; subst. apply G.
      + destruct (receive_from_server c_repaired c ins) as [[[x c1] r1] e] eqn:Hr.
        apply (receive_shape _ _ _ _ _ _ (step st (USent uu (uc_enc c)))) in Hr. destruct Hr as [Ee Hx].
        destruct x as [ses'| | |].
        * destruct (cauth_loop fuel c_repaired conf c1 ses' (vs_round ses') r1) as [[evs' c''] out'] eqn:Hc.
          inversion H; subst. cbn [app fold_left]. rewrite run_app, Hx.
          destruct (good_took _ c c1 ses' G1 Ee) as [G2 P2].
          eapply IH; [exact G2| |exact Hc].
          intros Ha'. rewrite P2; [exact P1|].
          destruct (vs_state ses'); cbn in *; try discriminate; reflexivity.
        * inversion H; subst. cbn [app fold_left]. rewrite Hx. apply G1.
        * inversion H; subst. cbn [app fold_left]. rewrite Hx. apply G1.
        * destruct Hx.
  Qed.
End Enc.

Lemma not_neg_pending k tls_ok st s :
  state_eqb (vs_state s) SAuthenticating = true -> w_pending (after_took k tls_ok st s) = w_pending st.
Proof.
  intros H. unfold after_took. cbn [estep].
  destruct (vs_state s); cbn in H; try discriminate. cbn. rewrite andb_false_r. reflexivity.
Qed.

Theorem client_enc_discipline : forall (conf : cconf) (ins : list sin),
  enc_discipline (cc_kind conf) (cc_tls_ok conf) (fst (fst (cestablish c_repaired conf ins))) = true.
Proof.
  intros conf ins. unfold enc_discipline.
  remember (cc_kind conf) as k eqn:Hk. remember (cc_tls_ok conf) as tl eqn:Htl.
  assert (G0 : good (einit k) (cchan0 conf)) by (unfold good, einit, cchan0; subst k; cbn; auto).
  unfold cestablish.
  remember (cchan0 conf) as c0 eqn:Hc0.
  destruct (usend c0 (mk_usent c0 SNew)) as [e0 ok0] eqn:S0.
  destruct (usend_shape _ _ _ _ S0) as [[-> ->]|[-> ->]]; cbn [negb]; [cbn; apply G0|].
  destruct (good_sent k tl (einit k) c0 (mk_usent c0 SNew) G0 eq_refl) as [G1 P1].
  remember (estep k tl (einit k) (USent (mk_usent c0 SNew) (uc_enc c0))) as st1 eqn:Hst1.
  assert (C1 : w_chosen st1 = false) by (subst st1; reflexivity).
  destruct (receive_from_server c_repaired c0 ins) as [[[x c1] ins1] e1] eqn:R1.
  apply (receive_shape k tl _ _ _ _ _ _ st1) in R1. destruct R1 as [E1 X1].
  destruct x as [ses| | |]; cbn [fst];
    try (rewrite ?run_app; cbn [fold_left app]; rewrite <- Hst1, X1; apply G1); [|destruct X1].
  destruct (good_took k tl st1 c0 c1 ses G1 E1) as [G2 _].
  assert (P2 : w_pending (after_took k tl st1 ses) = None).
  { unfold after_took. cbn [estep]. rewrite C1. cbn [andb]. exact P1. }
  remember (after_took k tl st1 ses) as st2 eqn:Hst2.
  assert (Hauth : forall c sesx insx stx pre,
            good stx c -> (state_eqb (vs_state sesx) SAuthenticating = true -> w_pending stx = None) ->
            fold_left (estep k tl) pre (einit k) = stx ->
            w_ok (fold_left (estep k tl)
                    (fst (fst (let '(e, c', out) := cauth_loop (S (List.length insx)) c_repaired conf c sesx None insx in (pre ++ e, c', out))))
                    (einit k)) = true).
  { intros c sesx insx stx pre Gx Px Hx.
    destruct (cauth_loop (S (List.length insx)) c_repaired conf c sesx None insx) as [[e c'] out] eqn:A.
    cbn [fst]. rewrite run_app, Hx. eapply cauth_enc; eauto. }
  destruct (state_eqb (vs_state ses) SNegotiating) eqn:Neg.
  2:{ apply (Hauth c1 ses ins1 st2); auto. cbn [fold_left app]. rewrite <- Hst1. exact X1. }
  destruct (uc_conn c1 && state_eqb (uc_state c1) SNegotiating); cbn [negb fst];
    [|rewrite ?run_app; cbn [fold_left app]; rewrite <- Hst1, X1; apply G2].
  match goal with |- context [usend c1 ?u] => remember u as u2 eqn:Hu2 end.
  destruct (usend c1 u2) as [e2 ok2] eqn:S2.
  destruct (usend_shape _ _ _ _ S2) as [[-> ->]|[-> ->]]; cbn [negb fst].
  { rewrite ?run_app; cbn [fold_left app]. rewrite <- Hst1, X1. apply G2. }
  destruct (good_sent k tl st2 c1 u2 G2 P2) as [G3 P3].
  remember (estep k tl st2 (USent u2 (uc_enc c1))) as st3 eqn:Hst3.
  assert (C3 : w_chosen st3 = true) by (subst st3 u2; cbn [estep w_chosen us_state]; cbn; rewrite ?orb_true_r; reflexivity).
  destruct (receive_from_server c_repaired c1 ins1) as [[[x c2] ins2] e3] eqn:R2.
  apply (receive_shape k tl _ _ _ _ _ _ st3) in R2. destruct R2 as [E2 X2].
  destruct x as [ses2| | |]; cbn [fst];
    try (rewrite ?run_app; cbn [fold_left app]; rewrite <- Hst1, X1, <- Hst3, X2; apply G3); [|destruct X2].
  destruct (good_took k tl st3 c1 c2 ses2 G3 E2) as [G4 P4].
  remember (after_took k tl st3 ses2) as st4 eqn:Hst4.
  assert (Pend : w_pending st4 =
                 if state_eqb (vs_state ses2) SNegotiating && negb (String.eqb (vs_enc ses2) "") && negb (String.eqb (vs_enc ses2) (uc_enc c2))
                 then Some (vs_enc ses2) else None).
  { subst st4. unfold after_took. cbn [estep]. rewrite C3. destruct G3 as [Hc _]. rewrite Hc, <- E2. cbn [andb].
    destruct (state_eqb (vs_state ses2) SNegotiating && negb (String.eqb (vs_enc ses2) "") && negb (String.eqb (vs_enc ses2) (uc_enc c2))); cbn; auto. }
  match goal with |- context [match ?A with (_, _) => _ end] =>
    match A with context [set_comp] => remember A as app_step eqn:Happ_def end end.
  assert (Happ : exists e4 c3 okA, app_step = (e4, c3, okA) /\
            w_ok (fold_left (estep k tl) e4 st4) = true /\
            (okA = true -> good (fold_left (estep k tl) e4 st4) c3 /\ w_pending (fold_left (estep k tl) e4 st4) = None)).
  { subst app_step. destruct G4 as [Hcur [Hdead Hok]].
    destruct (state_eqb (vs_state ses2) SNegotiating) eqn:N2; cbn [andb] in Pend.
    2:{ eexists _, _, _. split; [reflexivity|]. cbn. repeat split; auto. }
    destruct (negb (String.eqb (vs_comp ses2) "") && negb (String.eqb (vs_comp ses2) (uc_comp c2))) eqn:Cm.
    - destruct (set_comp (cc_kind conf) (uc_comp c2) (vs_comp ses2)) eqn:Sc; cbn [fst snd negb].
      + destruct (negb (String.eqb (vs_enc ses2) "") && negb (String.eqb (vs_enc ses2) (uc_enc c2))) eqn:En.
        * destruct (set_enc (cc_kind conf) (cc_tls_ok conf) (uc_enc c2) (vs_enc ses2)) as [oke enc'] eqn:Se.
          eexists _, _, _. split; [reflexivity|]. cbn [app fold_left estep].
          rewrite Pend, String.eqb_refl, Hok, Hcur, Hk, Htl, Se. cbn [andb w_ok snd].
          assert (Hreq : (if oke then String.eqb enc' (vs_enc ses2) else true) = true).
          { destruct oke; [apply set_enc_ok_is_requested in Se; subst; apply String.eqb_refl|reflexivity]. }
          rewrite Hreq. split; [reflexivity|].
          intros ->. unfold good. cbn [w_cur w_dead w_ok w_pending upd_enc uc_enc orb negb snd].
          cbn. rewrite Hdead. auto.
        * eexists _, _, _. split; [reflexivity|]. cbn [app fold_left estep]. repeat split; auto.
      + eexists _, _, _. split; [reflexivity|]. cbn [app fold_left estep]. split; [auto|discriminate].
    - cbn [fst snd negb].
      destruct (negb (String.eqb (vs_enc ses2) "") && negb (String.eqb (vs_enc ses2) (uc_enc c2))) eqn:En.
      + destruct (set_enc (cc_kind conf) (cc_tls_ok conf) (uc_enc c2) (vs_enc ses2)) as [oke enc'] eqn:Se.
        eexists _, _, _. split; [reflexivity|]. cbn [app fold_left estep].
        rewrite Pend, String.eqb_refl, Hok, Hcur, Hk, Htl, Se. cbn [andb w_ok snd].
        assert (Hreq : (if oke then String.eqb enc' (vs_enc ses2) else true) = true).
        { destruct oke; [apply set_enc_ok_is_requested in Se; subst; apply String.eqb_refl|reflexivity]. }
        rewrite Hreq. split; [reflexivity|].
        intros ->. unfold good. cbn [w_cur w_dead w_ok w_pending upd_enc uc_enc orb negb snd].
        cbn. rewrite Hdead. auto.
      + eexists _, _, _. split; [reflexivity|]. cbn [app fold_left estep]. repeat split; auto. }
  destruct Happ as [e4 [c3 [okA [-> [Hok5 Hgood5]]]]].
  assert (Hfold4 : forall rest, fold_left (estep k tl) (([USent (mk_usent c0 SNew) (uc_enc c0)] ++ e1) ++ [USent u2 (uc_enc c1)] ++ e3 ++ rest) (einit k)
                                = fold_left (estep k tl) rest st4).
  { intros rest. repeat (rewrite ?run_app; cbn [fold_left app]). rewrite <- Hst1, X1, <- Hst3, X2. reflexivity. }
  destruct okA; cbn [negb fst].
  2:{ repeat (rewrite ?run_app; cbn [fold_left app]).
      rewrite <- Hst1, X1, <- Hst3, X2. exact Hok5. }
  destruct (Hgood5 eq_refl) as [G5 P5].
  remember (fold_left (estep k tl) e4 st4) as st5 eqn:Hst5.
  destruct (receive_from_server c_repaired c3 ins2) as [[[x c4] ins3] e5] eqn:R3.
  apply (receive_shape k tl _ _ _ _ _ _ st5) in R3. destruct R3 as [E3 X3].
  assert (Hfold5 : forall e, fold_left (estep k tl) ((([USent (mk_usent c0 SNew) (uc_enc c0)] ++ e1) ++ [USent u2 (uc_enc c1)] ++ e3) ++ e4 ++ e) (einit k)
                             = fold_left (estep k tl) e st5).
  { intros e. repeat (rewrite ?run_app; cbn [fold_left app]). rewrite <- Hst1, X1, <- Hst3, X2, <- Hst5. reflexivity. }
  destruct x as [ses3| | |]; cbn [fst]; try (rewrite Hfold5, X3; apply G5); [|destruct X3].
  destruct (good_took k tl st5 c3 c4 ses3 G5 E3) as [G6 _].
  apply (Hauth c4 ses3 ins3 (after_took k tl st5 ses3)); auto.
  - intros Ha. rewrite not_neg_pending; auto.
  - rewrite Hfold5. exact X3.
Qed.
