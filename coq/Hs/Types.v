(* Shared types of the handshake models (session states, transports' option
   capabilities, what the two peers can put on the wire). *)
From Coq Require Import List Bool Arith String.
Import ListNotations.
Open Scope string_scope.

Inductive state := SNew | SNegotiating | SAuthenticating | SEstablished | SFinishing | SFinished | SFailed.

(* SessionState.Step *)
Definition step_of (s : state) : nat :=
  match s with
  | SNew => 0 | SNegotiating => 1 | SAuthenticating => 2 | SEstablished => 3
  | SFinishing => 4 | SFinished => 5 | SFailed => 6
  end.
Definition state_eqb (a b : state) : bool := Nat.eqb (step_of a) (step_of b).
Definition terminal (s : state) : bool := match s with SFinished | SFailed => true | _ => false end.

Lemma state_eqb_eq a b : state_eqb a b = true <-> a = b.
Proof. destruct a, b; cbn; split; intros H; try reflexivity; discriminate. Qed.
Lemma state_eqb_refl a : state_eqb a a = true.
Proof. destruct a; reflexivity. Qed.

(* transports, as far as option negotiation is concerned *)
Inductive tkind :=
| TTcp (has_tls_config : bool)
| TWs (tls : bool)
| TInproc
| TMulti.     (* a transport that can switch to any of two compressions and two encryptions (none of the library's own can
                 change its compression; exists in the verification build only, to exercise the order "compression, then
                 encryption" of applying a confirmed pair) *)

Definition supported_enc (k : tkind) : list string :=
  match k with
  | TTcp _ => ["none"; "tls"]
  | TWs tls => [if tls then "tls" else "none"]
  | TInproc => ["none"]
  | TMulti => ["none"; "tls"]
  end.
Definition supported_comp (k : tkind) : list string := match k with TMulti => ["none"; "gzip"] | _ => ["none"] end.
Definition initial_enc (k : tkind) : string :=
  match k with TWs true => "tls" | _ => "none" end.

Definition mem (s : string) (l : list string) : bool := existsb (String.eqb s) l.
(* intersect(a, b): elements of a (in a's order, duplicates kept) that occur in b *)
Definition intersect (a b : list string) : list string := filter (fun x => mem x b) a.

(* SetEncryption(e) on a transport whose encryption in force is cur:
   result = (succeeded, encryption in force afterwards) *)
Definition set_enc (k : tkind) (tls_ok : bool) (cur e : string) : bool * string :=
  match k with
  | TTcp cfg =>
      if String.eqb e cur then (true, cur)
      else if String.eqb e "none" then (false, cur)          (* cannot downgrade *)
      else if negb (String.eqb e "tls") then (false, cur)    (* an encryption the transport does not know *)
      else if negb cfg then (false, cur)                     (* tls config must be defined *)
      else if tls_ok then (true, "tls") else (false, cur)    (* in-place TLS handshake *)
  | TWs _ => (String.eqb e cur, cur)
  | TInproc => (false, cur)
  | TMulti => if String.eqb e "none" || String.eqb e "tls" then (true, e) else (false, cur)
  end.
(* the tree as found: a request for anything but "none" and the current value ran the TLS handshake *)
Definition set_enc_as_found (k : tkind) (tls_ok : bool) (cur e : string) : bool * string :=
  match k with
  | TTcp cfg =>
      if String.eqb e cur then (true, cur)
      else if String.eqb e "none" then (false, cur)
      else if String.eqb e "tls" && negb cfg then (false, cur)
      else if tls_ok then (true, "tls") else (false, cur)
  | _ => set_enc k tls_ok cur e
  end.
(* a successful switch leaves exactly the requested option in force *)
Lemma set_enc_ok_is_requested k t cur e enc' : set_enc k t cur e = (true, enc') -> enc' = e.
Proof.
  destruct k as [cfg|tls| |]; unfold set_enc; intros H.
  - destruct (String.eqb_spec e cur) as [->|N]; [inversion H; reflexivity|].
    destruct (String.eqb e "none"); [discriminate|].
    destruct (String.eqb_spec e "tls") as [->|N2]; cbn in H; [|discriminate].
    destruct cfg; cbn in H; [|discriminate]. destruct t; inversion H; reflexivity.
  - destruct (String.eqb_spec e cur) as [->|N]; inversion H; reflexivity.
  - discriminate.
  - destruct (String.eqb e "none" || String.eqb e "tls"); inversion H; reflexivity.
Qed.
Lemma set_enc_as_found_takes_unknown_for_tls :
  set_enc_as_found (TTcp true) true "none" "rot13" = (true, "tls").
Proof. reflexivity. Qed.

Definition set_comp (k : tkind) (cur c : string) : bool :=
  match k with
  | TWs _ => String.eqb c cur
  | TMulti => String.eqb c "none" || String.eqb c "gzip"
  | _ => false
  end.
