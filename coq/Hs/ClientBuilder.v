(* Model K - how a client's handshake configuration comes about: ClientBuilder (client.go: NewClientConfig,
   NewClientBuilder, Compression, Encryption, GuestAuthentication, TransportAuthentication, PlainAuthentication,
   KeyAuthentication, ExternalAuthentication), as descriptors of the selector and authenticator functions that
   Model C (Hs/Client.v) is parameterised by. *)
From Coq Require Import List Bool Arith String.
Import ListNotations.
From Lime Require Import Hs.Types Hs.Client.
Open Scope string_scope.
Open Scope list_scope.

(* client configurations as descriptors (the harness builds the same Go callbacks) *)
Inductive sel := SelNone | SelFirst | SelDefaultEnc | SelConst (s : string).
Inductive authd :=
| AuGuest | AuPlain1 | AuByRound                                   (* authenticators of the harness's own *)
| AuTransport | AuPlain (pw : nat) | AuKey (k : nat) | AuExternal (t : nat).   (* what the ClientBuilder installs *)
Record cdesc := { cd_comp : sel; cd_enc : sel; cd_auth : authd; cd_kind : tkind; cd_tls_ok : bool }.

Definition sel_fun (s : sel) (l : list string) : string :=
  match s with
  | SelNone => "none"
  | SelFirst => hd "none" l
  | SelDefaultEnc => if mem "tls" l then "tls" else hd "none" l
  | SelConst x => x
  end.
Definition auth_fun (a : authd) (schemes : list string) (rt : option nat) : string * nat :=
  match a with
  | AuGuest => ("guest", 0)
  | AuPlain1 => ("plain", 1)
  | AuByRound => (if String.eqb (hd "" schemes) "key" then "key" else "plain",
                  match rt with None => 1 | Some d => d + 10 end)
  | AuTransport => ("transport", 0)
  | AuPlain pw => ("plain", pw)
  | AuKey k => ("key", k)
  | AuExternal t => ("external", t)
  end.
Definition conf_of (d : cdesc) : cconf :=
  {| cc_comp_sel := sel_fun (cd_comp d); cc_enc_sel := sel_fun (cd_enc d); cc_auth := auth_fun (cd_auth d);
     cc_identity := 1; cc_kind := cd_kind d; cc_tls_ok := cd_tls_ok d |}.


(* ---- the builder ---- *)
Record kbuilder := { kb_comp : sel; kb_enc : sel; kb_auth : option authd }.   (* None: the default authenticator *)

(* NewClientConfig: the first compression offered; TLS when offered, else the first encryption offered; the default
   authenticator (guest when offered; it panics otherwise, and is not described here) *)
Definition new_kbuilder : kbuilder := {| kb_comp := SelFirst; kb_enc := SelDefaultEnc; kb_auth := None |}.

Inductive kop :=
| KComp (c : string) | KEnc (e : string)
| KGuest | KTransport | KPlain (pw : nat) | KKey (k : nat) | KExternal (t : nat).

Definition kstep (b : kbuilder) (o : kop) : kbuilder :=
  match o with
  | KComp c => {| kb_comp := SelConst c; kb_enc := kb_enc b; kb_auth := kb_auth b |}
  | KEnc e => {| kb_comp := kb_comp b; kb_enc := SelConst e; kb_auth := kb_auth b |}
  | KGuest => {| kb_comp := kb_comp b; kb_enc := kb_enc b; kb_auth := Some AuGuest |}
  | KTransport => {| kb_comp := kb_comp b; kb_enc := kb_enc b; kb_auth := Some AuTransport |}
  | KPlain pw => {| kb_comp := kb_comp b; kb_enc := kb_enc b; kb_auth := Some (AuPlain pw) |}
  | KKey k => {| kb_comp := kb_comp b; kb_enc := kb_enc b; kb_auth := Some (AuKey k) |}
  | KExternal t => {| kb_comp := kb_comp b; kb_enc := kb_enc b; kb_auth := Some (AuExternal t) |}
  end.
Definition krun (ops : list kop) : kbuilder := fold_left kstep ops new_kbuilder.

(* the configuration a built client runs with (an authenticator must have been chosen) *)
Definition built_desc (ops : list kop) (k : tkind) (tls_ok : bool) : cdesc :=
  let b := krun ops in
  {| cd_comp := kb_comp b; cd_enc := kb_enc b; cd_auth := match kb_auth b with Some a => a | None => AuGuest end;
     cd_kind := k; cd_tls_ok := tls_ok |}.

(* ---- each aspect is decided by the last call that concerns it ---- *)
Fixpoint last_sel (pick : kop -> option sel) (ops : list kop) (acc : sel) : sel :=
  match ops with
  | [] => acc
  | o :: r => last_sel pick r (match pick o with Some s => s | None => acc end)
  end.
Definition pick_comp (o : kop) : option sel := match o with KComp c => Some (SelConst c) | _ => None end.
Definition pick_enc (o : kop) : option sel := match o with KEnc e => Some (SelConst e) | _ => None end.
Definition pick_auth (o : kop) : option authd :=
  match o with
  | KGuest => Some AuGuest | KTransport => Some AuTransport | KPlain p => Some (AuPlain p) | KKey k => Some (AuKey k)
  | KExternal t => Some (AuExternal t) | _ => None
  end.
Fixpoint last_auth (ops : list kop) (acc : option authd) : option authd :=
  match ops with
  | [] => acc
  | o :: r => last_auth r (match pick_auth o with Some a => Some a | None => acc end)
  end.

Lemma fold_kb ops : forall b,
  kb_comp (fold_left kstep ops b) = last_sel pick_comp ops (kb_comp b) /\
  kb_enc (fold_left kstep ops b) = last_sel pick_enc ops (kb_enc b) /\
  kb_auth (fold_left kstep ops b) = last_auth ops (kb_auth b).
Proof.
  induction ops as [|o r IH]; intros b; cbn [fold_left last_sel last_auth]; [auto|].
  destruct (IH (kstep b o)) as [H1 [H2 H3]]. rewrite H1, H2, H3. destruct o; cbn; auto.
Qed.

Theorem builder_last_call_wins ops :
  kb_comp (krun ops) = last_sel pick_comp ops SelFirst /\
  kb_enc (krun ops) = last_sel pick_enc ops SelDefaultEnc /\
  kb_auth (krun ops) = last_auth ops None.
Proof. apply (fold_kb ops new_kbuilder). Qed.

(* a client built with Encryption(e) answers every offer with e, whatever is offered; one built without it takes TLS
   whenever TLS is offered *)
Lemma enc_const_selects ops e offer :
  last_sel pick_enc ops SelDefaultEnc = SelConst e -> sel_fun (kb_enc (krun ops)) offer = e.
Proof. intros H. destruct (builder_last_call_wins ops) as [_ [H2 _]]. rewrite H2, H. reflexivity. Qed.
Lemma default_enc_prefers_tls ops offer :
  last_sel pick_enc ops SelDefaultEnc = SelDefaultEnc -> mem "tls" offer = true -> sel_fun (kb_enc (krun ops)) offer = "tls".
Proof. intros H Hm. destruct (builder_last_call_wins ops) as [_ [H2 _]]. rewrite H2, H. cbn. rewrite Hm. reflexivity. Qed.
