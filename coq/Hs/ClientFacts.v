(* Facts about model C (the client side of the handshake): with the regression
   repair in place, every run of EstablishSession against an arbitrary server
   script and an arbitrary configuration satisfies the C08 predicate. *)
From Coq Require Import List Bool Arith String.
Import ListNotations.
From Lime Require Import Hs.Types Hs.Client Hs.ClientSpec.
Open Scope string_scope.
Open Scope list_scope.

(* ------------------------------------------------------------------ *)
(* the folds of the specification over an append                       *)

Lemma last_ses_app : forall a b acc, last_ses (a ++ b) acc = last_ses b (last_ses a acc).
Proof.
  induction a as [|x a IH]; intros b acc; [reflexivity|].
  destruct x as [u enc|[s| | |]|e ok|k ok|]; simpl; apply IH.
Qed.

Lemma closed_in_app : forall a b, closed_in (a ++ b) = closed_in a || closed_in b.
Proof. intros a b. unfold closed_in. apply existsb_app. Qed.

(* a segment that contains no client envelope *)
Definition quiet (e : list cev) : Prop := forall f l fr, walk e f l fr = true.

(* a segment without client envelope whose last session envelope taken is [s] *)
Definition takes_to (e : list cev) (s : vses) : Prop :=
  (forall f l fr b, walk (e ++ b) f l fr = walk b f (Some s) true) /\
  (forall acc b, last_ses (e ++ b) acc = last_ses b (Some s)).

Lemma quiet_nil : quiet [].
Proof. intros f l fr. reflexivity. Qed.

Lemma quiet_took : forall i, quiet [UTook i].
Proof. intros i f l fr. destruct i; reflexivity. Qed.

Lemma quiet_data : forall e, quiet e -> quiet (UTook VData :: e).
Proof. intros e Q f l fr. simpl. apply Q. Qed.

Lemma takes_single : forall s, takes_to [UTook (VSes s)] s.
Proof. intros s. split; intros; reflexivity. Qed.

Lemma takes_data : forall e s, takes_to e s -> takes_to (UTook VData :: e) s.
Proof.
  intros e s [W L]. split.
  - intros f l fr b. simpl. apply W.
  - intros acc b. simpl. apply L.
Qed.

Lemma takes_closed : forall e s, takes_to e s -> takes_to (e ++ [UClosed]) s.
Proof.
  intros e s [W L]. split.
  - intros f l fr b. rewrite <- app_assoc. rewrite W. reflexivity.
  - intros acc b. rewrite <- app_assoc. rewrite L. reflexivity.
Qed.

Lemma takes_quiet : forall e s, takes_to e s -> quiet e.
Proof.
  intros e s [W _] f l fr. rewrite <- (app_nil_r e). rewrite W. reflexivity.
Qed.

(* ------------------------------------------------------------------ *)
(* channel.receiveSession                                               *)

Lemma ureceive_spec : forall ins c x c' r e,
  ureceive c_repaired c ins = (x, c', r, e) ->
  quiet e /\ match x with URSes s => takes_to e s | URPanic => False | _ => True end.
Proof.
  induction ins as [|i ins IH]; intros c x c' r e H.
  - cbn [ureceive] in H.
    destruct (uc_state c); try destruct (negb (uc_conn c));
      inversion H; subst; split; auto using quiet_nil.
  - cbn [ureceive fc_regress c_repaired] in H.
    destruct (uc_state c); try destruct (negb (uc_conn c));
      destruct i as [s| | |];
      try destruct (Nat.ltb (step_of (vs_state s)) (step_of SEstablished));
      try (match type of H with context [ureceive c_repaired c ins] =>
             destruct (ureceive c_repaired c ins) as [[[x0 c0] r0] e0] eqn:E;
             apply IH in E; destruct E as [Q T] end);
      inversion H; subst; split;
      auto using quiet_nil, quiet_took, quiet_data, takes_single.
Qed.

(* ------------------------------------------------------------------ *)
(* receiveSessionFromServer                                             *)

Definition got (e : list cev) (c' : cchan) (s : vses) : Prop :=
  takes_to e s /\
  uc_sid c' = vs_id s /\
  uc_state c' = vs_state s /\
  (vs_state s = SEstablished -> uc_local c' = vs_to s /\ uc_remote c' = vs_from s) /\
  (terminal (vs_state s) = true -> closed_in e = true /\ uc_conn c' = false).

Lemma receive_spec : forall c ins x c' r e,
  receive_from_server c_repaired c ins = (x, c', r, e) ->
  quiet e /\ match x with RGot s => got e c' s | RPanicked => False | _ => True end.
Proof.
  intros c ins x c' r e H. unfold receive_from_server in H.
  destruct (ureceive c_repaired c ins) as [[[x0 c0] r0] e0] eqn:E.
  apply ureceive_spec in E. destruct E as [Q T].
  destruct x0 as [s| | |].
  - destruct (Nat.ltb (step_of (vs_state s)) (step_of (uc_state c0))).
    + cbn [fc_regress c_repaired] in H. inversion H; subst. split; auto.
    + cbn [upd uc_conn uc_state uc_sid uc_local uc_remote uc_rcv] in H.
      destruct (terminal (vs_state s)) eqn:Ht.
      * destruct (uc_conn c0) eqn:Hc; inversion H; subst.
        -- split; [apply takes_quiet with s; apply takes_closed; exact T|].
           unfold got. cbn [upd uc_conn uc_state uc_sid uc_local uc_remote uc_rcv].
           split; [apply takes_closed; exact T|].
           split; [reflexivity|]. split; [reflexivity|]. split.
           ++ intros Hs. rewrite Hs in Ht. discriminate Ht.
           ++ intros _. split; [|reflexivity].
              rewrite closed_in_app. apply orb_true_r.
        -- split; auto.
      * inversion H; subst.
        split; [apply takes_quiet with s; exact T|].
        unfold got. cbn [upd uc_conn uc_state uc_sid uc_local uc_remote uc_rcv].
        split; [exact T|].
        split; [reflexivity|]. split; [reflexivity|]. split.
        -- intros Hs. rewrite Hs. cbn. split; reflexivity.
        -- intros Hx. rewrite Ht in Hx. discriminate Hx.
  - inversion H; subst. split; auto.
  - inversion H; subst. split; auto.
  - destruct T.
Qed.

(* ------------------------------------------------------------------ *)
(* the walk over a prefix                                               *)

(* the prefix passes the checks of [walk] and leaves it in (f, l, fr) *)
Definition wstate (pre : list cev) (f : bool) (l : option vses) (fr : bool) : Prop :=
  forall b, walk (pre ++ b) true None false = walk b f l fr.

Lemma wstate_app : forall pre e f l fr f' l' fr',
  wstate pre f l fr ->
  (forall b, walk (e ++ b) f l fr = walk b f' l' fr') ->
  wstate (pre ++ e) f' l' fr'.
Proof. intros pre e f l fr f' l' fr' H1 H2 b. rewrite <- app_assoc. rewrite H1. apply H2. Qed.

Lemma wstate_true : forall pre f l fr, wstate pre f l fr -> walk pre true None false = true.
Proof. intros pre f l fr H. rewrite <- (app_nil_r pre). rewrite H. reflexivity. Qed.

Lemma wstate_quiet : forall pre e f l fr,
  wstate pre f l fr -> quiet e -> walk (pre ++ e) true None false = true.
Proof. intros pre e f l fr H Q. rewrite H. apply Q. Qed.

(* the very first envelope is exempt *)
Lemma wstate_first : forall u enc, us_cred u = None -> wstate [USent u enc] false None false.
Proof. intros u enc Hc b. simpl. rewrite Hc. reflexivity. Qed.

(* an envelope without credentials echoing the latest id *)
Lemma wstate_sent : forall pre s fr u enc,
  wstate pre false (Some s) fr -> us_id u = vs_id s -> us_cred u = None ->
  wstate (pre ++ [USent u enc]) false (Some s) false.
Proof.
  intros pre s fr u enc W Hid Hc. apply wstate_app with (1 := W). intros b.
  simpl. rewrite Hid, Hc, String.eqb_refl. reflexivity.
Qed.

(* credentials as the direct answer to an authentication request *)
Lemma wstate_cred : forall pre s u enc,
  wstate pre false (Some s) true -> us_id u = vs_id s ->
  state_eqb (vs_state s) SAuthenticating = true ->
  wstate (pre ++ [USent u enc]) false (Some s) false.
Proof.
  intros pre s u enc W Hid Ha. apply wstate_app with (1 := W). intros b.
  simpl. rewrite Hid, Ha, String.eqb_refl. destruct (us_cred u); reflexivity.
Qed.

(* ------------------------------------------------------------------ *)
(* the invariant between the stages                                     *)

Record Inv (pre : list cev) (c : cchan) (s : vses) : Prop := {
  inv_walk : wstate pre false (Some s) true;
  inv_last : forall b, last_ses (pre ++ b) None = last_ses b (Some s);
  inv_sid : uc_sid c = vs_id s;
  inv_state : uc_state c = vs_state s;
  inv_est : vs_state s = SEstablished -> uc_local c = vs_to s /\ uc_remote c = vs_from s;
  inv_term : terminal (vs_state s) = true -> closed_in pre = true /\ uc_conn c = false
}.

Lemma inv_after : forall pre0 l fr e c' s,
  wstate pre0 false l fr -> got e c' s -> Inv (pre0 ++ e) c' s.
Proof.
  intros pre0 l fr e c' s W (T & Hid & Hst & Hest & Hterm). destruct T as [TW TL].
  constructor; auto.
  - apply wstate_app with (1 := W). intros b. apply TW.
  - intros b. rewrite <- app_assoc, last_ses_app. apply TL.
  - intros Ht. destruct (Hterm Ht) as [Hc Hn]. split; auto.
    rewrite closed_in_app, Hc. apply orb_true_r.
Qed.

(* ------------------------------------------------------------------ *)
(* the predicate on the three kinds of ending                           *)

Lemma c08_err : forall t c, walk t true None false = true -> c08_spec (t, c, CErr) = true.
Proof. intros t c H. unfold c08_spec. rewrite H. reflexivity. Qed.

Lemma c08_blocked : forall t c, walk t true None false = true -> c08_spec (t, c, CBlocked) = true.
Proof. intros t c H. unfold c08_spec. rewrite H. reflexivity. Qed.

Lemma c08_ret : forall t c s, Inv t c s -> c08_spec (t, c, CRet s) = true.
Proof.
  intros t c s I. unfold c08_spec.
  rewrite (wstate_true _ _ _ _ (inv_walk _ _ _ I)).
  assert (HL : last_ses t None = Some s).
  { rewrite <- (app_nil_r t). rewrite (inv_last _ _ _ I). reflexivity. }
  rewrite HL.
  rewrite state_eqb_refl, String.eqb_refl, !Nat.eqb_refl.
  cbn [andb].
  assert (HE : (if state_eqb (vs_state s) SEstablished
                then state_eqb (uc_state c) SEstablished && String.eqb (uc_sid c) (vs_id s) &&
                     Nat.eqb (uc_local c) (vs_to s) && Nat.eqb (uc_remote c) (vs_from s)
                else true) = true).
  { destruct (state_eqb (vs_state s) SEstablished) eqn:He; [|reflexivity].
    apply state_eqb_eq in He.
    destruct (inv_est _ _ _ I He) as [Hl Hr].
    rewrite (inv_state _ _ _ I), He, (inv_sid _ _ _ I), Hl, Hr.
    rewrite String.eqb_refl, !Nat.eqb_refl. reflexivity. }
  rewrite HE. cbn [andb].
  destruct (terminal (vs_state s)) eqn:Ht; [|reflexivity].
  destruct (inv_term _ _ _ I Ht) as [Hc Hn]. rewrite Hc, Hn. reflexivity.
Qed.

(* ------------------------------------------------------------------ *)
(* channel.sendSession                                                  *)

Lemma usend_cases : forall c u evs ok,
  usend c u = (evs, ok) ->
  (ok = false /\ evs = []) \/ (ok = true /\ evs = [USent u (uc_enc c)]).
Proof.
  intros c u evs ok H. unfold usend in H.
  destruct (negb (uc_conn c)); [inversion H; auto|].
  destruct (terminal (uc_state c)); inversion H; auto.
Qed.

(* ------------------------------------------------------------------ *)
(* the authentication loop                                              *)

Lemma triple_inj : forall (A B C : Type) (a a' : A) (b b' : B) (c c' : C),
  (a, b, c) = (a', b', c') -> a = a' /\ b = b' /\ c = c'.
Proof. intros A B C a a' b b' c c' H. inversion H. auto. Qed.

Ltac inj H := apply triple_inj in H; destruct H as (<- & <- & <-).

Lemma cauth_ok : forall fuel conf c ses rt ins pre evs c' out,
  Inv pre c ses ->
  cauth_loop fuel c_repaired conf c ses rt ins = (evs, c', out) ->
  c08_spec (pre ++ evs, c', out) = true.
Proof.
  induction fuel as [|fuel IH]; intros conf c ses rt ins pre evs c' out I H.
  - cbn [cauth_loop] in H. inj H. rewrite app_nil_r.
    apply c08_err. apply (wstate_true _ _ _ _ (inv_walk _ _ _ I)).
  - cbn [cauth_loop] in H.
    destruct (state_eqb (vs_state ses) SAuthenticating) eqn:Ha; cbn [negb] in H.
    2:{ inj H. rewrite app_nil_r. apply c08_ret. exact I. }
    destruct (uc_conn c && state_eqb (uc_state c) SAuthenticating) eqn:Hg; cbn [negb] in H.
    2:{ inj H. rewrite app_nil_r.
        apply c08_err. apply (wstate_true _ _ _ _ (inv_walk _ _ _ I)). }
    destruct (cc_auth conf (vs_schemeopts ses) rt) as [scheme cred].
    match type of H with context [usend c ?u] =>
      destruct (usend c u) as [e1 ok] eqn:Hs;
      destruct (usend_cases _ _ _ _ Hs) as [[-> ->]|[-> ->]];
      assert (W1 : wstate (pre ++ [USent u (uc_enc c)]) false (Some ses) false)
        by (apply wstate_cred; [exact (inv_walk _ _ _ I)|exact (inv_sid _ _ _ I)|exact Ha])
    end; cbn [negb] in H.
    + inj H. rewrite app_nil_r.
      apply c08_err. apply (wstate_true _ _ _ _ (inv_walk _ _ _ I)).
    + destruct (receive_from_server c_repaired c ins) as [[[x c1] r1] e] eqn:Hr.
      apply receive_spec in Hr. destruct Hr as [Q G].
      destruct x as [ses'| | |].
      * destruct (cauth_loop fuel c_repaired conf c1 ses' (vs_round ses') r1) as [[evs' c''] out'] eqn:Hc.
        inj H.
        apply IH with (1 := inv_after _ _ _ _ _ _ W1 G) in Hc.
        rewrite <- !app_assoc in Hc. exact Hc.
      * inj H. rewrite app_assoc.
        apply c08_err. apply (wstate_quiet _ _ _ _ _ W1 Q).
      * inj H. rewrite app_assoc.
        apply c08_blocked. apply (wstate_quiet _ _ _ _ _ W1 Q).
      * destruct G.
Qed.

Lemma auth_ok : forall n conf c ses ins pre,
  Inv pre c ses ->
  c08_spec (let '(e, c', out) := cauth_loop n c_repaired conf c ses None ins in (pre ++ e, c', out)) = true.
Proof.
  intros n conf c ses ins pre I.
  destruct (cauth_loop n c_repaired conf c ses None ins) as [[e c'] out] eqn:H.
  apply cauth_ok with (1 := I) (2 := H).
Qed.

(* ------------------------------------------------------------------ *)
(* EstablishSession                                                     *)

(* a segment that [walk] passes over without any effect *)
Definition inert (e : list cev) : Prop := forall f l fr b, walk (e ++ b) f l fr = walk b f l fr.

Lemma inert_nil : inert [].
Proof. intros f l fr b. reflexivity. Qed.
Lemma inert_comp : forall k ok, inert [USetComp k ok].
Proof. intros k ok f l fr b. reflexivity. Qed.
Lemma inert_enc : forall k ok, inert [USetEnc k ok].
Proof. intros k ok f l fr b. reflexivity. Qed.
Lemma inert_app : forall a b, inert a -> inert b -> inert (a ++ b).
Proof. intros a b Ha Hb f l fr d. rewrite <- app_assoc. rewrite Ha. apply Hb. Qed.

Theorem client_ok : forall (conf : cconf) (ins : list sin),
  c08_spec (cestablish c_repaired conf ins) = true.
Proof.
  intros conf ins. unfold cestablish.
  set (c0 := cchan0 conf).
  assert (Hs0 : usend c0 (mk_usent c0 SNew) = ([USent (mk_usent c0 SNew) (uc_enc c0)], true)) by reflexivity.
  rewrite Hs0. cbn [negb]. clear Hs0.
  set (u0 := mk_usent c0 SNew).
  assert (W0 : wstate [USent u0 (uc_enc c0)] false None false)
    by (apply wstate_first; reflexivity).
  (* startNewSession: the first envelope from the server *)
  destruct (receive_from_server c_repaired c0 ins) as [[[x1 c1] ins1] e1] eqn:R1.
  apply receive_spec in R1. destruct R1 as [Q1 G1].
  destruct x1 as [ses| | |].
  2:{ apply c08_err. apply (wstate_quiet _ _ _ _ _ W0 Q1). }
  2:{ apply c08_blocked. apply (wstate_quiet _ _ _ _ _ W0 Q1). }
  2:{ destruct G1. }
  assert (I1 := inv_after _ _ _ _ _ _ W0 G1).
  set (pre := [USent u0 (uc_enc c0)] ++ e1) in *.
  destruct (state_eqb (vs_state ses) SNegotiating) eqn:Hn.
  2:{ apply auth_ok. exact I1. }
  (* negotiateSession *)
  destruct (uc_conn c1 && state_eqb (uc_state c1) SNegotiating) eqn:Hg1; cbn [negb].
  2:{ apply c08_err. apply (wstate_true _ _ _ _ (inv_walk _ _ _ I1)). }
  match goal with |- context [usend c1 ?u] =>
    destruct (usend c1 u) as [e2 ok2] eqn:S2;
    destruct (usend_cases _ _ _ _ S2) as [[-> ->]|[-> ->]];
    assert (W2 : wstate (pre ++ [USent u (uc_enc c1)]) false (Some ses) false)
      by (apply wstate_sent with (fr := true);
          [exact (inv_walk _ _ _ I1)|exact (inv_sid _ _ _ I1)|reflexivity]);
    clear S2
  end; cbn [negb].
  { rewrite app_nil_r. apply c08_err. apply (wstate_true _ _ _ _ (inv_walk _ _ _ I1)). }
  match type of W2 with wstate (pre ++ ?l) _ _ _ => set (e2 := l) in * end.
  destruct (receive_from_server c_repaired c1 ins1) as [[[x2 c2] ins2] e3] eqn:R2.
  apply receive_spec in R2. destruct R2 as [Q2 G2].
  rewrite !(app_assoc pre e2 e3).
  destruct x2 as [ses2| | |].
  2:{ apply c08_err. apply (wstate_quiet _ _ _ _ _ W2 Q2). }
  2:{ apply c08_blocked. apply (wstate_quiet _ _ _ _ _ W2 Q2). }
  2:{ destruct G2. }
  assert (I2 := inv_after _ _ _ _ _ _ W2 G2).
  set (pre2 := (pre ++ e2) ++ e3) in *.
  (* the confirmed options are applied: nothing the walk looks at *)
  match goal with |- c08_spec (let (p, okA) := ?A in _) = true =>
    assert (HA : inert (fst (fst A)));
    [|destruct A as [[e4 c3] okA]; cbn [fst] in HA]
  end.
  { destruct (state_eqb (vs_state ses2) SNegotiating); [|apply inert_nil].
    destruct (negb (String.eqb (vs_comp ses2) "") && negb (String.eqb (vs_comp ses2) (uc_comp c2)));
      cbn [fst snd].
    - destruct (set_comp (cc_kind conf) (uc_comp c2) (vs_comp ses2)); cbn [negb fst].
      + destruct (negb (String.eqb (vs_enc ses2) "") && negb (String.eqb (vs_enc ses2) (uc_enc c2))).
        * destruct (set_enc (cc_kind conf) (cc_tls_ok conf) (uc_enc c2) (vs_enc ses2)) as [oke enc'].
          cbn [fst]. apply inert_app; [apply inert_comp|apply inert_enc].
        * cbn [fst]. apply inert_comp.
      + apply inert_comp.
    - cbn [negb].
      destruct (negb (String.eqb (vs_enc ses2) "") && negb (String.eqb (vs_enc ses2) (uc_enc c2))).
      + destruct (set_enc (cc_kind conf) (cc_tls_ok conf) (uc_enc c2) (vs_enc ses2)) as [oke enc'].
        cbn [fst]. apply inert_enc.
      + cbn [fst]. apply inert_nil. }
  assert (W3 : wstate (pre2 ++ e4) false (Some ses2) true).
  { apply wstate_app with (1 := inv_walk _ _ _ I2). intros b. apply HA. }
  destruct okA; cbn [negb].
  2:{ apply c08_err. apply (wstate_true _ _ _ _ W3). }
  (* "Await for authentication options" *)
  destruct (receive_from_server c_repaired c3 ins2) as [[[x3 c4] ins3] e5] eqn:R3.
  apply receive_spec in R3. destruct R3 as [Q3 G3].
  rewrite !(app_assoc pre2 e4 e5).
  destruct x3 as [ses3| | |].
  2:{ apply c08_err. apply (wstate_quiet _ _ _ _ _ W3 Q3). }
  2:{ apply c08_blocked. apply (wstate_quiet _ _ _ _ _ W3 Q3). }
  2:{ destruct G3. }
  apply auth_ok. apply (inv_after _ _ _ _ _ _ W3 G3).
Qed.

Print Assumptions client_ok.
