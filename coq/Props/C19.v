(* C19 — The client recovers from any unrequested loss of its session.
   Statements only; proofs are in Life/ClientFacts.v and Corr/C19Facts.v. *)
From Coq Require Import List Bool Arith.
Import ListNotations.
From Lime Require Import Base.Res Life.Client Life.ClientFacts Corr.C19 Corr.C19Facts.

(* The repaired channelOK: a channel that is reused has a live receiver. *)
Theorem C19_reusable_is_live : forall c, usable true c = true -> live c = true.
Proof. exact usable_is_live. Qed.
Print Assumptions C19_reusable_is_live.

(* For every fault sequence, at any moment, and every schedule of the listener and the
   application goroutine: the listener never performs a busy iteration (a dispatch loop
   that returns at once leaving everything as it was). *)
Theorem C19_never_busy : forall (sched : list clabel), spins (crun true cinit sched) = 0.
Proof. intros sched. rewrite never_spins. reflexivity. Qed.
Print Assumptions C19_never_busy.

(* A send operation reports success only for an envelope written to the current session,
   which is established and connected at that moment (either code). *)
Theorem C19_send_truthful : forall fixed s sid,
  In (SendOk sid) (evs (cstep fixed s LApp)) -> ~ In (SendOk sid) (evs s) ->
  exists c, cur s = Some c /\ established c = true /\ c_sid c = sid.
Proof. exact send_ok_truthful. Qed.
Print Assumptions C19_send_truthful.

(* Recovery: after ANY history of faults (server finish/fail, EOF, reset, undecodable or
   non-envelope input, oversized envelope, regressing session envelope), operations and
   reachability changes, in any interleaving - if a server is reachable, a few fair rounds of
   the two goroutines leave the client listening on a live channel of a fresh or still valid
   session, with no operation pending and the build lock free; and it stays so while nothing
   else happens. *)
Theorem C19_recovers : forall (history : list clabel),
  reach (crun true cinit history) = true ->
  recovered (settle true (crun true cinit history)) = true.
Proof. exact recovers_from_any_history. Qed.
Print Assumptions C19_recovers.

Theorem C19_recovered_is_stable : forall s l,
  recovered s = true -> (match l with LFault _ | LReach _ | LAppStart => False | _ => True end) ->
  cstep true s l = s.
Proof. exact recovered_stable. Qed.
Print Assumptions C19_recovered_is_stable.

(* The build lock is held exactly by the goroutine that is building, in every reachable state
   of either code: concurrent operations never build two channels at once. *)
Theorem C19_one_builder : forall fixed (sched : list clabel), lock_ok (crun fixed cinit sched) = true.
Proof. exact reachable_lock_ok. Qed.
Print Assumptions C19_one_builder.

(* Under the fair schedule of the correspondence the model is, for every sequence of actions,
   observationally equal to the specification that only knows "holds a live session" and
   "a server is reachable": every fault with a reachable server is followed by exactly one
   fresh session, sends succeed on it, pushed envelopes reach the handlers, the listener
   never spins; hence the executable check holds of the model on every case. *)
Theorem C19_model_is_spec : forall c : case, model c = spec c.
Proof. exact model_spec. Qed.
Print Assumptions C19_model_is_spec.

Theorem C19_model_meets_check : forall c : case, check c (model c) = true.
Proof. exact model_meets_check. Qed.
Print Assumptions C19_model_meets_check.

(* The tree as found: after undecodable input the dead channel is still "reusable" - the client
   is deaf, does not recover, and its listener goroutine spins without bound. *)
Theorem C19_as_found_refuted :
  (let s := crun false cinit deaf_history in
   cur_usable false s = true /\ cur_live s = false /\ recovered (settle false s) = false) /\
  (forall n, spins (crun false cinit (deaf_history ++ repeat LListener n)) = n).
Proof. exact (conj as_found_deaf as_found_busy_loop). Qed.
Print Assumptions C19_as_found_refuted.

(* non-vacuity: faults while an operation is between its channel lookup and its write *)
Example C19_example :
  let s := crun true cinit [LListener; LListener; LListener; LAppStart; LApp; LFault FReset; LApp; LListener;
                            LListener; LListener; LListener; LReach false; LFault FEof; LListener; LListener; LListener] in
  evs s = [Built 0; ListenBlock 0; SendOk 0; ListenRet; Built 1; ListenBlock 1; ListenRet; BuildFail] /\ lock s = Some Listener.
Proof. vm_compute. split; reflexivity. Qed.
