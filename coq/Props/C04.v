(* C04 — Established channels deliver every envelope exactly once, intact, in order.  Statements only.
   Partial: see the level note (schedules are explicit interleavings of atomic sends; the Go memory
   model, TLS and WebSocket framing are outside the model). *)
From Coq Require Import List Arith Bool.
Import ListNotations.
From Lime Require Import Chan.Pipeline Chan.PipelineFacts.

(* For every workload (any number of sender goroutines, any envelopes), every
   buffer size including zero, and every schedule: per kind, what was sent is
   what was delivered, followed by what is buffered, followed by what is in flight. *)
Theorem C04_conserved : forall (E : Type) (kind : E -> nat) (cap : nat) (work : list (list E)) (ls : list plabel),
  conserved E kind (prun E kind cap (pinit work) ls).
Proof. exact pipeline_conserved. Qed.
Print Assumptions C04_conserved.

(* Hence what consumers saw of a kind is a prefix of what was sent of that kind, in
   sending order: exactly once, in order, nothing that was not sent ... *)
Theorem C04_delivered_is_prefix_of_sent : forall (E : Type) (kind : E -> nat) cap work ls k,
  let s := prun E kind cap (pinit work) ls in
  exists rest, of_kind E kind k (sent s) = delivered s k ++ rest.
Proof. exact delivered_prefix. Qed.
Print Assumptions C04_delivered_is_prefix_of_sent.

(* ... and once nothing is buffered or in flight, everything sent has been delivered. *)
Theorem C04_quiescent_all_delivered : forall (E : Type) (kind : E -> nat) cap work ls k,
  let s := prun E kind cap (pinit work) ls in
  wire s = [] -> buf s k = [] -> delivered s k = of_kind E kind k (sent s).
Proof. exact quiescent_all_delivered. Qed.
Print Assumptions C04_quiescent_all_delivered.

(* No deadlock through zero- or one-slot buffers while consumers are willing. *)
Theorem C04_progress : forall (E : Type) (kind : E -> nat) cap (s : pst E),
  wire s <> [] -> exists l, (l = RecvMove \/ l = Handoff \/ exists k, l = Dispatch k) /\ pstep E kind cap s l <> s.
Proof. exact pipeline_progress. Qed.
Print Assumptions C04_progress.

Example C04_example :
  let s := prun nat (fun e => e mod 2) 0 (pinit [[1; 2; 3]; [4]]) [Send 0; Send 1; Handoff; Send 0; Handoff; Handoff; Send 0; Handoff] in
  delivered s 1 = [1; 3] /\ delivered s 0 = [4; 2] /\ wire s = [].
Proof. repeat split. Qed.
