(* C09 — Only offered transport options are negotiated and both ends apply them
   (server half; the client half is Model C, see C08).  Statements only. *)
From Coq Require Import List Bool Arith String.
Import ListNotations.
From Lime Require Import Hs.Types Hs.Server Hs.Monitor Hs.ServerFacts Hs.MonitorFacts Props.HsCommon.
From Lime Require Import Hs.Client Hs.ClientEnc Hs.ClientEncFacts Hs.Pipelined Hs.Interop Hs.InteropFacts Hs.Builder Hs.ClientBuilder Hs.InteropBuilt.
Open Scope string_scope.
Open Scope list_scope.

(* The monitor's rules for negotiating envelopes, SetEnc and the enc fields are
   C09: an offer is exactly configured-and-supported; a confirmation repeats
   the pair the peer chose from the offer; SetEncryption follows the
   confirmation of that option; every later envelope is written, and every
   callback runs, under the encryption that must be in force. *)
Theorem C09_monitor_accepts : forall (conf : sconf) (o : oracle) (ins : list cin),
  let r := handle_channel s_repaired conf o ins in
  accepts conf o (rr_trace r) (rr_handler_ended r) = true /\ rr_outcome r <> Panicked.
Proof. exact server_accepts. Qed.
Print Assumptions C09_monitor_accepts.

(* the offer is always a sub-list of what is configured and of what the transport supports *)
Theorem C09_offer_is_configured_and_supported : forall conf x,
  mem x (neg_enc conf) = true -> mem x (sc_enc conf) = true /\ mem x (supported_enc (sc_kind conf)) = true.
Proof. intros conf x. apply mem_intersect. Qed.
Print Assumptions C09_offer_is_configured_and_supported.

(* The client half, for arbitrary selectors and authenticator and EVERY server script: each
   envelope the client writes goes out under the encryption its SetEncryption calls have put in
   force; once the server has confirmed (after the client's choice) an encryption other than the
   one in force, the client switches to exactly that one before it writes anything else - in
   particular before any credentials; after a failed switch it writes nothing more. *)
Theorem C09_client_applies_confirmed_pair : forall (conf : cconf) (ins : list sin),
  enc_discipline (cc_kind conf) (cc_tls_ok conf) (fst (fst (cestablish c_repaired conf ins))) = true.
Proof. exact client_enc_discipline. Qed.
Print Assumptions C09_client_applies_confirmed_pair.

(* non-vacuity: a negotiated upgrade, credentials only seen under tls *)
Example C09_example :
  let conf := {| sc_comp := ["none"]; sc_enc := ["none"; "tls"]; sc_schemes := ["plain"]; sc_kind := TTcp true;
                 sc_tls_ok := true; sc_sid := "SID" |} in
  let choice := CSes {| cs_id := "SID"; cs_state := SNegotiating; cs_enc := "tls"; cs_comp := "none";
                        cs_scheme := ""; cs_cred := None; cs_from := 0 |} in
  In (AuthCall 1 "plain" (Some 1) "tls") (rr_trace (handle_channel s_repaired conf w_oracle [w_new ""; choice; w_auth])).
Proof. vm_compute. tauto. Qed.

(* SetEncryption itself (all transports): a successful call leaves exactly the requested option in force - so
   after the client applied a confirmation (theorem above) the option in force is the confirmed one. *)
Theorem C09_a_successful_switch_leaves_the_requested_option_in_force : forall k tls_ok cur e enc',
  set_enc k tls_ok cur e = (true, enc') -> enc' = e.
Proof. exact set_enc_ok_is_requested. Qed.
Print Assumptions C09_a_successful_switch_leaves_the_requested_option_in_force.

(* the tree as found: asked for an encryption it does not know, the TCP transport ran the TLS handshake,
   reported success and was under "tls" *)
Theorem C09_as_found_unknown_option_refuted :
  set_enc_as_found (TTcp true) true "none" "rot13" = (true, "tls").
Proof. exact set_enc_as_found_takes_unknown_for_tls. Qed.
Print Assumptions C09_as_found_unknown_option_refuted.

(* Pipelined peers (Hs/Pipelined.v): an envelope written in the same segment as an input after which the server
   switched the encryption was received in clear and is discarded with the old decoder, whatever it is; and
   whatever the peer glues together, the server's run over what it does get to see obeys every rule above. *)
Theorem C09_cleartext_behind_a_switch_is_discarded : forall conf o acc i r,
  switched_after_last conf o acc = true -> effective conf o acc ((true, i) :: r) = effective conf o acc r.
Proof. exact glued_behind_switch_dropped. Qed.
Print Assumptions C09_cleartext_behind_a_switch_is_discarded.

Theorem C09_pipelined_runs_accepted : forall conf o (g : list (bool * cin)),
  let r := handle_channel s_repaired conf o (effective conf o [] g) in
  accepts conf o (rr_trace r) (rr_handler_ended r) = true /\ rr_outcome r <> Panicked.
Proof. exact pipelined_accepts. Qed.
Print Assumptions C09_pipelined_runs_accepted.

(* non-vacuity: credentials of identity 2 glued in clear behind the selection of tls are never looked at;
   identity 1, presented under tls, is *)
Example C09_pipelined_example :
  let conf := {| sc_comp := ["none"]; sc_enc := ["tls"]; sc_schemes := ["plain"]; sc_kind := TTcp true;
                 sc_tls_ok := true; sc_sid := "SID" |} in
  let choice := CSes {| cs_id := "SID"; cs_state := SNegotiating; cs_enc := "tls"; cs_comp := "none";
                        cs_scheme := ""; cs_cred := None; cs_from := 0 |} in
  let auth n := CSes {| cs_id := "SID"; cs_state := SAuthenticating; cs_enc := ""; cs_comp := "";
                        cs_scheme := "plain"; cs_cred := Some n; cs_from := n |} in
  let o := {| o_auth := fun _ _ _ _ => ARole; o_reg := fun f => RNode f |} in
  let ins := effective conf o [] [(false, w_new ""); (false, choice); (true, auth 2); (false, auth 1)] in
  ins = [w_new ""; choice; auth 1] /\
  In (AuthCall 1 "plain" (Some 1) "tls") (rr_trace (handle_channel s_repaired conf o ins)).
Proof. vm_compute. split; [reflexivity|tauto]. Qed.

(* Both ends together (Hs/Interop.v: Models B and C connected the way the connection connects them).  When the
   client's configuration fits the server's - same kind of transport, selectors that pick offered options the
   transport can switch to, an authenticator whose answer the server's callbacks accept - there is a joint run in
   which the server's Established callback runs, the client is handed an established session, both hold the same
   session id, the client is the node the server registered, and both ends are under the same encryption: the one
   the client selected from the offer (the initial one where the server does not negotiate). *)
Theorem C09_both_ends_apply_the_selected_option : forall wire snode sc o cc n enc,
  fits sc o cc n enc ->
  exists cins, consistent wire snode sc o cc cins /\ agree snode (ends_of wire snode sc o cc cins) n enc.
Proof. exact fitting_ends_establish_and_agree. Qed.
Print Assumptions C09_both_ends_apply_the_selected_option.

(* non-vacuity: a server offering none and tls, a client that prefers tls; and the joint run of the theorem is the
   one that comes about in time, starting from silence *)
Example C09_both_ends_example :
  let sc := {| sc_comp := ["none"]; sc_enc := ["none"; "tls"]; sc_schemes := ["plain"; "guest"]; sc_kind := TTcp true;
               sc_tls_ok := true; sc_sid := "SID" |} in
  let o := {| o_auth := fun _ s c _ => if String.eqb s "plain" then ARole else AUnknown; o_reg := fun _ => RNode 5 |} in
  let cc := {| cc_comp_sel := fun _ => "none"; cc_enc_sel := fun l => if mem "tls" l then "tls" else "none";
               cc_auth := fun _ _ => ("plain", 1); cc_identity := 1; cc_kind := TTcp true; cc_tls_ok := true |} in
  fits sc o cc 5 "tls" /\
  agree 9 (ends_of true 9 sc o cc (play true 9 sc o cc 6 [])) 5 "tls" /\
  consistent true 9 sc o cc (play true 9 sc o cc 6 []).
Proof.
  cbv zeta. split; [|split].
  - unfold fits. cbn. repeat split; try reflexivity; try discriminate.
    + exists "plain", 1. repeat split; reflexivity.
    + left; reflexivity.
    + right; reflexivity.
  - vm_compute. repeat split; reflexivity.
  - vm_compute. reflexivity.
Qed.

(* ... and for the configurations the builders make (Models J and K, Hs/InteropBuilt.v): a server built with
   EnableGuestAuthentication and a client built with GuestAuthentication, resp. EnablePlainAuthentication(f) and
   PlainAuthentication(password) where f accepts, over TCP with TLS configured at both ends and every other
   setting left at its default: one session, under tls at both ends. *)
Theorem C09_built_guest_pair_is_under_tls : forall wire snode fs reg id n,
  reg id = RNode n -> is_uuid id = true ->
  let sc := built_server_conf [BGuest; BBuild] (TTcp true) true in
  let o := built_server_oracle fs [BGuest; BBuild] reg in
  let cc := built_client [KGuest] (TTcp true) true id in
  exists cins, consistent wire snode sc o cc cins /\ agree snode (ends_of wire snode sc o cc cins) n "tls".
Proof. exact guest_pair_establishes_under_tls. Qed.
Print Assumptions C09_built_guest_pair_is_under_tls.

Theorem C09_built_plain_pair_is_under_tls : forall wire snode fs reg id n f pw,
  reg id = RNode n -> pw < 1000 -> f_plain fs f id pw 0 = ARole ->
  let sc := built_server_conf [BPlain f; BBuild] (TTcp true) true in
  let o := built_server_oracle fs [BPlain f; BBuild] reg in
  let cc := built_client [KPlain pw] (TTcp true) true id in
  exists cins, consistent wire snode sc o cc cins /\ agree snode (ends_of wire snode sc o cc cins) n "tls".
Proof. intros wire snode fs reg id n f pw Hreg. exact (plain_pair_establishes_under_tls wire snode fs reg id n Hreg f pw). Qed.
Print Assumptions C09_built_plain_pair_is_under_tls.
