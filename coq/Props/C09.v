(* C09 — Only offered transport options are negotiated and both ends apply them
   (server half; the client half is Model C, see C08).  Statements only. *)
From Coq Require Import List Bool Arith String.
Import ListNotations.
From Lime Require Import Hs.Types Hs.Server Hs.Monitor Hs.ServerFacts Hs.MonitorFacts Props.HsCommon.
From Lime Require Import Hs.Client Hs.ClientEnc Hs.ClientEncFacts.
Open Scope string_scope.
Open Scope list_scope.

(* The monitor's rules for negotiating envelopes, SetEnc and the enc fields are
   C09: an offer is exactly configured-and-supported; a confirmation repeats
   the pair the peer chose from the offer; SetEncryption follows the
   confirmation of that option; every later envelope is written, and every
   callback runs, under the encryption that must be in force. *)
Theorem C09_monitor_accepts : forall (conf : sconf) (o : oracle) (ins : list cin),
  let r := handle_channel s_repaired conf o ins in
  accepts conf o (rr_trace r) (rr_handler_ended r) = true /\ rr_outcome r <> Panicked.
Proof. exact server_accepts. Qed.
Print Assumptions C09_monitor_accepts.

(* the offer is always a sub-list of what is configured and of what the transport supports *)
Theorem C09_offer_is_configured_and_supported : forall conf x,
  mem x (neg_enc conf) = true -> mem x (sc_enc conf) = true /\ mem x (supported_enc (sc_kind conf)) = true.
Proof. intros conf x. apply mem_intersect. Qed.
Print Assumptions C09_offer_is_configured_and_supported.

(* The client half, for arbitrary selectors and authenticator and EVERY server script: each
   envelope the client writes goes out under the encryption its SetEncryption calls have put in
   force; once the server has confirmed (after the client's choice) an encryption other than the
   one in force, the client switches to exactly that one before it writes anything else - in
   particular before any credentials; after a failed switch it writes nothing more. *)
Theorem C09_client_applies_confirmed_pair : forall (conf : cconf) (ins : list sin),
  enc_discipline (cc_kind conf) (cc_tls_ok conf) (fst (fst (cestablish c_repaired conf ins))) = true.
Proof. exact client_enc_discipline. Qed.
Print Assumptions C09_client_applies_confirmed_pair.

(* non-vacuity: a negotiated upgrade, credentials only seen under tls *)
Example C09_example :
  let conf := {| sc_comp := ["none"]; sc_enc := ["none"; "tls"]; sc_schemes := ["plain"]; sc_kind := TTcp true;
                 sc_tls_ok := true; sc_sid := "SID" |} in
  let choice := CSes {| cs_id := "SID"; cs_state := SNegotiating; cs_enc := "tls"; cs_comp := "none";
                        cs_scheme := ""; cs_cred := None; cs_from := 0 |} in
  In (AuthCall 1 "plain" (Some 1) "tls") (rr_trace (handle_channel s_repaired conf w_oracle [w_new ""; choice; w_auth])).
Proof. vm_compute. tauto. Qed.
