(* C16 — Inbound envelope size is bounded by the read limit.  Statements only. *)
From Coq Require Import List Arith Bool.
Import ListNotations.
From Lime Require Import Tcp.Reader Tcp.ReaderFacts.

(* (a) no Receive takes more than the limit from the connection, for every limit,
   stream and read plan, from every state whose budget is within the limit
   (which every reachable state is) *)
Theorem C16_receive_bounded : forall limit sizes st plan r st' p' taken,
  budget_ok limit st -> receive limit sizes st plan = (r, st', p', taken) ->
  taken <= limit /\ budget_ok limit st'.
Proof. exact receive_bounded. Qed.
Print Assumptions C16_receive_bounded.

(* (b) the read-ahead left by a successful Receive is at most one limit (it is part
   of `good`, preserved by C12's theorem), so an envelope above twice the limit
   is never returned - the Receive fails instead and, the error being sticky,
   so does every later one *)
Theorem C16_oversized_never_accepted : forall limit sizes st plan r st' p' taken,
  Forall (fun s => 1 <= s) sizes -> good limit sizes st -> rs_next st < length sizes ->
  2 * limit + 1 < nth (rs_next st) sizes 0 ->
  receive limit sizes st plan = (r, st', p', taken) ->
  forall i, r <> RGotFrame i.
Proof. exact oversized_never_accepted. Qed.
Print Assumptions C16_oversized_never_accepted.

(* (c) an envelope within the limit is never rejected, whatever preceded it on
   the connection and however the stream is fragmented or coalesced, as long as
   the connection itself behaves (chunks of at least one byte, stalls) *)
Theorem C16_small_never_rejected : forall limit sizes st plan r st' p' taken,
  Forall (fun s => 1 <= s) sizes -> good limit sizes st -> rs_next st < length sizes ->
  nth (rs_next st) sizes 0 <= limit -> plan_benign plan = true ->
  receive limit sizes st plan = (r, st', p', taken) -> r <> RError.
Proof. exact small_frame_never_rejected. Qed.
Print Assumptions C16_small_never_rejected.

(* the initial state is good, and goodness is preserved (C12_receive_next_frame_or_sticky_error) *)
Theorem C16_initial_state_good : forall limit sizes, good limit sizes (rinit limit).
Proof. exact good_init. Qed.
Print Assumptions C16_initial_state_good.

(* the example of the property text: limit+200 refused first, accepted after a coalesced predecessor *)
Example C16_example :
  fst (receives 1000 [1200] (rinit 1000) [RChunk 1000; RChunk 1000] 1) = [(RError, 1000)] /\
  fst (receives 1000 [300; 1200] (rinit 1000) [RChunk 1000; RChunk 1000] 2) = [(RGotFrame 0, 1000); (RGotFrame 1, 500)].
Proof. split; reflexivity. Qed.
