(* C11 — Replies built from an envelope are correctly correlated and addressed.  Statements only. *)
From Coq Require Import List Bool Ascii String ZArith.
Import ListNotations.
From Lime Require Import Base.Str Base.Res Base.Json Codec.Types Codec.TextForms Codec.Doc Codec.Envelope
  Codec.EnvelopeFacts Codec.Builders Codec.BuildersFacts Corr.Codec Corr.C11 Corr.C11Facts.
Open Scope string_scope.

(* For every request (any id, any from/pp/to combination, any method, any
   resource) the three response builders yield a response with the request's
   id and method, whose origin is the request's destination and whose
   destination is the request's sender (pp when present, otherwise from), with
   the stated status / reason / resource and resource type, and which is a
   valid envelope. *)
Theorem C11_success : forall cx q, wf_request q = true ->
  let r := success_response repaired q in
  e_id (c_env (rs_cmd r)) = e_id (c_env (rq_cmd q)) /\ c_method (rs_cmd r) = c_method (rq_cmd q) /\
  e_from (c_env (rs_cmd r)) = e_to (c_env (rq_cmd q)) /\
  e_to (c_env (rs_cmd r)) = expected_sender (c_env (rq_cmd q)) /\
  rs_status r = "success" /\ wf_any cx (EResp r) = true.
Proof. exact success_response_ok. Qed.
Print Assumptions C11_success.

Theorem C11_success_with_resource : forall cx q d, wf_request q = true -> wf_doc d = true ->
  let r := success_response_with repaired q d in
  e_id (c_env (rs_cmd r)) = e_id (c_env (rq_cmd q)) /\ c_method (rs_cmd r) = c_method (rq_cmd q) /\
  e_from (c_env (rs_cmd r)) = e_to (c_env (rq_cmd q)) /\
  e_to (c_env (rs_cmd r)) = expected_sender (c_env (rq_cmd q)) /\
  rs_status r = "success" /\ c_resource (rs_cmd r) = Some d /\ c_type (rs_cmd r) = Some (doc_mediatype d) /\
  wf_any cx (EResp r) = true.
Proof. exact success_response_with_ok. Qed.
Print Assumptions C11_success_with_resource.

Theorem C11_failure : forall cx q rsn, wf_request q = true -> opt_all wf_reason rsn = true ->
  let r := failure_response repaired q rsn in
  e_id (c_env (rs_cmd r)) = e_id (c_env (rq_cmd q)) /\ c_method (rs_cmd r) = c_method (rq_cmd q) /\
  e_from (c_env (rs_cmd r)) = e_to (c_env (rq_cmd q)) /\
  e_to (c_env (rs_cmd r)) = expected_sender (c_env (rq_cmd q)) /\
  rs_status r = "failure" /\ rs_reason r = rsn /\ wf_any cx (EResp r) = true.
Proof. exact failure_response_ok. Qed.
Print Assumptions C11_failure.

Theorem C11_notification : forall cx m ev, wf_base (m_env m) = true -> valid_event ev = true ->
  let n := notification_for repaired m ev in
  e_id (nt_env n) = e_id (m_env m) /\ nt_event n = ev /\ e_from (nt_env n) = e_to (m_env m) /\
  e_to (nt_env n) = expected_sender (m_env m) /\ wf_any cx (ENot n) = true.
Proof. exact notification_ok. Qed.
Print Assumptions C11_notification.

Theorem C11_failed_notification : forall cx m rsn, wf_base (m_env m) = true -> opt_all wf_reason rsn = true ->
  let n := failed_notification_for repaired m rsn in
  e_id (nt_env n) = e_id (m_env m) /\ nt_event n = "failed" /\ nt_reason n = rsn /\
  e_from (nt_env n) = e_to (m_env m) /\ e_to (nt_env n) = expected_sender (m_env m) /\
  wf_any cx (ENot n) = true.
Proof. exact failed_notification_ok. Qed.
Print Assumptions C11_failed_notification.

(* valid envelopes survive the wire (C01), so every built reply does; the ping
   auto-reply is success_response_with q DPing *)
Theorem C11_built_reply_roundtrips : forall cx e, wf_any cx e = true ->
  exists j, encode e = Ok j /\ decode_any cx (S (edepth e)) j = Ok e.
Proof. exact built_reply_roundtrips. Qed.
Print Assumptions C11_built_reply_roundtrips.

(* the tree as found violates the property twice *)
Theorem C11_refuted_as_found :
  (exists e, sender as_found e <> expected_sender e) /\
  (exists q j, encode (EResp (ping_reply as_found q)) = Ok j /\
               decode_any {| cx_fix := as_found; cx_uri := fun s => Some s |} 4 j = Err).
Proof.
  split.
  - eexists. destruct sender_inverted_as_found as [H1 H2]. rewrite H1, H2. discriminate.
  - eexists. exact ping_reply_undecodable_as_found.
Qed.
Print Assumptions C11_refuted_as_found.

Theorem C11_model_meets_check : forall c : case, check (model_case c) = true.
Proof. exact model_meets_check. Qed.
Print Assumptions C11_model_meets_check.
