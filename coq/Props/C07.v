(* C07 — Server handshake follows the protocol order and fails closed.  Statements only. *)
From Coq Require Import List Bool Arith String.
Import ListNotations.
From Lime Require Import Hs.Types Hs.Server Hs.Monitor Hs.ServerFacts Hs.MonitorFacts Props.HsCommon.
Open Scope string_scope.
Open Scope list_scope.

(* The monitor's Sent / Took / Closed rules are C07: the stage automaton
   (offer, confirmation, authentication request, round trips only on request,
   established, one finished/failed), the single session id, a violating
   session envelope answered by failed+reason, silence afterwards, and the
   final condition "what failed or was aborted is closed".  The server never
   hits the state-regression guard. *)
Theorem C07_monitor_accepts : forall (conf : sconf) (o : oracle) (ins : list cin),
  let r := handle_channel s_repaired conf o ins in
  accepts conf o (rr_trace r) (rr_handler_ended r) = true /\ rr_outcome r <> Panicked.
Proof. exact server_accepts. Qed.
Print Assumptions C07_monitor_accepts.

(* consequences in terms of the trace *)
Theorem C07_single_session_id : forall conf o ins pre s enc post,
  rr_trace (handle_channel s_repaired conf o ins) = pre ++ Sent s enc :: post -> ss_id s = sc_sid conf.
Proof.
  intros conf o ins pre s enc post Ht.
  destruct (server_accepts conf o ins) as [Ha _]. cbn zeta in Ha. unfold accepts in Ha. rewrite Ht in Ha.
  destruct (mon_run conf o (m0 conf) (pre ++ Sent s enc :: post)) as [m'|] eqn:E; [|discriminate].
  apply (accepted_sent conf o _ _ _ _ _ E).
Qed.
Print Assumptions C07_single_session_id.

Theorem C07_silence_after_failed_or_finished : forall conf o ins pre s enc post,
  rr_trace (handle_channel s_repaired conf o ins) = pre ++ Sent s enc :: post -> terminal (ss_state s) = true ->
  forall e, In e post -> match e with Sent _ _ | Took _ | AuthCall _ _ _ _ => False | _ => True end.
Proof.
  intros conf o ins pre s enc post Ht Hs.
  destruct (server_accepts conf o ins) as [Ha _]. cbn zeta in Ha. unfold accepts in Ha. rewrite Ht in Ha.
  destruct (mon_run conf o (m0 conf) (pre ++ Sent s enc :: post)) as [m'|] eqn:E; [|discriminate].
  eapply accepted_nothing_after_terminal; eauto.
Qed.
Print Assumptions C07_silence_after_failed_or_finished.

(* the tree as found neither answered nor closed after a data envelope *)
Theorem C07_refuted_as_found :
  let r := handle_channel s_as_found w_conf_plain w_oracle [CData] in
  accepts w_conf_plain w_oracle (rr_trace r) (rr_handler_ended r) = false /\ ~ In Closed (rr_trace r).
Proof. split; [reflexivity|]. vm_compute. intros [H|[]]. discriminate. Qed.
Print Assumptions C07_refuted_as_found.
