(* Shared by the server-handshake property files: witnesses for the tree as found. *)
From Coq Require Import List Bool Arith String.
Import ListNotations.
From Lime Require Import Hs.Types Hs.Server Hs.Monitor.
Open Scope string_scope.

Definition w_conf_tls_only : sconf :=
  {| sc_comp := ["none"]; sc_enc := ["tls"]; sc_schemes := ["plain"]; sc_kind := TTcp true; sc_tls_ok := true; sc_sid := "SID" |}.
Definition w_conf_plain : sconf :=
  {| sc_comp := ["none"]; sc_enc := ["none"]; sc_schemes := ["plain"]; sc_kind := TTcp false; sc_tls_ok := true; sc_sid := "SID" |}.
Definition w_oracle : oracle := {| o_auth := fun _ _ _ _ => ARole; o_reg := fun f => RNode f |}.
Definition w_new (id : string) : cin :=
  CSes {| cs_id := id; cs_state := SNew; cs_enc := ""; cs_comp := ""; cs_scheme := ""; cs_cred := None; cs_from := 1 |}.
Definition w_auth : cin :=
  CSes {| cs_id := "SID"; cs_state := SAuthenticating; cs_enc := ""; cs_comp := ""; cs_scheme := "plain"; cs_cred := Some 1; cs_from := 1 |}.
