(* C05 — Command responses are matched to their requests.  Statements only. *)
From Coq Require Import List Arith Bool Permutation.
Import ListNotations.
From Lime Require Import Chan.CmdTable Chan.CmdTableFacts.

(* For every set of calls (command ids may collide), every sequence of
   responses (permuted, duplicated, unknown ids, late) and every schedule of
   the critical sections of processCommand, its deferred cleanup and the
   response matcher:
   (d) a registered, unanswered call keeps its table entry whatever other calls
       (same id or not) start, complete or are cancelled;
   (a) a call completes only with a response bearing its own id;
   (e) once every call has returned the table is empty;
   (b) every response taken from the wire is in exactly one place - the
       response stream, the matcher's hands, or one reply slot;
   and responses are taken in arrival order. *)
Theorem C05_cmd_table_ok : forall (ids : list nat) (responses : list resp) (ls : list label),
  let s := run true (init ids responses) ls in
  undisturbed s /\ own_response s /\ no_leak s /\
  Permutation (consumed s) (stream s ++ in_flight s ++ in_slots s) /\
  consumed s ++ incoming s = responses.
Proof. exact cmd_table_ok. Qed.
Print Assumptions C05_cmd_table_ok.

(* (c) by the definition of the matcher's step: a response whose id is in the table goes
   to that entry's slot, any other goes to the stream; and a rejected registration
   changes nothing but the rejected call *)
Theorem C05_reject_changes_nothing_else : forall s r q other,
  get (reqs s) r = Some q -> q_pc q = P0 -> lookup (q_id q) (table s) = Some other ->
  let s' := step true s (Reg r) in
  table s' = table s /\ stream s' = stream s /\ matcher s' = matcher s /\
  forall r', r' <> r -> get (reqs s') r' = get (reqs s) r'.
Proof.
  intros s r q other Hg Hp Hl s'. subst s'. cbn. rewrite Hg, Hp, Hl. cbn. repeat split.
  intros r' Hn. revert r' Hn Hg. generalize (reqs s) as l. revert r.
  induction r as [|r IH]; intros l r' Hn Hg; destruct l as [|x l]; cbn in *; try discriminate; auto.
  - destruct r'; [congruence|reflexivity].
  - destruct r'; [reflexivity|]. cbn. apply IH; auto.
Qed.
Print Assumptions C05_reject_changes_nothing_else.

(* liveness of the routing, from any reachable state: a call that has sent its request and whose response is the
   next one on the wire completes with exactly that response, whatever other calls (same id or not) did before *)
Theorem C05_answered_call_completes : forall ids responses ls r q x rest,
  let s := run true (init ids responses) ls in
  get (reqs s) r = Some q -> q_pc q = P2 -> q_slot q = None -> matcher s = M0 ->
  incoming s = x :: rest -> fst x = q_id q ->
  let s' := run true s [RLookup; RDeliver; TakeResp r] in
  exists q', get (reqs s') r = Some q' /\ q_res q' = RResp x /\ q_pc q' = P3.
Proof. exact answered_call_completes. Qed.
Print Assumptions C05_answered_call_completes.

(* the tree as found: with colliding ids a newer request loses its entry, its response
   goes to the stream and the caller is left waiting (7-step witness, replayed with gates) *)
Theorem C05_refuted_as_found :
  let sched := [Reg 0; SendReq 0; RLookup; CtxEnd 0; Cleanup 0; Reg 1; SendReq 1; RDeliver; RLookup; RDeliver] in
  let s := run false (init [7; 7] [(7, 100); (7, 101)]) sched in
  stream s = [(7, 101)] /\ map q_res (reqs s) = [RCtx; RNone] /\
  (let s' := run true (init [7; 7] [(7, 100); (7, 101)]) sched in
   stream s' = [] /\ map q_slot (reqs s') = [Some (7, 100); Some (7, 101)]).
Proof. repeat split. Qed.
Print Assumptions C05_refuted_as_found.
