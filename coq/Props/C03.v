(* C03 — No session is established without successful authentication.  Statements only. *)
From Coq Require Import List Bool Arith String.
Import ListNotations.
From Lime Require Import Hs.Types Hs.Server Hs.Monitor Hs.ServerFacts Hs.MonitorFacts Props.HsCommon.
From Lime Require Import Hs.Client Hs.Interop Hs.InteropSound.
From Lime Require Import Hs.Builder Hs.BuilderFacts.
Open Scope string_scope.
Open Scope list_scope.

(* For every configuration, every behaviour of the callbacks and every client
   script the server's trace is accepted by the property monitor (Hs/Monitor.v),
   whose AuthCall / RegCall / Sent-established / EstCb rules are C03. *)
Theorem C03_monitor_accepts : forall (conf : sconf) (o : oracle) (ins : list cin),
  let r := handle_channel s_repaired conf o ins in
  accepts conf o (rr_trace r) (rr_handler_ended r) = true /\ rr_outcome r <> Panicked.
Proof. exact server_accepts. Qed.
Print Assumptions C03_monitor_accepts.

(* What acceptance means for C03, in terms of the trace: an established
   envelope is preceded by an Authenticate call answered with a known role and
   by a Register call for that node, and announces exactly the registered node. *)
Theorem C03_established_only_after_authentication :
  forall (conf : sconf) (o : oracle) (ins : list cin) pre s enc post,
  rr_trace (handle_channel s_repaired conf o ins) = pre ++ Sent s enc :: post ->
  ss_state s = SEstablished ->
  exists f sch cred encA encR round n,
    In (AuthCall f sch cred encA) pre /\ o_auth o f sch cred round = ARole /\
    In (RegCall f encR) pre /\ o_reg o f = RNode n /\ ss_to s = Some n.
Proof.
  intros conf o ins pre s enc post Ht Hs.
  destruct (server_accepts conf o ins) as [Ha _]. cbn zeta in Ha. unfold accepts in Ha. rewrite Ht in Ha.
  destruct (mon_run conf o (m0 conf) (pre ++ Sent s enc :: post)) as [m'|] eqn:E; [|discriminate].
  eapply accepted_established_was_authenticated; eauto.
Qed.
Print Assumptions C03_established_only_after_authentication.

(* ... and every Authenticate call is for exactly the identity, scheme and
   credentials of the peer's most recent envelope, under an offered scheme. *)
Theorem C03_credentials_are_the_presented_ones :
  forall (conf : sconf) (o : oracle) (ins : list cin) pre f sch cred enc post,
  rr_trace (handle_channel s_repaired conf o ins) = pre ++ AuthCall f sch cred enc :: post ->
  exists ses, last_in pre None = Some (CSes ses) /\ f = cs_from ses /\ sch = presented_scheme ses /\
              cred = cs_cred ses /\ mem (cs_scheme ses) (sc_schemes conf) = true.
Proof.
  intros conf o ins pre f sch cred enc post Ht.
  destruct (server_accepts conf o ins) as [Ha _]. cbn zeta in Ha. unfold accepts in Ha. rewrite Ht in Ha.
  destruct (mon_run conf o (m0 conf) (pre ++ AuthCall f sch cred enc :: post)) as [m'|] eqn:E; [|discriminate].
  destruct (accepted_authcall_is_for_latest_input conf o _ _ _ _ _ _ _ E) as (ses & H1 & H2 & H3 & H4 & H5 & _).
  exists ses. auto.
Qed.
Print Assumptions C03_credentials_are_the_presented_ones.

(* the tree as found fired Established for a session that failed (wrong session id) *)
Theorem C03_refuted_as_found :
  let r := handle_channel s_as_found w_conf_plain w_oracle [w_new "x"] in
  In EstCb (rr_trace r) /\ ~ exists s enc, In (Sent s enc) (rr_trace r) /\ ss_state s = SEstablished.
Proof.
  split; [vm_compute; tauto|]. intros (s & enc & Hin & Hs). vm_compute in Hin.
  destruct Hin as [H|[H|[H|[H|[H|[]]]]]]; try discriminate. injection H as <- _. discriminate.
Qed.
Print Assumptions C03_refuted_as_found.

(* non-vacuity: a run that does establish *)
Example C03_example :
  exists s enc, In (Sent s enc) (rr_trace (handle_channel s_repaired w_conf_plain w_oracle [w_new ""; w_auth])) /\
                ss_state s = SEstablished /\ ss_to s = Some 1.
Proof. eexists; eexists. split; [vm_compute; right; right; right; right; right; left; reflexivity|]. split; reflexivity. Qed.

(* ---- the Authenticate callback a ServerBuilder installs (server.go: buildAuthenticate; Model J) ---- *)
(* A known role comes from exactly one place: the guest rule for a name that is a UUID, or the installed
   authenticator of the scheme of the object presented, asked about the presented identity and the presented
   (decoded) secret.  The transport scheme, a missing authentication object, a scheme whose authenticator was
   never installed and an undecodable secret never yield one - whatever the user's functions do. *)
Theorem C03_builder_role_comes_from : forall fs pl ky ex u ident a round,
  dispatch fs (pl, ky, ex) u ident a round = ARole ->
  match a with
  | AGuest => u = true
  | APlain pw => exists f p, pl = Some f /\ pw = Some p /\ f_plain fs f ident p round = ARole
  | AKey k => exists f p, ky = Some f /\ k = Some p /\ f_key fs f ident p round = ARole
  | AExternal t i => exists f, ex = Some f /\ f_ext fs f ident t i round = ARole
  | ATransport | ANil => False
  end.
Proof. exact role_comes_from. Qed.
Print Assumptions C03_builder_role_comes_from.

(* the schemes a builder offers: each at most once; a scheme is offered exactly when it is the default one
   (transport) or one of the calls enabled it *)
Theorem C03_builder_schemes : forall ops s,
  NoDup (b_schemes (brun ops)) /\
  mem s (b_schemes (brun ops)) = String.eqb s "transport" || existsb (enabled_by s) ops.
Proof. intros ops s. split; [apply schemes_nodup|apply scheme_offered_iff]. Qed.
Print Assumptions C03_builder_schemes.

(* A Server built by any sequence of builder calls (with Build among them), serving any peer over any connection:
   an established envelope is preceded by an Authenticate call whose object the dispatch accepted. *)
Theorem C03_built_server_establishes_only_via_an_authenticator :
  forall fs ops reg k tls_ok ins pre s enc post cap,
  b_built (brun ops) = Some cap ->
  rr_trace (handle_channel s_repaired (builder_conf (brun ops) k tls_ok) (builder_oracle fs (brun ops) reg) ins)
    = pre ++ Sent s enc :: post ->
  ss_state s = SEstablished ->
  exists f sch cred encA round,
    In (AuthCall f sch cred encA) pre /\ dispatch fs cap (is_uuid f) f (aobj_of sch cred) round = ARole.
Proof. intros. eapply built_server_establishes_only_via_an_authenticator; eauto. Qed.
Print Assumptions C03_built_server_establishes_only_via_an_authenticator.

(* non-vacuity: a builder with the plain scheme, a peer presenting the right password *)
Example C03_builder_example :
  let fs := {| f_plain := fun _ i p _ => if Nat.eqb i p then ARole else AUnknown; f_key := fun _ _ _ _ => AUnknown;
               f_ext := fun _ _ _ _ _ => AUnknown |} in
  let ops := [BPlain 1; BBuild] in
  let auth p := CSes {| cs_id := "SID"; cs_state := SAuthenticating; cs_enc := ""; cs_comp := ""; cs_scheme := "plain";
                        cs_cred := Some p; cs_from := 1 |} in
  let sel := CSes {| cs_id := "SID"; cs_state := SNegotiating; cs_enc := "none"; cs_comp := "none"; cs_scheme := "";
                     cs_cred := None; cs_from := 0 |} in
  let run p := rr_trace (handle_channel s_repaired (builder_conf (brun ops) (TTcp true) true)
                                        (builder_oracle fs (brun ops) (fun f => RNode f)) [w_new ""; sel; auth p]) in
  b_schemes (brun ops) = ["transport"; "plain"] /\
  existsb (fun e => match e with Sent s _ => state_eqb (ss_state s) SEstablished | _ => false end) (run 1) = true /\
  existsb (fun e => match e with Sent s _ => state_eqb (ss_state s) SEstablished | _ => false end) (run 2) = false.
Proof. vm_compute. auto. Qed.

(* Both ends (Hs/Interop.v, Hs/InteropSound.v): Models B and C connected the way the connection connects them.
   Whatever the two configurations and callbacks are and whatever the client wrote so far: if the client, reading
   what the server wrote, reports an established session, then the server sent an established envelope bearing
   its session id after an Authenticate call answered with a known role and a Register call for that identity,
   and the node and session id the client holds are the ones the server announced. *)
Theorem C03_client_established_only_with_an_authenticated_server : forall wire snode sc o cc cins,
  let sr := server_on sc o cins in
  let cr := client_on cc (s_out wire snode (rr_trace sr)) in
  build_ok cr = true ->
  exists pre ss enc post f sch cred encA encR round n,
    rr_trace sr = pre ++ Sent ss enc :: post /\ ss_state ss = SEstablished /\ ss_id ss = sc_sid sc /\
    In (AuthCall f sch cred encA) pre /\ o_auth o f sch cred round = ARole /\
    In (RegCall f encR) pre /\ o_reg o f = RNode n /\
    uc_local (snd (fst cr)) = n /\ uc_sid (snd (fst cr)) = sc_sid sc.
Proof. exact client_established_only_with_an_authenticated_server. Qed.
Print Assumptions C03_client_established_only_with_an_authenticated_server.

(* ... and the other way round: in a joint run (the client's writes are the server's script) every Authenticate call
   that is handed credentials is about the client's configured identity, with the scheme and the secret that the
   client's configured authenticator returned - for arbitrary configurations and callbacks at both ends. *)
Theorem C03_server_authenticates_what_the_client_presented : forall wire snode sc o cc cins,
  consistent wire snode sc o cc cins ->
  forall pre f sch c enc post,
  rr_trace (server_on sc o cins) = pre ++ AuthCall f sch (Some c) enc :: post ->
  f = cc_identity cc /\ exists opts rt, cc_auth cc opts rt = (sch, c).
Proof. exact server_authenticates_what_the_client_presented. Qed.
Print Assumptions C03_server_authenticates_what_the_client_presented.

(* non-vacuity: a joint run with such a call *)
Example C03_joint_run_example :
  let sc := {| sc_comp := ["none"]; sc_enc := ["none"; "tls"]; sc_schemes := ["plain"; "guest"]; sc_kind := TTcp true;
               sc_tls_ok := true; sc_sid := "SID" |} in
  let o := {| o_auth := fun _ s c _ => if String.eqb s "plain" then ARole else AUnknown; o_reg := fun _ => RNode 5 |} in
  let cc := {| cc_comp_sel := fun _ => "none"; cc_enc_sel := fun l => if mem "tls" l then "tls" else "none";
               cc_auth := fun _ _ => ("plain", 7); cc_identity := 3; cc_kind := TTcp true; cc_tls_ok := true |} in
  let cins := play true 9 sc o cc 6 [] in
  consistent true 9 sc o cc cins /\ In (AuthCall 3 "plain" (Some 7) "tls") (rr_trace (server_on sc o cins)).
Proof. vm_compute. split; [reflexivity|tauto]. Qed.

(* non-vacuity of C03_client_established_only_with_an_authenticated_server: in the joint run above the client does
   report an established session *)
Example C03_client_established_example :
  let sc := {| sc_comp := ["none"]; sc_enc := ["none"; "tls"]; sc_schemes := ["plain"; "guest"]; sc_kind := TTcp true;
               sc_tls_ok := true; sc_sid := "SID" |} in
  let o := {| o_auth := fun _ s c _ => if String.eqb s "plain" then ARole else AUnknown; o_reg := fun _ => RNode 5 |} in
  let cc := {| cc_comp_sel := fun _ => "none"; cc_enc_sel := fun l => if mem "tls" l then "tls" else "none";
               cc_auth := fun _ _ => ("plain", 7); cc_identity := 3; cc_kind := TTcp true; cc_tls_ok := true |} in
  let cins := play true 9 sc o cc 6 [] in
  build_ok (client_on cc (s_out true 9 (rr_trace (server_on sc o cins)))) = true.
Proof. vm_compute. reflexivity. Qed.
