(* C03 — No session is established without successful authentication.  Statements only. *)
From Coq Require Import List Bool Arith String.
Import ListNotations.
From Lime Require Import Hs.Types Hs.Server Hs.Monitor Hs.ServerFacts Hs.MonitorFacts Props.HsCommon.
Open Scope string_scope.
Open Scope list_scope.

(* For every configuration, every behaviour of the callbacks and every client
   script the server's trace is accepted by the property monitor (Hs/Monitor.v),
   whose AuthCall / RegCall / Sent-established / EstCb rules are C03. *)
Theorem C03_monitor_accepts : forall (conf : sconf) (o : oracle) (ins : list cin),
  let r := handle_channel s_repaired conf o ins in
  accepts conf o (rr_trace r) (rr_handler_ended r) = true /\ rr_outcome r <> Panicked.
Proof. exact server_accepts. Qed.
Print Assumptions C03_monitor_accepts.

(* What acceptance means for C03, in terms of the trace: an established
   envelope is preceded by an Authenticate call answered with a known role and
   by a Register call for that node, and announces exactly the registered node. *)
Theorem C03_established_only_after_authentication :
  forall (conf : sconf) (o : oracle) (ins : list cin) pre s enc post,
  rr_trace (handle_channel s_repaired conf o ins) = pre ++ Sent s enc :: post ->
  ss_state s = SEstablished ->
  exists f sch cred encA encR round n,
    In (AuthCall f sch cred encA) pre /\ o_auth o f sch cred round = ARole /\
    In (RegCall f encR) pre /\ o_reg o f = RNode n /\ ss_to s = Some n.
Proof.
  intros conf o ins pre s enc post Ht Hs.
  destruct (server_accepts conf o ins) as [Ha _]. cbn zeta in Ha. unfold accepts in Ha. rewrite Ht in Ha.
  destruct (mon_run conf o (m0 conf) (pre ++ Sent s enc :: post)) as [m'|] eqn:E; [|discriminate].
  eapply accepted_established_was_authenticated; eauto.
Qed.
Print Assumptions C03_established_only_after_authentication.

(* ... and every Authenticate call is for exactly the identity, scheme and
   credentials of the peer's most recent envelope, under an offered scheme. *)
Theorem C03_credentials_are_the_presented_ones :
  forall (conf : sconf) (o : oracle) (ins : list cin) pre f sch cred enc post,
  rr_trace (handle_channel s_repaired conf o ins) = pre ++ AuthCall f sch cred enc :: post ->
  exists ses, last_in pre None = Some (CSes ses) /\ f = cs_from ses /\ sch = presented_scheme ses /\
              cred = cs_cred ses /\ mem (cs_scheme ses) (sc_schemes conf) = true.
Proof.
  intros conf o ins pre f sch cred enc post Ht.
  destruct (server_accepts conf o ins) as [Ha _]. cbn zeta in Ha. unfold accepts in Ha. rewrite Ht in Ha.
  destruct (mon_run conf o (m0 conf) (pre ++ AuthCall f sch cred enc :: post)) as [m'|] eqn:E; [|discriminate].
  destruct (accepted_authcall_is_for_latest_input conf o _ _ _ _ _ _ _ E) as (ses & H1 & H2 & H3 & H4 & H5 & _).
  exists ses. auto.
Qed.
Print Assumptions C03_credentials_are_the_presented_ones.

(* the tree as found fired Established for a session that failed (wrong session id) *)
Theorem C03_refuted_as_found :
  let r := handle_channel s_as_found w_conf_plain w_oracle [w_new "x"] in
  In EstCb (rr_trace r) /\ ~ exists s enc, In (Sent s enc) (rr_trace r) /\ ss_state s = SEstablished.
Proof.
  split; [vm_compute; tauto|]. intros (s & enc & Hin & Hs). vm_compute in Hin.
  destruct Hin as [H|[H|[H|[H|[H|[]]]]]]; try discriminate. injection H as <- _. discriminate.
Qed.
Print Assumptions C03_refuted_as_found.

(* non-vacuity: a run that does establish *)
Example C03_example :
  exists s enc, In (Sent s enc) (rr_trace (handle_channel s_repaired w_conf_plain w_oracle [w_new ""; w_auth])) /\
                ss_state s = SEstablished /\ ss_to s = Some 1.
Proof. eexists; eexists. split; [vm_compute; right; right; right; right; right; left; reflexivity|]. split; reflexivity. Qed.
