(* C02 — Decoding untrusted bytes never crashes and is stable under re-encoding.  Statements only.
   The model starts at JSON value trees (bytes -> tree is encoding/json, trusted). *)
From Coq Require Import List Bool Ascii String ZArith.
Import ListNotations.
From Lime Require Import Base.Str Base.Res Base.Json Codec.Types Codec.TextForms Codec.Doc Codec.DocFacts
  Codec.Envelope Codec.EnvelopeFacts Codec.StableFacts Corr.Codec Corr.C02 Corr.C02Facts.
Open Scope string_scope.

(* For every JSON value tree, every decoder, every fuel: never a panic. *)
Theorem C02_no_panic : forall (cx : ctx) (fuel : nat) (j : json),
  cx_fix cx = repaired ->
  decode_any cx fuel j <> Panic /\ forall k, decode_typed cx fuel k j <> Panic.
Proof.
  intros cx fuel j H. split; [apply decode_any_no_panic; exact H|].
  intros k. apply decode_typed_no_panic; exact H.
Qed.
Print Assumptions C02_no_panic.

(* documents alone: for every media type and raw value, including the nil pointer *)
Theorem C02_document_no_panic : forall fuel t raw, doc_of_json repaired fuel t raw <> Panic.
Proof. exact doc_no_panic. Qed.
Print Assumptions C02_document_no_panic.

(* Whatever a decoder accepts can be encoded again, and the same decoder
   accepts that encoding as an equal envelope.  [uri_idem] is the assumed law
   of net/url: the text a parsed URI prints as parses to itself. *)
Theorem C02_stable_transport : forall (cx : ctx) (fuel : nat) (j : json) (e : env),
  cx_fix cx = repaired -> uri_idem cx ->
  decode_any cx fuel j = Ok e ->
  exists j', encode e = Ok j' /\ decode_any cx fuel j' = Ok e.
Proof. exact decode_any_stable. Qed.
Print Assumptions C02_stable_transport.

Theorem C02_stable_typed : forall (cx : ctx) (fuel : nat) (k : ekind) (j : json) (e : env),
  cx_fix cx = repaired -> uri_idem cx ->
  decode_typed cx fuel k j = Ok e ->
  exists j', encode e = Ok j' /\ decode_typed cx fuel k j' = Ok e.
Proof. exact decode_typed_stable. Qed.
Print Assumptions C02_stable_typed.

(* the tree as found violates both halves (witnesses replayed on the pre-fix code) *)
Theorem C02_refuted_as_found :
  (exists j, decode_any cx_as_found 8 j = Panic) /\
  (exists j e j', decode_any cx_as_found 8 j = Ok e /\ encode e = Ok j' /\ decode_any cx_as_found 8 j' = Err).
Proof.
  split.
  - eexists. exact decode_panics_as_found.
  - destruct unstable_status_as_found as (e & j' & H). eexists; eexists; eexists. exact H.
Qed.
Print Assumptions C02_refuted_as_found.

Theorem C02_model_meets_check : forall c : case, case_table_ok c = true -> check (model_case c) = true.
Proof. exact model_meets_check. Qed.
Print Assumptions C02_model_meets_check.

(* non-vacuity: an accepted, non-trivial tree *)
Example C02_example :
  exists e, decode_any (mk_cx []) 8
    (JObj [("ID", JStr "7"); ("method", JStr "set"); ("uri", JStr "/x"); ("junk", JArr [JNull]);
           ("type", JStr "application/vnd.lime.collection+json");
           ("resource", JObj [("itemType", JStr "text/plain"); ("items", JArr [JStr "a"; JStr "b"])])]) = Ok e.
Proof. eexists. reflexivity. Qed.
