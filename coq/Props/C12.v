(* C12 — The TCP transport preserves the envelope stream under fragmentation and stalls.  Statements only. *)
From Coq Require Import List Arith Bool.
Import ListNotations.
From Lime Require Import Tcp.Writer Tcp.WriterFacts Tcp.Reader Tcp.ReaderFacts.

(* Writer.  Whatever the connection does with each Write call (takes any number
   of bytes, then succeeds, reports a temporary timeout or fails; the context
   may expire), a Send puts a prefix of the encoding on the wire, and the whole
   encoding when it reports success. *)
Theorem C12_send_prefix : forall (B : Type) (b : list B) (oracle : list wstep) e ok o',
  send B true b oracle = (e, ok, o') -> exists tail, b = e ++ tail /\ (ok = true -> e = b).
Proof. exact send_prefix. Qed.
Print Assumptions C12_send_prefix.

(* A sequence of sends: the wire is the concatenation of the acknowledged
   encodings followed, after a failed send, by a prefix of that one - nothing
   duplicated, reordered or fabricated; every send after a failed one fails too and
   writes nothing (the encoder keeps its error). *)
Theorem C12_sends_wire : forall (B : Type) (bs : list (list B)) oracle wire oks,
  sends B true bs oracle = (wire, oks) ->
  exists acked partial rest,
    wire = concat acked ++ partial /\ bs = acked ++ rest /\
    oks = repeat true (length acked) ++ repeat false (length rest) /\
    match rest with [] => partial = [] | b :: _ => exists tail, b = partial ++ tail end.
Proof. exact sends_wire. Qed.
Print Assumptions C12_sends_wire.

(* Reader.  Under every read plan (any chunking, coalescing, stalls, cuts, EOF),
   a Receive from a good state returns exactly the next frame and leaves a good
   state, or fails with a sticky error (every later Receive fails too), or
   waits; it never returns another, an earlier or a later frame. *)
Theorem C12_receive_next_frame_or_sticky_error : forall limit sizes st plan r st' p' taken,
  Forall (fun s => 1 <= s) sizes -> good limit sizes st ->
  receive limit sizes st plan = (r, st', p', taken) ->
  match r with
  | RGotFrame i => i = rs_next st /\ good limit sizes st' /\ rs_next st' = S i
  | RError => rs_sticky st' = true
  | RBlockedR => True
  end.
Proof. exact receive_good. Qed.
Print Assumptions C12_receive_next_frame_or_sticky_error.

Theorem C12_error_is_sticky : forall limit sizes st plan,
  rs_sticky st = true -> receive limit sizes st plan = (RError, st, plan, 0).
Proof. exact receive_sticky. Qed.
Print Assumptions C12_error_is_sticky.

(* the tree as found duplicated bytes after a short write + timeout, with Send reporting success *)
Theorem C12_refuted_as_found :
  send nat false [1; 2; 3; 4] [WConn 2 WTimeout] = ([1; 2; 1; 2; 3; 4], true, []).
Proof. reflexivity. Qed.
Print Assumptions C12_refuted_as_found.

Example C12_example : good 64 [50; 60] (rinit 64) /\
  fst (receives 64 [50; 60] (rinit 64) [RChunk 7; RStall; RChunk 64; RChunk 64; REof] 3) =
    [(RGotFrame 0, 64); (RGotFrame 1, 46); (RError, 0)].
Proof. split; [apply good_init|reflexivity]. Qed.
