(* C10 — A server that does not offer cleartext never authenticates over cleartext.  Statements only. *)
From Coq Require Import List Bool Arith String.
Import ListNotations.
From Lime Require Import Hs.Types Hs.Server Hs.Monitor Hs.ServerFacts Hs.MonitorFacts Props.HsCommon.
From Lime Require Import Hs.Builder Hs.BuilderFacts Hs.Client Hs.ClientBuilder Hs.Interop Hs.InteropBuilt.
Open Scope string_scope.
Open Scope list_scope.

Theorem C10_monitor_accepts : forall (conf : sconf) (o : oracle) (ins : list cin),
  let r := handle_channel s_repaired conf o ins in
  accepts conf o (rr_trace r) (rr_handler_ended r) = true /\ rr_outcome r <> Panicked.
Proof. exact server_accepts. Qed.
Print Assumptions C10_monitor_accepts.

(* If 'none' is not configured and the connection can provide a configured
   option, every Authenticate call happens under a configured encryption ... *)
Theorem C10_credentials_never_in_clear : forall conf o ins pre f sch cred enc post,
  c10_pre conf = true ->
  rr_trace (handle_channel s_repaired conf o ins) = pre ++ AuthCall f sch cred enc :: post ->
  mem enc (sc_enc conf) = true /\ enc <> "none".
Proof.
  intros conf o ins pre f sch cred enc post Hpre Ht.
  destruct (server_accepts conf o ins) as [Ha _]. cbn zeta in Ha. unfold accepts in Ha. rewrite Ht in Ha.
  destruct (mon_run conf o (m0 conf) (pre ++ AuthCall f sch cred enc :: post)) as [m'|] eqn:E; [|discriminate].
  destruct (accepted_authcall_is_for_latest_input conf o _ _ _ _ _ _ _ E) as (ses & _ & _ & _ & _ & _ & Hok).
  pose proof (enc_ok_c10 conf enc Hpre Hok) as Hm. split; auto.
  intros ->. unfold c10_pre in Hpre. rewrite Hm in Hpre. discriminate.
Qed.
Print Assumptions C10_credentials_never_in_clear.

(* ... and so does the announcement of the session. *)
Theorem C10_no_establishment_in_clear : forall conf o ins pre s enc post,
  c10_pre conf = true ->
  rr_trace (handle_channel s_repaired conf o ins) = pre ++ Sent s enc :: post -> ss_state s = SEstablished ->
  mem enc (sc_enc conf) = true.
Proof.
  intros conf o ins pre s enc post Hpre Ht Hs.
  destruct (server_accepts conf o ins) as [Ha _]. cbn zeta in Ha. unfold accepts in Ha. rewrite Ht in Ha.
  destruct (mon_run conf o (m0 conf) (pre ++ Sent s enc :: post)) as [m'|] eqn:E; [|discriminate].
  destruct (accepted_sent conf o _ _ _ _ _ E) as [_ H]. apply enc_ok_c10; auto.
Qed.
Print Assumptions C10_no_establishment_in_clear.

(* the tree as found: EncryptionOptions(TLS) on a TLS capable TCP connection asked for
   credentials and accepted them in clear *)
Theorem C10_refuted_as_found :
  c10_pre w_conf_tls_only = true /\
  In (AuthCall 1 "plain" (Some 1) "none") (rr_trace (handle_channel s_as_found w_conf_tls_only w_oracle [w_new ""; w_auth])).
Proof. split; [reflexivity|]. vm_compute. tauto. Qed.
Print Assumptions C10_refuted_as_found.

(* non-vacuity of the precondition, and the repaired server on the same script *)
Example C10_example :
  c10_pre w_conf_tls_only = true /\
  ~ In (AuthCall 1 "plain" (Some 1) "none") (rr_trace (handle_channel s_repaired w_conf_tls_only w_oracle [w_new ""; w_auth])).
Proof. split; [reflexivity|]. vm_compute. intros H. repeat (destruct H as [H|H]; [discriminate|]). exact H. Qed.

(* ---- the configured policy (server.go: ServerBuilder.EncryptionOptions; Model J) ---- *)
(* The encryption options of a builder are those of its last EncryptionOptions call (an empty list panics and
   changes nothing), else the defaults; never empty. *)
Theorem C10_builder_policy_is_the_last_call : forall ops,
  b_enc (brun ops) = last_enc ops ["none"; "tls"] /\ b_enc (brun ops) <> [].
Proof. intros ops. split; [apply enc_is_last_call|]. rewrite enc_is_last_call. apply last_enc_nonempty. discriminate. Qed.
Print Assumptions C10_builder_policy_is_the_last_call.

(* Builders share nothing: whatever is done with other builders, in whatever interleaving, a builder is what its
   own calls make of a fresh one. *)
Theorem C10_builders_are_independent : forall ops j,
  nth_error (wrun ops) j = option_map brun (own ops j 0).
Proof. exact wrun_own. Qed.
Print Assumptions C10_builders_are_independent.

(* A Server built with EncryptionOptions(TLS) as the last such call, on a TLS-capable TCP connection: no
   Authenticate call, whatever the peer does, happens in clear. *)
Theorem C10_built_tls_only_server_never_authenticates_in_clear :
  forall fs ops reg cfg tls_ok ins pre f sch cred enc post,
  last_enc ops ["none"; "tls"] = ["tls"] ->
  rr_trace (handle_channel s_repaired (builder_conf (brun ops) (TTcp cfg) tls_ok) (builder_oracle fs (brun ops) reg) ins)
    = pre ++ AuthCall f sch cred enc :: post ->
  enc = "tls".
Proof.
  intros fs ops reg cfg tls_ok ins pre f sch cred enc post Hl Ht.
  assert (Hpre : c10_pre (builder_conf (brun ops) (TTcp cfg) tls_ok) = true).
  { unfold c10_pre, builder_conf. cbn [sc_enc sc_kind]. rewrite enc_is_last_call, Hl. reflexivity. }
  destruct (C10_credentials_never_in_clear _ _ _ _ _ _ _ _ _ Hpre Ht) as [Hm _].
  cbn [builder_conf sc_enc] in Hm. rewrite enc_is_last_call, Hl in Hm. unfold mem in Hm. cbn in Hm.
  rewrite orb_false_r in Hm. apply String.eqb_eq in Hm. exact Hm.
Qed.
Print Assumptions C10_built_tls_only_server_never_authenticates_in_clear.

(* Both ends (Hs/Interop.v, Hs/InteropBuilt.v): a server built with EncryptionOptions(tls) and a client built with
   Encryption(none), in their joint run from silence: the server fails the session, no end is established, and
   the client never wrote an authenticating envelope - its password never left it. *)
Theorem C10_tls_only_built_server_and_cleartext_client : forall wire snode fs reg id f pw,
  let sc := built_server_conf [BEnc ["tls"]; BPlain f; BBuild] (TTcp true) true in
  let o := built_server_oracle fs [BEnc ["tls"]; BPlain f; BBuild] reg in
  let cc := built_client [KEnc "none"; KPlain pw] (TTcp true) true id in
  let cins := play wire snode sc o cc 4 [] in
  consistent wire snode sc o cc cins /\
  e_server_established (ends_of wire snode sc o cc cins) = false /\
  e_client_established (ends_of wire snode sc o cc cins) = false /\
  forallb (fun i => match i with CSes s => negb (state_eqb (cs_state s) SAuthenticating) | _ => true end) cins = true.
Proof. exact tls_only_server_refuses_a_cleartext_client. Qed.
Print Assumptions C10_tls_only_built_server_and_cleartext_client.
