(* C08 — Client handshake tolerates any server and reports establishment truthfully.  Statements only. *)
From Coq Require Import List Bool Arith String.
Import ListNotations.
From Lime Require Import Hs.Types Hs.Client Hs.ClientSpec Hs.ClientFacts Hs.ClientBuilder.
Open Scope string_scope.
Open Scope list_scope.

(* For arbitrary selector and authenticator functions and every server script
   (any length; regressions, empty or unknown options, repetitions, data
   envelopes, undecodable bytes, EOF anywhere), the client's trace and result
   satisfy c08_spec (Hs/ClientSpec.v): (a) no panic; (b) a returned session is
   the server's last word and, when it is established, the channel carries
   exactly its id, its `to` as local node and its `from` as remote node;
   (c) after the first envelope every envelope echoes the id of the server's
   latest session envelope; (d) credentials only as the direct answer to an
   authentication request; (e) after finished/failed the connection is closed. *)
Theorem C08_client_ok : forall (conf : cconf) (ins : list sin),
  c08_spec (cestablish c_repaired conf ins) = true.
Proof. exact client_ok. Qed.
Print Assumptions C08_client_ok.

(* (a) on its own *)
Theorem C08_no_panic : forall conf ins, snd (cestablish c_repaired conf ins) <> CPanic.
Proof.
  intros conf ins. pose proof (client_ok conf ins) as H.
  destruct (cestablish c_repaired conf ins) as [[t c] out]. cbn in *.
  destruct out; discriminate.
Qed.
Print Assumptions C08_no_panic.

(* Client.buildChannel hands out a channel only when the handshake's last word is established *)
Theorem C08_build_ok_only_established : forall conf ins,
  build_ok (cestablish c_repaired conf ins) = true ->
  exists t c s, cestablish c_repaired conf ins = (t, c, CRet s) /\ vs_state s = SEstablished /\
                uc_state c = SEstablished /\ uc_sid c = vs_id s /\ uc_local c = vs_to s /\ uc_remote c = vs_from s.
Proof.
  intros conf ins Hb. pose proof (client_ok conf ins) as H.
  destruct (cestablish c_repaired conf ins) as [[t c] out]. cbn in Hb.
  destruct out as [s| | |]; try discriminate. apply state_eqb_eq in Hb.
  exists t, c, s. split; auto. split; auto.
  cbn in H. apply andb_prop in H. destruct H as [_ H].
  destruct (last_ses t None) as [s'|]; [|discriminate].
  repeat (apply andb_prop in H; destruct H as [H ?]).
  rewrite Hb in *. cbn in *.
  repeat match goal with H : _ && _ = true |- _ => apply andb_prop in H; destruct H end.
  repeat match goal with
  | H : state_eqb _ _ = true |- _ => apply state_eqb_eq in H
  | H : String.eqb _ _ = true |- _ => apply String.eqb_eq in H
  | H : Nat.eqb _ _ = true |- _ => apply Nat.eqb_eq in H
  end. auto.
Qed.
Print Assumptions C08_build_ok_only_established.

(* ---- client configurations made by a ClientBuilder (client.go; Model K, Hs/ClientBuilder.v) ---- *)
(* Each aspect of the configuration - compression selector, encryption selector, authenticator - is decided by the
   last builder call that concerns it, whatever other calls surround it; without such a call the defaults of
   NewClientConfig apply. *)
Theorem C08_builder_last_call_wins : forall ops,
  kb_comp (krun ops) = last_sel pick_comp ops SelFirst /\
  kb_enc (krun ops) = last_sel pick_enc ops SelDefaultEnc /\
  kb_auth (krun ops) = last_auth ops None.
Proof. exact builder_last_call_wins. Qed.
Print Assumptions C08_builder_last_call_wins.

(* A client built by any sequence of builder calls, on any transport, against any server script: the handshake
   satisfies the specification above. *)
Theorem C08_built_client_ok : forall ops k tls_ok ins,
  c08_spec (cestablish c_repaired (conf_of (built_desc ops k tls_ok)) ins) = true.
Proof. intros. apply client_ok. Qed.
Print Assumptions C08_built_client_ok.

(* the tree as found: a regressing state crashes the client *)
Theorem C08_refuted_as_found :
  let conf := {| cc_comp_sel := fun _ => "none"; cc_enc_sel := fun _ => "none"; cc_auth := fun _ _ => ("guest", 0);
                 cc_identity := 1; cc_kind := TTcp false; cc_tls_ok := true |} in
  let v st := VSes {| vs_state := st; vs_id := "S1"; vs_from := 9; vs_to := 0; vs_encopts := []; vs_compopts := [];
                      vs_schemeopts := ["guest"]; vs_enc := ""; vs_comp := ""; vs_round := None |} in
  snd (cestablish c_as_found conf [v SAuthenticating; v SNew]) = CPanic.
Proof. reflexivity. Qed.
Print Assumptions C08_refuted_as_found.
