(* provisional *)
From Lime Require Import Hs.Types.
Theorem C08_placeholder : forall a, state_eqb a a = true.
Proof. exact state_eqb_refl. Qed.
Print Assumptions C08_placeholder.
