(* C13 — Sessions end cleanly in both directions and release what waits on them.
   Statements only; proofs are in Chan/TeardownFacts.v, TeardownInv.v, TeardownAux.v, TeardownThm.v. *)
From Coq Require Import List Bool Arith.
Import ListNotations.
From Lime Require Import Base.Res Chan.Teardown Chan.TeardownFacts Chan.TeardownInv Chan.TeardownAux Chan.TeardownThm Chan.TeardownEnd Corr.C13.

(* Model: both endpoints of an established session, both directions of the connection with any
   traffic in flight, stream capacity >= 0, the two receiver goroutines, consumers, the client's
   FinishSession / own Close, the server's finish or fail; [inproc] = in-process transport (closing
   closes both ends) or a connection with in-band EOF (TCP, WebSocket).  Every list of labels is a
   schedule. *)

(* The peer observes the terminal session envelope: once the server has sent it, a client that
   has not closed its channel on its own has stored that terminal state, or the envelope is still
   ahead of its running, uncancelled receiver ... *)
Theorem C13_peer_observes : forall inproc cap a b (sched : list tlabel) t,
  let s := trun inproc true (tinit cap a b) sched in
  client_out s = false -> sent_term s = Some t -> Observed s t \/ Pending inproc s t.
Proof. exact peer_observes. Qed.
Print Assumptions C13_peer_observes.

(* ... and in that case the client makes progress as long as its consumers keep draining the
   inbound streams; the serving goroutine always completes its termination sequence. *)
Theorem C13_pending_progress : forall inproc s t,
  Pending inproc s t ->
  tmeasure (tstep inproc true s (TRecv Cl)) < tmeasure s \/ tmeasure (tstep inproc true s (TConsume Cl)) < tmeasure s.
Proof. exact pending_progress. Qed.
Print Assumptions C13_pending_progress.

Theorem C13_server_progress : forall inproc cap a b (sched : list tlabel),
  let s := trun inproc true (tinit cap a b) sched in
  (match sapp s with SListen | SDone => False | _ => True end) ->
  tmeasure (tstep inproc true s TServerStep) < tmeasure s \/ tmeasure (tstep inproc true s (TRecv Sv)) < tmeasure s.
Proof. exact server_progress. Qed.
Print Assumptions C13_server_progress.

(* Every step other than a fresh send lowers a natural-number measure or changes nothing:
   every schedule with finitely many sends terminates. *)
Theorem C13_terminates : forall inproc s l,
  (match l with TSend _ => False | _ => True end) ->
  tstep inproc true s l = s \/ tmeasure (tstep inproc true s l) < tmeasure s.
Proof. exact measure_step. Qed.
Print Assumptions C13_terminates.

(* The end state is clean and unique: when nothing moves any more after the server ended the
   session, both sides are in the announced terminal state, both receivers have ended (the done
   signals and every inbound stream are closed), and the server's connection is closed. *)
Theorem C13_clean_end : forall inproc cap a b (sched : list tlabel) t,
  let s := trun inproc true (tinit cap a b) sched in
  client_out s = false -> sent_term s = Some t -> quiescent inproc s ->
  e_state (cl s) = STerm t /\ e_state (sv s) = STerm t /\ e_rcv (cl s) = false /\ e_rcv (sv s) = false /\
  sapp s = SDone /\ e_open (sv s) = false.
Proof. exact clean_end. Qed.
Print Assumptions C13_clean_end.

(* Put together, as one statement: once the server has ended a session (and the client has not closed its channel
   on its own), however the receivers, the consumers and the two application goroutines are scheduled from there,
   after at most [tmeasure] of their steps nothing moves any more, and that state is the clean end.  No schedule
   can avoid it for ever, since every such step lowers the measure or changes nothing (C13_terminates). *)
Theorem C13_every_session_end_completes : forall inproc cap a b (sched : list tlabel) t,
  let s := trun inproc true (tinit cap a b) sched in
  client_out s = false -> sent_term s = Some t ->
  exists ls, Forall internal ls /\ List.length ls <= tmeasure s /\
    let s' := trun inproc true s ls in
    quiescent inproc s' /\
    e_state (cl s') = STerm t /\ e_state (sv s') = STerm t /\ e_rcv (cl s') = false /\ e_rcv (sv s') = false /\
    sapp s' = SDone /\ e_open (sv s') = false.
Proof. exact every_session_end_completes. Qed.
Print Assumptions C13_every_session_end_completes.

(* The initiator's connection is closed by the terminating call (client FinishSession; server
   finish/fail), in every reachable state; and once the observing side has closed its channel
   its receiver has ended and its connection is closed too. *)
Theorem C13_initiator_closes : forall inproc cap a b (sched : list tlabel),
  let s := trun inproc true (tinit cap a b) sched in
  (capp s = CFinished -> e_open (cl s) = false /\ exists t, e_state (cl s) = STerm t) /\
  (sapp s = SDone -> e_open (sv s) = false /\ e_rcv (sv s) = false).
Proof. exact initiator_closes. Qed.
Print Assumptions C13_initiator_closes.

Theorem C13_observer_close_releases : forall inproc s,
  e_rcv (cl s) = false -> (capp s = CRun \/ capp s = CFinished) ->
  let s' := trun inproc true s [TClientClose; TClientStep] in
  capp s' = CClosed /\ e_open (cl s') = false /\ e_rcv (cl s') = false.
Proof. exact client_close_releases. Qed.
Print Assumptions C13_observer_close_releases.

(* Nothing that was sent before a closing is lost by the repaired in-process transport; a
   terminal state is never left. *)
Theorem C13_nothing_lost : forall inproc (sched : list tlabel) s, lost (trun inproc true s sched) = lost s.
Proof. exact never_lost. Qed.
Print Assumptions C13_nothing_lost.

Theorem C13_terminal_is_final : forall inproc s l,
  (e_state (cl s) <> SEst -> e_state (cl (tstep inproc true s l)) <> SEst) /\
  (e_state (sv s) <> SEst -> e_state (sv (tstep inproc true s l)) <> SEst).
Proof. exact terminal_is_final. Qed.
Print Assumptions C13_terminal_is_final.

(* The in-process transport as found: a schedule on which the client never sees the finished
   envelope that the server sent before closing (replayed against the real code before the fix). *)
Theorem C13_as_found_refuted :
  exists ls, let s := trun true false (tinit 1 3 0) ls in
  lost s = true /\ sent_term s = Some TFinished /\ e_state (cl s) = SEst /\ e_rcv (cl s) = false /\ client_out s = false.
Proof. exact as_found_inproc_misses_finished. Qed.
Print Assumptions C13_as_found_refuted.

(* non-vacuity: the canonical schedule of the correspondence reaches the clean end *)
Example C13_example :
  let c := {| k_inproc := false; k_init := IServerFail; k_cap := 0; k_to_cl := 2; k_to_sv := 1;
              o := {| b_cl_state := None; b_sv_state := None; b_cl_rcvdone := None; b_sv_rcvdone := None;
                      b_cl_streams := None; b_sv_streams := None; b_cl_conn := None; b_sv_conn := None;
                      b_cl_conn_after := None; b_delivered_cl := None; b_finished_cb := 1; b_goroutines := 0 |} |} in
  check c (model c) = true /\ e_state (cl (settled c)) = STerm TFailed /\ e_delivered (cl (settled c)) = 2.
Proof. vm_compute. repeat split. Qed.
