(* Theorems about lime-go's behaviour that none of the twenty properties states; recorded because the models
   carry them (DESIGN.md 10.3, "Observed, outside the listed properties").  Statements only. *)
From Coq Require Import List Bool Arith String.
Import ListNotations.
From Lime Require Import Hs.Types Hs.Server Hs.Client Hs.Interop Hs.InteropFacts.
From Lime Require Base.Res Base.Json Codec.Types Codec.Envelope Codec.EnvelopeFacts Codec.SessionFacts.
Open Scope string_scope.
Open Scope list_scope.

(* A lime-go client and a lime-go server cannot complete an authentication round trip over a JSON connection
   (TCP, WebSocket): the server's round-trip envelope carries "authentication" without "scheme", which the
   client's decoder rejects.  In the joint run of Models B and C the client's handshake ends with an error and
   the server is left waiting; neither end is established. *)
Theorem round_trips_do_not_cross_a_json_connection :
  forall snode comp encs sch0 schs k t sid o csel esel auth id sch cred d,
  let sc := mk_sconf comp encs (sch0 :: schs) k t sid in
  let cc := mk_cconf csel esel auth id k t in
  needs_negotiation s_repaired sc (chan0 sc) (neg_comp_of comp k) (neg_enc_of encs k) = false ->
  auth (sch0 :: schs) None = (sch, cred) -> mem sch (sch0 :: schs) = true ->
  o_auth o id sch (Some cred) 0 = ARound d ->
  exists cins, consistent true snode sc o cc cins /\
               e_client_established (ends_of true snode sc o cc cins) = false /\
               e_server_established (ends_of true snode sc o cc cins) = false.
Proof. exact round_trip_does_not_cross_the_wire. Qed.
Print Assumptions round_trips_do_not_cross_a_json_connection.

(* Over the in-process transport, where envelopes are handed over as objects, an authentication with any number
   of round trips completes: the server's Authenticate asks r times (data d 0 .. d (r-1)), the client's
   authenticator answers each time ([answer i]: the first answer is to the offered schemes, the later ones to the
   round-trip data), the (r+1)-th answer is accepted - both ends establish the same session. *)
Theorem round_trips_complete_over_the_in_process_transport :
  forall snode comp encs sch0 schs k t sid o csel esel auth id d r n,
  let sc := mk_sconf comp encs (sch0 :: schs) k t sid in
  let cc := mk_cconf csel esel auth id k t in
  (forall i, i <= r -> mem (fst (answer sch0 schs auth d i)) (sch0 :: schs) = true) ->
  (forall i, i < r -> o_auth o id (fst (answer sch0 schs auth d i)) (Some (snd (answer sch0 schs auth d i))) i = ARound (d i)) ->
  o_auth o id (fst (answer sch0 schs auth d r)) (Some (snd (answer sch0 schs auth d r))) r = ARole ->
  o_reg o id = RNode n ->
  needs_negotiation s_repaired sc (chan0 sc) (neg_comp_of comp k) (neg_enc_of encs k) = false ->
  exists cins, consistent false snode sc o cc cins /\ agree snode (ends_of false snode sc o cc cins) n (initial_enc k).
Proof. exact round_trips_complete_in_process. Qed.
Print Assumptions round_trips_complete_over_the_in_process_transport.

(* the same pair over the in-process transport, where envelopes are handed over as objects: one round trip, then
   established at both ends (computed) *)
Example round_trip_in_process :
  let sc := {| sc_comp := ["none"]; sc_enc := ["none"]; sc_schemes := ["plain"]; sc_kind := TInproc;
               sc_tls_ok := true; sc_sid := "SID" |} in
  let o := {| o_auth := fun _ _ _ r => match r with 0 => ARound 3 | _ => ARole end; o_reg := fun _ => RNode 5 |} in
  let cc := {| cc_comp_sel := fun _ => "none"; cc_enc_sel := fun _ => "none"; cc_auth := fun _ _ => ("plain", 1);
               cc_identity := 1; cc_kind := TInproc; cc_tls_ok := true |} in
  agree 9 (ends_of false 9 sc o cc (play false 9 sc o cc 6 [])) 5 "none" /\
  e_client_established (ends_of true 9 sc o cc (play true 9 sc o cc 6 [])) = false.
Proof. vm_compute. repeat split; reflexivity. Qed.

(* Why the round-trip request does not cross a JSON connection, in Model A (the codec): a session envelope with an
   authentication object and no scheme encodes to JSON that the decoder rejects. *)
Theorem round_trip_request_is_not_decodable :
  forall cx fuel (s : Codec.Types.session) a j,
  Codec.EnvelopeFacts.wf_base (Codec.Types.s_env s) = true ->
  Codec.Types.valid_state (Codec.Types.s_state s) = true ->
  Codec.EnvelopeFacts.opt_all Codec.EnvelopeFacts.wf_reason (Codec.Types.s_reason s) = true ->
  Codec.Types.s_auth s = Some a -> Codec.Types.s_scheme s = "" ->
  Codec.Envelope.encode (Codec.Types.ESes s) = Base.Res.Ok j ->
  Codec.Envelope.decode_any cx fuel j = Base.Res.Err.
Proof. exact Codec.SessionFacts.session_with_authentication_but_no_scheme_is_rejected. Qed.
Print Assumptions round_trip_request_is_not_decodable.
