(* C17 — Concurrent sessions are isolated and handlers see their own session.
   Statements only; proofs are in Mux/SessionsFacts.v and Corr/C17Facts.v. *)
From Coq Require Import List Bool Arith.
Import ListNotations.
From Lime Require Import Base.Res Mux.Sessions Mux.SessionsFacts Corr.C17 Corr.C17Facts.

(* For every number of sessions, every interleaving of connects, arrivals and
   session ends, every id source, Register callback and handler behaviour:
   each handler invocation for an envelope that arrived on session j is given
   exactly session j's id, the server's node and the node Register assigned to
   session j's own candidate. *)
Theorem C17_handler_context :
  forall server_node ids reg handler (ops : list sop) j c e,
  In (j, c, e) (hlog (srun server_node ids reg handler ops)) ->
  c = (ids j, server_node, reg (nth j (cands ops) 0) j).
Proof. exact handler_ctx_spec. Qed.
Print Assumptions C17_handler_context.

(* What is written to a session's connection (through the Sender handed to the
   handlers) is exactly, and in order, what the handlers produced for the
   envelopes that arrived on that same session while it was served; likewise
   the invocations made for it.  Nothing produced for another session's
   envelope ever reaches it. *)
Theorem C17_session_view :
  forall server_node ids reg handler (ops : list sop) i s,
  nth_error (sessions (srun server_node ids reg handler ops)) i = Some s ->
  ctx_of s = spec_ctx server_node ids reg ops i /\
  s_out s = spec_out server_node ids reg handler ops i /\
  s_in s = spec_in server_node ids reg ops i.
Proof. exact session_spec. Qed.
Print Assumptions C17_session_view.

(* Non-interference: two histories that agree on session i's own operations
   (whatever the other sessions do, in whatever interleaving) give session i
   the same context, the same invocations and the same bytes on its connection. *)
Theorem C17_non_interference :
  forall server_node ids reg handler (ops ops' : list sop) i s s',
  nth_error (sessions (srun server_node ids reg handler ops)) i = Some s ->
  nth_error (sessions (srun server_node ids reg handler ops')) i = Some s' ->
  nth i (cands ops) 0 = nth i (cands ops') 0 ->
  own i 0 false ops = own i 0 false ops' ->
  ctx_of s = ctx_of s' /\ s_out s = s_out s' /\ s_in s = s_in s'.
Proof. exact non_interference. Qed.
Print Assumptions C17_non_interference.

(* Frame: a step of another session leaves a session's whole component unchanged. *)
Theorem C17_frame :
  forall server_node ids reg handler (st : sst) (o : sop) i,
  (match o with Connect _ => i < length (sessions st) | Recv j _ | Finish j => j <> i end) ->
  nth_error (sessions (sstep server_node ids reg handler st o)) i = nth_error (sessions st) i.
Proof. exact frame_step. Qed.
Print Assumptions C17_frame.

(* Session ids are pairwise distinct, provided the id source never repeats
   (the hypothesis on uuid.NewString, visible here). *)
Theorem C17_ids_distinct :
  forall server_node ids reg handler (ops : list sop),
  (forall a b, ids a = ids b -> a = b) ->
  NoDup (map s_sid (sessions (srun server_node ids reg handler ops))).
Proof. exact sids_distinct. Qed.
Print Assumptions C17_ids_distinct.

(* The executable check used on implementation observations is met by the
   model's joint run on every case whose announced ids are distinct. *)
Theorem C17_model_meets_check : forall c : case,
  nodupb (o_sids c) = true -> length (o_sids c) = length (c_cands c) -> check c (model c) = true.
Proof. exact model_meets_check. Qed.
Print Assumptions C17_model_meets_check.

(* non-vacuity: three sessions, interleaved traffic, the second one ends in between *)
Example C17_example :
  let st := srun 9 (fun n => 100 + n) (fun cand n => cand * 10) the_handler
              [Connect 1; Connect 2; Recv 1 4; Connect 3; Recv 0 5; Finish 1; Recv 1 7; Recv 2 1] in
  map s_out (sessions st) =
    [ [((100, 9, 10), 5); ((100, 9, 10), 1005)];
      [((101, 9, 20), 4)];
      [((102, 9, 30), 1)] ] /\
  hlog st = [(1, (101, 9, 20), 4); (0, (100, 9, 10), 5); (2, (102, 9, 30), 1)].
Proof. vm_compute. split; reflexivity. Qed.
