(* C20 — Each inbound envelope is dispatched to exactly the first matching handler.
   Statements only; proofs are in Mux/DispatchFacts.v and Corr/C20Facts.v. *)
From Coq Require Import List Bool Arith.
Import ListNotations.
From Lime Require Import Base.Res Mux.Dispatch Mux.DispatchFacts Corr.C20 Corr.C20Facts.

(* For every handler table (any length, arbitrary predicates, None = no
   predicate) and every envelope: exactly the earliest-registered matching
   handler is invoked, once; none if nothing matches, and the loop goes on. *)
Theorem C20_first_match : forall (E : Type) (hs : list (handler E)) (e : E),
  match first_match hs e with
  | Some i => exists h, nth_error hs i = Some h /\ matches h e = true /\
                (forall j h', j < i -> nth_error hs j = Some h' -> matches h' e = false) /\
                dispatch hs e = ([i], h_ok h e)
  | None => (forall h, In h hs -> matches h e = false) /\ dispatch hs e = ([], true)
  end.
Proof. exact dispatch_spec. Qed.
Print Assumptions C20_first_match.

(* The listen loop over any envelope sequence: the invocation log is the
   concatenation of the single dispatches of the envelopes up to and including
   the first whose handler errs; nothing after it is dispatched. *)
Theorem C20_listen_log : forall (E : Type) (kind_of : E -> kind) (m : mux E) (es : list E),
  fst (listen kind_of m es) = flat_map (env_log E kind_of m) (upto_err E kind_of m es) /\
  snd (listen kind_of m es) = forallb (env_ok E kind_of m) es /\
  (exists rest, es = upto_err E kind_of m es ++ rest) /\
  (forall e, In e (removelast (upto_err E kind_of m es)) -> env_ok E kind_of m e = true).
Proof.
  intros E kind_of m es.
  exact (conj (listen_log E kind_of m es) (conj (listen_running E kind_of m es)
        (conj (upto_err_prefix E kind_of m es) (upto_err_ok E kind_of m es)))).
Qed.
Print Assumptions C20_listen_log.

(* Handlers of other kinds are never invoked, and what is handed over is the
   envelope that arrived. *)
Theorem C20_own_kind : forall (E : Type) (kind_of : E -> kind) (m : mux E) (es : list E) k i e,
  In (k, i, e) (fst (listen kind_of m es)) ->
  k = kind_of e /\ In e es /\ first_match (table m k) e = Some i.
Proof. exact listen_inv_kind. Qed.
Print Assumptions C20_own_kind.

(* A handler error makes the server finish the session; no error, no finish. *)
Theorem C20_error_finishes : forall (E : Type) (kind_of : E -> kind) (m : mux E) (es : list E),
  snd (serve kind_of m es) = negb (forallb (env_ok E kind_of m) es).
Proof. exact serve_finishes_iff_error. Qed.
Print Assumptions C20_error_finishes.

(* The executable check used on implementation observations is met by the
   model on every case (every table, every sequence, every mode). *)
Theorem C20_model_meets_check : forall c : case, check c (model c) = true.
Proof. exact model_meets_check. Qed.
Print Assumptions C20_model_meets_check.

(* non-vacuity: a concrete table with a nil predicate behind a rejecting one *)
Example C20_example :
  dispatch [ {| h_pred := Some (fun n => Nat.eqb n 7); h_ok := fun _ => true |};
             {| h_pred := None; h_ok := fun _ => false |};
             {| h_pred := None; h_ok := fun _ => true |} ] 3 = ([1], false).
Proof. reflexivity. Qed.
