(* C01 — Envelope JSON round-trip preserves kind and content.  Statements only. *)
From Coq Require Import List Bool Ascii String ZArith.
Import ListNotations.
From Lime Require Import Base.Str Base.Res Base.Json Codec.Types Codec.TextForms Codec.TextFormsFacts
  Codec.Doc Codec.DocFacts Codec.Envelope Codec.EnvelopeFacts Codec.Registry Corr.Codec Corr.C01 Corr.C01Facts.
Open Scope string_scope.

(* Every well-formed envelope of every kind - any identifiers, nodes, metadata,
   media types, documents nested to any depth (fuel only has to exceed the
   depth), authentication data - encodes to JSON which its typed decoder
   decodes back to the same envelope.  [cx] fixes which URIs net/url accepts;
   wf_env demands of a request's URI only that its text parses to itself. *)
Theorem C01_typed : forall (cx : ctx) (fuel : nat) (e : env),
  wf_env cx e = true -> edepth e <= fuel ->
  exists j, encode e = Ok j /\ decode_typed cx fuel (kind_of e) j = Ok e.
Proof. exact roundtrip_typed. Qed.
Print Assumptions C01_typed.

(* ... and which a transport's receive path (kind discrimination from the
   fields present, then the same population) decodes back to the same
   envelope of the same kind. *)
Theorem C01_transport : forall (cx : ctx) (fuel : nat) (e : env),
  wf_any cx e = true -> edepth e <= fuel ->
  exists j, encode e = Ok j /\ decode_any cx fuel j = Ok e.
Proof. exact roundtrip_any. Qed.
Print Assumptions C01_transport.

(* documents on their own, at any nesting depth *)
Theorem C01_document : forall (fx : fixes) (d : doc) (fuel : nat) (t : mediatype),
  wf_doc d = true -> ddepth d <= fuel -> factory_of t = doc_factory d ->
  doc_of_json fx fuel t (Some (doc_to_json d)) = Ok d.
Proof. exact doc_roundtrip. Qed.
Print Assumptions C01_document.

(* text forms *)
Theorem C01_node : forall n, wf_node n = true -> parse_node (node_str n) = n.
Proof. exact parse_node_str. Qed.
Print Assumptions C01_node.
Theorem C01_identity : forall nm dm, has_char c_at nm = false -> has_char c_at dm = false ->
  parse_identity (identity_str nm dm) = (nm, dm).
Proof. exact parse_identity_roundtrip. Qed.
Print Assumptions C01_identity.
Theorem C01_mediatype : forall fx m, wf_mt m = true -> parse_mt fx (mt_str m) = Some m.
Proof. exact parse_mt_str. Qed.
Print Assumptions C01_mediatype.
(* every value a parser produces is well-formed, so its text form parses back to it *)
Theorem C01_parsed_values_wf : forall s, wf_node (parse_node s) = true /\
  forall m, parse_mt repaired s = Some m -> wf_mt m = true.
Proof. intros s. split; [apply parse_node_wf | apply parse_mt_wf]. Qed.
Print Assumptions C01_parsed_values_wf.

(* Registered custom types (mediatype.go: RegisterDocumentFactory / GetDocumentFactory): whatever was registered or
   decoded before and in between, a document of media type t is decoded by the registered type exactly when a
   registration of t came before that decode - also when t was decoded, generically, before it was registered -
   and never by a type registered for another media type. *)
Theorem C01_registered_types_are_used : forall ops t is_json rest,
  rrun [] (ops ++ RDecode t is_json :: rest) =
  (rrun [] ops ++ (if registered_by ops t then RkCustom t else if is_json then RkJson else RkText) ::
   rrun (reg_after [] ops) rest)%list.
Proof. exact decode_after. Qed.
Print Assumptions C01_registered_types_are_used.

(* the executable check evaluated on implementation observations is met by the model on every case *)
Theorem C01_model_meets_check : forall c : case, check (model_case c) = true.
Proof. exact model_meets_check. Qed.
Print Assumptions C01_model_meets_check.

(* non-vacuity: a response with reason, nested collection resource, pp and metadata is well-formed *)
Example C01_example :
  let nd a := {| n_name := a; n_domain := "d.com"; n_instance := "i" |} in
  let d := DCollection 2 mt_container (Some [DContainer mt_text_plain (DText "x");
             DContainer mt_collection (DCollection 0 mt_app_json (Some [DJson [("k", JInt 1)]]))]) in
  let e := EResp {| rs_cmd := {| c_env := {| e_id := "1"; e_from := nd "a"; e_pp := nd "p"; e_to := nd "b";
                                             e_meta := [("k", "v")] |};
                                 c_method := "get"; c_type := Some mt_collection; c_resource := Some d |};
                    rs_status := "failure"; rs_reason := Some {| r_code := 42; r_desc := "x" |} |} in
  wf_any (mk_cx []) e = true /\ edepth e = 4.
Proof. split; reflexivity. Qed.
