(* C15 — Blocking operations honour their context.
   Statements only; proofs are in Life/TimingFacts.v. Times are milliseconds of virtual time. *)
From Coq Require Import ZArith List Bool.
Import ListNotations.
From Lime Require Import Base.Res Life.Timing Life.TimingFacts Corr.C15.
Open Scope Z_scope.

(* The TCP transport's polling loop (ctxConn.Read / Write), for every poll interval, context end,
   event time and starting time: a context error is returned exactly at a deadline and less than
   one poll interval after a cancellation - never without the context having ended. *)
Theorem C15_poll_loop : forall fuel poll c ev now r,
  0 < poll -> poll_loop fuel poll c ev now = Some (r, TCtxErr) ->
  exists t, ctx_time c = Some t /\ t <= r /\ now <= r /\
    match c with
    | CDeadline _ => r = Z.max now t
    | CCancel _ => (t <= now -> r = now) /\ (now < t -> r < t + poll)
    | CNever => False
    end.
Proof. exact poll_ctxerr. Qed.
Print Assumptions C15_poll_loop.

(* ... a success is the awaited event, at the time it happens; and with enough iterations the loop
   always returns once the context has an end or the event happens (it never blocks for ever). *)
Theorem C15_poll_loop_ok : forall fuel poll c ev now r,
  0 < poll -> poll_loop fuel poll c ev now = Some (r, TOk) -> exists e, ev = Some e /\ r = Z.max now e.
Proof. exact poll_ok. Qed.
Print Assumptions C15_poll_loop_ok.

Theorem C15_poll_loop_returns : forall fuel poll c ev now h,
  0 < poll -> (ctx_time c = Some h \/ ev = Some h) ->
  Z.max 0 (h - now) + 2 * poll <= Z.of_nat fuel * poll -> poll_loop fuel poll c ev now <> None.
Proof. exact poll_returns. Qed.
Print Assumptions C15_poll_loop_returns.

(* Every operation of the repaired code on every transport, blocked by a silent or non-reading
   peer: promptly at a deadline, within the transport's poll interval (5 s on TCP, none elsewhere)
   after a cancellation; finishing a session on the server side is only shown bounded by two poll
   intervals (see the refutation below). *)
Theorem C15_operations : forall k o c ev phase now fuel r,
  now <= phase <= now + TimingFacts.poll_of k ->
  run_op true k o c ev phase now fuel = Some (r, TCtxErr) ->
  exists t, ctx_time c = Some t /\ Z.max now t <= r /\
    (match o with
     | OpServerFinish => True
     | _ => match c with
            | CDeadline _ => r = Z.max now t
            | CCancel _ => r <= Z.max now t + TimingFacts.poll_of k
            | CNever => False
            end
     end) /\
    r <= Z.max now t + 2 * TimingFacts.poll_of k.
Proof. exact op_ctxerr_bound. Qed.
Print Assumptions C15_operations.

Theorem C15_never_blocks_for_ever : forall k o c ev phase now fuel t,
  ctx_time c = Some t -> Z.max 0 (t - now) + 2 * tcp_poll <= Z.of_nat fuel * tcp_poll ->
  run_op true k o c ev phase now fuel <> None.
Proof. exact op_returns. Qed.
Print Assumptions C15_never_blocks_for_ever.

(* A Send over a TCP connection upgraded to TLS: a write that does not succeed ends with an error no later than a
   deadline, and no later than one poll interval after it began whatever the context does (crypto/tls makes a
   timed-out write permanent, so the loop does not go round). *)
Theorem C15_send_over_tls : forall poll c ev now r res,
  0 < poll -> tls_write poll c ev now = (r, res) ->
  now <= r <= now + poll /\
  (forall t, c = CDeadline t -> r <= Z.max now t) /\
  (res = WOk -> exists e, ev = Some e /\ r = Z.max now e) /\
  (res = WCtx -> exists t, ctx_time c = Some t /\ t <= now /\ r = now).
Proof. exact tls_write_bound. Qed.
Print Assumptions C15_send_over_tls.

(* The full statement is false of the faithful model for one operation: the server's FinishSession
   over TCP, after its send was ended by the context, waits for its own receiver's current poll.
   The witness is replayed on the implementation by the correspondence (known finding). *)
Theorem C15_server_finish_refuted :
  run_op true KTcp OpServerFinish (CDeadline 300) None 4898 0 200 = Some (4898, TCtxErr) /\ 300 + tolerance < 4898 /\
  run_op true KTcp OpServerFinish (CCancel 400) None 4898 0 200 = Some (9898, TCtxErr) /\ 400 + tcp_poll + tolerance < 9898.
Proof. vm_compute. repeat split. Qed.
Print Assumptions C15_server_finish_refuted.

(* The tree as found: the in-process Send ignored its context (blocks for ever on a full queue);
   the TLS upgrade ignored a cancellation (30 s fallback). *)
Theorem C15_as_found_refuted :
  (exists c now fuel, ctx_time c = Some 200 /\ run_op false KInproc OpSend c None 0 now fuel = None) /\
  (exists r, run_op false KTcp OpTlsUpgrade (CCancel 200) None 0 0 100 = Some (r, TCtxErr) /\ 200 + tcp_poll < r).
Proof. exact (conj as_found_inproc_send_ignores_deadline as_found_tls_upgrade_ignores_cancel). Qed.
Print Assumptions C15_as_found_refuted.

(* non-vacuity *)
Example C15_example :
  run_op true KTcp OpSend (CCancel 200) None 0 0 100 = Some (5000, TCtxErr) /\
  run_op true KTcp OpSend (CDeadline 7300) None 0 0 100 = Some (7300, TCtxErr) /\
  run_op true KWs OpSend (CCancel 950) None 0 0 100 = Some (950, TCtxErr) /\
  run_op true KTcp OpReceive (CCancel 200) (Some 1200) 0 0 100 = Some (1200, TOk).
Proof. vm_compute. repeat split. Qed.
