(* C18 — Server start/stop is orderly under any timing.
   Statements only; proofs are in Life/ServerFacts.v, Life/HandlerFacts.v, Corr/C18Facts.v. *)
From Coq Require Import List Bool Arith.
Import ListNotations.
From Lime Require Import Base.Res Life.Handler Life.HandlerFacts Life.Server Life.ServerFacts Corr.C18 Corr.C18Facts.
From Lime Require Import Life.Startup Life.StartupFacts.

(* Under every schedule of acceptors, consumer, Close and ListenAndServe, for any number of
   listeners, pending connections and queue size: the repaired code never panics (the queue
   is never closed under the goroutines that select on it). *)
Theorem C18_no_panic : forall backlog clients (sched : list glabel),
  panicked (grun true backlog (ginit clients) sched) = false /\
  qclosed (grun true backlog (ginit clients) sched) = false.
Proof. exact no_panic. Qed.
Print Assumptions C18_no_panic.

(* Whenever ListenAndServe returns - under every schedule - it returns ErrServerClosed, all
   acceptors and the consumer have ended, the queue is empty, every accepted connection was
   either handed to a serving goroutine or closed (none dropped), and once Close has done all
   its steps every listener is closed. *)
Theorem C18_orderly_shutdown : forall backlog clients (sched : list glabel) r,
  let s := grun true backlog (ginit clients) sched in
  main s = MReturned r ->
  r = ErrServerClosed /\ all_done s = true /\ queue s = 0 /\ held s = 0 /\ leaked s = 0 /\
  sum (pending s) + served s + released s = sum clients /\ panicked s = false /\ cancelled s = true /\
  (close_todo s = 0 -> Forall (fun b => b = true) (lclosed s)).
Proof. exact orderly_shutdown. Qed.
Print Assumptions C18_orderly_shutdown.

(* Every schedule terminates: each step either changes nothing or lowers a natural-number
   measure; and once Close has cancelled the context some measure-lowering step is enabled
   until ListenAndServe has returned (no deadlock) - so every maximal execution after Close
   ends with ListenAndServe returned, in the state described above. *)
Theorem C18_terminates : forall backlog clients (sched : list glabel) l,
  let s := grun true backlog (ginit clients) sched in
  gstep true backlog s l = s \/ measure (gstep true backlog s l) < measure s.
Proof. exact terminates. Qed.
Print Assumptions C18_terminates.

Theorem C18_progress_after_close : forall backlog clients (sched : list glabel),
  let s := grun true backlog (ginit clients) sched in
  cancelled s = true -> main s = MWait -> exists l, measure (gstep true backlog s l) < measure s.
Proof. exact progress_after_cancel. Qed.
Print Assumptions C18_progress_after_close.

(* The goroutine serving one accepted transport, for every handshake outcome, every traffic,
   every moment of cancellation and every schedule: its observable events are accepted by the
   callback discipline, and complete when it ends ... *)
Theorem C18_callback_discipline : forall (sched : list (bool * hlabel)),
  let s := hrun hinit sched in
  mon_ok (mon_run (h_evs s)) = true /\ (h_pc s = PDone -> mon_final (mon_run (h_evs s)) = true).
Proof. intros sched s. destruct (handler_discipline sched) as [_ H]. exact H. Qed.
Print Assumptions C18_callback_discipline.

(* ... which means: Established at most once, Finished at most once and never without
   Established, both or neither on a complete trace; ... *)
Theorem C18_callbacks_exactly_once : forall es,
  mon_ok (mon_run es) = true ->
  count_ev EvEst es <= 1 /\ count_ev EvFin es <= count_ev EvEst es /\
  (mon_final (mon_run es) = true -> count_ev EvFin es = count_ev EvEst es).
Proof. exact accepted_counts. Qed.
Print Assumptions C18_callbacks_exactly_once.

(* ... and a handler runs only after Established and before the connection is closed and
   Finished is called. *)
Theorem C18_handlers_between_callbacks : forall a b,
  mon_ok (mon_run (a ++ EvRun :: b)) = true ->
  count_ev EvEst a = 1 /\ count_ev EvClosed a = 0 /\ count_ev EvFin a = 0.
Proof. exact accepted_order. Qed.
Print Assumptions C18_handlers_between_callbacks.

(* Start-up: whatever the timing of Close relative to ListenAndServe's loop over its listeners (any
   number and mix of socket and in-process listeners, every schedule), once ListenAndServe has
   returned no listener is left open, and it only returns once the server was closed.  The tree
   as found is refuted: a socket listener started after Close had skipped it stays open. *)
Theorem C18_startup_orderly : forall kinds (sched : list ulabel),
  let s := urun true (uinit kinds) sched in
  u_main s = UReturned -> none_open s = true /\ u_cancelled s = true.
Proof. exact startup_orderly. Qed.
Print Assumptions C18_startup_orderly.

Theorem C18_startup_as_found_refuted :
  exists sched, let s := urun false (uinit [LInproc; LSocket]) sched in settled s = true /\ none_open s = false.
Proof. exact as_found_leaves_a_listener_open. Qed.
Print Assumptions C18_startup_as_found_refuted.

(* The tree as found is refuted by concrete schedules (each replayed against the real code
   before the repair): the consumer receives nil from the closed queue and panics; an acceptor
   sends on the closed queue and panics; ListenAndServe returns a listener's closing error;
   a transport held by an acceptor at shutdown is dropped without being closed. *)
Theorem C18_as_found_refuted :
  (exists ls, panicked (grun false 4 (ginit [0]) ls) = true) /\
  (exists ls, panicked (grun false 4 (ginit [1]) ls) = true) /\
  (exists ls, main (grun false 4 (ginit [0]) ls) = MReturned ListenerError) /\
  (exists ls, leaked (grun false 4 (ginit [1]) ls) = 1).
Proof.
  exact (conj as_found_consumer_panics (conj as_found_acceptor_panics
        (conj as_found_listener_error as_found_drops_transport))).
Qed.
Print Assumptions C18_as_found_refuted.

(* The traces the model predicts for the correspondence scenarios satisfy the property's
   executable clause, for every phase, every number of envelopes and every oracle; the
   canonical shutdown schedules used there end orderly (swept for up to 9 listeners). *)
Theorem C18_model_traces_meet_check : forall cl ts,
  length ts = length cl -> traces_ok cl (model_traces cl ts) = true.
Proof. exact model_traces_ok. Qed.
Print Assumptions C18_model_traces_meet_check.

Theorem C18_canonical_schedules :
  forallb (fun n => server_ok 0 n && server_ok 1 (S n) && server_ok 3 (S n)) (seq 0 9) = true.
Proof. exact canonical_schedules_ok. Qed.
Print Assumptions C18_canonical_schedules.

(* non-vacuity: a schedule with a connection accepted and served, one held at shutdown, two listeners *)
Example C18_example :
  let s := grun true 1 (ginit [2; 0])
             [AcceptGet 0; SendQ 0; ConsTake; AcceptGet 0; CloseCall; CloseStep; CloseStep; SendCtx 0;
              CloseStep; AcceptClosed 1; ConsCtx; MainReturn] in
  main s = MReturned ErrServerClosed /\ served s = 1 /\ released s = 1 /\ lclosed s = [true; true].
Proof. vm_compute. repeat split. Qed.
