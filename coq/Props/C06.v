(* C06 — Data envelopes flow only while the session is established.  Statements only. *)
From Coq Require Import List Bool Arith String.
Import ListNotations.
From Lime Require Import Hs.Types Hs.Server Hs.Monitor Hs.ServerFacts Hs.MonitorFacts Chan.Gate.
Open Scope string_scope.
Open Scope list_scope.

(* Send side: in every state other than established, or on a disconnected transport,
   each of the five send operations returns an error and writes nothing. *)
Theorem C06_send_gate_closed : forall st connected op,
  st <> SEstablished \/ connected = false -> gate st connected op = (false, 0).
Proof. exact gate_closed. Qed.
Print Assumptions C06_send_gate_closed.

(* lifted over every server handshake run: whenever EstablishSession has not (yet) ended
   in the established state, the gate is closed for the channel state it left behind *)
Theorem C06_send_gate_during_server_handshake : forall fx conf o ins evs c out rest op,
  establish fx conf o ins = (evs, c, out, rest) -> ch_state c <> SEstablished ->
  gate (ch_state c) (ch_conn c) op = (false, 0).
Proof. intros. apply gate_closed. left. assumption. Qed.
Print Assumptions C06_send_gate_during_server_handshake.

(* Receive side: the monitor's Dispatch rule (a data envelope reaches the handlers only
   after the Established callback, for a data input) and its abort rule (a non-session
   input before establishment is followed at most by one failed envelope and the close)
   hold of every server run. *)
Theorem C06_monitor_accepts : forall (conf : sconf) (o : oracle) (ins : list cin),
  let r := handle_channel s_repaired conf o ins in
  accepts conf o (rr_trace r) (rr_handler_ended r) = true /\ rr_outcome r <> Panicked.
Proof. exact server_accepts. Qed.
Print Assumptions C06_monitor_accepts.

(* unfolded: a Dispatch event is only accepted once the session was announced *)
Theorem C06_dispatch_only_when_established : forall conf o m m',
  mon_step conf o m Dispatch = Some m' -> m_estcb m = true /\ m_in m = Some CData.
Proof.
  intros conf o m m' H. unfold mon_step, guard in H.
  destruct (m_estcb m && negb (m_fincb m) && match m_in m with Some CData => true | _ => false end) eqn:E; [|discriminate].
  apply andb_prop in E. destruct E as [E E2]. apply andb_prop in E. destruct E as [E _].
  split; auto. destruct (m_in m) as [[]|]; try discriminate. reflexivity.
Qed.
Print Assumptions C06_dispatch_only_when_established.
