(* C14 — Every connection that fails to establish is released.  Statements only. *)
From Coq Require Import List Bool Arith String.
Import ListNotations.
From Lime Require Import Hs.Types Hs.Server Hs.Monitor Hs.ServerFacts Hs.MonitorFacts Props.HsCommon.
Open Scope string_scope.
Open Scope list_scope.

(* The monitor's final condition and its EstCb / FinCb rules are C14: whatever
   was failed, aborted by a non-session or undecodable input or EOF, or is no
   longer served, is closed; callbacks only for established sessions. *)
Theorem C14_monitor_accepts : forall (conf : sconf) (o : oracle) (ins : list cin),
  let r := handle_channel s_repaired conf o ins in
  accepts conf o (rr_trace r) (rr_handler_ended r) = true /\ rr_outcome r <> Panicked.
Proof. exact server_accepts. Qed.
Print Assumptions C14_monitor_accepts.

(* unfolded: when the goroutine serving a connection has ended, the connection is closed *)
Theorem C14_ended_implies_closed : forall conf o ins,
  let r := handle_channel s_repaired conf o ins in
  rr_handler_ended r = true ->
  exists m, mon_run conf o (m0 conf) (rr_trace r) = Some m /\ m_closed m = true /\
            (m_estcb m = false -> m_fincb m = false).
Proof.
  intros conf o ins r He. destruct (server_accepts conf o ins) as [Ha _]. cbn zeta in Ha. fold r in Ha.
  unfold accepts in Ha. destruct (mon_run conf o (m0 conf) (rr_trace r)) as [m|] eqn:E; [|discriminate].
  exists m. split; auto. unfold mon_final in Ha. rewrite He in Ha.
  repeat (apply andb_prop in Ha; destruct Ha as [Ha ?]).
  split; auto. intros Hc. rewrite Hc in *. apply negb_true_iff. assumption.
Qed.
Print Assumptions C14_ended_implies_closed.

(* the tree as found left the connection open after a callback error, and fired both
   callbacks for a session that failed *)
Theorem C14_refuted_as_found :
  let o_err := {| o_auth := fun _ _ _ _ => AErr; o_reg := fun f => RNode f |} in
  ~ In Closed (rr_trace (handle_channel s_as_found w_conf_plain o_err [w_new ""; w_auth])) /\
  In FinCb (rr_trace (handle_channel s_as_found w_conf_plain w_oracle [w_new "x"])).
Proof.
  split.
  - vm_compute. intros H. repeat (destruct H as [H|H]; [discriminate|]). exact H.
  - vm_compute. tauto.
Qed.
Print Assumptions C14_refuted_as_found.
