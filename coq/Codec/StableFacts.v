(* C02 on the model: decoding never panics (after the repair), and whatever a
   decoder accepts re-encodes to something the same decoder accepts as the
   same envelope. *)
From Coq Require Import List Bool Ascii String ZArith Lia.
Import ListNotations.
From Lime Require Import Base.Str Base.Res Base.Json Codec.Types Codec.TextForms Codec.TextFormsFacts
  Codec.Doc Codec.DocFacts Codec.Envelope Codec.EnvelopeFacts.
Open Scope string_scope.

(* ---------- no panic ---------- *)
Lemma raw_of_json_no_panic cx j : raw_of_json cx j <> Panic.
Proof.
  destruct j; cbn; try discriminate.
  repeat match goal with
  | |- context [match ?x with Ok _ => _ | Err => _ | Panic => _ end] => destruct x; try discriminate
  end.
Qed.

Lemma populate_no_panic cx fuel k r : cx_fix cx = repaired -> populate cx fuel k r <> Panic.
Proof.
  intros Hfx. destruct k; cbn [populate].
  - unfold msg_of_raw. destruct (rw_type r); try discriminate. destruct (rw_content r) eqn:Ec; try discriminate.
    rewrite <- Ec, Hfx. pose proof (doc_no_panic fuel m (rw_content r)) as Hp.
    destruct (doc_of_json repaired fuel m (rw_content r)); try discriminate. congruence.
  - unfold not_of_raw. destruct (rw_event r); discriminate.
  - unfold req_of_raw, cmd_of_raw. destruct (rw_resource r) eqn:Er.
    + destruct (rw_type r); try discriminate. rewrite <- Er, Hfx.
      pose proof (doc_no_panic fuel m (rw_resource r)) as Hp.
      destruct (doc_of_json repaired fuel m (rw_resource r)); try discriminate; [|congruence].
      destruct (rw_method r); discriminate.
    + destruct (rw_method r); discriminate.
  - unfold resp_of_raw, cmd_of_raw. destruct (rw_resource r) eqn:Er.
    + destruct (rw_type r); try discriminate. rewrite <- Er, Hfx.
      pose proof (doc_no_panic fuel m (rw_resource r)) as Hp.
      destruct (doc_of_json repaired fuel m (rw_resource r)); try discriminate; [|congruence].
      destruct (rw_method r); try discriminate. destruct (rw_status r); try discriminate.
      destruct (_ && _); discriminate.
    + destruct (rw_method r); try discriminate. destruct (rw_status r); try discriminate.
      destruct (_ && _); discriminate.
  - unfold ses_of_raw. destruct (rw_auth r).
    + destruct (rw_scheme r); try discriminate. destruct (auth_of_json s j); try discriminate.
      destruct (rw_state r); discriminate.
    + destruct (rw_state r); discriminate.
Qed.

Theorem decode_typed_no_panic cx fuel k j : cx_fix cx = repaired -> decode_typed cx fuel k j <> Panic.
Proof.
  intros Hfx. unfold decode_typed. pose proof (raw_of_json_no_panic cx j) as Hr.
  destruct (raw_of_json cx j); cbn [bind]; try discriminate; [|congruence].
  apply populate_no_panic, Hfx.
Qed.

Theorem decode_any_no_panic cx fuel j : cx_fix cx = repaired -> decode_any cx fuel j <> Panic.
Proof.
  intros Hfx. unfold decode_any. pose proof (raw_of_json_no_panic cx j) as Hr.
  destruct (raw_of_json cx j); cbn [bind]; try discriminate; [|congruence].
  destruct (envelope_type a); try discriminate. apply populate_no_panic, Hfx.
Qed.

(* as found: remote input crashes the decoder *)
Definition cx_as_found := {| cx_fix := as_found; cx_uri := fun s => Some s |}.
Example decode_panics_as_found :
  decode_any cx_as_found 8
    (JObj [("type", JStr "application/vnd.lime.container+json");
           ("content", JObj [("type", JStr "text/plain")])]) = Panic.
Proof. reflexivity. Qed.

(* ---------- what Unmarshal returns is well-formed ---------- *)
Definition uri_idem (cx : ctx) : Prop := forall s u, cx_uri cx s = Some u -> cx_uri cx u = Some u.

Lemma dec_node_wf o r : dec_node o = Ok r -> opt_all wf_node r = true.
Proof.
  unfold dec_node. destruct (ptr o) as [[]|]; try discriminate; intros H; injection H as <-; cbn; auto.
  apply parse_node_wf.
Qed.
Lemma dec_reason_wf o r : dec_reason o = Ok r -> opt_all wf_reason r = true.
Proof.
  unfold dec_reason. destruct (ptr o) as [[]|]; try discriminate; [|intros H; injection H as <-; reflexivity].
  destruct (dec_int (get "code" kvs)) eqn:Ec; try discriminate.
  destruct (dec_string (get "description" kvs)); try discriminate.
  intros H; injection H as <-. cbn. unfold wf_reason. cbn. eapply dec_int_ok; eauto.
Qed.
Lemma dec_mt_wf o r : dec_mt repaired o = Ok r -> opt_all wf_mt r = true.
Proof. destruct r; cbn; auto. apply dec_mt_ok. Qed.
Lemma dec_enum_valid v o r : dec_enum v o = Ok r -> opt_valid v r = true.
Proof.
  unfold dec_enum. destruct (ptr o) as [[]|]; try discriminate; [|intros H; injection H as <-; reflexivity].
  destruct (v s) eqn:E; try discriminate. intros H; injection H as <-. exact E.
Qed.
Lemma dec_uri_fix cx o r : uri_idem cx -> dec_uri cx o = Ok r -> opt_all (uri_fix cx) r = true.
Proof.
  intros Hi. unfold dec_uri. destruct (ptr o) as [[]|]; try discriminate; [|intros H; injection H as <-; reflexivity].
  destruct (cx_uri cx s) eqn:E; try discriminate. intros H; injection H as <-. cbn. unfold uri_fix.
  rewrite (Hi _ _ E). apply String.eqb_refl.
Qed.
Lemma dec_raw_not_null o : opt_all not_null (dec_raw o) = true.
Proof. destruct o as [[]|]; reflexivity. Qed.

Record raw_decoded (cx : ctx) (r : rawenv) : Prop := {
  rd_from : opt_all wf_node (rw_from r) = true;
  rd_pp : opt_all wf_node (rw_pp r) = true;
  rd_to : opt_all wf_node (rw_to r) = true;
  rd_reason : opt_all wf_reason (rw_reason r) = true;
  rd_type : opt_all wf_mt (rw_type r) = true;
  rd_event : opt_valid valid_event (rw_event r) = true;
  rd_method : opt_valid valid_method (rw_method r) = true;
  rd_state : opt_valid valid_state (rw_state r) = true;
  rd_uri : opt_all (uri_fix cx) (rw_uri r) = true
}.

Lemma raw_of_json_decoded cx j r :
  cx_fix cx = repaired -> uri_idem cx -> raw_of_json cx j = Ok r -> raw_decoded cx r.
Proof.
  intros Hfx Hi. destruct j; cbn [raw_of_json]; try discriminate.
  - intros H; injection H as <-. constructor; reflexivity.
  - rewrite Hfx.
    destruct (dec_string (get "id" kvs)); try discriminate.
    destruct (dec_node (get "from" kvs)) eqn:E1; try discriminate.
    destruct (dec_node (get "pp" kvs)) eqn:E2; try discriminate.
    destruct (dec_node (get "to" kvs)) eqn:E3; try discriminate.
    destruct (dec_meta (get "metadata" kvs)); try discriminate.
    destruct (dec_reason (get "reason" kvs)) eqn:E4; try discriminate.
    destruct (dec_mt repaired (get "type" kvs)) eqn:E5; try discriminate.
    destruct (dec_enum valid_event (get "event" kvs)) eqn:E6; try discriminate.
    destruct (dec_enum valid_method (get "method" kvs)) eqn:E7; try discriminate.
    destruct (dec_uri cx (get "uri" kvs)) eqn:E8; try discriminate.
    destruct (dec_string_ptr (get "status" kvs)); try discriminate.
    destruct (dec_enum valid_state (get "state" kvs)) eqn:E9; try discriminate.
    destruct (dec_strs (get "encryptionOptions" kvs)); try discriminate.
    destruct (dec_string_ptr (get "encryption" kvs)); try discriminate.
    destruct (dec_strs (get "compressionOptions" kvs)); try discriminate.
    destruct (dec_string_ptr (get "compression" kvs)); try discriminate.
    destruct (dec_strs (get "schemeOptions" kvs)); try discriminate.
    destruct (dec_string_ptr (get "scheme" kvs)); try discriminate.
    intros H; injection H as <-. constructor; cbn.
    + eapply dec_node_wf; eauto.
    + eapply dec_node_wf; eauto.
    + eapply dec_node_wf; eauto.
    + eapply dec_reason_wf; eauto.
    + eapply dec_mt_wf; eauto.
    + eapply dec_enum_valid; eauto.
    + eapply dec_enum_valid; eauto.
    + eapply dec_enum_valid; eauto.
    + eapply dec_uri_fix; eauto.
Qed.

Lemma base_of_raw_wf cx r : raw_decoded cx r -> wf_base (base_of_raw r) = true.
Proof.
  intros [Hf Hp Ht _ _ _ _ _ _]. unfold wf_base, base_of_raw. cbn.
  destruct (rw_from r); destruct (rw_pp r); destruct (rw_to r); cbn in *; rewrite ?Hf, ?Hp, ?Ht; reflexivity.
Qed.

Lemma auth_of_json_scheme sc j a : auth_of_json sc j = Ok a -> sc = auth_scheme a.
Proof.
  unfold auth_of_json.
  destruct (sc =? "guest") eqn:E1; [apply String.eqb_eq in E1; subst; destruct j; try discriminate; intros H; injection H as <-; reflexivity|].
  destruct (sc =? "transport") eqn:E2; [apply String.eqb_eq in E2; subst; destruct j; try discriminate; intros H; injection H as <-; reflexivity|].
  destruct (sc =? "plain") eqn:E3.
  { apply String.eqb_eq in E3; subst; destruct j; try discriminate.
    destruct (dec_string (get "password" kvs)); try discriminate. intros H; injection H as <-; reflexivity. }
  destruct (sc =? "key") eqn:E4.
  { apply String.eqb_eq in E4; subst; destruct j; try discriminate.
    destruct (dec_string (get "key" kvs)); try discriminate. intros H; injection H as <-; reflexivity. }
  destruct (sc =? "external") eqn:E5; [|discriminate].
  apply String.eqb_eq in E5; subst; destruct j; try discriminate.
  destruct (dec_string (get "token" kvs)); try discriminate.
  destruct (dec_string (get "issuer" kvs)); try discriminate. intros H; injection H as <-; reflexivity.
Qed.

Lemma cmd_of_raw_wf cx fuel r c :
  cx_fix cx = repaired -> raw_decoded cx r -> cmd_of_raw cx fuel r = Ok c ->
  wf_command c = true /\ doc_depth_opt (c_resource c) <= fuel.
Proof.
  intros Hfx Hrd. pose proof (base_of_raw_wf cx r Hrd) as Hb. destruct Hrd as [_ _ _ _ Hty _ Hme _ _].
  unfold cmd_of_raw. destruct (rw_resource r) eqn:Er.
  - destruct (rw_type r) as [t|]; try discriminate. rewrite <- Er, Hfx.
    destruct (doc_of_json repaired fuel t (rw_resource r)) eqn:Ed; try discriminate.
    destruct (rw_method r) as [m|]; try discriminate. intros H; injection H as <-.
    apply doc_decoded_wf in Ed. destruct Ed as (Hw & Hf & Hd).
    unfold wf_command. cbn in *. rewrite Hb, Hme, Hty, Hw, Hf. split; [|exact Hd].
    destruct (doc_factory a); reflexivity.
  - destruct (rw_method r) as [m|]; try discriminate. intros H; injection H as <-.
    unfold wf_command. cbn in *. rewrite Hb, Hme. split; [reflexivity|lia].
Qed.

(* whatever populate returns is well-formed for its own kind *)
Lemma populate_wf cx fuel k r e :
  cx_fix cx = repaired -> raw_decoded cx r -> populate cx fuel k r = Ok e ->
  wf_env cx e = true /\ edepth e <= fuel /\ kind_of e = k.
Proof.
  intros Hfx Hrd. pose proof (base_of_raw_wf cx r Hrd) as Hb.
  destruct k; cbn [populate].
  - unfold msg_of_raw. destruct (rw_type r) as [t|] eqn:Et; try discriminate.
    destruct (rw_content r) eqn:Ec; try discriminate. rewrite <- Ec, Hfx.
    destruct (doc_of_json repaired fuel t (rw_content r)) eqn:Ed; try discriminate.
    intros H; injection H as <-. apply doc_decoded_wf in Ed. destruct Ed as (Hw & Hf & Hd).
    destruct Hrd as [_ _ _ _ Hty _ _ _ _]. rewrite Et in Hty. cbn in *.
    rewrite Hb, Hty, Hw, Hf. repeat split; auto. destruct (doc_factory a); reflexivity.
  - unfold not_of_raw. destruct (rw_event r) as [ev|] eqn:Ee; try discriminate.
    intros H; injection H as <-. destruct Hrd as [_ _ _ Hr _ Hev _ _ _]. rewrite Ee in Hev. cbn in *.
    rewrite Hb, Hev, Hr. repeat split; auto; lia.
  - unfold req_of_raw. destruct (cmd_of_raw cx fuel r) eqn:Ec; try discriminate.
    intros H; injection H as <-. apply cmd_of_raw_wf in Ec; auto. destruct Ec as (Hc & Hd).
    destruct Hrd as [_ _ _ _ _ _ _ _ Hu]. cbn. rewrite Hc, Hu. repeat split; auto.
  - unfold resp_of_raw. destruct (cmd_of_raw cx fuel r) eqn:Ec; try discriminate.
    apply cmd_of_raw_wf in Ec; auto. destruct Ec as (Hc & Hd).
    destruct Hrd as [_ _ _ Hr _ _ _ _ _].
    destruct (rw_status r) as [s|].
    + destruct (fx_empty_status (cx_fix cx) && str_empty s); try discriminate.
      intros H; injection H as <-. cbn. rewrite Hc, Hr. repeat split; auto.
    + intros H; injection H as <-. cbn. rewrite Hc, Hr. repeat split; auto.
  - unfold ses_of_raw. destruct Hrd as [_ _ _ Hr _ _ _ Hst _].
    destruct (rw_auth r) as [j|].
    + destruct (rw_scheme r) as [sc|] eqn:Esc; try discriminate.
      destruct (auth_of_json sc j) eqn:Ea; try discriminate.
      destruct (rw_state r) as [st|]; try discriminate. intros H; injection H as <-.
      apply auth_of_json_scheme in Ea. subst sc. cbn in *. unfold auth_matches. cbn.
      rewrite Hb, Hst, Hr, String.eqb_refl. repeat split; auto; lia.
    + destruct (rw_state r) as [st|]; try discriminate. intros H; injection H as <-.
      cbn in *. unfold auth_matches. cbn. rewrite Hb, Hst, Hr. repeat split; auto; lia.
Qed.

(* ---------- stability ---------- *)
Theorem decode_typed_stable cx fuel k j e :
  cx_fix cx = repaired -> uri_idem cx ->
  decode_typed cx fuel k j = Ok e ->
  exists j', encode e = Ok j' /\ decode_typed cx fuel k j' = Ok e.
Proof.
  intros Hfx Hi. unfold decode_typed. destruct (raw_of_json cx j) as [r| |] eqn:Er; cbn [bind]; try discriminate.
  intros Hp. apply raw_of_json_decoded in Er; auto.
  destruct (populate_wf cx fuel k r e Hfx Er Hp) as (Hw & Hd & Hk). subst k.
  apply roundtrip_typed; auto.
Qed.

Lemma populate_any cx fuel k r e :
  cx_fix cx = repaired -> raw_decoded cx r -> envelope_type r = Some k -> populate cx fuel k r = Ok e ->
  wf_any cx e = true.
Proof.
  intros Hfx Hrd Hk Hp. destruct (populate_wf cx fuel k r e Hfx Hrd Hp) as (Hw & _ & _).
  unfold wf_any. rewrite Hw. cbn [andb].
  unfold envelope_type in Hk.
  destruct k; cbn [populate] in Hp.
  - destruct (msg_of_raw cx fuel r); try discriminate. injection Hp as <-. reflexivity.
  - destruct (not_of_raw r); try discriminate. injection Hp as <-. reflexivity.
  - unfold req_of_raw in Hp. destruct (cmd_of_raw cx fuel r); try discriminate. injection Hp as <-. cbn.
    destruct (rw_method r); cbn in Hk.
    + destruct (rw_uri r); [reflexivity|]. cbn in Hk. destruct (rw_status r); cbn in Hk; try discriminate.
      destruct (rw_event r); try discriminate. destruct (rw_content r); try discriminate. destruct (rw_state r); discriminate.
    + destruct (rw_event r); try discriminate. destruct (rw_content r); try discriminate. destruct (rw_state r); discriminate.
  - unfold resp_of_raw in Hp. destruct (cmd_of_raw cx fuel r); try discriminate.
    destruct (rw_method r); cbn in Hk.
    + destruct (rw_uri r); cbn in Hk; [discriminate|].
      destruct (rw_status r) as [st0|]; cbn in Hk.
      * rewrite Hfx in Hp. cbn in Hp. destruct (str_empty st0) eqn:Es; try discriminate. injection Hp as <-. cbn. rewrite Es. reflexivity.
      * destruct (rw_event r); try discriminate. destruct (rw_content r); try discriminate. destruct (rw_state r); discriminate.
    + destruct (rw_event r); try discriminate. destruct (rw_content r); try discriminate. destruct (rw_state r); discriminate.
  - destruct (ses_of_raw r); try discriminate. injection Hp as <-. reflexivity.
Qed.

Theorem decode_any_stable cx fuel j e :
  cx_fix cx = repaired -> uri_idem cx ->
  decode_any cx fuel j = Ok e ->
  exists j', encode e = Ok j' /\ decode_any cx fuel j' = Ok e.
Proof.
  intros Hfx Hi. unfold decode_any. destruct (raw_of_json cx j) as [r| |] eqn:Er; cbn [bind]; try discriminate.
  destruct (envelope_type r) as [k|] eqn:Ek; try discriminate.
  intros Hp. apply raw_of_json_decoded in Er; auto.
  pose proof (populate_any cx fuel k r e Hfx Er Ek Hp) as Hwa.
  destruct (populate_wf cx fuel k r e Hfx Er Hp) as (_ & Hd & _).
  apply roundtrip_any; auto.
Qed.

(* as found: an accepted response with an empty status re-encodes to something
   the receive path rejects; a message of media type "/" likewise *)
Example unstable_status_as_found :
  exists e j', decode_any cx_as_found 8 (JObj [("method", JStr "get"); ("status", JStr "")]) = Ok e /\
               encode e = Ok j' /\ decode_any cx_as_found 8 j' = Err.
Proof. eexists; eexists. split; [reflexivity|]. split; reflexivity. Qed.
Example unstable_zero_mt_as_found :
  exists e j', decode_any cx_as_found 8 (JObj [("type", JStr "/"); ("content", JStr "x")]) = Ok e /\
               encode e = Ok j' /\ decode_any cx_as_found 8 j' = Err.
Proof. eexists; eexists. split; [reflexivity|]. split; reflexivity. Qed.
