(* Envelopes (envelope.go, message.go, notification.go, command.go, session.go):
   toRawEnvelope / json.Marshal of the raw struct, json.Unmarshal into the raw
   struct / populate, and the transport's kind discrimination. *)
From Coq Require Import List Bool Ascii String ZArith.
Import ListNotations.
From Lime Require Import Base.Str Base.Res Base.Json Codec.Types Codec.TextForms Codec.Doc.
Open Scope string_scope.

(* context of the codec: which repairs are in, and net/url's behaviour on the
   URI texts involved (ParseLimeURI: None = rejected, Some u = the text the
   parsed URI prints as) *)
Record ctx := { cx_fix : fixes; cx_uri : string -> option string }.

(* rawEnvelope *)
Record rawenv := {
  rw_id : string; rw_from : option node; rw_pp : option node; rw_to : option node;
  rw_meta : list (string * string);
  rw_reason : option reason; rw_type : option mediatype; rw_content : option json;
  rw_event : option string; rw_method : option string; rw_resource : option json;
  rw_uri : option string; rw_status : option string; rw_state : option string;
  rw_encopts : list string; rw_enc : option string;
  rw_compopts : list string; rw_comp : option string;
  rw_schemeopts : list string; rw_scheme : option string;
  rw_auth : option json
}.

Definition raw_zero : rawenv :=
  {| rw_id := ""; rw_from := None; rw_pp := None; rw_to := None; rw_meta := [];
     rw_reason := None; rw_type := None; rw_content := None; rw_event := None; rw_method := None;
     rw_resource := None; rw_uri := None; rw_status := None; rw_state := None;
     rw_encopts := []; rw_enc := None; rw_compopts := []; rw_comp := None;
     rw_schemeopts := []; rw_scheme := None; rw_auth := None |}.

(* ---------- json.Marshal(raw) ---------- *)
Definition enc_str_omit (s : string) : option json := if str_empty s then None else Some (JStr s).
Definition enc_strs_omit (l : list string) : option json :=
  match l with [] => None | _ => Some (JArr (map JStr l)) end.
Definition enc_meta (m : list (string * string)) : option json :=
  match m with [] => None | _ => Some (JObj (map (fun kv => (fst kv, JStr (snd kv))) m)) end.
Definition enc_reason (r : reason) : json :=
  JObj (members [("code", if (r_code r =? 0)%Z then None else Some (JInt (r_code r)));
                 ("description", enc_str_omit (r_desc r))]).

Definition raw_fields (r : rawenv) : list (string * option json) :=
  [ ("id", enc_str_omit (rw_id r));
    ("from", option_map (fun n => JStr (node_str n)) (rw_from r));
    ("pp", option_map (fun n => JStr (node_str n)) (rw_pp r));
    ("to", option_map (fun n => JStr (node_str n)) (rw_to r));
    ("metadata", enc_meta (rw_meta r));
    ("reason", option_map enc_reason (rw_reason r));
    ("type", option_map (fun m => JStr (mt_str m)) (rw_type r));
    ("content", rw_content r);
    ("event", option_map JStr (rw_event r));
    ("method", option_map JStr (rw_method r));
    ("resource", rw_resource r);
    ("uri", option_map JStr (rw_uri r));
    ("status", option_map JStr (rw_status r));
    ("state", option_map JStr (rw_state r));
    ("encryptionOptions", enc_strs_omit (rw_encopts r));
    ("encryption", option_map JStr (rw_enc r));
    ("compressionOptions", enc_strs_omit (rw_compopts r));
    ("compression", option_map JStr (rw_comp r));
    ("schemeOptions", enc_strs_omit (rw_schemeopts r));
    ("scheme", option_map JStr (rw_scheme r));
    ("authentication", rw_auth r) ].

Definition opt_valid (v : string -> bool) (o : option string) : bool :=
  match o with None => true | Some s => v s end.

(* MarshalText of event, method and state validates the value *)
Definition raw_to_json (r : rawenv) : res json :=
  if opt_valid valid_event (rw_event r) && opt_valid valid_method (rw_method r) &&
     opt_valid valid_state (rw_state r)
  then Ok (JObj (members (raw_fields r)))
  else Err.

(* ---------- json.Unmarshal(b, &raw) ---------- *)
Definition dec_node (o : option json) : res (option node) :=
  match ptr o with
  | None => Ok None
  | Some (JStr s) => Ok (Some (parse_node s))
  | Some _ => Err
  end.
Definition dec_enum (v : string -> bool) (o : option json) : res (option string) :=
  match ptr o with
  | None => Ok None
  | Some (JStr s) => if v s then Ok (Some s) else Err
  | Some _ => Err
  end.
Definition dec_str_elem (j : json) : res string :=
  match j with JStr s => Ok s | JNull => Ok "" | _ => Err end.
Definition dec_strs (o : option json) : res (list string) :=
  match ptr o with
  | None => Ok []
  | Some (JArr l) => map_res dec_str_elem l
  | Some _ => Err
  end.
Definition dec_meta (o : option json) : res (list (string * string)) :=
  match ptr o with
  | None => Ok []
  | Some (JObj kvs) => map_res (fun kv => match dec_str_elem (snd kv) with Ok s => Ok (fst kv, s) | _ => Err end) kvs
  | Some _ => Err
  end.
Definition dec_reason (o : option json) : res (option reason) :=
  match ptr o with
  | None => Ok None
  | Some (JObj kvs) =>
      match dec_int (get "code" kvs), dec_string (get "description" kvs) with
      | Ok c, Ok d => Ok (Some {| r_code := c; r_desc := d |})
      | _, _ => Err
      end
  | Some _ => Err
  end.
Definition dec_uri (cx : ctx) (o : option json) : res (option string) :=
  match ptr o with
  | None => Ok None
  | Some (JStr s) => match cx_uri cx s with Some u => Ok (Some u) | None => Err end
  | Some _ => Err
  end.

Definition raw_of_json (cx : ctx) (j : json) : res rawenv :=
  match j with
  | JNull => Ok raw_zero
  | JObj kvs =>
      let g k := get k kvs in
      match dec_string (g "id"), dec_node (g "from"), dec_node (g "pp"), dec_node (g "to"),
            dec_meta (g "metadata"), dec_reason (g "reason"), dec_mt (cx_fix cx) (g "type") with
      | Ok id, Ok from, Ok pp, Ok to, Ok meta, Ok rsn, Ok ty =>
          match dec_enum valid_event (g "event"), dec_enum valid_method (g "method"),
                dec_uri cx (g "uri"), dec_string_ptr (g "status"), dec_enum valid_state (g "state") with
          | Ok ev, Ok me, Ok uri, Ok st, Ok state =>
              match dec_strs (g "encryptionOptions"), dec_string_ptr (g "encryption"),
                    dec_strs (g "compressionOptions"), dec_string_ptr (g "compression"),
                    dec_strs (g "schemeOptions"), dec_string_ptr (g "scheme") with
              | Ok eo, Ok en, Ok co, Ok cm, Ok so, Ok sc =>
                  Ok {| rw_id := id; rw_from := from; rw_pp := pp; rw_to := to; rw_meta := meta;
                        rw_reason := rsn; rw_type := ty; rw_content := dec_raw (g "content");
                        rw_event := ev; rw_method := me; rw_resource := dec_raw (g "resource");
                        rw_uri := uri; rw_status := st; rw_state := state;
                        rw_encopts := eo; rw_enc := en; rw_compopts := co; rw_comp := cm;
                        rw_schemeopts := so; rw_scheme := sc; rw_auth := dec_raw (g "authentication") |}
              | _, _, _, _, _, _ => Err
              end
          | _, _, _, _, _ => Err
          end
      | _, _, _, _, _, _, _ => Err
      end
  | _ => Err
  end.

(* ---------- toRawEnvelope ---------- *)
Definition node_opt (n : node) : option node := if node_is_zero n then None else Some n.
Definition str_opt (s : string) : option string := if str_empty s then None else Some s.

Definition base_to_raw (e : envelope) : rawenv :=
  {| rw_id := e_id e; rw_from := node_opt (e_from e); rw_pp := node_opt (e_pp e); rw_to := node_opt (e_to e);
     rw_meta := e_meta e;
     rw_reason := None; rw_type := None; rw_content := None; rw_event := None; rw_method := None;
     rw_resource := None; rw_uri := None; rw_status := None; rw_state := None;
     rw_encopts := []; rw_enc := None; rw_compopts := []; rw_comp := None;
     rw_schemeopts := []; rw_scheme := None; rw_auth := None |}.

Definition set_type r v := {| rw_id := rw_id r; rw_from := rw_from r; rw_pp := rw_pp r; rw_to := rw_to r; rw_meta := rw_meta r;
  rw_reason := rw_reason r; rw_type := v; rw_content := rw_content r; rw_event := rw_event r; rw_method := rw_method r;
  rw_resource := rw_resource r; rw_uri := rw_uri r; rw_status := rw_status r; rw_state := rw_state r;
  rw_encopts := rw_encopts r; rw_enc := rw_enc r; rw_compopts := rw_compopts r; rw_comp := rw_comp r;
  rw_schemeopts := rw_schemeopts r; rw_scheme := rw_scheme r; rw_auth := rw_auth r |}.

Definition msg_to_raw (m : message) : res rawenv :=
  match m_content m with
  | None => Err                                        (* message content is required *)
  | Some d =>
      let r := base_to_raw (m_env m) in
      Ok {| rw_id := rw_id r; rw_from := rw_from r; rw_pp := rw_pp r; rw_to := rw_to r; rw_meta := rw_meta r;
            rw_reason := None; rw_type := Some (m_type m); rw_content := Some (doc_to_json d);
            rw_event := None; rw_method := None; rw_resource := None; rw_uri := None; rw_status := None;
            rw_state := None; rw_encopts := []; rw_enc := None; rw_compopts := []; rw_comp := None;
            rw_schemeopts := []; rw_scheme := None; rw_auth := None |}
  end.

Definition not_to_raw (n : notification) : rawenv :=
  let r := base_to_raw (nt_env n) in
  {| rw_id := rw_id r; rw_from := rw_from r; rw_pp := rw_pp r; rw_to := rw_to r; rw_meta := rw_meta r;
     rw_reason := nt_reason n; rw_type := None; rw_content := None;
     rw_event := str_opt (nt_event n); rw_method := None; rw_resource := None; rw_uri := None; rw_status := None;
     rw_state := None; rw_encopts := []; rw_enc := None; rw_compopts := []; rw_comp := None;
     rw_schemeopts := []; rw_scheme := None; rw_auth := None |}.

(* Command.toRawEnvelope: the type is emitted only together with a resource *)
Definition cmd_to_raw (c : command) (uri : option string) (status : option string) (rsn : option reason) : rawenv :=
  let r := base_to_raw (c_env c) in
  {| rw_id := rw_id r; rw_from := rw_from r; rw_pp := rw_pp r; rw_to := rw_to r; rw_meta := rw_meta r;
     rw_reason := rsn;
     rw_type := match c_resource c with Some _ => c_type c | None => None end;
     rw_content := None; rw_event := None;
     rw_method := str_opt (c_method c);
     rw_resource := option_map doc_to_json (c_resource c);
     rw_uri := uri; rw_status := status;
     rw_state := None; rw_encopts := []; rw_enc := None; rw_compopts := []; rw_comp := None;
     rw_schemeopts := []; rw_scheme := None; rw_auth := None |}.

Definition auth_to_json (a : auth) : json :=
  match a with
  | AGuest | ATransport => JObj []
  | APlain p => JObj [("password", JStr p)]
  | AKey k => JObj [("key", JStr k)]
  | AExternal t i => JObj [("token", JStr t); ("issuer", JStr i)]
  end.

Definition ses_to_raw (s : session) : rawenv :=
  let r := base_to_raw (s_env s) in
  {| rw_id := rw_id r; rw_from := rw_from r; rw_pp := rw_pp r; rw_to := rw_to r; rw_meta := rw_meta r;
     rw_reason := s_reason s; rw_type := None; rw_content := None; rw_event := None; rw_method := None;
     rw_resource := None; rw_uri := None; rw_status := None;
     rw_state := str_opt (s_state s);
     rw_encopts := s_encopts s; rw_enc := str_opt (s_enc s);
     rw_compopts := s_compopts s; rw_comp := str_opt (s_comp s);
     rw_schemeopts := s_schemeopts s; rw_scheme := str_opt (s_scheme s);
     rw_auth := option_map auth_to_json (s_auth s) |}.

Definition to_raw (e : env) : res rawenv :=
  match e with
  | EMsg m => msg_to_raw m
  | ENot n => Ok (not_to_raw n)
  | EReq c => Ok (cmd_to_raw (rq_cmd c) (rq_uri c) None None)
  | EResp c => Ok (cmd_to_raw (rs_cmd c) None (str_opt (rs_status c)) (rs_reason c))
  | ESes s => Ok (ses_to_raw s)
  end.

Definition encode (e : env) : res json := bind (to_raw e) raw_to_json.

(* ---------- populate ---------- *)
Definition base_of_raw (r : rawenv) : envelope :=
  {| e_id := rw_id r;
     e_from := match rw_from r with Some n => n | None => node_zero end;
     e_pp := match rw_pp r with Some n => n | None => node_zero end;
     e_to := match rw_to r with Some n => n | None => node_zero end;
     e_meta := rw_meta r |}.

Definition msg_of_raw (cx : ctx) (fuel : nat) (r : rawenv) : res message :=
  match rw_type r with
  | None => Err
  | Some t =>
      match rw_content r with
      | None => Err
      | Some _ =>
          match doc_of_json (cx_fix cx) fuel t (rw_content r) with
          | Ok d => Ok {| m_env := base_of_raw r; m_type := t; m_content := Some d |}
          | Err => Err
          | Panic => Panic
          end
      end
  end.

Definition not_of_raw (r : rawenv) : res notification :=
  match rw_event r with
  | None => Err
  | Some ev => Ok {| nt_env := base_of_raw r; nt_event := ev; nt_reason := rw_reason r |}
  end.

(* Command.populate decodes the resource before it checks the method *)
Definition cmd_of_raw (cx : ctx) (fuel : nat) (r : rawenv) : res command :=
  let with_res (ty : option mediatype) (d : option doc) : res command :=
    match rw_method r with
    | None => Err
    | Some m => Ok {| c_env := base_of_raw r; c_method := m; c_type := ty; c_resource := d |}
    end in
  match rw_resource r with
  | None => with_res None None
  | Some _ =>
      match rw_type r with
      | None => Err
      | Some t =>
          match doc_of_json (cx_fix cx) fuel t (rw_resource r) with
          | Ok d => with_res (Some t) (Some d)
          | Err => Err
          | Panic => Panic
          end
      end
  end.

Definition req_of_raw (cx : ctx) (fuel : nat) (r : rawenv) : res reqcmd :=
  match cmd_of_raw cx fuel r with
  | Ok c => Ok {| rq_cmd := c; rq_uri := rw_uri r |}
  | Err => Err
  | Panic => Panic
  end.

Definition resp_of_raw (cx : ctx) (fuel : nat) (r : rawenv) : res respcmd :=
  match cmd_of_raw cx fuel r with
  | Ok c =>
      match rw_status r with
      | Some s => if fx_empty_status (cx_fix cx) && str_empty s then Err
                  else Ok {| rs_cmd := c; rs_status := s; rs_reason := rw_reason r |}
      | None => Ok {| rs_cmd := c; rs_status := ""; rs_reason := rw_reason r |}
      end
  | Err => Err
  | Panic => Panic
  end.

Definition auth_of_json (scheme : string) (j : json) : res auth :=
  let obj (f : list (string * json) -> res auth) := match j with JObj kvs => f kvs | _ => Err end in
  if String.eqb scheme "guest" then obj (fun _ => Ok AGuest)
  else if String.eqb scheme "transport" then obj (fun _ => Ok ATransport)
  else if String.eqb scheme "plain" then
    obj (fun kvs => match dec_string (get "password" kvs) with Ok p => Ok (APlain p) | _ => Err end)
  else if String.eqb scheme "key" then
    obj (fun kvs => match dec_string (get "key" kvs) with Ok p => Ok (AKey p) | _ => Err end)
  else if String.eqb scheme "external" then
    obj (fun kvs => match dec_string (get "token" kvs), dec_string (get "issuer" kvs) with
                    | Ok t, Ok i => Ok (AExternal t i) | _, _ => Err end)
  else Err.                                           (* unknown authentication scheme *)

Definition ses_of_raw (r : rawenv) : res session :=
  let finish (a : option auth) : res session :=
    match rw_state r with
    | None => Err
    | Some st =>
        Ok {| s_env := base_of_raw r; s_state := st;
              s_encopts := rw_encopts r; s_enc := match rw_enc r with Some x => x | None => "" end;
              s_compopts := rw_compopts r; s_comp := match rw_comp r with Some x => x | None => "" end;
              s_schemeopts := rw_schemeopts r; s_scheme := match rw_scheme r with Some x => x | None => "" end;
              s_auth := a; s_reason := rw_reason r |}
    end in
  match rw_auth r with
  | None => finish None
  | Some j =>
      match rw_scheme r with
      | None => Err
      | Some sc => match auth_of_json sc j with Ok a => finish (Some a) | _ => Err end
      end
  end.

Definition populate (cx : ctx) (fuel : nat) (k : ekind) (r : rawenv) : res env :=
  match k with
  | KindMsg => match msg_of_raw cx fuel r with Ok m => Ok (EMsg m) | Err => Err | Panic => Panic end
  | KindNot => match not_of_raw r with Ok m => Ok (ENot m) | Err => Err | Panic => Panic end
  | KindReq => match req_of_raw cx fuel r with Ok m => Ok (EReq m) | Err => Err | Panic => Panic end
  | KindResp => match resp_of_raw cx fuel r with Ok m => Ok (EResp m) | Err => Err | Panic => Panic end
  | KindSes => match ses_of_raw r with Ok m => Ok (ESes m) | Err => Err | Panic => Panic end
  end.

(* rawEnvelope.envelopeType: the if-chain over the presence of fields *)
Definition envelope_type (r : rawenv) : option ekind :=
  let is_some {A} (o : option A) := match o with Some _ => true | None => false end in
  if is_some (rw_method r) && is_some (rw_uri r) then Some KindReq
  else if is_some (rw_method r) && is_some (rw_status r) then Some KindResp
  else if is_some (rw_event r) then Some KindNot
  else if is_some (rw_content r) then Some KindMsg
  else if is_some (rw_state r) then Some KindSes
  else None.

(* the typed decoders ( *T).UnmarshalJSON and the transports' receive path *)
Definition decode_typed (cx : ctx) (fuel : nat) (k : ekind) (j : json) : res env :=
  bind (raw_of_json cx j) (populate cx fuel k).
Definition decode_any (cx : ctx) (fuel : nat) (j : json) : res env :=
  bind (raw_of_json cx j) (fun r =>
    match envelope_type r with Some k => populate cx fuel k r | None => Err end).
