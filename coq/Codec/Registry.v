(* The document registry (mediatype.go: RegisterDocumentFactory, GetDocumentFactory): which Go type a document of a
   given media type is decoded into.  A type someone registered is decoded by its own factory from then on; any
   other type falls back on the generic JSON document when its suffix (or subtype) is json, else on the plain
   text document.  Media types are names here; [is_json] is MediaType.IsJson of the name. *)
From Coq Require Import List Bool Arith.
Import ListNotations.

Inductive rop := RRegister (t : nat) | RDecode (t : nat) (is_json : bool).
Inductive rkind := RkCustom (t : nat) | RkJson | RkText.

Definition lookup_kind (reg : list nat) (t : nat) (is_json : bool) : rkind :=
  if existsb (Nat.eqb t) reg then RkCustom t else if is_json then RkJson else RkText.

Fixpoint rrun (reg : list nat) (ops : list rop) : list rkind :=
  match ops with
  | [] => []
  | RRegister t :: r => rrun (t :: reg) r
  | RDecode t j :: r => lookup_kind reg t j :: rrun reg r
  end.

Definition registered_by (ops : list rop) (t : nat) : bool :=
  existsb (fun o => match o with RRegister u => Nat.eqb t u | _ => false end) ops.

(* the registry after a sequence of operations *)
Fixpoint reg_after (reg : list nat) (ops : list rop) : list nat :=
  match ops with
  | [] => reg
  | RRegister t :: r => reg_after (t :: reg) r
  | RDecode _ _ :: r => reg_after reg r
  end.

Lemma reg_after_mem reg ops t :
  existsb (Nat.eqb t) (reg_after reg ops) = existsb (Nat.eqb t) reg || registered_by ops t.
Proof.
  revert reg; induction ops as [|o r IH]; intros reg; cbn; [rewrite orb_false_r; reflexivity|].
  destruct o as [u|u j]; cbn.
  - rewrite IH. cbn. rewrite orb_assoc, (orb_comm (t =? u)). reflexivity.
  - apply IH.
Qed.

Lemma rrun_app reg a b : rrun reg (a ++ b) = rrun reg a ++ rrun (reg_after reg a) b.
Proof.
  revert reg; induction a as [|o r IH]; intros reg; cbn; [reflexivity|].
  destruct o as [u|u j]; cbn; [apply IH|]. rewrite IH. reflexivity.
Qed.

(* whatever happened before and in between: a decode of type t yields the registered type exactly when a
   registration of t came before it - a registration takes effect for every later decode (also for a type that
   was decoded, generically, before it was registered), and never for another type *)
Theorem decode_after ops t j rest :
  rrun [] (ops ++ RDecode t j :: rest) =
  rrun [] ops ++ (if registered_by ops t then RkCustom t else if j then RkJson else RkText) ::
  rrun (reg_after [] ops) rest.
Proof.
  rewrite rrun_app. cbn. unfold lookup_kind. rewrite reg_after_mem. cbn. reflexivity.
Qed.
