(* Model A — value types of the envelope codec (node.go, identity.go,
   mediatype.go, envelope.go, document.go, session.go, command.go ...). *)
From Coq Require Import List Bool Ascii String ZArith.
Import ListNotations.
From Lime Require Import Base.Str Base.Json.
Open Scope string_scope.

Record node := { n_name : string; n_domain : string; n_instance : string }.
Definition node_zero : node := {| n_name := ""; n_domain := ""; n_instance := "" |}.
Definition node_eqb (a b : node) : bool :=
  String.eqb (n_name a) (n_name b) && String.eqb (n_domain a) (n_domain b) &&
  String.eqb (n_instance a) (n_instance b).
Definition node_is_zero (n : node) : bool := node_eqb n node_zero.

Record mediatype := { mt_type : string; mt_subtype : string; mt_suffix : string }.
Definition mt_zero : mediatype := {| mt_type := ""; mt_subtype := ""; mt_suffix := "" |}.
Definition mt_eqb (a b : mediatype) : bool :=
  String.eqb (mt_type a) (mt_type b) && String.eqb (mt_subtype a) (mt_subtype b) &&
  String.eqb (mt_suffix a) (mt_suffix b).
Definition mt_is_zero (m : mediatype) : bool := mt_eqb m mt_zero.

Definition mt_text_plain := {| mt_type := "text"; mt_subtype := "plain"; mt_suffix := "" |}.
Definition mt_app_json := {| mt_type := "application"; mt_subtype := "json"; mt_suffix := "" |}.
Definition mt_container := {| mt_type := "application"; mt_subtype := "vnd.lime.container"; mt_suffix := "json" |}.
Definition mt_collection := {| mt_type := "application"; mt_subtype := "vnd.lime.collection"; mt_suffix := "json" |}.
Definition mt_ping := {| mt_type := "application"; mt_subtype := "vnd.lime.ping"; mt_suffix := "json" |}.

Record reason := { r_code : Z; r_desc : string }.

(* Documents.  DJson carries the generic JSON object as encoding/json's
   map[string]interface{} holds it (canonical: the generic decode/encode of
   encoding/json is outside the model). *)
Inductive doc :=
| DText (s : string)
| DJson (kvs : list (string * json))
| DContainer (t : mediatype) (v : doc)
| DCollection (total : Z) (t : mediatype) (items : option (list doc))
| DPing.

(* which factory a media type selects (mediatype.go GetDocumentFactory with
   the factories registered by document.go's init) *)
Inductive factory := FText | FJson | FContainer | FCollection | FPing.
Definition factory_of (t : mediatype) : factory :=
  if mt_eqb t mt_text_plain then FText
  else if mt_eqb t mt_app_json then FJson
  else if mt_eqb t mt_container then FContainer
  else if mt_eqb t mt_collection then FCollection
  else if mt_eqb t mt_ping then FPing
  else if String.eqb (mt_suffix t) "json" then FJson
  else FText.
Definition factory_eqb (a b : factory) : bool :=
  match a, b with
  | FText, FText | FJson, FJson | FContainer, FContainer | FCollection, FCollection | FPing, FPing => true
  | _, _ => false
  end.
Definition doc_factory (d : doc) : factory :=
  match d with
  | DText _ => FText | DJson _ => FJson | DContainer _ _ => FContainer
  | DCollection _ _ _ => FCollection | DPing => FPing
  end.
(* Document.MediaType() *)
Definition doc_mediatype (d : doc) : mediatype :=
  match d with
  | DText _ => mt_text_plain | DJson _ => mt_app_json | DContainer _ _ => mt_container
  | DCollection _ _ _ => mt_collection | DPing => mt_ping
  end.

Inductive auth :=
| AGuest | APlain (password : string) | AKey (key : string) | ATransport
| AExternal (token issuer : string).
Definition auth_scheme (a : auth) : string :=
  match a with
  | AGuest => "guest" | APlain _ => "plain" | AKey _ => "key" | ATransport => "transport"
  | AExternal _ _ => "external"
  end.

Record envelope := {
  e_id : string; e_from : node; e_pp : node; e_to : node;
  e_meta : list (string * string)   (* nil and empty map identified *)
}.

Record message := { m_env : envelope; m_type : mediatype; m_content : option doc }.
Record notification := { nt_env : envelope; nt_event : string; nt_reason : option reason }.
Record command := { c_env : envelope; c_method : string; c_type : option mediatype; c_resource : option doc }.
Record reqcmd := { rq_cmd : command; rq_uri : option string }.
Record respcmd := { rs_cmd : command; rs_status : string; rs_reason : option reason }.
Record session := {
  s_env : envelope; s_state : string;
  s_encopts : list string; s_enc : string;
  s_compopts : list string; s_comp : string;
  s_schemeopts : list string; s_scheme : string;
  s_auth : option auth; s_reason : option reason
}.

Inductive env :=
| EMsg (m : message) | ENot (n : notification) | EReq (c : reqcmd) | EResp (c : respcmd) | ESes (s : session).
Inductive ekind := KindMsg | KindNot | KindReq | KindResp | KindSes.
Definition kind_of (e : env) : ekind :=
  match e with EMsg _ => KindMsg | ENot _ => KindNot | EReq _ => KindReq | EResp _ => KindResp | ESes _ => KindSes end.

Definition valid_event (s : string) : bool :=
  existsb (String.eqb s) ["accepted"; "dispatched"; "received"; "consumed"; "failed"].
Definition valid_method (s : string) : bool :=
  existsb (String.eqb s) ["get"; "set"; "delete"; "subscribe"; "unsubscribe"; "observe"; "merge"].
Definition valid_state (s : string) : bool :=
  existsb (String.eqb s) ["new"; "negotiating"; "authenticating"; "established"; "finishing"; "finished"; "failed"].

(* Which defects of the tree as found are repaired (see DESIGN.md section 6).
   The model describes both; the theorems are about [repaired], the
   refutations about [as_found]. *)
Record fixes := {
  fx_nil_raw : bool;      (* D3: UnmarshalDocument tests its pointer for nil *)
  fx_zero_mt : bool;      (* D5: ParseMediaType rejects the all-empty media type *)
  fx_empty_status : bool; (* D4: an empty status is rejected *)
  fx_sender : bool;       (* D1: Envelope.Sender prefers pp when present *)
  fx_resp_type : bool     (* D2: SuccessResponseWithResource sets the resource type *)
}.
Definition as_found := {| fx_nil_raw := false; fx_zero_mt := false; fx_empty_status := false; fx_sender := false; fx_resp_type := false |}.
Definition repaired := {| fx_nil_raw := true; fx_zero_mt := true; fx_empty_status := true; fx_sender := true; fx_resp_type := true |}.

Global Arguments valid_event : simpl never.
Global Arguments valid_method : simpl never.
Global Arguments valid_state : simpl never.
