(* Model A: what the codec makes of the server's round-trip request (used by Hs/Interop.v's [wire]). *)
From Coq Require Import List Bool Arith String.
Import ListNotations.
From Lime Require Import Base.Res Base.Json Codec.Types Codec.Envelope Codec.EnvelopeFacts.
Open Scope string_scope.

(* A session envelope that carries an authentication object but no scheme - the server's round-trip request
   (server_channel.go, sendAuthenticatingRoundTripSession) - encodes to JSON that the decoder rejects
   ("session scheme is required when authentication is present"). *)
Theorem session_with_authentication_but_no_scheme_is_rejected cx fuel s a j :
  wf_base (s_env s) = true -> valid_state (s_state s) = true -> opt_all wf_reason (s_reason s) = true ->
  s_auth s = Some a -> s_scheme s = "" ->
  encode (ESes s) = Ok j -> decode_any cx fuel j = Err.
Proof.
  intros Hb Hst Hr Ha Hsch He.
  unfold encode in He. cbn [to_raw bind] in He.
  assert (Hwf : wf_raw cx (ses_to_raw s) = true).
  { unfold wf_base in Hb. apply andb_prop in Hb. destruct Hb as [Hb H3]. apply andb_prop in Hb. destruct Hb as [H1 H2].
    unfold wf_raw. cbn. rewrite !node_opt_wf by assumption. rewrite Hr, Ha. destruct a; reflexivity. }
  unfold decode_any. rewrite (raw_roundtrip cx _ _ Hwf He). cbn [bind].
  unfold envelope_type. cbn. rewrite str_opt_state by assumption. cbn.
  unfold ses_of_raw. cbn. rewrite Ha, Hsch. cbn. reflexivity.
Qed.
