(* Documents (document.go, mediatype.go UnmarshalDocument): MarshalJSON and
   UnmarshalJSON of text, generic JSON, container, collection and ping
   documents, including the dereference of the raw-message pointer. *)
From Coq Require Import List Bool Ascii String ZArith.
Import ListNotations.
From Lime Require Import Base.Str Base.Res Base.Json Codec.Types Codec.TextForms.
Open Scope string_scope.

Definition in_int64 (z : Z) : bool :=
  ((-9223372036854775808) <=? z)%Z && (z <=? 9223372036854775807)%Z.

(* ---- field decoders shared with the envelope layer (encoding/json rules) ---- *)

(* a *T field: absent or null leaves the pointer nil *)
Definition ptr (o : option json) : option json :=
  match o with Some JNull => None | _ => o end.

(* *json.RawMessage: any non-null value is kept verbatim *)
Definition dec_raw (o : option json) : option json := ptr o.

(* string field: null leaves the zero value; other types are an error *)
Definition dec_string (o : option json) : res string :=
  match ptr o with None => Ok "" | Some (JStr s) => Ok s | Some _ => Err end.
(* *string-like field without validation *)
Definition dec_string_ptr (o : option json) : res (option string) :=
  match ptr o with None => Ok None | Some (JStr s) => Ok (Some s) | Some _ => Err end.
(* int field *)
Definition dec_int (o : option json) : res Z :=
  match ptr o with
  | None => Ok 0%Z
  | Some (JInt z) => if in_int64 z then Ok z else Err
  | Some _ => Err
  end.
(* *MediaType through UnmarshalText *)
Definition dec_mt (fx : fixes) (o : option json) : res (option mediatype) :=
  match ptr o with
  | None => Ok None
  | Some (JStr s) => match parse_mt fx s with Some m => Ok (Some m) | None => Err end
  | Some _ => Err
  end.
Definition ptr_of (j : json) : option json := ptr (Some j).
(* []*json.RawMessage *)
Definition dec_raw_list (o : option json) : res (option (list (option json))) :=
  match ptr o with
  | None => Ok None
  | Some (JArr l) => Ok (Some (map ptr_of l))
  | Some _ => Err
  end.

Fixpoint map_res {A B} (f : A -> res B) (l : list A) : res (list B) :=
  match l with
  | [] => Ok []
  | x :: t => match f x with
              | Ok y => match map_res f t with Ok ys => Ok (y :: ys) | Err => Err | Panic => Panic end
              | Err => Err
              | Panic => Panic
              end
  end.

(* ---- encoding ---- *)
Fixpoint doc_to_json (d : doc) : json :=
  match d with
  | DText s => JStr s
  | DJson kvs => JObj kvs
  | DContainer t v => JObj [("type", JStr (mt_str t)); ("value", doc_to_json v)]
  | DCollection total t items =>
      JObj ((if (total =? 0)%Z then [] else [("total", JInt total)]) ++
            [("itemType", JStr (mt_str t));
             ("items", match items with None => JNull | Some l => JArr (map doc_to_json l) end)])
  | DPing => JObj []
  end.

(* ---- decoding: UnmarshalDocument(raw, t) ----
   [raw = None] is the nil *json.RawMessage.  Fuel bounds the nesting depth;
   running out of fuel is an error and is excluded by the theorems'
   hypotheses. *)
Fixpoint doc_of_json (fx : fixes) (fuel : nat) (t : mediatype) (raw : option json) : res doc :=
  match fuel with
  | O => Err
  | S f =>
      match raw with
      | None => if fx_nil_raw fx then Err else Panic      (* json.Unmarshal( *d, ...) with d == nil *)
      | Some j =>
          match factory_of t with
          | FText => match j with JStr s => Ok (DText s) | _ => Err end
          | FJson => match j with JObj kvs => Ok (DJson kvs) | _ => Err end
          | FPing => match j with JObj _ => Ok DPing | _ => Err end
          | FContainer =>
              match j with
              | JObj kvs =>
                  match dec_mt fx (get "type" kvs) with
                  | Ok None => Err                       (* document type is required *)
                  | Ok (Some ct) =>
                      match doc_of_json fx f ct (dec_raw (get "value" kvs)) with
                      | Ok v => Ok (DContainer ct v)
                      | Err => Err
                      | Panic => Panic
                      end
                  | Err => Err
                  | Panic => Panic
                  end
              | _ => Err
              end
          | FCollection =>
              match j with
              | JObj kvs =>
                  match dec_int (get "total" kvs), dec_mt fx (get "itemType" kvs), dec_raw_list (get "items" kvs) with
                  | Ok total, Ok oit, Ok oitems =>
                      match oit with
                      | None => Err                      (* item type is required *)
                      | Some it =>
                          match oitems with
                          | None => Ok (DCollection total it None)
                          | Some raws =>
                              match map_res (doc_of_json fx f it) raws with
                              | Ok ds => Ok (DCollection total it (Some ds))
                              | Err => Err
                              | Panic => Panic
                              end
                          end
                      end
                  | _, _, _ => Err                        (* json.Unmarshal into the raw struct failed *)
                  end
              | _ => Err
              end
          end
      end
  end.

(* nesting depth of a document *)
Fixpoint ddepth (d : doc) : nat :=
  match d with
  | DContainer _ v => S (ddepth v)
  | DCollection _ _ (Some l) => S (fold_right (fun x acc => Nat.max (ddepth x) acc) 0 l)
  | DCollection _ _ None => 1
  | _ => 1
  end.

(* well-formed documents: declared media types select the factory of the
   value they describe, and their text forms parse back *)
Fixpoint wf_doc (d : doc) : bool :=
  match d with
  | DText _ | DJson _ | DPing => true
  | DContainer t v => wf_mt t && factory_eqb (factory_of t) (doc_factory v) && wf_doc v
  | DCollection total t items =>
      wf_mt t && in_int64 total &&
      match items with
      | None => true
      | Some l => forallb (fun x => factory_eqb (factory_of t) (doc_factory x) && wf_doc x) l
      end
  end.
