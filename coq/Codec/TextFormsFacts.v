(* Text-form round trips: Parse (String v) = v, and every parse result is well-formed. *)
From Coq Require Import List Bool Ascii String ZArith Lia.
Import ListNotations.
From Lime Require Import Base.Str Base.Res Codec.Types Codec.TextForms.
Open Scope string_scope.

Lemma node_is_zero_true n : node_is_zero n = true -> n = node_zero.
Proof.
  unfold node_is_zero, node_eqb. destruct n as [a b c]; cbn. intros H.
  apply andb_prop in H. destruct H as [H H3]. apply andb_prop in H. destruct H as [H1 H2].
  apply String.eqb_eq in H1, H2, H3. subst. reflexivity.
Qed.

Lemma mt_eqb_eq a b : mt_eqb a b = true <-> a = b.
Proof.
  unfold mt_eqb. destruct a as [a1 a2 a3], b as [b1 b2 b3]; cbn. split.
  - intros H. apply andb_prop in H. destruct H as [H H3]. apply andb_prop in H. destruct H as [H1 H2].
    apply String.eqb_eq in H1, H2, H3. subst. reflexivity.
  - intros H. inversion H; subst. rewrite !String.eqb_refl. reflexivity.
Qed.

Lemma mt_is_zero_true m : mt_is_zero m = true -> m = mt_zero.
Proof. apply mt_eqb_eq. Qed.

Lemma parse_identity_str nm dm :
  has_char c_at nm = false -> has_char c_at dm = false ->
  parse_identity (identity_str nm dm) = (nm, dm).
Proof.
  intros Hn Hd. unfold identity_str, parse_identity.
  destruct (str_empty nm) eqn:En; destruct (str_empty dm) eqn:Ed; cbn [andb].
  - apply str_empty_true in En, Ed. subst. reflexivity.
  - apply str_empty_true in En. subst. cbn [append].
    change (String "@" dm) with ("" ++ String c_at dm). rewrite split_on_app by reflexivity.
    rewrite (split_on_nochar _ _ Hd). reflexivity.
  - apply str_empty_true in Ed. subst. rewrite (split_on_nochar _ _ Hn). reflexivity.
  - change (nm ++ "@" ++ dm) with (nm ++ String c_at dm). rewrite split_on_app by exact Hn.
    rewrite (split_on_nochar _ _ Hd). reflexivity.
Qed.

Lemma identity_str_noslash nm dm :
  has_char c_slash nm = false -> has_char c_slash dm = false ->
  has_char c_slash (identity_str nm dm) = false.
Proof.
  intros Hn Hd. unfold identity_str.
  destruct (str_empty nm && str_empty dm); [reflexivity|].
  destruct (str_empty dm); [exact Hn|].
  rewrite !has_char_app, Hn, Hd. reflexivity.
Qed.

Ltac bools :=
  repeat match goal with
  | H : _ && _ = true |- _ => apply andb_prop in H; destruct H
  | H : negb _ = true |- _ => apply negb_true_iff in H
  end.

Theorem parse_node_str n : wf_node n = true -> parse_node (node_str n) = n.
Proof.
  unfold wf_node. intros H. bools.
  unfold node_str. destruct (node_is_zero n) eqn:Ez.
  - apply node_is_zero_true in Ez. subst. reflexivity.
  - destruct n as [nm dm inst]; cbn [n_name n_domain n_instance] in *.
    destruct (str_empty inst) eqn:Ei.
    + apply str_empty_true in Ei. subst. unfold parse_node.
      rewrite (split_on_nochar c_slash) by (apply identity_str_noslash; assumption).
      cbn [nth_str nth]. rewrite parse_identity_str by assumption. reflexivity.
    + unfold parse_node.
      change (identity_str nm dm ++ "/" ++ inst) with (identity_str nm dm ++ String c_slash inst).
      rewrite split_on_app by (apply identity_str_noslash; assumption).
      rewrite (split_on_nochar c_slash inst) by assumption.
      cbn [nth_str nth]. rewrite parse_identity_str by assumption. reflexivity.
Qed.

Theorem parse_identity_roundtrip nm dm :
  has_char c_at nm = false -> has_char c_at dm = false ->
  parse_identity (identity_str nm dm) = (nm, dm).
Proof. exact (parse_identity_str nm dm). Qed.

Theorem parse_mt_str fx m : wf_mt m = true -> parse_mt fx (mt_str m) = Some m.
Proof.
  unfold wf_mt. intros H. bools.
  unfold mt_str. match goal with H : mt_is_zero m = false |- _ => rewrite H end.
  destruct m as [t st sf]; cbn [mt_type mt_subtype mt_suffix] in *.
  assert (Hns : has_char c_plus (t ++ "/" ++ st) = false).
  { rewrite !has_char_app. cbn. rewrite H3, H1. reflexivity. }
  destruct (str_empty sf) eqn:Es.
  - apply str_empty_true in Es. subst. unfold parse_mt.
    rewrite (split_on_nochar c_plus) by exact Hns. cbn [nth_str nth].
    change (t ++ "/" ++ st) with (t ++ String c_slash st). rewrite split_on_app by assumption.
    rewrite (split_on_nochar c_slash st) by assumption.
    match goal with H : mt_is_zero _ = false |- _ => rewrite H end. rewrite andb_false_r. reflexivity.
  - unfold parse_mt.
    change ((t ++ "/" ++ st) ++ "+" ++ sf) with ((t ++ "/" ++ st) ++ String c_plus sf).
    rewrite split_on_app by exact Hns. rewrite (split_on_nochar c_plus sf) by assumption.
    cbn [nth_str nth].
    change (t ++ "/" ++ st) with (t ++ String c_slash st). rewrite split_on_app by assumption.
    rewrite (split_on_nochar c_slash st) by assumption.
    match goal with H : mt_is_zero _ = false |- _ => rewrite H end. rewrite andb_false_r. reflexivity.
Qed.

(* ---- everything a parser returns is well-formed (needed for re-encode stability) ---- *)
Lemma split_piece_nth c s n : has_char c (nth_str (split_on c s) n) = false.
Proof.
  unfold nth_str. destruct (nth_in_or_default n (split_on c s) "") as [H|H].
  - eapply split_on_pieces; eauto.
  - rewrite H. reflexivity.
Qed.

Lemma has_char_piece_of c c' s n :
  has_char c s = false -> has_char c (nth_str (split_on c' s) n) = false.
Proof.
  revert n. induction s as [|a s IH]; intros n H.
  - destruct n as [|[|n]]; reflexivity.
  - cbn in H. apply orb_false_iff in H. destruct H as [Ha Hs]. cbn [split_on].
    destruct (Ascii.eqb a c').
    + destruct n; [reflexivity|]. apply (IH n Hs).
    + pose proof (IH 0 Hs) as H0. unfold nth_str in *.
      destruct (split_on c' s) as [|h t] eqn:E.
      * destruct n as [|[|n]]; cbn; rewrite ?Ha; reflexivity.
      * destruct n; cbn.
        -- cbn in H0. rewrite Ha, H0. reflexivity.
        -- specialize (IH (S n) Hs). exact IH.
Qed.

Theorem parse_node_wf s : wf_node (parse_node s) = true.
Proof.
  unfold parse_node, parse_identity, wf_node.
  cbn [n_name n_domain n_instance].
  set (v0 := nth_str (split_on c_slash s) 0).
  assert (H0 : has_char c_slash v0 = false) by apply split_piece_nth.
  rewrite (split_piece_nth c_at v0 0).
  rewrite (has_char_piece_of c_slash c_at v0 0 H0).
  rewrite (split_piece_nth c_at v0 1).
  rewrite (has_char_piece_of c_slash c_at v0 1 H0).
  rewrite (split_piece_nth c_slash s 1). reflexivity.
Qed.

Theorem parse_mt_wf s m : parse_mt repaired s = Some m -> wf_mt m = true.
Proof.
  unfold parse_mt. cbn [fx_zero_mt repaired].
  set (v0 := nth_str (split_on c_plus s) 0).
  assert (H0 : has_char c_plus v0 = false) by apply split_piece_nth.
  pose proof (split_piece_nth c_slash v0 0) as Ht.
  pose proof (split_piece_nth c_slash v0 1) as Hst.
  pose proof (has_char_piece_of c_plus c_slash v0 0 H0) as Ht'.
  pose proof (has_char_piece_of c_plus c_slash v0 1 H0) as Hst'.
  pose proof (split_piece_nth c_plus s 1) as Hsf.
  unfold nth_str in Ht, Hst, Ht', Hst', Hsf.
  destruct (split_on c_slash v0) as [|t [|st rest]]; try discriminate.
  cbn [nth] in *.
  cbn [andb]. destruct (mt_is_zero _) eqn:Ez; [discriminate|].
  intros H. inversion H; subst; clear H. unfold wf_mt, nth_str. cbn [mt_type mt_subtype mt_suffix].
  unfold nth_str in Ez. rewrite Ez, Ht, Hst, Ht', Hst', Hsf. reflexivity.
Qed.

(* as found: "/" parses to the zero media type, whose text form does not parse back *)
Example parse_mt_zero_as_found :
  parse_mt as_found "/" = Some mt_zero /\ parse_mt as_found (mt_str mt_zero) = None.
Proof. split; reflexivity. Qed.
