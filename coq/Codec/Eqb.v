(* Boolean equality on the codec's value types (for the executable
   comparators) and its reflexivity. *)
From Coq Require Import List Bool Ascii String ZArith.
Import ListNotations.
From Lime Require Import Base.Str Base.Res Base.Json Codec.Types Codec.Doc Codec.DocFacts.
Open Scope string_scope.

Fixpoint list_eqb {A} (eqb : A -> A -> bool) (a b : list A) : bool :=
  match a, b with
  | [], [] => true
  | x :: a', y :: b' => eqb x y && list_eqb eqb a' b'
  | _, _ => false
  end.
Definition option_eqb {A} (eqb : A -> A -> bool) (a b : option A) : bool :=
  match a, b with
  | None, None => true
  | Some x, Some y => eqb x y
  | _, _ => false
  end.
Definition pair_eqb {A B} (ea : A -> A -> bool) (eb : B -> B -> bool) (a b : A * B) : bool :=
  ea (fst a) (fst b) && eb (snd a) (snd b).

Lemma list_eqb_refl {A} (eqb : A -> A -> bool) l : (forall x, In x l -> eqb x x = true) -> list_eqb eqb l l = true.
Proof. induction l as [|x t IH]; cbn; auto. intros H. rewrite H by (left; reflexivity). apply IH. intros; apply H; right; assumption. Qed.
Lemma option_eqb_refl {A} (eqb : A -> A -> bool) o : (forall x, eqb x x = true) -> option_eqb eqb o o = true.
Proof. destruct o; cbn; auto. Qed.

Fixpoint json_eqb (a b : json) : bool :=
  match a, b with
  | JNull, JNull => true
  | JBool x, JBool y => Bool.eqb x y
  | JInt x, JInt y => Z.eqb x y
  | JFloat x, JFloat y => String.eqb x y
  | JStr x, JStr y => String.eqb x y
  | JArr l, JArr l' =>
      (fix go (l l' : list json) : bool :=
         match l, l' with
         | [], [] => true
         | x :: t, y :: t' => json_eqb x y && go t t'
         | _, _ => false
         end) l l'
  | JObj l, JObj l' =>
      (fix go (l l' : list (string * json)) : bool :=
         match l, l' with
         | [], [] => true
         | (k, x) :: t, (k', y) :: t' => String.eqb k k' && json_eqb x y && go t t'
         | _, _ => false
         end) l l'
  | _, _ => false
  end.

Section json_ind_nested.
  Variable P : json -> Prop.
  Hypothesis Hnull : P JNull.
  Hypothesis Hbool : forall b, P (JBool b).
  Hypothesis Hint : forall z, P (JInt z).
  Hypothesis Hfloat : forall s, P (JFloat s).
  Hypothesis Hstr : forall s, P (JStr s).
  Hypothesis Harr : forall l, Forall P l -> P (JArr l).
  Hypothesis Hobj : forall kvs, Forall (fun kv => P (snd kv)) kvs -> P (JObj kvs).
  Fixpoint json_ind' (j : json) : P j :=
    match j with
    | JNull => Hnull | JBool b => Hbool b | JInt z => Hint z | JFloat s => Hfloat s | JStr s => Hstr s
    | JArr l => Harr l ((fix go (l : list json) : Forall P l :=
                           match l with [] => Forall_nil P | x :: t => Forall_cons x (json_ind' x) (go t) end) l)
    | JObj kvs => Hobj kvs ((fix go (l : list (string * json)) : Forall (fun kv => P (snd kv)) l :=
                               match l with
                               | [] => Forall_nil _
                               | kv :: t => Forall_cons (P := fun kv => P (snd kv)) kv (json_ind' (snd kv)) (go t)
                               end) kvs)
    end.
End json_ind_nested.

Lemma json_eqb_refl j : json_eqb j j = true.
Proof.
  induction j using json_ind'; cbn; auto using Bool.eqb_reflx, Z.eqb_refl, String.eqb_refl.
  - induction H as [|x t Hx Ht IH]; auto. rewrite Hx. exact IH.
  - induction H as [|[k x] t Hx Ht IH]; auto. cbn in Hx. rewrite String.eqb_refl, Hx. exact IH.
Qed.

Fixpoint doc_eqb (a b : doc) : bool :=
  match a, b with
  | DText x, DText y => String.eqb x y
  | DJson x, DJson y => json_eqb (JObj x) (JObj y)
  | DContainer t v, DContainer t' v' => mt_eqb t t' && doc_eqb v v'
  | DCollection n t None, DCollection n' t' None => Z.eqb n n' && mt_eqb t t'
  | DCollection n t (Some l), DCollection n' t' (Some l') =>
      Z.eqb n n' && mt_eqb t t' &&
      (fix go (l l' : list doc) : bool :=
         match l, l' with
         | [], [] => true
         | x :: r, y :: r' => doc_eqb x y && go r r'
         | _, _ => false
         end) l l'
  | DPing, DPing => true
  | _, _ => false
  end.

Lemma mt_eqb_refl t : mt_eqb t t = true.
Proof. unfold mt_eqb. rewrite !String.eqb_refl. reflexivity. Qed.
Lemma node_eqb_refl t : node_eqb t t = true.
Proof. unfold node_eqb. rewrite !String.eqb_refl. reflexivity. Qed.

Lemma doc_eqb_refl d : doc_eqb d d = true.
Proof.
  induction d using doc_ind'; cbn [doc_eqb]; auto using String.eqb_refl.
  - apply json_eqb_refl.
  - rewrite mt_eqb_refl, IHd. reflexivity.
  - rewrite Z.eqb_refl, mt_eqb_refl. reflexivity.
  - rewrite Z.eqb_refl, mt_eqb_refl. cbn [andb].
    induction H as [|x r Hx Hr IH]; auto. rewrite Hx. exact IH.
Qed.

Definition reason_eqb (a b : reason) : bool := Z.eqb (r_code a) (r_code b) && String.eqb (r_desc a) (r_desc b).
Definition strs_eqb := list_eqb String.eqb.
Definition meta_eqb := list_eqb (pair_eqb String.eqb String.eqb).
Definition envelope_eqb (a b : envelope) : bool :=
  String.eqb (e_id a) (e_id b) && node_eqb (e_from a) (e_from b) && node_eqb (e_pp a) (e_pp b) &&
  node_eqb (e_to a) (e_to b) && meta_eqb (e_meta a) (e_meta b).
Definition auth_eqb (a b : auth) : bool :=
  match a, b with
  | AGuest, AGuest | ATransport, ATransport => true
  | APlain x, APlain y | AKey x, AKey y => String.eqb x y
  | AExternal t i, AExternal t' i' => String.eqb t t' && String.eqb i i'
  | _, _ => false
  end.
Definition command_eqb (a b : command) : bool :=
  envelope_eqb (c_env a) (c_env b) && String.eqb (c_method a) (c_method b) &&
  option_eqb mt_eqb (c_type a) (c_type b) && option_eqb doc_eqb (c_resource a) (c_resource b).
Definition env_eqb (a b : env) : bool :=
  match a, b with
  | EMsg x, EMsg y => envelope_eqb (m_env x) (m_env y) && mt_eqb (m_type x) (m_type y) &&
                      option_eqb doc_eqb (m_content x) (m_content y)
  | ENot x, ENot y => envelope_eqb (nt_env x) (nt_env y) && String.eqb (nt_event x) (nt_event y) &&
                      option_eqb reason_eqb (nt_reason x) (nt_reason y)
  | EReq x, EReq y => command_eqb (rq_cmd x) (rq_cmd y) && option_eqb String.eqb (rq_uri x) (rq_uri y)
  | EResp x, EResp y => command_eqb (rs_cmd x) (rs_cmd y) && String.eqb (rs_status x) (rs_status y) &&
                        option_eqb reason_eqb (rs_reason x) (rs_reason y)
  | ESes x, ESes y =>
      envelope_eqb (s_env x) (s_env y) && String.eqb (s_state x) (s_state y) &&
      strs_eqb (s_encopts x) (s_encopts y) && String.eqb (s_enc x) (s_enc y) &&
      strs_eqb (s_compopts x) (s_compopts y) && String.eqb (s_comp x) (s_comp y) &&
      strs_eqb (s_schemeopts x) (s_schemeopts y) && String.eqb (s_scheme x) (s_scheme y) &&
      option_eqb auth_eqb (s_auth x) (s_auth y) && option_eqb reason_eqb (s_reason x) (s_reason y)
  | _, _ => false
  end.

Lemma reason_eqb_refl r : reason_eqb r r = true.
Proof. unfold reason_eqb. rewrite Z.eqb_refl, String.eqb_refl. reflexivity. Qed.
Lemma strs_eqb_refl l : strs_eqb l l = true.
Proof. apply list_eqb_refl. intros; apply String.eqb_refl. Qed.
Lemma meta_eqb_refl l : meta_eqb l l = true.
Proof. apply list_eqb_refl. intros [a b] _. unfold pair_eqb. cbn. rewrite !String.eqb_refl. reflexivity. Qed.
Lemma envelope_eqb_refl e : envelope_eqb e e = true.
Proof. unfold envelope_eqb. rewrite String.eqb_refl, !node_eqb_refl, meta_eqb_refl. reflexivity. Qed.
Lemma auth_eqb_refl a : auth_eqb a a = true.
Proof. destruct a; cbn; rewrite ?String.eqb_refl; reflexivity. Qed.
Lemma command_eqb_refl c : command_eqb c c = true.
Proof.
  unfold command_eqb. rewrite envelope_eqb_refl, String.eqb_refl.
  rewrite (option_eqb_refl mt_eqb _ mt_eqb_refl), (option_eqb_refl doc_eqb _ doc_eqb_refl). reflexivity.
Qed.
Lemma env_eqb_refl e : env_eqb e e = true.
Proof.
  destruct e; cbn [env_eqb];
    rewrite ?envelope_eqb_refl, ?command_eqb_refl, ?String.eqb_refl, ?mt_eqb_refl, ?strs_eqb_refl,
            ?(option_eqb_refl doc_eqb _ doc_eqb_refl), ?(option_eqb_refl reason_eqb _ reason_eqb_refl),
            ?(option_eqb_refl String.eqb _ String.eqb_refl), ?(option_eqb_refl auth_eqb _ auth_eqb_refl);
    reflexivity.
Qed.
