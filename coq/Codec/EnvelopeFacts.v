(* Envelope codec: the raw struct survives Marshal/Unmarshal, every kind
   survives toRawEnvelope/populate, kind discrimination picks the right kind,
   no panic after the repair, and decoded envelopes re-encode stably. *)
From Coq Require Import List Bool Ascii String ZArith Lia.
Import ListNotations.
From Lime Require Import Base.Str Base.Res Base.Json Codec.Types Codec.TextForms Codec.TextFormsFacts
  Codec.Doc Codec.DocFacts Codec.Envelope.
Open Scope string_scope.

Definition opt_all {A} (p : A -> bool) (o : option A) : bool :=
  match o with None => true | Some x => p x end.
Definition not_null (j : json) : bool := match j with JNull => false | _ => true end.
Definition wf_reason (r : reason) : bool := in_int64 (r_code r).
(* net/url: the text a parsed URI prints as parses to itself *)
Definition uri_fix (cx : ctx) (u : string) : bool :=
  match cx_uri cx u with Some u' => String.eqb u' u | None => false end.

Definition wf_raw (cx : ctx) (r : rawenv) : bool :=
  opt_all wf_node (rw_from r) && opt_all wf_node (rw_pp r) && opt_all wf_node (rw_to r) &&
  opt_all wf_reason (rw_reason r) && opt_all wf_mt (rw_type r) &&
  opt_all not_null (rw_content r) && opt_all not_null (rw_resource r) && opt_all not_null (rw_auth r) &&
  opt_all (uri_fix cx) (rw_uri r).

(* ---- field round trips ---- *)
Lemma f_string s : dec_string (enc_str_omit s) = Ok s.
Proof. unfold enc_str_omit. destruct (str_empty s) eqn:E; [apply str_empty_true in E; subst|]; reflexivity. Qed.
Lemma f_node o : opt_all wf_node o = true -> dec_node (option_map (fun n => JStr (node_str n)) o) = Ok o.
Proof. destruct o as [n|]; cbn; auto. intros H. unfold dec_node. cbn. rewrite parse_node_str by exact H. reflexivity. Qed.
Lemma f_meta_list m :
  map_res (fun kv : string * json => match dec_str_elem (snd kv) with Ok s => Ok (fst kv, s) | _ => Err end)
          (map (fun kv : string * string => (fst kv, JStr (snd kv))) m) = Ok m.
Proof. induction m as [|[k v] t IH]; cbn; auto. rewrite IH. reflexivity. Qed.
Lemma f_meta m : dec_meta (enc_meta m) = Ok m.
Proof. destruct m as [|kv t]; [reflexivity|]. unfold enc_meta, dec_meta. cbn [ptr]. apply f_meta_list. Qed.
Lemma f_reason o : opt_all wf_reason o = true -> dec_reason (option_map enc_reason o) = Ok o.
Proof.
  destruct o as [[c d]|]; cbn [opt_all option_map]; auto. unfold wf_reason; cbn [r_code]. intros H.
  unfold dec_reason, enc_reason. cbn [ptr r_code r_desc].
  destruct (c =? 0)%Z eqn:Ec; unfold enc_str_omit; destruct (str_empty d) eqn:Ed; cbn [members flat_map fst snd app];
    getc; try (apply Z.eqb_eq in Ec; subst c); try (apply str_empty_true in Ed; subst d);
    unfold dec_int, dec_string; cbn [ptr]; rewrite ?H; reflexivity.
Qed.
Lemma f_mt fx o : opt_all wf_mt o = true -> dec_mt fx (option_map (fun m => JStr (mt_str m)) o) = Ok o.
Proof. destruct o as [m|]; cbn [opt_all option_map]; auto. apply dec_mt_str. Qed.
Lemma f_raw o : opt_all not_null o = true -> dec_raw o = o.
Proof. destruct o as [[]|]; cbn; congruence. Qed.
Lemma f_enum v o : opt_valid v o = true -> dec_enum v (option_map JStr o) = Ok o.
Proof. destruct o as [s|]; cbn; auto. intros H. unfold dec_enum. cbn. rewrite H. reflexivity. Qed.
Lemma f_uri cx o : opt_all (uri_fix cx) o = true -> dec_uri cx (option_map JStr o) = Ok o.
Proof.
  destruct o as [s|]; cbn; auto. unfold uri_fix, dec_uri. cbn. destruct (cx_uri cx s); try discriminate.
  intros H. apply String.eqb_eq in H. subst. reflexivity.
Qed.
Lemma f_string_ptr o : dec_string_ptr (option_map JStr o) = Ok o.
Proof. destruct o; reflexivity. Qed.
Lemma f_strs_list l : map_res dec_str_elem (map JStr l) = Ok l.
Proof. induction l as [|x t IH]; cbn; auto. rewrite IH. reflexivity. Qed.
Lemma f_strs l : dec_strs (enc_strs_omit l) = Ok l.
Proof. destruct l as [|x t]; [reflexivity|]. unfold enc_strs_omit, dec_strs. cbn [ptr]. apply f_strs_list. Qed.

(* ---- looking a field up in the emitted object ---- *)
Lemma raw_keys_distinct r : keys_distinct (map fst (raw_fields r)) = true.
Proof. reflexivity. Qed.

Ltac getf := rewrite get_members by apply raw_keys_distinct; reflexivity.
Lemma g_id r : get "id" (members (raw_fields r)) = enc_str_omit (rw_id r). Proof. getf. Qed.
Lemma g_from r : get "from" (members (raw_fields r)) = option_map (fun n => JStr (node_str n)) (rw_from r). Proof. getf. Qed.
Lemma g_pp r : get "pp" (members (raw_fields r)) = option_map (fun n => JStr (node_str n)) (rw_pp r). Proof. getf. Qed.
Lemma g_to r : get "to" (members (raw_fields r)) = option_map (fun n => JStr (node_str n)) (rw_to r). Proof. getf. Qed.
Lemma g_meta r : get "metadata" (members (raw_fields r)) = enc_meta (rw_meta r). Proof. getf. Qed.
Lemma g_reason r : get "reason" (members (raw_fields r)) = option_map enc_reason (rw_reason r). Proof. getf. Qed.
Lemma g_type r : get "type" (members (raw_fields r)) = option_map (fun m => JStr (mt_str m)) (rw_type r). Proof. getf. Qed.
Lemma g_content r : get "content" (members (raw_fields r)) = rw_content r. Proof. getf. Qed.
Lemma g_event r : get "event" (members (raw_fields r)) = option_map JStr (rw_event r). Proof. getf. Qed.
Lemma g_method r : get "method" (members (raw_fields r)) = option_map JStr (rw_method r). Proof. getf. Qed.
Lemma g_resource r : get "resource" (members (raw_fields r)) = rw_resource r. Proof. getf. Qed.
Lemma g_uri r : get "uri" (members (raw_fields r)) = option_map JStr (rw_uri r). Proof. getf. Qed.
Lemma g_status r : get "status" (members (raw_fields r)) = option_map JStr (rw_status r). Proof. getf. Qed.
Lemma g_state r : get "state" (members (raw_fields r)) = option_map JStr (rw_state r). Proof. getf. Qed.
Lemma g_encopts r : get "encryptionOptions" (members (raw_fields r)) = enc_strs_omit (rw_encopts r). Proof. getf. Qed.
Lemma g_enc r : get "encryption" (members (raw_fields r)) = option_map JStr (rw_enc r). Proof. getf. Qed.
Lemma g_compopts r : get "compressionOptions" (members (raw_fields r)) = enc_strs_omit (rw_compopts r). Proof. getf. Qed.
Lemma g_comp r : get "compression" (members (raw_fields r)) = option_map JStr (rw_comp r). Proof. getf. Qed.
Lemma g_schemeopts r : get "schemeOptions" (members (raw_fields r)) = enc_strs_omit (rw_schemeopts r). Proof. getf. Qed.
Lemma g_scheme r : get "scheme" (members (raw_fields r)) = option_map JStr (rw_scheme r). Proof. getf. Qed.
Lemma g_auth r : get "authentication" (members (raw_fields r)) = rw_auth r. Proof. getf. Qed.

Ltac bools :=
  repeat match goal with
  | H : _ && _ = true |- _ => apply andb_prop in H; destruct H
  end.

(* D: Unmarshal(Marshal raw) = raw *)
Lemma raw_to_json_ok r j : raw_to_json r = Ok j ->
  j = JObj (members (raw_fields r)) /\ opt_valid valid_event (rw_event r) = true /\
  opt_valid valid_method (rw_method r) = true /\ opt_valid valid_state (rw_state r) = true.
Proof.
  unfold raw_to_json.
  destruct (opt_valid valid_event (rw_event r)); [|discriminate].
  destruct (opt_valid valid_method (rw_method r)); [|discriminate].
  destruct (opt_valid valid_state (rw_state r)); [|discriminate].
  cbn [andb]. intros H. split; [congruence|auto].
Qed.

Theorem raw_roundtrip cx r j :
  wf_raw cx r = true -> raw_to_json r = Ok j -> raw_of_json cx j = Ok r.
Proof.
  unfold wf_raw. intros Hwf Hj. apply raw_to_json_ok in Hj. destruct Hj as (-> & Hv1 & Hv2 & Hv3). bools.
  unfold raw_of_json. cbv beta zeta.
  rewrite g_id, g_from, g_pp, g_to, g_meta, g_reason, g_type, g_content, g_event, g_method, g_resource,
          g_uri, g_status, g_state, g_encopts, g_enc, g_compopts, g_comp, g_schemeopts, g_scheme, g_auth.
  rewrite f_string, !f_node, f_meta, f_reason, f_mt, !f_enum, f_uri, !f_string_ptr, !f_strs, !f_raw by assumption.
  destruct r; reflexivity.
Qed.

(* ---- well-formed envelopes ---- *)
Definition wf_base (e : envelope) : bool := wf_node (e_from e) && wf_node (e_pp e) && wf_node (e_to e).

Definition wf_command (c : command) : bool :=
  wf_base (c_env c) && valid_method (c_method c) &&
  match c_resource c, c_type c with
  | Some d, Some t => wf_mt t && factory_eqb (factory_of t) (doc_factory d) && wf_doc d
  | None, None => true
  | _, _ => false
  end.

Definition auth_matches (s : session) : bool :=
  match s_auth s with Some a => String.eqb (s_scheme s) (auth_scheme a) | None => true end.

(* round trip through the typed decoder of the envelope's own kind *)
Definition wf_env (cx : ctx) (e : env) : bool :=
  match e with
  | EMsg m => wf_base (m_env m) && wf_mt (m_type m) &&
              match m_content m with
              | Some d => factory_eqb (factory_of (m_type m)) (doc_factory d) && wf_doc d
              | None => false
              end
  | ENot n => wf_base (nt_env n) && valid_event (nt_event n) && opt_all wf_reason (nt_reason n)
  | EReq c => wf_command (rq_cmd c) && opt_all (uri_fix cx) (rq_uri c)
  | EResp c => wf_command (rs_cmd c) && opt_all wf_reason (rs_reason c)
  | ESes s => wf_base (s_env s) && valid_state (s_state s) && opt_all wf_reason (s_reason s) && auth_matches s
  end.

(* additionally recognisable by a transport (rawEnvelope.envelopeType) *)
Definition wf_any (cx : ctx) (e : env) : bool :=
  wf_env cx e &&
  match e with
  | EReq c => match rq_uri c with Some _ => true | None => false end
  | EResp c => negb (str_empty (rs_status c))
  | _ => true
  end.

Definition doc_depth_opt (o : option doc) : nat := match o with Some d => ddepth d | None => 0 end.
Definition edepth (e : env) : nat :=
  match e with
  | EMsg m => doc_depth_opt (m_content m)
  | EReq c => doc_depth_opt (c_resource (rq_cmd c))
  | EResp c => doc_depth_opt (c_resource (rs_cmd c))
  | _ => 0
  end.

Lemma node_opt_wf n : wf_node n = true -> opt_all wf_node (node_opt n) = true.
Proof. unfold node_opt. destruct (node_is_zero n); cbn; auto. Qed.

Lemma node_opt_get n : match node_opt n with Some x => x | None => node_zero end = n.
Proof. unfold node_opt. destruct (node_is_zero n) eqn:E; [apply node_is_zero_true in E; subst|]; reflexivity. Qed.

Lemma base_roundtrip e r :
  rw_id r = e_id e -> rw_from r = node_opt (e_from e) -> rw_pp r = node_opt (e_pp e) ->
  rw_to r = node_opt (e_to e) -> rw_meta r = e_meta e -> base_of_raw r = e.
Proof.
  intros H1 H2 H3 H4 H5. unfold base_of_raw. rewrite H1, H2, H3, H4, H5, !node_opt_get.
  destruct e; reflexivity.
Qed.

Lemma valid_event_nonempty s : valid_event s = true -> str_empty s = false.
Proof. destruct s; [discriminate|reflexivity]. Qed.
Lemma valid_method_nonempty s : valid_method s = true -> str_empty s = false.
Proof. destruct s; [discriminate|reflexivity]. Qed.
Lemma valid_state_nonempty s : valid_state s = true -> str_empty s = false.
Proof. destruct s; [discriminate|reflexivity]. Qed.

Lemma str_opt_event s : valid_event s = true -> str_opt s = Some s.
Proof. intros H. unfold str_opt. rewrite (valid_event_nonempty _ H). reflexivity. Qed.
Lemma str_opt_method s : valid_method s = true -> str_opt s = Some s.
Proof. intros H. unfold str_opt. rewrite (valid_method_nonempty _ H). reflexivity. Qed.
Lemma str_opt_state s : valid_state s = true -> str_opt s = Some s.
Proof. intros H. unfold str_opt. rewrite (valid_state_nonempty _ H). reflexivity. Qed.

Lemma str_opt_get s : match str_opt s with Some x => x | None => "" end = s.
Proof. unfold str_opt. destruct (str_empty s) eqn:E; [apply str_empty_true in E; subst|]; reflexivity. Qed.

Lemma not_null_doc d : not_null (doc_to_json d) = true.
Proof. destruct d; reflexivity. Qed.

(* to_raw of a well-formed envelope is a well-formed raw struct that Marshal accepts *)
Ltac hyp := repeat match goal with H : _ = true |- _ => rewrite H; clear H end.

Lemma to_raw_wf cx e : wf_env cx e = true ->
  exists r j, to_raw e = Ok r /\ wf_raw cx r = true /\ raw_to_json r = Ok j.
Proof.
  destruct e as [m|n|c|c|s]; cbn [wf_env]; intros H; bools.
  - destruct (m_content m) as [d|] eqn:Ec; [|discriminate]. bools.
    unfold wf_base in *. bools.
    eexists; eexists. split; [cbn; unfold msg_to_raw; rewrite Ec; reflexivity|]. split.
    + unfold wf_raw. cbn. rewrite !node_opt_wf by assumption. rewrite not_null_doc. hyp. reflexivity.
    + reflexivity.
  - unfold wf_base in *. bools.
    eexists; eexists. split; [reflexivity|]. split.
    + unfold wf_raw. cbn. rewrite !node_opt_wf by assumption. hyp. reflexivity.
    + unfold raw_to_json. cbn [not_to_raw rw_event rw_method rw_state opt_valid].
      rewrite str_opt_event by assumption. cbn [opt_valid]. hyp. reflexivity.
  - unfold wf_command, wf_base in *. bools.
    eexists; eexists. split; [reflexivity|]. split.
    + unfold wf_raw. cbn. rewrite !node_opt_wf by assumption.
      destruct (c_resource (rq_cmd c)) as [d|]; destruct (c_type (rq_cmd c)) as [t|]; try discriminate; cbn.
      * bools. rewrite not_null_doc. hyp. reflexivity.
      * hyp. reflexivity.
    + unfold raw_to_json. cbn [cmd_to_raw rw_event rw_method rw_state opt_valid].
      rewrite str_opt_method by assumption. cbn [opt_valid].
      match goal with H : valid_method _ = true |- _ => rewrite H end. reflexivity.
  - unfold wf_command, wf_base in *. bools.
    eexists; eexists. split; [reflexivity|]. split.
    + unfold wf_raw. cbn. rewrite !node_opt_wf by assumption.
      destruct (c_resource (rs_cmd c)) as [d|]; destruct (c_type (rs_cmd c)) as [t|]; try discriminate; cbn.
      * bools. rewrite not_null_doc. hyp. reflexivity.
      * hyp. reflexivity.
    + unfold raw_to_json. cbn [cmd_to_raw rw_event rw_method rw_state opt_valid].
      rewrite str_opt_method by assumption. cbn [opt_valid].
      match goal with H : valid_method _ = true |- _ => rewrite H end. reflexivity.
  - unfold wf_base in *. bools.
    eexists; eexists. split; [reflexivity|]. split.
    + unfold wf_raw. cbn. rewrite !node_opt_wf by assumption.
      match goal with H : opt_all wf_reason _ = true |- _ => rewrite H end.
      destruct (s_auth s) as [[]|]; reflexivity.
    + unfold raw_to_json. cbn [ses_to_raw rw_event rw_method rw_state opt_valid].
      rewrite str_opt_state by assumption. cbn [opt_valid].
      match goal with H : valid_state _ = true |- _ => rewrite H end. reflexivity.
Qed.

Lemma auth_roundtrip a : auth_of_json (auth_scheme a) (auth_to_json a) = Ok a.
Proof. destruct a; reflexivity. Qed.

(* E: populate (to_raw e) = e *)
Lemma cmd_of_raw_to_raw cx fuel c uri status rsn :
  wf_command c = true -> doc_depth_opt (c_resource c) <= fuel ->
  cmd_of_raw cx fuel (cmd_to_raw c uri status rsn) = Ok c.
Proof.
  unfold wf_command. intros H Hd. bools.
  unfold cmd_of_raw, cmd_to_raw. cbn [rw_resource rw_type rw_method].
  rewrite str_opt_method by assumption.
  destruct c as [ce cm ct cr]; cbn [c_env c_method c_type c_resource] in *.
  destruct cr as [d|]; destruct ct as [t|]; try discriminate; cbn [option_map].
  - bools. cbn [doc_depth_opt] in Hd.
    rewrite doc_roundtrip; auto; [|apply factory_eqb_eq; assumption].
    rewrite (base_roundtrip ce) by reflexivity. reflexivity.
  - rewrite (base_roundtrip ce) by reflexivity. reflexivity.
Qed.

Lemma status_roundtrip cx c st rsn :
  match str_opt st with
  | Some s => if fx_empty_status (cx_fix cx) && str_empty s then Err
              else Ok {| rs_cmd := c; rs_status := s; rs_reason := rsn |}
  | None => Ok {| rs_cmd := c; rs_status := ""; rs_reason := rsn |}
  end = Ok {| rs_cmd := c; rs_status := st; rs_reason := rsn |}.
Proof.
  unfold str_opt. destruct (str_empty st) eqn:Es; [apply str_empty_true in Es; subst; reflexivity|].
  rewrite Es, andb_false_r. reflexivity.
Qed.

Lemma populate_to_raw cx fuel e r :
  wf_env cx e = true -> edepth e <= fuel -> to_raw e = Ok r -> populate cx fuel (kind_of e) r = Ok e.
Proof.
  destruct e as [m|n|c|c|s]; cbn [wf_env edepth kind_of to_raw populate]; intros H Hd Hr; bools.
  - unfold msg_to_raw in Hr. destruct (m_content m) as [d|] eqn:Ec; [|discriminate]. bools.
    injection Hr as <-. unfold msg_of_raw. cbn [rw_type rw_content].
    cbn [doc_depth_opt] in Hd.
    rewrite doc_roundtrip; auto; [|apply factory_eqb_eq; assumption].
    rewrite (base_roundtrip (m_env m)) by reflexivity.
    destruct m; cbn in *; subst; reflexivity.
  - injection Hr as <-. unfold not_of_raw, not_to_raw. cbn [rw_event rw_reason].
    rewrite str_opt_event by assumption.
    rewrite (base_roundtrip (nt_env n)) by reflexivity. destruct n; reflexivity.
  - injection Hr as <-. unfold req_of_raw. rewrite cmd_of_raw_to_raw by assumption.
    destruct c; reflexivity.
  - injection Hr as <-. unfold resp_of_raw. rewrite cmd_of_raw_to_raw by assumption.
    cbn [cmd_to_raw rw_status rw_reason]. destruct c as [c st rsn]; cbn [rs_cmd rs_status rs_reason].
    rewrite status_roundtrip. reflexivity.
  - injection Hr as <-. unfold ses_of_raw, ses_to_raw.
    cbn [rw_auth rw_scheme rw_state rw_encopts rw_enc rw_compopts rw_comp rw_schemeopts rw_reason].
    rewrite !str_opt_get. rewrite (str_opt_state (s_state s)) by assumption.
    rewrite (base_roundtrip (s_env s)) by reflexivity.
    unfold auth_matches in *. destruct s as [se st eo en co cm so sc sa sr]; cbn in *.
    destruct sa as [a|]; cbn [option_map]; [|reflexivity].
    match goal with H : (sc =? auth_scheme a) = true |- _ => apply String.eqb_eq in H; subst sc end.
    unfold str_opt.
    assert (Hne : str_empty (auth_scheme a) = false) by (destruct a; reflexivity).
    rewrite Hne, auth_roundtrip. reflexivity.
Qed.

(* C01, typed decoders *)
Theorem roundtrip_typed cx fuel e :
  wf_env cx e = true -> edepth e <= fuel ->
  exists j, encode e = Ok j /\ decode_typed cx fuel (kind_of e) j = Ok e.
Proof.
  intros Hwf Hd. destruct (to_raw_wf cx e Hwf) as (r & j & Hr & Hwr & Hj).
  exists j. unfold encode, decode_typed. rewrite Hr. cbn [bind]. split; [exact Hj|].
  rewrite (raw_roundtrip cx r j Hwr Hj). cbn [bind]. apply populate_to_raw; auto.
Qed.

(* kind discrimination on what to_raw produces *)
Lemma envelope_type_to_raw cx e r :
  wf_any cx e = true -> to_raw e = Ok r -> envelope_type r = Some (kind_of e).
Proof.
  unfold wf_any. intros H Hr. bools.
  destruct e as [m|n|c|c|s]; cbn [wf_env] in *; bools; cbn [to_raw] in Hr.
  - unfold msg_to_raw in Hr. destruct (m_content m); [|discriminate]. injection Hr as <-. reflexivity.
  - injection Hr as <-. unfold envelope_type, not_to_raw. cbn.
    rewrite str_opt_event by assumption. reflexivity.
  - injection Hr as <-. unfold wf_command in *. bools. unfold envelope_type, cmd_to_raw. cbn.
    rewrite str_opt_method by assumption. destruct (rq_uri c); [reflexivity|discriminate].
  - injection Hr as <-. unfold wf_command in *. bools. unfold envelope_type, cmd_to_raw. cbn.
    rewrite str_opt_method by assumption. unfold str_opt.
    destruct (str_empty (rs_status c)); [discriminate|reflexivity].
  - injection Hr as <-. unfold envelope_type, ses_to_raw. cbn.
    rewrite str_opt_state by assumption. reflexivity.
Qed.

(* C01, transport receive path *)
Theorem roundtrip_any cx fuel e :
  wf_any cx e = true -> edepth e <= fuel ->
  exists j, encode e = Ok j /\ decode_any cx fuel j = Ok e.
Proof.
  intros Hwa Hd. assert (Hwf : wf_env cx e = true) by (unfold wf_any in Hwa; bools; assumption).
  destruct (to_raw_wf cx e Hwf) as (r & j & Hr & Hwr & Hj).
  exists j. unfold encode, decode_any. rewrite Hr. cbn [bind]. split; [exact Hj|].
  rewrite (raw_roundtrip cx r j Hwr Hj). cbn [bind].
  rewrite (envelope_type_to_raw cx e r Hwa Hr). apply populate_to_raw; auto.
Qed.
