(* String/Parse of Identity, Node and MediaType (identity.go, node.go, mediatype.go). *)
From Coq Require Import List Bool Ascii String ZArith.
Import ListNotations.
From Lime Require Import Base.Str Base.Res Codec.Types.
Open Scope string_scope.

Definition c_at : ascii := "@"%char.
Definition c_slash : ascii := "/"%char.
Definition c_plus : ascii := "+"%char.

(* Identity.String *)
Definition identity_str (name domain : string) : string :=
  if str_empty name && str_empty domain then ""
  else if str_empty domain then name
  else name ++ "@" ++ domain.

(* ParseIdentity: Split(s,"@"); name = v[0]; domain = v[1] if present *)
Definition parse_identity (s : string) : string * string :=
  let v := split_on c_at s in
  (nth_str v 0, nth_str v 1).

(* Node.String *)
Definition node_str (n : node) : string :=
  if node_is_zero n then ""
  else if str_empty (n_instance n) then identity_str (n_name n) (n_domain n)
  else identity_str (n_name n) (n_domain n) ++ "/" ++ n_instance n.

(* ParseNode: Split(s,"/"); instance = v[1] if present; identity = ParseIdentity(v[0]) *)
Definition parse_node (s : string) : node :=
  let v := split_on c_slash s in
  let inst := nth_str v 1 in
  let (nm, dm) := parse_identity (nth_str v 0) in
  {| n_name := nm; n_domain := dm; n_instance := inst |}.

(* MediaType.String *)
Definition mt_str (m : mediatype) : string :=
  if mt_is_zero m then ""
  else let v := mt_type m ++ "/" ++ mt_subtype m in
       if str_empty (mt_suffix m) then v else v ++ "+" ++ mt_suffix m.

(* ParseMediaType *)
Definition parse_mt (fx : fixes) (s : string) : option mediatype :=
  let v := split_on c_plus s in
  let suffix := nth_str v 1 in
  match split_on c_slash (nth_str v 0) with
  | t :: st :: _ =>
      let m := {| mt_type := t; mt_subtype := st; mt_suffix := suffix |} in
      if fx_zero_mt fx && mt_is_zero m then None else Some m
  | _ => None
  end.

(* well-formedness: the parts avoid the separators the grammar reserves *)
Definition wf_node (n : node) : bool :=
  negb (has_char c_at (n_name n)) && negb (has_char c_slash (n_name n)) &&
  negb (has_char c_at (n_domain n)) && negb (has_char c_slash (n_domain n)) &&
  negb (has_char c_slash (n_instance n)).
Definition wf_mt (m : mediatype) : bool :=
  negb (mt_is_zero m) &&
  negb (has_char c_slash (mt_type m)) && negb (has_char c_plus (mt_type m)) &&
  negb (has_char c_slash (mt_subtype m)) && negb (has_char c_plus (mt_subtype m)) &&
  negb (has_char c_plus (mt_suffix m)).

Global Arguments parse_node : simpl never.
Global Arguments node_str : simpl never.
Global Arguments parse_mt : simpl never.
Global Arguments mt_str : simpl never.
Global Arguments wf_node : simpl never.
Global Arguments wf_mt : simpl never.
