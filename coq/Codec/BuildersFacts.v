From Coq Require Import List Bool Ascii String ZArith Lia.
Import ListNotations.
From Lime Require Import Base.Str Base.Res Base.Json Codec.Types Codec.TextForms Codec.TextFormsFacts
  Codec.Doc Codec.DocFacts Codec.Envelope Codec.EnvelopeFacts Codec.Builders.
Open Scope string_scope.

(* the addressee the property demands: pp when present, otherwise from *)
Definition expected_sender (e : envelope) : node := if node_is_zero (e_pp e) then e_from e else e_pp e.

Lemma sender_repaired e : sender repaired e = expected_sender e.
Proof. reflexivity. Qed.

Lemma wf_node_zero : wf_node node_zero = true.
Proof. reflexivity. Qed.

Lemma reply_env_wf e : wf_base e = true -> wf_base (reply_env repaired e) = true.
Proof.
  unfold wf_base. intros H. bools. cbn. unfold expected_sender.
  rewrite wf_node_zero. destruct (node_is_zero (e_pp e)); hyp; reflexivity.
Qed.

Lemma doc_mediatype_wf d : wf_mt (doc_mediatype d) = true /\ factory_of (doc_mediatype d) = doc_factory d.
Proof. destruct d; split; reflexivity. Qed.

Definition wf_request (q : reqcmd) : bool := wf_base (c_env (rq_cmd q)) && valid_method (c_method (rq_cmd q)).

Theorem success_response_ok cx q :
  wf_request q = true ->
  let r := success_response repaired q in
  e_id (c_env (rs_cmd r)) = e_id (c_env (rq_cmd q)) /\ c_method (rs_cmd r) = c_method (rq_cmd q) /\
  e_from (c_env (rs_cmd r)) = e_to (c_env (rq_cmd q)) /\
  e_to (c_env (rs_cmd r)) = expected_sender (c_env (rq_cmd q)) /\
  rs_status r = "success" /\ wf_any cx (EResp r) = true.
Proof.
  unfold wf_request. intros H. bools. cbn. repeat split; auto.
  unfold wf_any, wf_env, wf_command. cbn. rewrite reply_env_wf by assumption. hyp. reflexivity.
Qed.

Theorem success_response_with_ok cx q d :
  wf_request q = true -> wf_doc d = true ->
  let r := success_response_with repaired q d in
  e_id (c_env (rs_cmd r)) = e_id (c_env (rq_cmd q)) /\ c_method (rs_cmd r) = c_method (rq_cmd q) /\
  e_from (c_env (rs_cmd r)) = e_to (c_env (rq_cmd q)) /\
  e_to (c_env (rs_cmd r)) = expected_sender (c_env (rq_cmd q)) /\
  rs_status r = "success" /\ c_resource (rs_cmd r) = Some d /\ c_type (rs_cmd r) = Some (doc_mediatype d) /\
  wf_any cx (EResp r) = true.
Proof.
  unfold wf_request. intros H Hd. bools. cbn. repeat split; auto.
  unfold wf_any, wf_env, wf_command. cbn. rewrite reply_env_wf by assumption.
  destruct (doc_mediatype_wf d) as [Hm Hf]. rewrite Hm, Hf, Hd. hyp. destruct (doc_factory d); reflexivity.
Qed.

Theorem failure_response_ok cx q rsn :
  wf_request q = true -> opt_all wf_reason rsn = true ->
  let r := failure_response repaired q rsn in
  e_id (c_env (rs_cmd r)) = e_id (c_env (rq_cmd q)) /\ c_method (rs_cmd r) = c_method (rq_cmd q) /\
  e_from (c_env (rs_cmd r)) = e_to (c_env (rq_cmd q)) /\
  e_to (c_env (rs_cmd r)) = expected_sender (c_env (rq_cmd q)) /\
  rs_status r = "failure" /\ rs_reason r = rsn /\ wf_any cx (EResp r) = true.
Proof.
  unfold wf_request. intros H Hr. bools. cbn. repeat split; auto.
  unfold wf_any, wf_env, wf_command. cbn. rewrite reply_env_wf by assumption. hyp. reflexivity.
Qed.

Theorem notification_ok cx m ev :
  wf_base (m_env m) = true -> valid_event ev = true ->
  let n := notification_for repaired m ev in
  e_id (nt_env n) = e_id (m_env m) /\ nt_event n = ev /\ e_from (nt_env n) = e_to (m_env m) /\
  e_to (nt_env n) = expected_sender (m_env m) /\ wf_any cx (ENot n) = true.
Proof.
  intros H Hev. cbn. repeat split; auto.
  unfold wf_any, wf_env. cbn. rewrite reply_env_wf by assumption. hyp. reflexivity.
Qed.

Theorem failed_notification_ok cx m rsn :
  wf_base (m_env m) = true -> opt_all wf_reason rsn = true ->
  let n := failed_notification_for repaired m rsn in
  e_id (nt_env n) = e_id (m_env m) /\ nt_event n = "failed" /\ nt_reason n = rsn /\
  e_from (nt_env n) = e_to (m_env m) /\ e_to (nt_env n) = expected_sender (m_env m) /\
  wf_any cx (ENot n) = true.
Proof.
  intros H Hr. cbn. repeat split; auto.
  unfold wf_any, wf_env. cbn. rewrite reply_env_wf by assumption. hyp. reflexivity.
Qed.

(* hence every built reply survives the wire (by the C01 theorem) *)
Corollary built_reply_roundtrips cx e :
  wf_any cx e = true -> exists j, encode e = Ok j /\ decode_any cx (S (edepth e)) j = Ok e.
Proof. intros H. apply roundtrip_any; auto. Qed.

(* as found *)
Example sender_inverted_as_found :
  let e := {| e_id := "1"; e_from := {| n_name := "a"; n_domain := "d"; n_instance := "" |};
              e_pp := node_zero; e_to := node_zero; e_meta := [] |} in
  sender as_found e = node_zero /\ expected_sender e = e_from e.
Proof. split; reflexivity. Qed.

Example ping_reply_undecodable_as_found :
  let q := {| rq_cmd := {| c_env := {| e_id := "1"; e_from := node_zero; e_pp := node_zero; e_to := node_zero; e_meta := [] |};
                           c_method := "get"; c_type := None; c_resource := None |}; rq_uri := Some "/ping" |} in
  exists j, encode (EResp (ping_reply as_found q)) = Ok j /\
            decode_any {| cx_fix := as_found; cx_uri := fun s => Some s |} 4 j = Err.
Proof. eexists. split; reflexivity. Qed.
