(* Documents: round trip, absence of panics after the repair, and
   well-formedness of everything the decoder returns. *)
From Coq Require Import List Bool Ascii String ZArith Lia.
Import ListNotations.
From Lime Require Import Base.Str Base.Res Base.Json Codec.Types Codec.TextForms Codec.TextFormsFacts Codec.Doc.
Open Scope string_scope.

(* induction principle for the nested type *)
Section doc_ind_nested.
  Variable P : doc -> Prop.
  Hypothesis Htext : forall s, P (DText s).
  Hypothesis Hjson : forall kvs, P (DJson kvs).
  Hypothesis Hcont : forall t v, P v -> P (DContainer t v).
  Hypothesis Hcoll_none : forall total t, P (DCollection total t None).
  Hypothesis Hcoll : forall total t l, Forall P l -> P (DCollection total t (Some l)).
  Hypothesis Hping : P DPing.
  Fixpoint doc_ind' (d : doc) : P d :=
    match d with
    | DText s => Htext s
    | DJson kvs => Hjson kvs
    | DContainer t v => Hcont t v (doc_ind' v)
    | DCollection total t None => Hcoll_none total t
    | DCollection total t (Some l) =>
        Hcoll total t l ((fix go (l : list doc) : Forall P l :=
                            match l with
                            | [] => Forall_nil P
                            | x :: t => Forall_cons x (doc_ind' x) (go t)
                            end) l)
    | DPing => Hping
    end.
End doc_ind_nested.

Lemma get_cons_eq k k' v t : fold_eqb k' k = true -> get k ((k', v) :: t) = Some v.
Proof. intros H. unfold get. cbn. rewrite H. reflexivity. Qed.
Lemma get_cons_ne k k' v t : fold_eqb k' k = false -> get k ((k', v) :: t) = get k t.
Proof. intros H. unfold get. cbn. rewrite H. reflexivity. Qed.
Lemma get_nil k : get k [] = None.
Proof. reflexivity. Qed.

Ltac getc := repeat first [ rewrite get_cons_eq by reflexivity
                          | rewrite get_cons_ne by reflexivity
                          | rewrite get_nil ].

Lemma factory_eqb_eq a b : factory_eqb a b = true -> a = b.
Proof. destruct a, b; cbn; congruence. Qed.

Lemma doc_to_json_not_null d : doc_to_json d <> JNull.
Proof. destruct d; cbn; discriminate. Qed.

Lemma ptr_some_doc d : ptr (Some (doc_to_json d)) = Some (doc_to_json d).
Proof. destruct d; reflexivity. Qed.

Lemma dec_mt_str fx t : wf_mt t = true -> dec_mt fx (Some (JStr (mt_str t))) = Ok (Some t).
Proof. intros H. unfold dec_mt. cbn. rewrite parse_mt_str by exact H. reflexivity. Qed.

Lemma map_res_roundtrip fx f it (l : list doc) :
  Forall (fun x => wf_doc x = true -> ddepth x <= f -> forall t, factory_of t = doc_factory x ->
                   doc_of_json fx f t (Some (doc_to_json x)) = Ok x) l ->
  forallb (fun x => factory_eqb (factory_of it) (doc_factory x) && wf_doc x) l = true ->
  fold_right (fun x acc => Nat.max (ddepth x) acc) 0 l <= f ->
  map_res (doc_of_json fx f it) (map ptr_of (map doc_to_json l)) = Ok l.
Proof.
  induction 1 as [|x l Hx Hl IH]; cbn [map map_res fold_right forallb]; auto.
  intros Hwf Hd. apply andb_prop in Hwf. destruct Hwf as [Hx' Hwf]. apply andb_prop in Hx'. destruct Hx' as [Hf Hw].
  unfold ptr_of at 1. rewrite ptr_some_doc. rewrite Hx; auto; [|lia|apply factory_eqb_eq; exact Hf].
  rewrite IH; auto. lia.
Qed.

(* A: Parse(Marshal d) = d for every well-formed document at any depth *)
Theorem doc_roundtrip fx d : forall fuel t,
  wf_doc d = true -> ddepth d <= fuel -> factory_of t = doc_factory d ->
  doc_of_json fx fuel t (Some (doc_to_json d)) = Ok d.
Proof.
  induction d as [s|kvs|ct v IH|total it|total it l IH|] using doc_ind';
    intros fuel t Hwf Hd Hf; (destruct fuel as [|f]; [cbn in Hd; lia|]); cbn [doc_of_json doc_to_json];
    rewrite Hf; cbn [doc_factory].
  - reflexivity.
  - reflexivity.
  - cbn [wf_doc] in Hwf. apply andb_prop in Hwf. destruct Hwf as [Hwf Hwv]. apply andb_prop in Hwf. destruct Hwf as [Hmt Hfc].
    getc. rewrite dec_mt_str by exact Hmt. unfold dec_raw. rewrite ptr_some_doc.
    rewrite IH; auto; [cbn in Hd; lia | apply factory_eqb_eq; exact Hfc].
  - cbn [wf_doc] in Hwf. apply andb_prop in Hwf. destruct Hwf as [Hwf _]. apply andb_prop in Hwf. destruct Hwf as [Hmt Hz].
    destruct (total =? 0)%Z eqn:E; cbn [app]; getc; rewrite dec_mt_str by exact Hmt.
    + apply Z.eqb_eq in E. subst. reflexivity.
    + unfold dec_int. cbn [ptr]. rewrite Hz. reflexivity.
  - cbn [wf_doc] in Hwf. apply andb_prop in Hwf. destruct Hwf as [Hwf Hitems]. apply andb_prop in Hwf. destruct Hwf as [Hmt Hz].
    cbn [ddepth] in Hd.
    assert (Hm : map_res (doc_of_json fx f it) (map ptr_of (map doc_to_json l)) = Ok l).
    { apply map_res_roundtrip; auto; [|lia].
      eapply Forall_impl; [|exact IH]. intros x Hx Hw Hdx t0 Ht0. apply Hx; auto. }
    destruct (total =? 0)%Z eqn:E; cbn [app]; getc; rewrite dec_mt_str by exact Hmt.
    + apply Z.eqb_eq in E. subst. cbn [dec_int ptr dec_raw_list]. rewrite Hm. reflexivity.
    + unfold dec_int. cbn [ptr dec_raw_list]. rewrite Hz, Hm. reflexivity.
  - reflexivity.
Qed.

(* B: after the repair no input makes document decoding panic *)
Lemma map_res_no_panic {A B} (f : A -> res B) l :
  (forall x, f x <> Panic) -> map_res f l <> Panic.
Proof.
  intros H. induction l as [|x t IH]; cbn; [discriminate|].
  destruct (f x) eqn:E; try discriminate; [|exfalso; eapply H; eauto].
  destruct (map_res f t); try discriminate. congruence.
Qed.

Theorem doc_no_panic fuel : forall t raw, doc_of_json repaired fuel t raw <> Panic.
Proof.
  induction fuel as [|f IH]; intros t raw; cbn [doc_of_json]; [discriminate|].
  destruct raw as [j|]; [|cbn; discriminate].
  destruct (factory_of t).
  - destruct j; discriminate.
  - destruct j; discriminate.
  - destruct j; try discriminate.
    destruct (dec_mt repaired (get "type" kvs)) as [[ct|]| |] eqn:E; try discriminate.
    + specialize (IH ct (dec_raw (get "value" kvs))).
      destruct (doc_of_json repaired f ct (dec_raw (get "value" kvs))); try discriminate. congruence.
    + unfold dec_mt in E. destruct (ptr (get "type" kvs)) as [[]|]; try discriminate.
      destruct (parse_mt repaired s); discriminate.
  - destruct j; try discriminate.
    destruct (dec_int (get "total" kvs)); try discriminate.
    destruct (dec_mt repaired (get "itemType" kvs)) as [[it|]| |]; try discriminate;
    destruct (dec_raw_list (get "items" kvs)) as [[raws|]| |]; try discriminate.
    pose proof (map_res_no_panic (doc_of_json repaired f it) raws (IH it)) as Hm.
    destruct (map_res (doc_of_json repaired f it) raws); try discriminate. congruence.
  - destruct j; discriminate.
Qed.

(* as found: a container without a value panics *)
Example doc_panics_as_found :
  doc_of_json as_found 5 mt_container (Some (JObj [("type", JStr "text/plain")])) = Panic /\
  doc_of_json as_found 5 mt_container (Some (JObj [("type", JStr "text/plain"); ("value", JNull)])) = Panic /\
  doc_of_json as_found 5 mt_collection (Some (JObj [("itemType", JStr "text/plain"); ("items", JArr [JNull])])) = Panic.
Proof. repeat split; reflexivity. Qed.

(* C: whatever the repaired decoder returns is well-formed, has the factory
   its media type selects, and fits in the fuel *)
Lemma map_res_ok_forall {A B} (f : A -> res B) (P : B -> Prop) l ys :
  (forall x y, f x = Ok y -> P y) -> map_res f l = Ok ys -> Forall P ys.
Proof.
  intros H. revert ys. induction l as [|x t IH]; cbn; intros ys E.
  - inversion E. constructor.
  - destruct (f x) eqn:Ex; try discriminate. destruct (map_res f t) eqn:Et; try discriminate.
    inversion E; subst. constructor; eauto.
Qed.

Lemma dec_int_ok o z : dec_int o = Ok z -> in_int64 z = true.
Proof.
  unfold dec_int. destruct (ptr o) as [j|]; [|intros H; inversion H; reflexivity].
  destruct j; try discriminate. destruct (in_int64 z0) eqn:Ez; try discriminate.
  intros H; inversion H; subst. exact Ez.
Qed.

Lemma dec_mt_ok o t : dec_mt repaired o = Ok (Some t) -> wf_mt t = true.
Proof.
  unfold dec_mt. destruct (ptr o) as [j|]; try discriminate.
  destruct j; try discriminate. destruct (parse_mt repaired s) eqn:Ep; try discriminate.
  intros H; inversion H; subst. eapply parse_mt_wf; eauto.
Qed.

Theorem doc_decoded_wf fuel : forall t raw d,
  doc_of_json repaired fuel t raw = Ok d ->
  wf_doc d = true /\ factory_of t = doc_factory d /\ ddepth d <= fuel.
Proof.
  induction fuel as [|f IH]; intros t raw d; cbn [doc_of_json]; [discriminate|].
  destruct raw as [j|]; [|cbn; discriminate].
  destruct (factory_of t) eqn:Ef.
  - destruct j; try discriminate. intros H; inversion H; subst. cbn. repeat split; auto; lia.
  - destruct j; try discriminate. intros H; inversion H; subst. cbn. repeat split; auto; lia.
  - destruct j; try discriminate.
    destruct (dec_mt repaired (get "type" kvs)) as [[ct|]| |] eqn:E; try discriminate.
    destruct (doc_of_json repaired f ct (dec_raw (get "value" kvs))) eqn:Ev; try discriminate.
    intros H; inversion H; subst. apply IH in Ev. destruct Ev as (Hw & Hfa & Hd).
    apply dec_mt_ok in E. cbn. rewrite E, Hw, Hfa.
    destruct (doc_factory a); cbn; repeat split; auto; lia.
  - destruct j; try discriminate.
    destruct (dec_int (get "total" kvs)) as [total| |] eqn:Et; try discriminate.
    destruct (dec_mt repaired (get "itemType" kvs)) as [[it|]| |] eqn:E; try discriminate;
    destruct (dec_raw_list (get "items" kvs)) as [[raws|]| |]; try discriminate.
    + destruct (map_res (doc_of_json repaired f it) raws) as [ds| |] eqn:Em; try discriminate.
      intros H; inversion H; subst.
      assert (Hmt : wf_mt it = true).
      { eapply dec_mt_ok; eauto. }
      assert (Hz : in_int64 total = true).
      { eapply dec_int_ok; eauto. }
      pose proof (map_res_ok_forall _ (fun y => wf_doc y = true /\ factory_of it = doc_factory y /\ ddepth y <= f)
                    raws ds (fun x y Hxy => IH it x y Hxy) Em) as Hall.
      cbn [wf_doc ddepth doc_factory]. rewrite Hmt, Hz. cbn [andb].
      split; [|split; [reflexivity|]].
      * apply forallb_forall. intros x Hx. rewrite Forall_forall in Hall. destruct (Hall x Hx) as (Hw & Hfa & _).
        rewrite Hw, Hfa. destruct (doc_factory x); reflexivity.
      * apply le_n_S. clear -Hall. induction Hall as [|y ys (_ & _ & Hy) _ IHl]; cbn; lia.
    + intros H; inversion H; subst.
      assert (Hmt : wf_mt it = true).
      { eapply dec_mt_ok; eauto. }
      assert (Hz : in_int64 total = true).
      { eapply dec_int_ok; eauto. }
      cbn [wf_doc ddepth doc_factory]. rewrite Hmt, Hz. repeat split; auto; lia.
  - destruct j; try discriminate. intros H; inversion H; subst. cbn. repeat split; auto; lia.
Qed.

(* more fuel does not change a successful result *)
Lemma doc_roundtrip_decoded fuel t raw d :
  doc_of_json repaired fuel t raw = Ok d ->
  doc_of_json repaired fuel t (Some (doc_to_json d)) = Ok d.
Proof.
  intros H. apply doc_decoded_wf in H. destruct H as (Hw & Hf & Hd).
  apply doc_roundtrip; auto.
Qed.
