(* Reply builders (envelope.go Sender, command.go SuccessResponse,
   SuccessResponseWithResource, FailureResponse, message.go Notification,
   FailedNotification) and the ping auto-reply handler body (server.go,
   client.go AutoReplyPings). *)
From Coq Require Import List Bool Ascii String ZArith.
Import ListNotations.
From Lime Require Import Base.Str Base.Res Base.Json Codec.Types.
Open Scope string_scope.

(* Envelope.Sender *)
Definition sender (fx : fixes) (e : envelope) : node :=
  if fx_sender fx then (if node_is_zero (e_pp e) then e_from e else e_pp e)
  else (if node_is_zero (e_pp e) then e_pp e else e_from e).

Definition reply_env (fx : fixes) (e : envelope) : envelope :=
  {| e_id := e_id e; e_from := e_to e; e_pp := node_zero; e_to := sender fx e; e_meta := [] |}.

Definition success_response (fx : fixes) (q : reqcmd) : respcmd :=
  {| rs_cmd := {| c_env := reply_env fx (c_env (rq_cmd q)); c_method := c_method (rq_cmd q);
                  c_type := None; c_resource := None |};
     rs_status := "success"; rs_reason := None |}.

Definition success_response_with (fx : fixes) (q : reqcmd) (d : doc) : respcmd :=
  {| rs_cmd := {| c_env := reply_env fx (c_env (rq_cmd q)); c_method := c_method (rq_cmd q);
                  c_type := if fx_resp_type fx then Some (doc_mediatype d) else None;
                  c_resource := Some d |};
     rs_status := "success"; rs_reason := None |}.

Definition failure_response (fx : fixes) (q : reqcmd) (r : option reason) : respcmd :=
  {| rs_cmd := {| c_env := reply_env fx (c_env (rq_cmd q)); c_method := c_method (rq_cmd q);
                  c_type := None; c_resource := None |};
     rs_status := "failure"; rs_reason := r |}.

Definition notification_for (fx : fixes) (m : message) (event : string) : notification :=
  {| nt_env := reply_env fx (m_env m); nt_event := event; nt_reason := None |}.
Definition failed_notification_for (fx : fixes) (m : message) (r : option reason) : notification :=
  {| nt_env := reply_env fx (m_env m); nt_event := "failed"; nt_reason := r |}.

(* AutoReplyPings: the handler answers with SuccessResponseWithResource(&Ping{}) *)
Definition ping_reply (fx : fixes) (q : reqcmd) : respcmd := success_response_with fx q DPing.
